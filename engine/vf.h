// vf.h - bounded exhaustive exploration engine shared by all checks (header only).
//
// A check binary is a sequence of *sections*. A section is a finite space of cases that is
// enumerated completely (never sampled), sharded over forked workers:
//   section_index(name, N, fn)   cases 0..N-1 (mixed-radix encodings of operand tuples etc.)
//   section_dfs(name, D, fn)     all choice vectors of a scenario that asks ch.choose(n); stateless
//                                depth-first enumeration by re-execution (prefix replay, default 0),
//                                optional state-key pruning, sharded on the first D choices.
// A worker publishes the case it is executing in shared memory before it starts it; if it dies
// (sanitizer abort, signal) or hangs, the parent attributes the failure to exactly that case,
// extracts the failure mode from the worker's stderr, and restarts the shard behind it.
// Every failure carries a narrow signature (sig) and a case id "section:case" that
// `--replay section:case` re-executes alone, in-process, without the explorer.
//
// Output protocol (file given by --out, one record per line, tab separated):
//   STAT <name> <value> | OUTCOME <section> <text> | SAMPLE <section> <text> |
//   FAIL <section:case> <sig> <detail> | INFO <key> <text> | INCOMPLETE <section> <why> |
//   REQUIRE <section> <min distinct outcomes> | SECTION <name> <cases> <wall_s>
#pragma once
#include <cstdio>
#include <cstdlib>
#include <cstring>
#include <cstdarg>
#include <cerrno>
#include <string>
#include <vector>
#include <map>
#include <set>
#include <unordered_set>
#include <unordered_map>
#include <functional>
#include <algorithm>
#include <unistd.h>
#include <fcntl.h>
#include <signal.h>
#include <time.h>
#include <sys/mman.h>
#include <sys/wait.h>
#include <sys/stat.h>

namespace vf {

struct Options {
    std::string id;
    std::string tier = "quick";
    int workers = 16;
    double deadline_s = 1e9;
    std::string replay;          // "section:case"
    std::string out;
    std::string only;            // run only this section (debugging)
    long seed = 0;
    double hang_s = 30;
    bool verbose = false;
};
inline Options opt;

inline double now_s() {
    struct timespec ts; clock_gettime(CLOCK_MONOTONIC, &ts);
    return (double)ts.tv_sec + 1e-9 * (double)ts.tv_nsec;
}
inline double g_start;
inline double time_left() { return opt.deadline_s - (now_s() - g_start); }
inline bool thorough() { return opt.tier == "thorough"; }

// ---------------------------------------------------------------- shared memory per worker
struct Counter { char name[40]; long v; };
struct WorkerShm {
    volatile long cur_index;          // section_index: case being executed
    volatile int cur_len;             // section_dfs: prefix being executed
    volatile unsigned char cur_vec[256];
    volatile unsigned char cur_ns[256];
    volatile double progress_ts;
    volatile int done;
    volatile int incomplete;
    char ctx[96];
    int ncounters;
    Counter counters[96];
};
inline WorkerShm* g_shm = nullptr;      // array [workers]
inline int g_me = -1;                   // worker index, -1 in parent / replay
inline int g_fd = -1;                   // record file of this process
inline bool g_recording = true;
inline bool g_replaying = false;
inline std::string g_section;
inline std::string g_case;              // current case id (text)
inline std::function<std::string()> g_case_fn;
inline std::unordered_set<std::string> g_outcomes;
inline int g_samples_left = 0;
inline long g_fail_lines = 0;
inline std::map<std::string, long> g_local_counters;   // parent/replay mode
inline int g_replay_fails = 0;
inline int g_case_failed = 0;

inline std::string sanitize(std::string s) {
    for (auto& c : s) if (c == '\t' || c == '\n' || c == '\r') c = ' ';
    return s;
}
inline std::string esc(const std::string& s) {        // printable rendering of byte strings
    std::string o;
    char b[8];
    for (unsigned char c : s) {
        if (c == '\\') o += "\\\\";
        else if (c >= 0x20 && c < 0x7f) o += (char)c;
        else { snprintf(b, sizeof b, "\\x%02x", c); o += b; }
    }
    return o;
}
inline std::string fmt(const char* f, ...) {
    char buf[2048];
    va_list ap; va_start(ap, f); vsnprintf(buf, sizeof buf, f, ap); va_end(ap);
    return buf;
}
inline void emit(const std::string& line) {
    if (g_fd < 0) return;
    std::string l = line + "\n";
    ssize_t r = write(g_fd, l.data(), l.size()); (void)r;
}
inline std::string case_id() {
    if (g_case_fn) return g_case_fn();
    return g_case;
}

inline void ctx(const char* op) {
    if (g_me >= 0) { strncpy(g_shm[g_me].ctx, op, sizeof(g_shm[g_me].ctx) - 1); }
}
inline void count(const char* name, long n = 1) {
    if (!g_recording) return;
    if (g_me < 0) { g_local_counters[name] += n; return; }
    WorkerShm& s = g_shm[g_me];
    for (int i = 0; i < s.ncounters; i++)
        if (strcmp(s.counters[i].name, name) == 0) { s.counters[i].v += n; return; }
    if (s.ncounters < 96) {
        strncpy(s.counters[s.ncounters].name, name, 39);
        s.counters[s.ncounters].v = n;
        s.ncounters++;
    }
}
inline void fail(const std::string& sig, const std::string& detail) {
    if (!g_recording) return;
    g_case_failed++;
    if (g_replaying) {
        g_replay_fails++;
        printf("FAIL\t%s:%s\t%s\t%s\n", g_section.c_str(), case_id().c_str(), sanitize(sig).c_str(), sanitize(detail).c_str());
        fflush(stdout);
        return;
    }
    count("fail_events");
    if (g_fail_lines++ > 20000) return;     // per worker cap on lines (counts continue)
    emit("FAIL\t" + g_section + ":" + case_id() + "\t" + sanitize(sig) + "\t" + sanitize(detail));
}
inline void outcome(const std::string& s) {
    if (!g_recording || g_replaying) return;
    if (g_outcomes.size() >= 20000) return;
    if (g_outcomes.insert(s).second) emit("OUTCOME\t" + g_section + "\t" + sanitize(s));
}
inline void sample(const std::string& s) {
    if (!g_recording) return;
    if (g_replaying) { printf("CASE\t%s\n", sanitize(s).c_str()); return; }
    if (g_samples_left > 0) { g_samples_left--; emit("SAMPLE\t" + g_section + "\t" + sanitize(s)); }
}
inline bool want_sample() { return g_recording && (g_replaying || g_samples_left > 0); }
inline void info(const std::string& k, const std::string& v) { if (g_me < 0 && !g_replaying) emit("INFO\t" + k + "\t" + sanitize(v)); }
inline void require_outcomes(const std::string& section, int n) { if (g_me < 0 && !g_replaying) emit(fmt("REQUIRE\t%s\t%d", section.c_str(), n)); }

[[noreturn]] inline void harness_error(const std::string& msg) {
    fprintf(stderr, "HARNESS-ERROR: %s (section %s case %s)\n", msg.c_str(), g_section.c_str(), case_id().c_str());
    if (g_fd >= 0) emit("HARNESSERROR\t" + sanitize(msg));
    _exit(2);
}

// The current case left the process in a state that cannot be continued (deadlocked threads, ...).
// Its failure must already have been recorded with fail(); the pool restarts the shard behind it.
[[noreturn]] inline void abandon_case() {
    fflush(stdout);
    if (g_replaying) _exit(41);
    if (g_recording && g_case_failed == 0) harness_error("abandon_case() without a recorded failure");
    _exit(42);
}

// ---------------------------------------------------------------- init / finish
inline void init(int argc, char** argv, const char* id) {
    g_start = now_s();
    opt.id = id;
    long ncpu = sysconf(_SC_NPROCESSORS_ONLN);
    opt.workers = (int)(ncpu > 0 ? (ncpu > 64 ? 64 : ncpu) : 4);
    for (int i = 1; i < argc; i++) {
        std::string a = argv[i];
        auto val = [&]() -> std::string { if (i + 1 >= argc) { fprintf(stderr, "missing value for %s\n", a.c_str()); exit(2); } return argv[++i]; };
        if (a == "--tier") opt.tier = val();
        else if (a == "--workers") opt.workers = atoi(val().c_str());
        else if (a == "--deadline") opt.deadline_s = atof(val().c_str());
        else if (a == "--replay") opt.replay = val();
        else if (a == "--out") opt.out = val();
        else if (a == "--only") opt.only = val();
        else if (a == "--seed") opt.seed = atol(val().c_str());
        else if (a == "--hang") opt.hang_s = atof(val().c_str());
        else if (a == "-v") opt.verbose = true;
        else { fprintf(stderr, "unknown option %s\n", a.c_str()); exit(2); }
    }
    if (opt.workers < 1) opt.workers = 1;
    if (opt.workers > 64) opt.workers = 64;
    if (!opt.replay.empty()) { g_replaying = true; return; }
    if (opt.out.empty()) opt.out = "/dev/stdout";
    g_fd = open(opt.out.c_str(), O_WRONLY | O_CREAT | O_TRUNC | O_APPEND, 0644);
    if (g_fd < 0) { perror("open --out"); exit(2); }
    g_shm = (WorkerShm*)mmap(nullptr, sizeof(WorkerShm) * 64, PROT_READ | PROT_WRITE, MAP_SHARED | MAP_ANONYMOUS, -1, 0);
    if (g_shm == MAP_FAILED) { perror("mmap"); exit(2); }
}

inline int finish() {
    if (g_replaying) {
        printf("REPLAY-RESULT\t%s\n", g_replay_fails ? "FAIL" : "PASS");
        return g_replay_fails ? 1 : 0;
    }
    for (auto& kv : g_local_counters) emit(fmt("STAT\t%s\t%ld", kv.first.c_str(), kv.second));
    emit(fmt("STAT\twall_s_x1000\t%ld", (long)((now_s() - g_start) * 1000)));
    emit("END");
    return 0;
}

// ---------------------------------------------------------------- crash attribution
inline std::string read_file(const std::string& p, size_t max = 1 << 20) {
    std::string s; FILE* f = fopen(p.c_str(), "r"); if (!f) return s;
    char b[4096]; size_t n;
    while ((n = fread(b, 1, sizeof b, f)) > 0 && s.size() < max) s.append(b, n);
    fclose(f); return s;
}
// failure mode from sanitizer text: "<kind>@<first frame inside the library>"
inline std::string classify_stderr(const std::string& err) {
    std::string kind;
    size_t p;
    if ((p = err.find("ERROR: AddressSanitizer: ")) != std::string::npos) {
        size_t q = p + strlen("ERROR: AddressSanitizer: ");
        size_t e = err.find_first_of(" \n", q);
        kind = "asan:" + err.substr(q, e - q);
        if (kind == "asan:SEGV" || kind == "asan:attempting" || kind == "asan:requested") {
            size_t e2 = err.find('\n', q); std::string l = err.substr(q, e2 - q);
            if (l.find("allocation-size-too-big") != std::string::npos) kind = "asan:allocation-size-too-big";
            else if (l.find("SEGV") != std::string::npos) kind = "asan:SEGV";
            else if (l.find("double-free") != std::string::npos) kind = "asan:double-free";
        }
    } else if ((p = err.find("runtime error: ")) != std::string::npos) {
        size_t q = p + strlen("runtime error: ");
        size_t e = err.find('\n', q);
        std::string l = err.substr(q, e - q);
        // strip numbers to keep the signature input independent
        std::string o; for (char c : l) { if (!(c >= '0' && c <= '9') && c != '-') o += c; }
        while (o.find("  ") != std::string::npos) o.erase(o.find("  "), 1);
        if (o.size() > 60) o.resize(60);
        for (char& c : o) if (c == ' ' || c == '\'' || c == '"') c = '_';     // signatures never contain blanks
        kind = "ubsan:" + o;
    } else if (err.find("ThreadSanitizer") != std::string::npos) {
        kind = "tsan";
    }
    // first frame that lies in the library sources
    std::string func;
    size_t pos = p == std::string::npos ? 0 : p;
    while ((pos = err.find("\n    #", pos)) != std::string::npos) {
        size_t e = err.find('\n', pos + 1);
        std::string l = err.substr(pos + 1, e - pos - 1);
        pos = pos + 1;
        if (l.find("/src/CppUTest") == std::string::npos && l.find("/src/Platforms") == std::string::npos && l.find("/include/CppUTest") == std::string::npos) continue;
        size_t in = l.find(" in ");
        if (in == std::string::npos) continue;
        std::string f = l.substr(in + 4);
        size_t par = f.find('('); size_t sp = f.find(" /");
        size_t cut = std::min(par, sp);
        if (cut != std::string::npos) f = f.substr(0, cut);
        func = f; break;
    }
    if (kind.empty()) return "";
    return kind + (func.empty() ? "" : "@" + func);
}

inline std::string tmpdir() {
    static std::string d;
    if (d.empty()) {
        const char* t = getenv("VERIF_TMP");
        d = t ? t : "/verif/build/tmp";
        mkdir(d.c_str(), 0755);
        d += fmt("/%s-%d", opt.id.c_str(), (int)getpid());
        mkdir(d.c_str(), 0755);
    }
    return d;
}

// Runs worker_body(w, resume) in W forked workers with crash/hang attribution.
// resume: 0 on first start; 1 when restarted after the published case failed (skip it).
inline void run_pool(const std::string& name, int W,
                     const std::function<void(int, bool)>& worker_body,
                     const std::function<std::string(int)>& describe_cur) {
    std::vector<pid_t> pids(W, 0);
    std::vector<int> restarts(W, 0);
    // a defect that kills the worker in a large share of the cases must not turn a section into hours of
    // restarts: after `crash_budget` attributed crashes/hangs the section is stopped and reported INCOMPLETE
    long crash_budget = getenv("VERIF_CRASH_BUDGET") ? atol(getenv("VERIF_CRASH_BUDGET")) : 1500;
    long crashes = 0; bool stopped = false;
    auto stop_all = [&](int& live_ref) {
        if (stopped) return;
        stopped = true;
        emit("INCOMPLETE\t" + name + "\tstopped after " + std::to_string(crashes) + " crashing cases (budget); the rest of the section was not executed");
        for (int i = 0; i < W; i++) if (pids[i] > 0) { kill(pids[i], SIGKILL); int st3; waitpid(pids[i], &st3, 0); pids[i] = 0; }
        live_ref = 0;
    };
    std::string td = tmpdir();
    auto spawn = [&](int w, bool resume) {
        g_shm[w].progress_ts = now_s();
        fflush(stdout); fflush(stderr);
        pid_t p = fork();
        if (p < 0) { perror("fork"); exit(2); }
        if (p == 0) {
            g_me = w;
            std::string ef = td + fmt("/err.%d", w);
            int efd = open(ef.c_str(), O_WRONLY | O_CREAT | O_TRUNC, 0644);
            if (efd >= 0) { dup2(efd, 2); close(efd); }
            g_outcomes.clear(); g_fail_lines = 0;
            worker_body(w, resume);
            g_shm[w].done = 1;
            _exit(0);
        }
        pids[w] = p;
    };
    for (int w = 0; w < W; w++) { g_shm[w].done = 0; g_shm[w].incomplete = 0; g_shm[w].cur_index = -1; g_shm[w].cur_len = -1; spawn(w, false); }
    int live = W;
    while (live > 0) {
        int st; pid_t p = waitpid(-1, &st, WNOHANG);
        if (p == 0) {
            // hang detection
            double t = now_s();
            for (int w = 0; w < W; w++) if (pids[w] > 0 && t - g_shm[w].progress_ts > opt.hang_s) {
                kill(pids[w], SIGKILL);
                int st2; waitpid(pids[w], &st2, 0);
                emit("FAIL\t" + name + ":" + describe_cur(w) + "\thang/" + name + "/" + std::string(g_shm[w].ctx) + fmt("\tno progress for %.0f s; worker killed", opt.hang_s));
                if (++crashes > crash_budget) { stop_all(live); break; }
                if (++restarts[w] > 2000) { emit("INCOMPLETE\t" + name + "\ttoo many restarts"); pids[w] = 0; live--; }
                else spawn(w, true);
            }
            usleep(2000);
            continue;
        }
        if (p < 0) { if (errno == EINTR) continue; break; }
        int w = -1; for (int i = 0; i < W; i++) if (pids[i] == p) w = i;
        if (w < 0) continue;
        if (WIFEXITED(st) && WEXITSTATUS(st) == 0 && g_shm[w].done) { pids[w] = 0; live--; continue; }
        if (WIFEXITED(st) && WEXITSTATUS(st) == 2) {       // harness error inside worker
            std::string err = read_file(td + fmt("/err.%d", w));
            fprintf(stderr, "%s", err.c_str());
            emit("HARNESSERROR\tworker exit 2 in section " + name + ": " + sanitize(err.substr(0, 300)));
            pids[w] = 0; live--; continue;
        }
        if (WIFEXITED(st) && WEXITSTATUS(st) == 42) {      // abandon_case(): failure already recorded by the worker
            if (++restarts[w] > 5000) { emit("INCOMPLETE\t" + name + "\ttoo many abandoned cases in one shard"); pids[w] = 0; live--; }
            else spawn(w, true);
            continue;
        }
        // died while executing the published case
        std::string err = read_file(td + fmt("/err.%d", w));
        std::string mode = classify_stderr(err);
        if (mode.empty()) {
            if (WIFSIGNALED(st)) mode = fmt("signal:%d", WTERMSIG(st));
            else mode = fmt("exit:%d", WEXITSTATUS(st));
        }
        std::string first = err.substr(0, err.find('\n', err.find("ERROR") == std::string::npos ? (err.find("runtime error") == std::string::npos ? 0 : err.find("runtime error")) : err.find("ERROR")));
        if (first.size() > 300) first.resize(300);
        emit("FAIL\t" + name + ":" + describe_cur(w) + "\tcrash/" + name + "/" + std::string(g_shm[w].ctx) + "/" + mode + "\t" + sanitize(first));
        // count it
        {
            WorkerShm& s = g_shm[w]; bool f = false;
            for (int i = 0; i < s.ncounters; i++) if (strcmp(s.counters[i].name, "fail_events") == 0) { s.counters[i].v++; f = true; }
            if (!f && s.ncounters < 96) { strcpy(s.counters[s.ncounters].name, "fail_events"); s.counters[s.ncounters].v = 1; s.ncounters++; }
        }
        if (++crashes > crash_budget) { stop_all(live); break; }
        if (++restarts[w] > 5000) { emit("INCOMPLETE\t" + name + "\ttoo many crashes in one shard"); pids[w] = 0; live--; }
        else spawn(w, true);
    }
    // merge counters
    std::map<std::string, long> sum;
    for (int w = 0; w < W; w++) {
        for (int i = 0; i < g_shm[w].ncounters; i++) sum[g_shm[w].counters[i].name] += g_shm[w].counters[i].v;
        if (g_shm[w].incomplete) emit("INCOMPLETE\t" + name + "\tdeadline reached");
        g_shm[w].ncounters = 0;
    }
    for (auto& kv : sum) emit(fmt("STAT\t%s.%s\t%ld", name.c_str(), kv.first.c_str(), kv.second));
}

// replay of one case: executed in a forked child so that a crash is classified exactly as in a sweep
inline void run_replay(const std::string& name, const std::function<void()>& body) {
    std::string ef = tmpdir() + "/replay.err";
    fflush(stdout); fflush(stderr);
    WorkerShm* shm = (WorkerShm*)mmap(nullptr, sizeof(WorkerShm), PROT_READ | PROT_WRITE, MAP_SHARED | MAP_ANONYMOUS, -1, 0);
    pid_t p = fork();
    if (p < 0) { perror("fork"); exit(2); }
    if (p == 0) {
        int efd = open(ef.c_str(), O_WRONLY | O_CREAT | O_TRUNC, 0644);
        if (efd >= 0) { dup2(efd, 2); close(efd); }
        g_me = 0; g_shm = shm;
        body();
        fflush(stdout);
        _exit(g_replay_fails ? 41 : 0);
    }
    // parent
    int st = 0; double t0 = now_s(); bool killed = false;
    for (;;) {
        pid_t r = waitpid(p, &st, WNOHANG);
        if (r == p) break;
        if (now_s() - t0 > opt.hang_s * 3) { kill(p, SIGKILL); waitpid(p, &st, 0); killed = true; break; }
        usleep(1000);
    }
    if (killed) { g_replay_fails++; printf("FAIL\t%s:%s\thang/%s/%s\tno result within %.0f s\n", name.c_str(), g_case.c_str(), name.c_str(), shm->ctx, opt.hang_s * 3); return; }
    if (WIFEXITED(st) && WEXITSTATUS(st) == 0) return;
    if (WIFEXITED(st) && WEXITSTATUS(st) == 41) { g_replay_fails++; return; }
    std::string err = read_file(ef);
    if (WIFEXITED(st) && WEXITSTATUS(st) == 2) { fprintf(stderr, "%s", err.c_str()); exit(2); }
    std::string mode = classify_stderr(err);
    if (mode.empty()) mode = WIFSIGNALED(st) ? fmt("signal:%d", WTERMSIG(st)) : fmt("exit:%d", WEXITSTATUS(st));
    g_replay_fails++;
    printf("FAIL\t%s:%s\tcrash/%s/%s/%s\t%s\n", name.c_str(), g_case.c_str(), name.c_str(), shm->ctx, mode.c_str(), sanitize(err.substr(0, 400)).c_str());
    fprintf(stderr, "%s", err.c_str());
}

inline bool section_selected(const std::string& name) {
    if (g_replaying) return opt.replay.compare(0, name.size() + 1, name + ":") == 0;
    if (!opt.only.empty() && opt.only != name) return false;
    return true;
}

// ---------------------------------------------------------------- indexed sections
inline void section_index(const std::string& name, long N, const std::function<void(long)>& fn) {
    if (!section_selected(name)) return;
    g_section = name;
    if (g_replaying) {
        long idx = atol(opt.replay.c_str() + name.size() + 1);
        if (idx < 0 || idx >= N) harness_error("replay index out of range");
        g_case = std::to_string(idx); g_case_fn = nullptr;
        run_replay(name, [&]() { fn(idx); });
        return;
    }
    double t0 = now_s();
    int W = (int)std::min<long>(opt.workers, std::max<long>(1, N));
    if (time_left() <= 0) { emit("INCOMPLETE\t" + name + "\tnot started: deadline"); return; }
    run_pool(name, W,
        [&](int w, bool resume) {
            WorkerShm& s = g_shm[w];
            long start = resume ? s.cur_index + W : w;
            g_samples_left = resume ? 1 : (w < 4 ? 2 : 0);
            g_case_fn = [&s]() { return std::to_string(s.cur_index); };
            long k = 0;
            for (long i = start; i < N; i += W) {
                s.cur_index = i;
                if ((k++ & 63) == 0) { s.progress_ts = now_s(); if (time_left() <= 0) { s.incomplete = 1; break; } }
                s.ctx[0] = 0;
                g_case_failed = 0;
                fn(i);
                count("cases");
                if (g_case_failed) count("failed_cases");
            }
        },
        [&](int w) { return std::to_string(g_shm[w].cur_index); });
    emit(fmt("SECTION\t%s\t%ld\t%.3f", name.c_str(), N, now_s() - t0));
}

// ---------------------------------------------------------------- choice-vector sections
struct Chooser {
    std::vector<unsigned char> prefix;
    std::vector<unsigned char> c, n;
    bool cut = false;                       // execution cut by state pruning
    int split = 0;                          // no pruning before this position (sharding needs every worker to see it)
    std::unordered_map<unsigned long long, int>* seen = nullptr;
    int choose(int k) {
        if (k <= 0 || k > 255) harness_error("choose(k): k out of range");
        size_t i = c.size();
        int v = 0;
        if (i < prefix.size()) {
            v = prefix[i];
            if (v >= k) harness_error(fmt("replay divergence: choice %d >= %d at position %zu", v, k, i));
        }
        c.push_back((unsigned char)v); n.push_back((unsigned char)k);
        if (c.size() > 250) harness_error("choice vector too long");
        if (g_me >= 0) {   // publish progress: a crash is attributed to the exact path taken so far
            WorkerShm& s = g_shm[g_me];
            s.cur_vec[i] = (unsigned char)v; s.cur_ns[i] = (unsigned char)k; s.cur_len = (int)i + 1;
        }
        return v;
    }
    size_t pos() const { return c.size(); }
    bool in_new_territory() const { return c.size() >= prefix.size(); }
    // State pruning: returns true when the scenario must stop because this canonical state was
    // already expanded with at least `remaining` further steps. Only states first reached in this
    // execution (beyond the replayed prefix) are looked up.
    bool prune(unsigned long long key, int remaining) {
        if (!seen || !in_new_territory() || (int)c.size() < split) return false;
        auto it = seen->find(key);
        if (it != seen->end() && it->second >= remaining) { cut = true; return true; }
        if (it == seen->end()) { (*seen)[key] = remaining; count("states"); }
        else it->second = remaining;
        return false;
    }
};
inline std::string vec_str(const volatile unsigned char* v, int len) {
    std::string s;
    for (int i = 0; i < len; i++) { if (i) s += '.'; s += std::to_string((int)v[i]); }
    if (s.empty()) s = "-";
    return s;
}
inline unsigned long long hash_bytes(const void* p, size_t n, unsigned long long h = 1469598103934665603ULL) {
    const unsigned char* b = (const unsigned char*)p;
    for (size_t i = 0; i < n; i++) { h ^= b[i]; h *= 1099511628211ULL; }
    return h;
}
inline unsigned long long hash_str(const std::string& s) { return hash_bytes(s.data(), s.size()); }

inline Chooser* g_chooser = nullptr;

// split: number of leading choice positions used for sharding. prune: enable state pruning.
inline void section_dfs(const std::string& name, int split, bool prune_states, const std::function<void(Chooser&)>& fn) {
    if (!section_selected(name)) return;
    g_section = name;
    if (g_replaying) {
        Chooser ch;
        const char* p = opt.replay.c_str() + name.size() + 1;
        if (*p != '-') while (*p) { ch.prefix.push_back((unsigned char)strtol(p, (char**)&p, 10)); if (*p == '.') p++; else break; }
        g_chooser = &ch;
        g_case = vec_str(ch.prefix.data(), (int)ch.prefix.size());
        g_case_fn = nullptr;
        run_replay(name, [&]() {
            fn(ch);
            if (ch.c.size() < ch.prefix.size()) harness_error("replay divergence: execution shorter than its prefix");
        });
        g_chooser = nullptr;
        return;
    }
    double t0 = now_s();
    if (time_left() <= 0) { emit("INCOMPLETE\t" + name + "\tnot started: deadline"); return; }
    int W = opt.workers;
    run_pool(name, W,
        [&](int w, bool resume) {
            WorkerShm& s = g_shm[w];
            std::unordered_map<unsigned long long, int> seen;
            Chooser ch; ch.seen = prune_states ? &seen : nullptr; ch.split = split;
            g_chooser = &ch;
            g_samples_left = resume ? 1 : (w < 4 ? 2 : 0);
            g_case_fn = [&ch]() { return vec_str(ch.c.data(), (int)ch.c.size()); };
            std::vector<unsigned char> cur, c, n;
            bool have = false;
            if (resume) {
                // behave as if the crashed execution had ended right after its prefix
                c.assign((unsigned char*)s.cur_vec, (unsigned char*)s.cur_vec + s.cur_len);
                n.assign((unsigned char*)s.cur_ns, (unsigned char*)s.cur_ns + s.cur_len);
                have = true;
                s.incomplete = 0; // (coverage loss below a crashing prefix is reported through the FAIL itself)
            }
            long k = 0;
            for (;;) {
                if (have) {
                    // odometer: next prefix
                    int i = (int)c.size() - 1;
                    while (i >= 0 && c[i] + 1 >= n[i]) i--;
                    if (i < 0) break;
                    cur.assign(c.begin(), c.begin() + i + 1); cur[i]++;
                    n.resize(i + 1); c = cur;
                }
                have = true;
                // ownership by the first `split` choices (padded with zeros)
                auto owner = [&](const std::vector<unsigned char>& v) {
                    unsigned long long h = 1469598103934665603ULL;
                    for (int j = 0; j < split; j++) { unsigned char b = j < (int)v.size() ? v[j] : 0; h ^= b; h *= 1099511628211ULL; }
                    h ^= h >> 29;
                    return (int)(h % (unsigned)W);
                };
                bool deep = (int)cur.size() >= split;
                if (deep && owner(cur) != w) { c = cur; /* n already holds ns of cur positions */ continue; }
                s.cur_len = 0;      // choose() publishes the path as it is taken
                if ((k++ & 31) == 0) { s.progress_ts = now_s(); if (time_left() <= 0) { s.incomplete = 1; break; } }
                s.ctx[0] = 0;
                ch.prefix = cur; ch.c.clear(); ch.n.clear(); ch.cut = false;
                g_recording = deep ? true : (owner(cur) == w);
                // for shallow prefixes pruning tables are per worker, so every worker must still see the states
                g_case_failed = 0;
                fn(ch);
                if (ch.c.size() < cur.size()) harness_error("replay divergence: execution shorter than its prefix");
                if (g_recording) { count("cases"); if (g_case_failed) count("failed_cases"); if (ch.cut) count("pruned"); count("transitions", (long)(ch.c.size() - cur.size()) + 1); }
                g_recording = true;
                c = ch.c; n = ch.n;
            }
            if (prune_states) count("states_tables", 1);
            g_chooser = nullptr;
        },
        [&](int w) { return vec_str(g_shm[w].cur_vec, g_shm[w].cur_len); });
    emit(fmt("SECTION\t%s\t-1\t%.3f", name.c_str(), now_s() - t0));
}

// helper: mixed radix decode
struct Radix {
    long idx;
    explicit Radix(long i) : idx(i) {}
    long take(long n) { long r = idx % n; idx /= n; return r; }
};

} // namespace vf

#ifdef VF_MAIN
extern "C" const char* __asan_default_options() {
    return "quarantine_size_mb=4:detect_leaks=0:detect_stack_use_after_return=0:allocator_may_return_null=1:handle_abort=0:print_summary=0:max_malloc_fill_size=0:new_delete_type_mismatch=0:alloc_dealloc_mismatch=0";
}
extern "C" const char* __tsan_default_options() {
    return "halt_on_error=1:exitcode=66:second_deadlock_stack=1";
}
extern "C" const char* __ubsan_default_options() {
    return "print_stacktrace=1:halt_on_error=1";
}
#endif

// vfsched.h - cooperative scheduler for exhaustive, preemption-bounded exploration of real threads.
// Exactly one thread runs at a time (baton passed through per-thread semaphores); a scheduling
// decision is one vf::Chooser choice "which enabled thread runs next" in canonical order (the
// running thread first if still enabled, then ascending ids). Switching away from an enabled thread
// costs one preemption; switches forced by blocking or termination are free. Mutexes are modelled
// (owner field, blocked set), so deadlock, self-deadlock and a lock left held are observable
// instead of hanging the process.
#pragma once
#include <pthread.h>
#include <semaphore.h>
#include <functional>
#include "vf.h"

namespace vf { namespace sched {

constexpr int MAXT = 8;
constexpr int MAIN_TID = 100;

struct Mutex { int owner = -1; long acquisitions = 0; };

enum St { READY, BLOCKED, DONE };
struct State {
    bool active = false;
    int n = 0;
    int cur = -1;
    St st[MAXT];
    Mutex* waiting[MAXT];
    sem_t sem[MAXT];
    sem_t main_sem;
    vf::Chooser* ch = nullptr;
    int preemptions = 0, bound = 0;
    long points = 0, switches = 0;
    bool deadlock = false;
    std::function<void()> body[MAXT];
    const char* last_tag[MAXT];
};
inline State S;
inline thread_local int t_tid = -1;
// called before the scheduler reports a fatal condition: lets the harness leave the instrumented mode first
// (reporting allocates; with tracked operators switched on that would re-enter the code under test)
inline void (*on_fatal)() = nullptr;
inline void fatal(const char* sig, const char* detail) { if (on_fatal) on_fatal(); vf::fail(sig, detail); vf::abandon_case(); }

inline int self() { return t_tid < 0 ? MAIN_TID : t_tid; }
inline int live_threads() { int k = 0; for (int i = 0; i < S.n; i++) if (S.st[i] != DONE) k++; return k; }

// returns the thread to run next, or -1 when nothing is enabled
inline int pick_next(bool self_enabled) {
    int me = t_tid;
    int list[MAXT + 1]; int k = 0;
    if (self_enabled) list[k++] = me;
    for (int i = 0; i < S.n; i++) if (i != me && S.st[i] == READY) list[k++] = i;
    if (k == 0) return -1;
    if (self_enabled && S.preemptions >= S.bound) return me;
    if (k == 1) return list[0];
    int idx = S.ch->choose(k);
    if (self_enabled && idx != 0) S.preemptions++;
    return list[idx];
}
inline void switch_to(int next) {
    int me = t_tid;                 // read before posting: `me` must not be re-read after the hand-off
    S.cur = next; S.switches++;
    sem_post(&S.sem[next]);
    sem_wait(&S.sem[me]);
}
inline void yield_point(const char* tag) {
    if (!S.active || t_tid < 0) return;
    S.last_tag[t_tid] = tag;
    if (++S.points > 200000) fatal("sched/livelock", "more than 200000 scheduling points in one execution");
    int next = pick_next(true);
    if (next != t_tid) switch_to(next);
}

inline void lock(Mutex* m) {
    int me = self();
    if (!S.active || t_tid < 0) {
        if (m->owner == me) fatal("mutex/self-deadlock", "lock() on a mutex already held by the calling (only) thread: a real mutex would hang here");
        m->owner = me; m->acquisitions++; return;
    }
    yield_point("lock");
    while (m->owner != -1) {
        if (m->owner == me) fatal("mutex/self-deadlock", "lock() on a mutex already held by the calling thread");
        S.st[me] = BLOCKED; S.waiting[me] = m;
        int next = pick_next(false);
        if (next < 0) { S.deadlock = true; fatal("sched/deadlock", "no enabled thread: every live thread is blocked on a mutex"); }
        switch_to(next);
    }
    m->owner = me; m->acquisitions++;
}
inline bool g_unlock_not_owner = false;
inline void unlock(Mutex* m) {
    int me = self();
    if (m->owner != me) g_unlock_not_owner = true;
    m->owner = -1;
    if (S.active) for (int i = 0; i < S.n; i++) if (S.st[i] == BLOCKED && S.waiting[i] == m) { S.st[i] = READY; S.waiting[i] = nullptr; }
    yield_point("unlock");
}

inline void* thread_main(void* arg) {
    int tid = (int)(long)arg;
    t_tid = tid;
    sem_wait(&S.sem[tid]);
    S.body[tid]();
    S.st[tid] = DONE;
    int next = pick_next(false);
    if (next < 0) {
        for (int i = 0; i < S.n; i++) if (S.st[i] == BLOCKED) S.deadlock = true;
        sem_post(&S.main_sem);
    } else { S.cur = next; S.switches++; sem_post(&S.sem[next]); }
    return nullptr;
}

// Runs the bodies as real threads under the chooser. Returns false on deadlock (threads are then lost:
// the caller must record a failure and call vf::abandon_case()).
inline bool run(vf::Chooser& ch, int n, int preemption_bound) {
    S.n = n; S.ch = &ch; S.preemptions = 0; S.bound = preemption_bound; S.points = 0; S.switches = 0; S.deadlock = false;
    g_unlock_not_owner = false;
    pthread_t th[MAXT];
    sem_init(&S.main_sem, 0, 0);
    pthread_attr_t attr; pthread_attr_init(&attr); pthread_attr_setstacksize(&attr, 256 * 1024);
    for (int i = 0; i < n; i++) { S.st[i] = READY; S.waiting[i] = nullptr; S.last_tag[i] = ""; sem_init(&S.sem[i], 0, 0); }
    for (int i = 0; i < n; i++) if (pthread_create(&th[i], &attr, thread_main, (void*)(long)i) != 0) vf::harness_error("pthread_create failed");
    pthread_attr_destroy(&attr);
    S.active = true;
    int first = pick_next(false);       // which thread starts is a free choice
    S.cur = first;
    sem_post(&S.sem[first]);
    sem_wait(&S.main_sem);
    S.active = false;
    if (S.deadlock) return false;
    for (int i = 0; i < n; i++) pthread_join(th[i], nullptr);
    for (int i = 0; i < n; i++) sem_destroy(&S.sem[i]);
    sem_destroy(&S.main_sem);
    return true;
}

}} // namespace

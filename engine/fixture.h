// fixture.h - run a scripted body (optionally setup/teardown) as a real test: real UtestShell,
// TestResult, TestRegistry::runAllTests, StringBufferTestOutput (the library's own TestTestingFixture).
// Include AFTER all standard headers (CppUTest headers may #define new).
#pragma once
#include <functional>
#include <string>
#include "CppUTest/TestHarness.h"
#include "CppUTest/TestTestingFixture.h"
#include "CppUTest/TestRegistry.h"
#include "CppUTest/TestOutput.h"
#undef new

namespace vf {

struct LambdaExec : ExecFunction {
    std::function<void()> f;
    void exec() override { if (f) f(); }
};

struct Fixture {
    TestTestingFixture fx;
    LambdaExec body_;
    static std::function<void()>& setup_fn() { static std::function<void()> f; return f; }
    static std::function<void()>& teardown_fn() { static std::function<void()> f; return f; }
    static void setup_tramp() { if (setup_fn()) setup_fn()(); }
    static void teardown_tramp() { if (teardown_fn()) teardown_fn()(); }

    Fixture() { fx.setTestFunction(&body_); }
    ~Fixture() { setup_fn() = nullptr; teardown_fn() = nullptr; }
    // runs setup, body, teardown through the real registry/run machinery
    void run(std::function<void()> body, std::function<void()> setup = nullptr, std::function<void()> teardown = nullptr) {
        body_.f = std::move(body);
        setup_fn() = std::move(setup); teardown_fn() = std::move(teardown);
        fx.setSetup(setup_tramp); fx.setTeardown(teardown_tramp);
        fx.runAllTests();
    }
    size_t failures() { return fx.getFailureCount(); }
    size_t checks() { return fx.getCheckCount(); }
    std::string output() { return fx.getOutput().asCharString(); }
};

} // namespace vf

# Builds the library under test from $(REPO)'s working tree in several flavours and links check harnesses.
#   make FLAVOUR=asan lib            -> build/<TAG>/asan/libcpputest.a
#   make FLAVOUR=asan CHECK=c18 bin  -> build/<TAG>/asan/bin/c18   (from checks/c18*.cpp [+ checks/c18*.c])
#   make setup                       -> all flavours' libraries (parallel with -j)
REPO    ?= /repo
TAG     ?= repo
FLAVOUR ?= asan
B       := build/$(TAG)/$(FLAVOUR)

CXX := g++
CC  := gcc
COMMON := -g -fno-omit-frame-pointer -DHAVE_CONFIG_H -DCPPUTEST_VERIF_HOOKS -I$(REPO)/include -I$(B)/gen -w
SAN    := -fsanitize=address,undefined -fno-sanitize=signed-integer-overflow,shift -fno-sanitize-recover=undefined

FLAGS_asan    := -O1 $(SAN)
FLAGS_noexc   := -O1 $(SAN) -fno-exceptions
FLAGS_noguard := -O1 $(SAN) -DCPPUTEST_DISABLE_MEM_CORRUPTION_CHECK
FLAGS_plain   := -O1
FLAGS_tsan    := -O1 -fsanitize=thread
FL := $(FLAGS_$(FLAVOUR))
# harness translation units: same ABI-relevant switches, no UBSan instrumentation of harness code
HFLAGS_asan    := -O2 -fsanitize=address
HFLAGS_noexc   := -O2 -fsanitize=address -fno-exceptions
HFLAGS_noguard := -O2 -fsanitize=address -DCPPUTEST_DISABLE_MEM_CORRUPTION_CHECK
HFLAGS_plain   := -O2
HFLAGS_tsan    := -O2 -fsanitize=thread
HFL := $(HFLAGS_$(FLAVOUR))
ifeq ($(FL),)
$(error unknown FLAVOUR $(FLAVOUR))
endif

LIBSRC := $(wildcard $(REPO)/src/CppUTest/*.cpp) $(wildcard $(REPO)/src/CppUTestExt/*.cpp) $(REPO)/src/Platforms/Gcc/UtestPlatform.cpp
LIBOBJ := $(patsubst $(REPO)/src/%.cpp,$(B)/obj/%.o,$(LIBSRC))

.PHONY: lib bin setup clean FORCE
lib: $(B)/libcpputest.a

# objects are rebuilt when the compiler flags change
FLAGSIG := $(CXX) $(COMMON) | $(FL) | $(HFL)
$(B)/flags.stamp: FORCE
	@mkdir -p $(B); echo '$(FLAGSIG)' | cmp -s - $@ || echo '$(FLAGSIG)' > $@
FORCE:

$(B)/gen/generated/CppUTestGeneratedConfig.h:
	@mkdir -p $(dir $@)
	@printf '%s\n' '#ifndef CONFIG_H_' '#define CONFIG_H_' '#define CPPUTEST_USE_LONG_LONG 1' '#define CPPUTEST_HAVE_STRDUP' \
	  '#define CPPUTEST_HAVE_FORK' '#define CPPUTEST_HAVE_WAITPID' '#define CPPUTEST_HAVE_KILL' '#define CPPUTEST_HAVE_PTHREAD_MUTEX_LOCK' \
	  '#define CPPUTEST_HAVE_GETTIMEOFDAY' '#endif' > $@

$(B)/obj/%.o: $(REPO)/src/%.cpp $(B)/gen/generated/CppUTestGeneratedConfig.h $(B)/flags.stamp
	@mkdir -p $(dir $@)
	$(CXX) $(COMMON) $(FL) -MMD -MP -c $< -o $@

$(B)/libcpputest.a: $(LIBOBJ)
	@rm -f $@
	ar rcs $@ $(LIBOBJ)

# ---- harness
ifneq ($(CHECK),)
HSRC_CPP := $(wildcard checks/$(CHECK)*.cpp)
HSRC_C   := $(wildcard checks/$(CHECK)*.c)
HOBJ := $(patsubst checks/%.cpp,$(B)/hobj/%.o,$(HSRC_CPP)) $(patsubst checks/%.c,$(B)/hobj/%.c.o,$(HSRC_C))
bin: $(B)/bin/$(CHECK)
$(B)/bin/$(CHECK): $(HOBJ) $(B)/libcpputest.a
	@mkdir -p $(dir $@)
	$(CXX) $(FL) -o $@ $(HOBJ) $(B)/libcpputest.a -lpthread
endif

$(B)/hobj/%.o: checks/%.cpp $(B)/gen/generated/CppUTestGeneratedConfig.h $(wildcard engine/*.h) $(B)/flags.stamp
	@mkdir -p $(dir $@)
	$(CXX) $(COMMON) $(HFL) -std=gnu++17 -fno-access-control -Iengine -I$(REPO)/src -DVF_FLAVOUR=\"$(FLAVOUR)\" -MMD -MP -c $< -o $@

$(B)/hobj/%.c.o: checks/%.c $(B)/gen/generated/CppUTestGeneratedConfig.h $(B)/flags.stamp
	@mkdir -p $(dir $@)
	$(CC) $(COMMON) $(HFL) -Iengine -MMD -MP -c $< -o $@

setup:
	@mkdir -p build/tmp evidence replays
	$(MAKE) --no-print-directory FLAVOUR=asan lib
	$(MAKE) --no-print-directory FLAVOUR=noexc lib
	$(MAKE) --no-print-directory FLAVOUR=noguard lib
	$(MAKE) --no-print-directory FLAVOUR=plain lib
	$(MAKE) --no-print-directory FLAVOUR=tsan lib

clean:
	rm -rf build

-include $(LIBOBJ:.o=.d)
-include $(wildcard $(B)/hobj/*.d)

// C02 - every selected test runs exactly once per repetition; selection follows the filters; reverse and
// shuffle only permute.
//
// Registries of scripted tests (real UtestShell / IgnoredUtestShell with a counting test body) are run through
// the real TestRegistry::runAllTests and through the real CommandLineTestRunner (with an observing console
// output injected through the runner's own factory method). Observed: the order of TestOutput callbacks
// (tests started/ended, group started/ended, test started/ended, body executed), the TestResult counters at the
// end of every repetition, the printed summary, the linked list of tests after every reordering.
// Reference: the selection rule of the property (libc strstr / strcmp), "exactly once", "counters sum to N",
// "permutation", "group start/end alternate and enclose tests of one group".
//
// Shuffle is made exhaustive: PlatformSpecificRand is a seam; the only influence of a seed is the sequence of
// answers reduced modulo N, N-1, ..., 2, so all N! answer vectors are enumerated (each also as the largest int
// of the same residue). A supplementary sweep runs the real srand/rand for a range of seeds.
#include <vector>
#include <string>
#include <set>
#include <algorithm>
#include <functional>
#include <climits>
#include <cstring>
#include <new>
#define VF_MAIN
#include "vf.h"
#include "CppUTest/TestHarness.h"
#include "CppUTest/TestRegistry.h"
#include "CppUTest/TestOutput.h"
#include "CppUTest/TestFilter.h"
#include "CppUTest/TestResult.h"
#include "CppUTest/CommandLineTestRunner.h"
#include "CppUTest/PlatformSpecificFunctions.h"
#undef new

namespace {

const int MAXN = 48;

// ------------------------------------------------------------------ observation
enum EvKind { TESTS_START, GROUP_START, TEST_START, BODY, TEST_END, GROUP_END, TESTS_END };
const char* EVNAME[] = {"tests-started", "group-started", "test-started", "body", "test-ended", "group-ended", "tests-ended"};
struct Ev { int kind; int test; };
struct Counters { size_t tests, run, ignored, filtered, checks, failures; };
std::vector<Ev> g_ev;
std::vector<Counters> g_counters;      // one per tests-ended callback

UtestShell* g_shell_ptr[MAXN];
int g_nshells = 0;
int idx_of(const UtestShell* t) { for (int i = 0; i < g_nshells; i++) if (g_shell_ptr[i] == t) return i; return -1; }

struct CountingTest : Utest {
    int idx;
    explicit CountingTest(int i) : idx(i) {}
    void testBody() override { g_ev.push_back(Ev{BODY, idx}); }
};
template <class Base> struct ShellT : Base {
    int idx;
    ShellT(int i, const char* g, const char* n) : Base(g, n, "c02.cpp", (size_t)(100 + i)), idx(i) {}
    Utest* createTest() override { return new CountingTest(idx); }
};
typedef ShellT<UtestShell> NormalShell;
typedef ShellT<IgnoredUtestShell> IgnoredShell;
alignas(16) char g_shell_mem[MAXN][sizeof(IgnoredShell) > sizeof(NormalShell) ? sizeof(IgnoredShell) : sizeof(NormalShell)];

std::string g_console; bool g_capture = false;
void fputs_capture(const char* s, PlatformSpecificFile) { if (g_capture) g_console += s; }
void flush_nop() {}
unsigned long time_zero() { return 0; }
const char* timestr_fixed() { return "1970-01-01T00:00:00"; }

struct RecOutput : ConsoleTestOutput {
    void printTestsStarted() override { g_ev.push_back(Ev{TESTS_START, -1}); ConsoleTestOutput::printTestsStarted(); }
    void printTestsEnded(const TestResult& r) override {
        g_ev.push_back(Ev{TESTS_END, -1});
        g_counters.push_back(Counters{r.getTestCount(), r.getRunCount(), r.getIgnoredCount(), r.getFilteredOutCount(), r.getCheckCount(), r.getFailureCount()});
        ConsoleTestOutput::printTestsEnded(r);
    }
    void printCurrentTestStarted(const UtestShell& t) override { g_ev.push_back(Ev{TEST_START, idx_of(&t)}); ConsoleTestOutput::printCurrentTestStarted(t); }
    void printCurrentTestEnded(const TestResult& r) override { g_ev.push_back(Ev{TEST_END, -1}); ConsoleTestOutput::printCurrentTestEnded(r); }
    void printCurrentGroupStarted(const UtestShell& t) override { g_ev.push_back(Ev{GROUP_START, idx_of(&t)}); ConsoleTestOutput::printCurrentGroupStarted(t); }
    void printCurrentGroupEnded(const TestResult& r) override { g_ev.push_back(Ev{GROUP_END, -1}); ConsoleTestOutput::printCurrentGroupEnded(r); }
};
struct RecRunner : CommandLineTestRunner {
    RecRunner(int ac, const char* const* av, TestRegistry* r) : CommandLineTestRunner(ac, av, r) {}
    TestOutput* createConsoleOutput() override { return new RecOutput; }
};

// ------------------------------------------------------------------ the rand seam
void (*g_real_srand)(unsigned int); int (*g_real_rand)(void);
std::vector<int> g_answers; size_t g_ans_pos; int g_rand_n; int g_rand_k; bool g_rand_big; long g_rand_calls; long g_srand_calls;
void srand_stub(unsigned int) { g_rand_k = 0; g_srand_calls++; }
int rand_stub() {
    g_rand_calls++;
    int mod = g_rand_n - g_rand_k; g_rand_k++;
    int v = g_ans_pos < g_answers.size() ? g_answers[g_ans_pos++] : 0;
    if (mod < 1) return v;
    if (g_rand_big) v = v + ((INT_MAX - v) / mod) * mod;       // largest int with the same residue
    return v;
}

// ------------------------------------------------------------------ scenario description + reference
struct TSpec { std::string group, name; bool ignored; };
struct FSpec { std::string text; bool strict, invert; };
typedef std::vector<FSpec> FList;

bool ref_accepts(const FList& l, const std::string& s) {
    if (l.empty()) return true;                                   // "when any are given"
    for (const FSpec& f : l) {
        bool m = f.strict ? (strcmp(s.c_str(), f.text.c_str()) == 0) : (strstr(s.c_str(), f.text.c_str()) != nullptr);   // libc is the reference
        if (f.invert) m = !m;
        if (m) return true;                                       // "at least one"
    }
    return false;
}
bool ref_selected(const TSpec& t, const FList& gf, const FList& nf) { return ref_accepts(gf, t.group) && ref_accepts(nf, t.name); }

std::string render_tests(const std::vector<TSpec>& ts) {
    std::string o = "tests:";
    for (auto& t : ts) o += " [" + vf::esc(t.group) + "." + vf::esc(t.name) + (t.ignored ? " IGNORED" : "") + "]";
    if (ts.empty()) o += " (none)";
    return o;
}
std::string render_filters(const char* which, const FList& l) {
    std::string o;
    for (auto& f : l) o += std::string(" -") + (f.invert ? "x" : "") + (f.strict ? "s" : "") + which + " '" + vf::esc(f.text) + "'";
    return o;
}

struct Rep {                                                      // one failure per signature and case
    std::function<std::string()> desc;
    std::set<std::string> seen;
    bool list_broken = false;                                     // root cause already reported: consequences are not reported again
    void fail(const std::string& sig, const std::string& detail) { if (seen.insert(sig).second) vf::fail(sig, desc() + " :: " + detail); }
};

// ------------------------------------------------------------------ world: registry + shells + filters
const std::vector<char>* g_registered = nullptr;                  // registration mask of the live World
bool is_registered(int i) { return !g_registered || (*g_registered)[i]; }
struct World {
    TestRegistry reg;
    std::vector<TestFilter> gfs, nfs;
    int n;
    std::vector<char> registered;                                 // which of the n shells have been handed to addTest
    // manual: the shells exist but nothing is registered yet; the program registers them with ADD steps
    World(const std::vector<TSpec>& tests, const FList& gf, const FList& nf, bool manual = false) : n((int)tests.size()), registered(tests.size(), manual ? 0 : 1) {
        if (n > MAXN) vf::harness_error("too many tests");
        g_nshells = n;
        for (int t = n - 1; t >= 0; t--) {                        // addTest prepends: add in reverse
            if (tests[t].ignored) g_shell_ptr[t] = new (g_shell_mem[t]) IgnoredShell(t, tests[t].group.c_str(), tests[t].name.c_str());
            else g_shell_ptr[t] = new (g_shell_mem[t]) NormalShell(t, tests[t].group.c_str(), tests[t].name.c_str());
            if (!manual) reg.addTest(g_shell_ptr[t]);
        }
        link(gfs, gf); link(nfs, nf);
        g_registered = &registered;
    }
    int nreg() const { int c = 0; for (char r : registered) c += r; return c; }
    static void link(std::vector<TestFilter>& store, const FList& l) {
        store.reserve(l.size());
        for (auto& f : l) { store.emplace_back(f.text.c_str()); if (f.strict) store.back().strictMatching(); if (f.invert) store.back().invertMatching(); }
        for (size_t i = 0; i + 1 < store.size(); i++) store[i].add(&store[i + 1]);
    }
    void set_filters() { reg.setGroupFilters(gfs.empty() ? nullptr : &gfs[0]); reg.setNameFilters(nfs.empty() ? nullptr : &nfs[0]); }
    ~World() { for (int t = 0; t < n; t++) g_shell_ptr[t]->~UtestShell(); g_nshells = 0; g_registered = nullptr; }
};

// the linked list must hold every registered test exactly once and end; returns false when it cannot be walked
bool check_list(World& w, Rep& rep, const char* when, std::vector<int>* order = nullptr) {
    std::vector<int> seen(w.n, 0); int len = 0; bool foreign = false; const int nreg = w.nreg();
    UtestShell* t = w.reg.getFirstTest();
    if (order) order->clear();
    while (t && len <= nreg + 1) { int i = idx_of(t); if (i < 0) { foreign = true; break; } seen[i]++; if (order) order->push_back(i); len++; t = t->getNext(); }
    if (foreign) { rep.list_broken = true; rep.fail("list/foreign-element", vf::fmt("%s: the list of tests reaches an object that is not a registered test after %d elements", when, len)); return false; }
    if (len > nreg) { rep.list_broken = true; rep.fail("list/cycle-or-duplicate", vf::fmt("%s: the list of %d tests does not end after %d elements", when, nreg, len)); return false; }
    bool ok = true;
    for (int i = 0; i < w.n; i++) {
        if (seen[i] == 0 && w.registered[i]) { rep.list_broken = true; rep.fail("list/test-lost", vf::fmt("%s: test #%d is no longer in the list (%d of %d left)", when, i, len, nreg)); ok = false; }
        if (seen[i] >= 1 && !w.registered[i]) { rep.list_broken = true; rep.fail("list/foreign-element", vf::fmt("%s: test #%d is in the list but was never registered", when, i)); ok = false; }
        if (seen[i] > 1) { rep.list_broken = true; rep.fail("list/cycle-or-duplicate", vf::fmt("%s: test #%d is in the list %d times", when, i, seen[i])); ok = false; }
    }
    size_t c = w.reg.countTests();
    if (c != (size_t)nreg) rep.fail("list/countTests-changed", vf::fmt("%s: countTests() = %zu, registered %d", when, c, nreg));
    (void)ok;
    return true;                                                  // finite list: a run over it terminates
}

// one repetition = events [from,to) starting with tests-started and ending with tests-ended
struct RepExpect { size_t run = 0, ignored = 0, filtered = 0; };
RepExpect check_repetition(const std::vector<TSpec>& tests, const FList& gf, const FList& nf, bool run_ignored,
                           size_t from, size_t to, const Counters* c, Rep& rep, const char* via, int repno, std::vector<int>* order_out) {
    int n = (int)tests.size(); int nreg = 0; for (int i = 0; i < n; i++) nreg += is_registered(i) ? 1 : 0;
    std::vector<int> started(n, 0), bodies(n, 0), order;
    int in_group = -1, in_test = -1; bool group_open = false, test_open = false; int brackets = 0;
    std::string at = vf::fmt("%s, repetition %d", via, repno);
    for (size_t k = from + 1; k + 1 < to; k++) {
        const Ev& e = g_ev[k];
        switch (e.kind) {
        case GROUP_START:
            if (group_open) rep.fail("group/started-twice-without-end", at + ": a group-started notification arrives while a group is still open");
            if (test_open) rep.fail("group/started-inside-test", at + ": group-started between test-started and test-ended");
            if (e.test < 0) rep.fail("events/unknown-test", at + ": group-started names an object that is not a registered test");
            group_open = true; in_group = e.test; brackets++;
            break;
        case GROUP_END:
            if (!group_open) rep.fail("group/ended-without-start", at + ": a group-ended notification arrives while no group is open");
            if (test_open) rep.fail("group/ended-inside-test", at + ": group-ended between test-started and test-ended");
            group_open = false; in_group = -1;
            break;
        case TEST_START:
            if (e.test < 0) { rep.fail("events/unknown-test", at + ": test-started names an object that is not a registered test"); break; }
            if (!group_open) rep.fail("group/test-outside-group", at + vf::fmt(": test #%d started while no group is open", e.test));
            else if (in_group >= 0 && tests[e.test].group != tests[in_group].group)
                rep.fail("group/test-of-another-group-inside", at + vf::fmt(": test #%d of group '%s' runs between the start/end notifications of group '%s'", e.test, vf::esc(tests[e.test].group).c_str(), vf::esc(tests[in_group].group).c_str()));
            if (test_open) rep.fail("test/started-twice-without-end", at + ": test-started while another test is still open");
            test_open = true; in_test = e.test; started[e.test]++; order.push_back(e.test);
            break;
        case BODY:
            if (e.test >= 0 && e.test < n) bodies[e.test]++;
            if (!test_open || in_test != e.test) rep.fail("test/body-outside-its-notifications", at + vf::fmt(": body of test #%d executed outside its own test-started/test-ended", e.test));
            break;
        case TEST_END:
            if (!test_open) rep.fail("test/ended-without-start", at + ": test-ended while no test is open");
            test_open = false; in_test = -1;
            break;
        default:
            rep.fail("events/run-notifications-nested", at + vf::fmt(": %s inside a repetition", EVNAME[e.kind]));
        }
    }
    if (group_open) rep.fail("group/started-without-end", at + ": the repetition ends with a group still open");
    if (test_open) rep.fail("test/started-without-end", at + ": the repetition ends with a test still open");

    RepExpect x;
    for (int i = 0; i < n; i++) {
        if (!is_registered(i)) {                                  // not (yet) handed to the registry: must not take part at all
            if (started[i] || bodies[i]) rep.fail("run/unregistered-test-run", at + vf::fmt(": test #%d has not been added to the registry but was started/executed", i));
            continue;
        }
        bool sel = ref_selected(tests[i], gf, nf);
        bool exec = sel && (!tests[i].ignored || run_ignored);
        if (!sel) x.filtered++; else if (exec) x.run++; else x.ignored++;
        std::string who = vf::fmt(": test #%d [%s.%s%s]", i, vf::esc(tests[i].group).c_str(), vf::esc(tests[i].name).c_str(), tests[i].ignored ? " IGNORED" : "");
        if (started[i] > 1) rep.fail("run/test-run-more-than-once", at + who + vf::fmt(" started %d times", started[i]));
        if (started[i] == 0 && sel) rep.fail("run/selected-test-not-run", at + who + " is selected by the filters but was never started");
        if (started[i] >= 1 && !sel) rep.fail("run/filtered-out-test-run", at + who + " is rejected by the filters but was started");
        if (bodies[i] > 1) rep.fail("exec/body-executed-more-than-once", at + who + vf::fmt(" body executed %d times", bodies[i]));
        if (bodies[i] >= 1 && sel && !exec) rep.fail("exec/ignored-test-executed", at + who + " is an ignored test, run-ignored is off, but its body was executed");
        if (bodies[i] >= 1 && !sel && started[i] == 0) rep.fail("exec/filtered-out-test-executed", at + who + " is rejected by the filters but its body was executed");
        if (bodies[i] == 0 && exec && started[i] >= 1) rep.fail(tests[i].ignored ? "exec/run-ignored-test-not-executed" : "exec/selected-test-not-executed", at + who + " should have been executed, body never ran");
    }
    if (c) {
        std::string cs = vf::fmt(" (counters: %zu tests, %zu ran, %zu ignored, %zu filtered out; reference %d tests, %zu ran, %zu ignored, %zu filtered out)",
                                 c->tests, c->run, c->ignored, c->filtered, nreg, x.run, x.ignored, x.filtered);
        if (c->tests != (size_t)nreg) rep.fail("count/tests", at + ": test count differs from the number of registered tests" + cs);
        if (c->run != x.run) rep.fail("count/run", at + ": run count wrong" + cs);
        if (c->ignored != x.ignored) rep.fail("count/ignored", at + ": ignored count wrong" + cs);
        if (c->filtered != x.filtered) rep.fail("count/filtered-out", at + ": filtered-out count wrong" + cs);
        if (c->run + c->ignored + c->filtered != (size_t)nreg) rep.fail("count/sum-identity", at + ": run + ignored + filtered out != registered tests" + cs);
    } else rep.fail("events/no-counters", at + ": tests-ended was not delivered");
    if (order_out) *order_out = order;
    return x;
}

// splits g_ev into repetitions; returns ranges [from,to)
std::vector<std::pair<size_t, size_t>> split_repetitions(Rep& rep, const char* via) {
    std::vector<std::pair<size_t, size_t>> out; size_t open = (size_t)-1;
    for (size_t k = 0; k < g_ev.size(); k++) {
        if (g_ev[k].kind == TESTS_START) { if (open != (size_t)-1) rep.fail("events/run-notifications-nested", std::string(via) + ": tests-started twice without tests-ended"); open = k; }
        else if (g_ev[k].kind == TESTS_END) { if (open == (size_t)-1) rep.fail("events/outside-a-run", std::string(via) + ": tests-ended without tests-started"); else out.push_back({open, k + 1}); open = (size_t)-1; }
        else if (open == (size_t)-1) rep.fail("events/outside-a-run", std::string(via) + vf::fmt(": %s outside tests-started/tests-ended", EVNAME[g_ev[k].kind]));
    }
    if (open != (size_t)-1) rep.fail("events/run-not-ended", std::string(via) + ": tests-started without tests-ended");
    return out;
}

// ------------------------------------------------------------------ registry-level programs
struct Step {
    enum Kind { RUN, SHUFFLE, REVERSE, SET_RI, ADD, SET_GF, SET_NF } kind;
    int test = -1;
    std::vector<int> answers; bool big = false; bool real_rand = false; unsigned seed = 1; bool via_array = false;
    static Step run() { Step s; s.kind = RUN; return s; }
    static Step set_ri() { Step s; s.kind = SET_RI; return s; }
    static Step add(int t) { Step s; s.kind = ADD; s.test = t; return s; }
    static Step set_gf() { Step s; s.kind = SET_GF; return s; }
    static Step set_nf() { Step s; s.kind = SET_NF; return s; }
    static Step reverse(bool arr = false) { Step s; s.kind = REVERSE; s.via_array = arr; return s; }
    static Step shuffle(std::vector<int> a, bool big = false, bool arr = false) { Step s; s.kind = SHUFFLE; s.answers = std::move(a); s.big = big; s.via_array = arr; return s; }
    static Step shuffle_real(unsigned seed) { Step s; s.kind = SHUFFLE; s.real_rand = true; s.seed = seed; return s; }
};
std::string render_steps(const std::vector<Step>& st) {
    std::string o = " program:";
    for (auto& s : st) {
        if (s.kind == Step::RUN) o += " run";
        else if (s.kind == Step::SET_RI) o += " set-run-ignored";
        else if (s.kind == Step::ADD) o += vf::fmt(" add(#%d)", s.test);
        else if (s.kind == Step::SET_GF) o += " set-group-filters";
        else if (s.kind == Step::SET_NF) o += " set-name-filters";
        else if (s.kind == Step::REVERSE) o += s.via_array ? " reverse(array)" : " reverse";
        else if (s.real_rand) o += vf::fmt(" shuffle(seed %u, real rand)", s.seed);
        else { o += s.via_array ? " shuffle(array; rand answers" : " shuffle(rand answers"; for (int a : s.answers) o += vf::fmt(" %d", a); o += s.big ? "; as largest int of that residue)" : ")"; }
    }
    return o;
}

struct RunSummary { std::vector<int> last_order; RepExpect last; int runs = 0; bool reordered = false; };

// manual = false: all tests registered and both filter lists set before the first step (the usual order);
// manual = true: nothing registered, no filter set; the program does it with add / set-group-filters / set-name-filters steps
RunSummary run_registry(const std::vector<TSpec>& tests, const FList& gf, const FList& nf, const std::vector<Step>& steps, bool manual = false) {
    Rep rep; rep.desc = [&]() { return render_tests(tests) + render_filters("g", gf) + render_filters("n", nf) + (manual ? " (nothing registered, no filter set before the program)" : "") + render_steps(steps); };
    RunSummary sum;
    g_capture = false;
    {
        World w(tests, gf, nf, manual); if (!manual) w.set_filters();
        bool ri = false; int repno = 0; bool gf_on = !manual, nf_on = !manual; const FList nofilter;
        for (const Step& s : steps) {
            if (s.kind == Step::RUN) {
                repno++;
                std::vector<int> list_order;
                if (!check_list(w, rep, "before the run", &list_order) || rep.list_broken) break;
                g_ev.clear(); g_counters.clear();
                { RecOutput out; TestResult r(out); vf::ctx("runAllTests"); w.reg.runAllTests(r); }
                auto reps = split_repetitions(rep, "registry");
                if (reps.size() != 1) { rep.fail("events/repetition-count", vf::fmt("registry: one runAllTests produced %zu tests-started/tests-ended pairs", reps.size())); continue; }
                sum.last = check_repetition(tests, gf_on ? gf : nofilter, nf_on ? nf : nofilter, ri, reps[0].first, reps[0].second, g_counters.size() == 1 ? &g_counters[0] : nullptr, rep, "registry", repno, &sum.last_order);
                sum.runs++;
                check_list(w, rep, "after the run");
                vf::count("tests_visited", (long)w.nreg());
            } else if (s.kind == Step::SET_RI) {
                vf::ctx("setRunIgnored"); w.reg.setRunIgnored(); ri = true;
            } else if (s.kind == Step::ADD) {
                vf::ctx("addTest"); w.reg.addTest(g_shell_ptr[s.test]); w.registered[s.test] = 1;
                check_list(w, rep, "after addTest");
            } else if (s.kind == Step::SET_GF) {
                vf::ctx("setGroupFilters"); w.reg.setGroupFilters(w.gfs.empty() ? nullptr : &w.gfs[0]); gf_on = true;
            } else if (s.kind == Step::SET_NF) {
                vf::ctx("setNameFilters"); w.reg.setNameFilters(w.nfs.empty() ? nullptr : &w.nfs[0]); nf_on = true;
            } else {
                if (s.kind == Step::SHUFFLE) {
                    if (s.real_rand) { PlatformSpecificSrand = g_real_srand; PlatformSpecificRand = g_real_rand; }
                    else { PlatformSpecificSrand = srand_stub; PlatformSpecificRand = rand_stub; g_answers = s.answers; g_ans_pos = 0; g_rand_n = w.nreg(); g_rand_k = 0; g_rand_big = s.big; }
                }
                if (s.via_array) {
                    vf::ctx(s.kind == Step::SHUFFLE ? "array.shuffle" : "array.reverse");
                    UtestShellPointerArray arr(w.reg.getFirstTest());
                    if (arr.get((size_t)w.nreg()) != nullptr || arr.get((size_t)w.nreg() + 7) != nullptr) rep.fail("array/get-beyond-count", "get(index >= count) is not null");
                    if (s.kind == Step::SHUFFLE) arr.shuffle(s.seed); else arr.reverse();
                    w.reg.tests_ = arr.getFirstTest();
                } else if (s.kind == Step::SHUFFLE) { vf::ctx("shuffleTests"); w.reg.shuffleTests(s.seed); }
                else { vf::ctx("reverseTests"); w.reg.reverseTests(); }
                check_list(w, rep, s.kind == Step::SHUFFLE ? "after shuffle" : "after reverse");
                sum.reordered = true;
            }
        }
        vf::ctx("teardown");
        w.reg.setGroupFilters(nullptr); w.reg.setNameFilters(nullptr);
    }
    PlatformSpecificSrand = srand_stub; PlatformSpecificRand = rand_stub;
    if (vf::want_sample()) vf::sample(rep.desc());
    return sum;
}

// ------------------------------------------------------------------ runner-level scenarios
bool parse_summary(const std::string& out, size_t& pos, size_t c[5]) {
    size_t pos_ok = out.find("OK (", pos), pos_err = out.find("Errors (", pos);
    size_t p; bool ok;
    if (pos_ok != std::string::npos && (pos_err == std::string::npos || pos_ok < pos_err)) { ok = true; p = pos_ok + 4; }
    else if (pos_err != std::string::npos) { ok = false; p = pos_err + 8; } else return false;
    const char* s = out.c_str() + p;
    if (!ok) { if (strncmp(s, "ran nothing, ", 13) == 0) s += 13; else { unsigned long f; int n = 0; if (sscanf(s, "%lu failures, %n", &f, &n) < 1 || n == 0) return false; s += n; } }
    unsigned long a, b, cc, d, e;
    if (sscanf(s, "%lu tests, %lu ran, %lu checks, %lu ignored, %lu filtered out", &a, &b, &cc, &d, &e) != 5) return false;
    c[0] = a; c[1] = b; c[2] = cc; c[3] = d; c[4] = e;
    pos = p;
    return true;
}

struct RunnerArgs { bool run_ignored = false, reverse = false, shuffle = false; int repeat = 1; unsigned seed = 1; std::vector<std::vector<int>> answers; bool big = false; };

RunSummary run_runner(const std::vector<TSpec>& tests, const FList& gf, const FList& nf, const RunnerArgs& a) {
    std::vector<std::string> args = {"prog", "-v"};
    auto add_filters = [&](const FList& l, const char* which) {
        for (const FSpec& f : l) { args.push_back(std::string("-") + (f.invert ? "x" : "") + (f.strict ? "s" : "") + which); args.push_back(f.text); }
    };
    add_filters(gf, "g"); add_filters(nf, "n");
    if (a.run_ignored) args.push_back("-ri");
    if (a.reverse) args.push_back("-b");
    if (a.shuffle) args.push_back(vf::fmt("-s%u", a.seed));
    if (a.repeat != 1) args.push_back(vf::fmt("-r%d", a.repeat));
    Rep rep; rep.desc = [&]() { std::string o = render_tests(tests) + " argv:"; for (size_t i = 1; i < args.size(); i++) o += " '" + vf::esc(args[i]) + "'";
        if (a.shuffle) { o += " rand answers:"; for (auto& v : a.answers) { o += " ("; for (int x : v) o += vf::fmt("%d ", x); o += ")"; } if (a.big) o += " as largest int of that residue"; }
        return o; };
    RunSummary sum;
    g_console.clear(); g_capture = true; g_ev.clear(); g_counters.clear();
    PlatformSpecificSrand = srand_stub; PlatformSpecificRand = rand_stub;
    g_answers.clear(); for (auto& v : a.answers) for (int x : v) g_answers.push_back(x);
    g_ans_pos = 0; g_rand_k = 0; g_rand_big = a.big;
    {
        World w(tests, FList(), FList());
        g_rand_n = w.n;
        std::vector<const char*> av; for (auto& s : args) av.push_back(s.c_str());
        vf::ctx("runner");
        int rv;
        { RecRunner runner((int)av.size(), av.data(), &w.reg); rv = runner.runAllTestsMain(); }
        (void)rv;
        UtestShell::setRethrowExceptions(false);
        w.reg.setGroupFilters(nullptr); w.reg.setNameFilters(nullptr);     // the runner's filter objects are gone
        g_capture = false;
        check_list(w, rep, "after the runner returned");
        auto reps = split_repetitions(rep, "runner");
        if ((int)reps.size() != a.repeat) rep.fail("runner/repetition-count", vf::fmt("runner: %zu repetitions observed, %d requested; console: %s", reps.size(), a.repeat, vf::esc(g_console.substr(0, 160)).c_str()));
        size_t pos = 0;
        for (size_t r = 0; r < reps.size() && !rep.list_broken; r++) {
            const Counters* cn = r < g_counters.size() ? &g_counters[r] : nullptr;
            sum.last = check_repetition(tests, gf, nf, a.run_ignored, reps[r].first, reps[r].second, cn, rep, "runner", (int)r + 1, &sum.last_order);
            sum.runs++;
            size_t c[5];
            if (!parse_summary(g_console, pos, c)) { rep.fail("summary/missing", vf::fmt("runner, repetition %zu: no summary line in the console output", r + 1)); break; }
            // the printed summary is the public face of the counters: it must show the same numbers
            if (cn && (c[0] != cn->tests || c[1] != cn->run || c[3] != cn->ignored || c[4] != cn->filtered))
                rep.fail("summary/differs-from-counters", vf::fmt("runner, repetition %zu: printed %zu tests, %zu ran, %zu ignored, %zu filtered out; TestResult holds %zu, %zu, %zu, %zu", r + 1, c[0], c[1], c[3], c[4], cn->tests, cn->run, cn->ignored, cn->filtered));
            vf::count("tests_visited", (long)tests.size());
        }
        sum.reordered = a.reverse || a.shuffle;
    }
    if (vf::want_sample()) vf::sample(rep.desc());
    return sum;
}

// ------------------------------------------------------------------ alphabets
std::vector<FSpec> atoms(const std::vector<std::string>& strings) {
    std::vector<FSpec> a;
    for (int inv = 0; inv < 2; inv++) for (int strict = 0; strict < 2; strict++) for (auto& s : strings) a.push_back(FSpec{s, strict != 0, inv != 0});
    return a;
}
std::vector<FList> lists_upto2(const std::vector<FSpec>& a) {
    std::vector<FList> l; l.push_back(FList());
    for (auto& x : a) l.push_back(FList{x});
    for (auto& x : a) for (auto& y : a) l.push_back(FList{x, y});
    return l;
}
const FList& none_list() { static const FList l; return l; }
// registries: index -> sequence of kinds (length 0..maxn over k kinds), shortest first
long registries_upto(int k, int maxn) { long t = 0, p = 1; for (int n = 0; n <= maxn; n++) { t += p; p *= k; } return t; }
std::vector<int> registry_kinds(long idx, int k) {
    long p = 1; int n = 0; while (idx >= p) { idx -= p; p *= k; n++; }
    std::vector<int> v(n); for (int i = 0; i < n; i++) { v[i] = (int)(idx % k); idx /= k; } return v;
}
long factorial(int n) { long f = 1; for (int i = 2; i <= n; i++) f *= i; return f; }
// code in [0, n!) -> answers for rand() % n, % (n-1), ..., % 2
std::vector<int> answers_from(long code, int n) { std::vector<int> a; for (int m = n; m >= 2; m--) { a.push_back((int)(code % m)); code /= m; } return a; }

std::string order_str(const std::vector<int>& o) { std::string s; for (int i : o) s += (char)(i < 10 ? '0' + i : 'a' + i - 10); return s; }
bool is_identity(const std::vector<int>& o) { for (size_t i = 0; i < o.size(); i++) if (o[i] != (int)i) return false; return true; }

struct Block { long size; long base; int n; int extra; };
struct Blocks {
    std::vector<Block> b; long total = 0;
    void add(long size, int n, int extra = 0) { b.push_back(Block{size, total, n, extra}); total += size; }
    const Block& find(long idx, long& local) const { for (auto& x : b) if (idx < x.base + x.size) { local = idx - x.base; return x; } vf::harness_error("index beyond blocks"); }
};

} // namespace

int main(int argc, char** argv) {
    vf::init(argc, argv, "C02");
    MemoryLeakWarningPlugin::turnOffNewDeleteOverloads();
    g_real_srand = PlatformSpecificSrand; g_real_rand = PlatformSpecificRand;
    PlatformSpecificSrand = srand_stub; PlatformSpecificRand = rand_stub;
    PlatformSpecificFPuts = fputs_capture; PlatformSpecificFlush = flush_nop;
    GetPlatformSpecificTimeInMillis = time_zero; GetPlatformSpecificTimeString = timestr_fixed;
    const bool T = vf::thorough();

    vf::info("rule", "registries of scripted tests (group, name, ignored) x filter lists (substring/strict, plain/inverted, several per side) x run-ignored x repetitions x reorderings "
                     "(reverse; shuffle with every vector of rand() answers) run through the real registry or the real command line runner; every repetition is compared with the "
                     "property: exactly-once, counters, selection rule, permutation, balanced group notifications. Non-trivial = filter sections: a filter is given and (single test) "
                     "or some test is selected and some filtered out (several tests); order sections: the observed order differs from the registration order; config: some option call is made before the last addTest; selstr: a substring filter of length >= 2 shorter than the string is in the list");

    // ---------------------------------------------------------------- sel1: one test, full filter-list pairs
    {
        std::vector<std::string> gs = {"A", "AB", "B", ""}, ns = {"x", "xy", "y", ""};
        if (T) { gs.push_back("\xff"); ns.push_back("\xff"); }
        std::vector<FList> gl = lists_upto2(atoms(gs)), nl = lists_upto2(atoms(ns));
        long G = (long)gs.size(), N = (long)ns.size();
        std::vector<std::pair<int, int>> pairs;                   // quick: at least one side has <= 1 filter; thorough: the full product
        for (size_t a = 0; a < gl.size(); a++) for (size_t b = 0; b < nl.size(); b++) if (T || gl[a].size() <= 1 || nl[b].size() <= 1) pairs.push_back({(int)a, (int)b});
        long P = (long)pairs.size();
        vf::info("sel1.bound", vf::fmt("one test with group in %ld strings x name in %ld strings (incl. empty%s) x ignored {0,1} x run-ignored {off,on}; ordered group filter lists of length <= 2 "
                                       "(%zu) x name filter lists of length <= 2 (%zu) over {those strings} x {substring,strict} x {plain,inverted}: %s = %ld pairs",
                                       G, N, T ? " and a high byte" : "", gl.size(), nl.size(), T ? "the full product" : "all pairs in which at least one side has <= 1 filter", P));
        vf::section_index("sel1", P * G * N * 2 * 2, [&](long idx) {
            vf::Radix r(idx); long g = r.take(G), n = r.take(N), ign = r.take(2), ri = r.take(2), p = r.take(P);
            int a = pairs[p].first, b = pairs[p].second;
            std::vector<TSpec> tests = {TSpec{gs[g], ns[n], ign != 0}};
            std::vector<Step> st; if (ri) st.push_back(Step::set_ri()); st.push_back(Step::run());
            RunSummary s = run_registry(tests, gl[a], nl[b], st);
            vf::outcome(vf::fmt("run=%zu ign=%zu flt=%zu", s.last.run, s.last.ignored, s.last.filtered));
            if (a || b) vf::count("nontrivial");
        });
        vf::require_outcomes("sel1", 3);
    }

    // ---------------------------------------------------------------- selstr: every short string against every short filter text
    {
        // all strings over {a,b}: self-overlapping filter texts and names in which the only occurrence starts inside a partial match are among them
        auto all_ab = [](int maxlen) { std::vector<std::string> v = {""}; size_t from = 0; for (int l = 1; l <= maxlen; l++) { size_t to = v.size(); for (size_t i = from; i < to; i++) { v.push_back(v[i] + "a"); v.push_back(v[i] + "b"); } from = to; } return v; };
        int nl = T ? 5 : 4, fl = T ? 4 : 3;
        std::vector<std::string> names = all_ab(nl), texts = all_ab(fl);
        for (const char* x : {"A", "AB", "B", "x", "xy", "y"}) { names.push_back(x); texts.push_back(x); }
        std::vector<FList> lists = lists_upto2(atoms(texts));
        long NM = (long)names.size(), LL = (long)lists.size();
        vf::info("selstr.bound", vf::fmt("one test whose name (group fixed) or group (name fixed) is any of %ld strings: all strings over {a,b} of length 0..%d plus {A,AB,B,x,xy,y}; filter list on that side: every ordered list of 0..2 filters "
                                         "over (all strings over {a,b} of length 0..%d plus those six) x {substring,strict} x {plain,inverted} = %ld lists; reference verdict from libc strstr/strcmp", NM, nl, fl, LL));
        vf::section_index("selstr", NM * LL * 2, [&](long idx) {
            vf::Radix r(idx); long side = r.take(2), n = r.take(NM), l = r.take(LL);
            std::vector<TSpec> tests = {side ? TSpec{names[n], "t", false} : TSpec{"G", names[n], false}};
            std::vector<Step> st = {Step::run()};
            RunSummary s = run_registry(tests, side ? lists[l] : none_list(), side ? none_list() : lists[l], st);
            vf::outcome(vf::fmt("run=%zu flt=%zu", s.last.run, s.last.filtered));
            bool sub = false; for (auto& f : lists[l]) if (!f.strict && f.text.size() >= 2 && f.text.size() < names[n].size()) sub = true;
            if (sub) vf::count("nontrivial");
        });
        vf::require_outcomes("selstr", 2);
    }

    // kinds of the multi-test sections
    const char* KG[2] = {"A", "B"}; const char* KN[2] = {"x", "xy"};
    auto kind_spec = [&](int k) { return TSpec{KG[k & 1], KN[(k >> 1) & 1], ((k >> 2) & 1) != 0}; };
    std::vector<FList> gl2 = lists_upto2(atoms({"A", "B", "AB", ""})), nl2 = lists_upto2(atoms({"x", "y", "xy", ""}));
    std::vector<std::pair<int, int>> light;                       // filter-list pairs with at most two filters in total
    for (size_t a = 0; a < gl2.size(); a++) for (size_t b = 0; b < nl2.size(); b++) if (gl2[a].size() + nl2[b].size() <= 2) light.push_back({(int)a, (int)b});
    const long L = (long)light.size();

    // ---------------------------------------------------------------- selN: several tests, two runs on the same registry
    {
        int maxn = T ? 4 : 3; long R = registries_upto(8, maxn);
        vf::info("selN.bound", vf::fmt("all %ld registries of 0..%d tests over 8 kinds (group {A,B} x name {x,xy} x ignored) x %ld filter-list pairs with <= 2 filters in total "
                                       "(strings {A,B,AB,''} / {x,y,xy,''} x strict x inverted) x {run-ignored off, on, off for the first run and on for the second}; two runs per case", R, maxn, L));
        vf::section_index("selN", R * L * 3, [&](long idx) {
            vf::Radix r(idx); long mode = r.take(3), f = r.take(L), reg = r.take(R);
            std::vector<TSpec> tests; for (int k : registry_kinds(reg, 8)) tests.push_back(kind_spec(k));
            std::vector<Step> st;
            if (mode == 1) st.push_back(Step::set_ri());
            st.push_back(Step::run());
            if (mode == 2) st.push_back(Step::set_ri());
            st.push_back(Step::run());
            RunSummary s = run_registry(tests, gl2[light[f].first], nl2[light[f].second], st);
            vf::outcome(vf::fmt("run=%zu ign=%zu flt=%zu", std::min<size_t>(s.last.run, 2), std::min<size_t>(s.last.ignored, 2), std::min<size_t>(s.last.filtered, 2)));
            if (s.last.filtered && s.last.run + s.last.ignored) vf::count("nontrivial");
        });
        vf::require_outcomes("selN", 12);
    }

    // ---------------------------------------------------------------- rsel: the same through the command line runner
    {
        int maxn = T ? 3 : 2; long R = registries_upto(8, maxn); int reps = T ? 3 : 2;
        vf::info("rsel.bound", vf::fmt("command line runner (-v, -g/-sg/-xg/-xsg, -n/-sn/-xn/-xsn, -ri, -b, -rN): all %ld registries of 0..%d tests over the 8 kinds x %ld filter-list pairs x run-ignored {off,on} x reverse {off,on} x repeat 1..%d", R, maxn, L, reps));
        vf::section_index("rsel", R * L * 2 * 2 * reps, [&](long idx) {
            vf::Radix r(idx); long ri = r.take(2), b = r.take(2), rp = r.take(reps), f = r.take(L), reg = r.take(R);
            std::vector<TSpec> tests; for (int k : registry_kinds(reg, 8)) tests.push_back(kind_spec(k));
            RunnerArgs a; a.run_ignored = ri != 0; a.reverse = b != 0; a.repeat = (int)rp + 1;
            RunSummary s = run_runner(tests, gl2[light[f].first], nl2[light[f].second], a);
            vf::outcome(vf::fmt("run=%zu ign=%zu flt=%zu", std::min<size_t>(s.last.run, 2), std::min<size_t>(s.last.ignored, 2), std::min<size_t>(s.last.filtered, 2)));
            if (s.last.filtered && s.last.run + s.last.ignored) vf::count("nontrivial");
        });
        vf::require_outcomes("rsel", 8);
    }

    // ---------------------------------------------------------------- config: the ORDER of the configuration calls
    {
        // option calls: 0 setRunIgnored, 1 setGroupFilters, 2 setNameFilters, 3 reverseTests, 4 an interim runAllTests, 5 a second setRunIgnored.
        // Each enumerated call is absent or placed before the k-th addTest (k = 0..N-1) or after the last one (k = N); calls at the
        // same place run in the order listed (so "run, then setRunIgnored" and "setRunIgnored, then run" both occur). Two runs at the end.
        const char* OPN[6] = {"setRunIgnored", "setGroupFilters", "setNameFilters", "reverseTests", "interim run", "second setRunIgnored"};
        Blocks bl;  // extra = mask of enumerated calls | gfv variants << 8
        auto add = [&](int n, int mask, int gfv) { long sz = gfv; for (int i = 0; i < n; i++) sz *= 4; for (int o = 0; o < 6; o++) if (mask & (1 << o)) sz *= n + 2; bl.add(sz, n, mask | (gfv << 8)); };
        if (!T) { add(2, 0x3f, 2); add(3, 0x1f, 1); add(4, 0x1b, 1); }
        else { add(2, 0x3f, 2); add(3, 0x3f, 2); add(4, 0x1f, 1); }
        vf::info("config.bound", T ? "nothing registered at the start; tests are added one by one and the option calls {setRunIgnored, setGroupFilters, setNameFilters, reverseTests, an interim run, a second setRunIgnored} are each absent or placed before any addTest or after the last: 2 and 3 tests (all six calls, group filter -sg A / -xg A), 4 tests (first five calls); tests over 4 kinds (group {A,B} x ignored; names x/xy alternate); name filter -sn x; two runs at the end; every run (interim and final) is compared with the reference for the tests registered and the options in force at that moment"
                                   : "nothing registered at the start; tests are added one by one and the option calls {setRunIgnored, setGroupFilters, setNameFilters, reverseTests, an interim run, a second setRunIgnored} are each absent or placed before any addTest or after the last: 2 tests (all six calls, group filter -sg A / -xg A), 3 tests (first five calls), 4 tests (setRunIgnored, setGroupFilters, reverseTests, interim run); tests over 4 kinds (group {A,B} x ignored; names x/xy alternate); name filter -sn x; two runs at the end; every run (interim and final) is compared with the reference for the tests registered and the options in force at that moment");
        vf::section_index("config", bl.total, [&](long idx) {
            long loc; const Block& b = bl.find(idx, loc); vf::Radix r(loc);
            int mask = b.extra & 0xff, gfvn = b.extra >> 8, n = b.n;
            int pos[6]; bool early = false;
            for (int o = 0; o < 6; o++) { pos[o] = (mask & (1 << o)) ? (int)r.take(n + 2) - 1 : -1; if (pos[o] >= 0 && pos[o] < n) early = true; }
            long gfv = r.take(gfvn);
            std::vector<TSpec> tests; for (int i = 0; i < n; i++) { long k = r.take(4); tests.push_back(TSpec{(k & 1) ? "B" : "A", i % 2 ? "xy" : "x", (k & 2) != 0}); }
            FList gf = {gfv ? FSpec{"A", false, true} : FSpec{"A", true, false}}, nf = {FSpec{"x", true, false}};
            std::vector<Step> st;
            for (int k = 0; k <= n; k++) {
                for (int o = 0; o < 6; o++) if (pos[o] == k) st.push_back(o == 0 || o == 5 ? Step::set_ri() : o == 1 ? Step::set_gf() : o == 2 ? Step::set_nf() : o == 3 ? Step::reverse() : Step::run());
                if (k < n) st.push_back(Step::add(k));
            }
            st.push_back(Step::run()); st.push_back(Step::run());
            (void)OPN;
            RunSummary s = run_registry(tests, gf, nf, st, true);
            vf::outcome(vf::fmt("run=%zu ign=%zu flt=%zu", std::min<size_t>(s.last.run, 2), std::min<size_t>(s.last.ignored, 2), std::min<size_t>(s.last.filtered, 2)));
            if (early) vf::count("nontrivial");
        });
        vf::require_outcomes("config", 12);
    }

    // tests of the order sections: group by bit mask, names alternate, every third test is an ignored one
    auto order_tests = [&](int n, long groups) {
        std::vector<TSpec> t; for (int i = 0; i < n; i++) t.push_back(TSpec{(groups >> i) & 1 ? "B" : "A", i % 2 ? "xy" : "x", i % 3 == 2}); return t;
    };
    const FList none; const FList strict_x = {FSpec{"x", true, false}};

    // ---------------------------------------------------------------- shuffle: every answer vector
    {
        int maxn = T ? 7 : 6; Blocks bl; long want = 0;
        for (int n = 0; n <= maxn; n++) { bl.add(factorial(n) * (1L << n) * 8, n); want += factorial(n); }
        vf::info("shuffle.bound", vf::fmt("0..%d tests x all 2^N group assignments over {A,B} x all N! vectors of rand() answers (each also as the largest int of the same residue) x "
                                          "{TestRegistry::shuffleTests, UtestShellPointerArray::shuffle} x {no filter, name filter -sn x with every third test an ignored one}; one run after the shuffle", maxn));
        vf::section_index("shuffle", bl.total, [&](long idx) {
            long loc; const Block& b = bl.find(idx, loc); vf::Radix r(loc);
            long big = r.take(2), arr = r.take(2), fv = r.take(2), groups = r.take(1L << b.n), code = r.take(factorial(b.n));
            std::vector<TSpec> tests = order_tests(b.n, groups);
            if (!fv) for (auto& t : tests) t.ignored = false;
            std::vector<Step> st = {Step::shuffle(answers_from(code, b.n), big != 0, arr != 0), Step::run()};
            long calls0 = g_rand_calls;
            RunSummary s = run_registry(tests, none, fv ? strict_x : none, st);
            if (!fv) { vf::outcome(vf::fmt("N=%d order=%s", b.n, order_str(s.last_order).c_str())); if (!is_identity(s.last_order)) vf::count("nontrivial"); }
            vf::count("rand_calls", g_rand_calls - calls0);
        });
        vf::require_outcomes("shuffle", (int)want);      // every one of the N! orders must have been produced
    }

    // ---------------------------------------------------------------- hist: sequences of reorderings with a run after each
    {
        Blocks bl;   // extra = number of operations
        auto add = [&](int n, int ops, bool all_groups) { long per = factorial(n) + 1, sz = all_groups ? (1L << n) : 1; for (int i = 0; i < ops; i++) sz *= per; bl.add(sz, n, ops | (all_groups ? 0 : 16)); };
        for (int n = 0; n <= 5; n++) for (int ops = 1; ops <= 2; ops++) add(n, ops, true);
        if (T) { for (int n = 2; n <= 4; n++) add(n, 3, true); add(6, 2, false); }
        vf::info("hist.bound", T ? "run; then 1..2 operations from {reverse, shuffle with any of the N! answer vectors}, a run after each: 0..5 tests x all 2^N group assignments; 3 operations for 2..4 tests; 2 operations for 6 tests with groups ABABAB"
                                 : "run; then 1..2 operations from {reverse, shuffle with any of the N! answer vectors}, a run after each: 0..5 tests x all 2^N group assignments");
        vf::section_index("hist", bl.total, [&](long idx) {
            long loc; const Block& b = bl.find(idx, loc); vf::Radix r(loc);
            int ops = b.extra & 15; bool all_groups = !(b.extra & 16); long per = factorial(b.n) + 1;
            std::vector<Step> st = {Step::run()};
            for (int i = 0; i < ops; i++) { long c = r.take(per); st.push_back(c == 0 ? Step::reverse() : Step::shuffle(answers_from(c - 1, b.n))); st.push_back(Step::run()); }
            long groups = all_groups ? r.take(1L << b.n) : 0x2a;
            std::vector<TSpec> tests = order_tests(b.n, groups);
            RunSummary s = run_registry(tests, none, none, st);
            vf::outcome(vf::fmt("N=%d order=%s", b.n, order_str(s.last_order).c_str()));
            if (!is_identity(s.last_order)) vf::count("nontrivial");
        });
        vf::require_outcomes("hist", 100);
    }

    // ---------------------------------------------------------------- rorder: runner with -s / -b / -r
    {
        int maxn = T ? 5 : 4; Blocks bl;
        for (int n = 0; n <= maxn; n++) for (int rep = 1; rep <= 2; rep++) { long sz = (1L << n) * 2 * 2; for (int i = 0; i < rep; i++) sz *= factorial(n); bl.add(sz, n, rep); }
        if (T) bl.add(4 * 2 * 2 * 8, 2, 3), bl.add(8 * 2 * 2 * 216, 3, 3);
        vf::info("rorder.bound", vf::fmt("command line runner with -s<seed> [-b] -r1..2%s: 0..%d tests x all 2^N group assignments x every combination of answer vectors for the shuffles of all repetitions x {plain, with -ri}", T ? " (and -r3 for 2..3 tests)" : "", maxn));
        vf::section_index("rorder", bl.total, [&](long idx) {
            long loc; const Block& b = bl.find(idx, loc); vf::Radix r(loc);
            RunnerArgs a; a.shuffle = true; a.repeat = b.extra; a.reverse = r.take(2) != 0; a.run_ignored = r.take(2) != 0; a.seed = (unsigned)(1 + idx % 4000);
            long groups = r.take(1L << b.n);
            for (int i = 0; i < a.repeat; i++) a.answers.push_back(answers_from(r.take(factorial(b.n)), b.n));
            RunSummary s = run_runner(order_tests(b.n, groups), none, none, a);
            vf::outcome(vf::fmt("N=%d order=%s", b.n, order_str(s.last_order).c_str()));
            if (!is_identity(s.last_order)) vf::count("nontrivial");
        });
        vf::require_outcomes("rorder", 30);
    }

    // ---------------------------------------------------------------- reverse: sizes up to MAXN
    {
        vf::info("reverse.bound", "0..40 tests (groups change every third test) x {reverseTests, UtestShellPointerArray::reverse, runner -b} x {once, twice}; a run after each reversal");
        vf::section_index("reverse", 41 * 3 * 2, [&](long idx) {
            vf::Radix r(idx); int n = (int)r.take(41); int via = (int)r.take(3); int twice = (int)r.take(2);
            std::vector<TSpec> tests; for (int i = 0; i < n; i++) tests.push_back(TSpec{(i / 3) % 2 ? "B" : "A", i % 2 ? "xy" : "x", i % 5 == 4});
            RunSummary s;
            if (via == 2) { RunnerArgs a; a.reverse = true; a.repeat = 1 + twice; s = run_runner(tests, none, none, a); }
            else { std::vector<Step> st = {Step::reverse(via == 1), Step::run()}; if (twice) { st.push_back(Step::reverse(via == 1)); st.push_back(Step::run()); } s = run_registry(tests, none, none, st); }
            bool rev = true; for (size_t i = 0; i < s.last_order.size(); i++) if (s.last_order[i] != (int)(s.last_order.size() - 1 - i)) rev = false;
            vf::outcome(is_identity(s.last_order) ? (rev ? "trivial" : "registration-order") : rev ? "reversed" : "other");
            if (!is_identity(s.last_order)) vf::count("nontrivial");
        });
        vf::require_outcomes("reverse", 2);
    }

    // ---------------------------------------------------------------- seeds: the real srand/rand (supplementary)
    {
        long S = T ? 65535 : 8192;
        vf::info("seeds.bound", vf::fmt("supplementary, real srand()/rand() of the C library: seeds 1..%ld x registries of 9 tests (3 groups of 3) and 33 tests (seeds 1..%ld); shuffle, run, shuffle with the same seed again, run", S, S / 8));
        vf::section_index("seeds", S + S / 8, [&](long idx) {
            int n = idx < S ? 9 : 33; unsigned seed = (unsigned)(idx < S ? idx + 1 : idx - S + 1);
            std::vector<TSpec> tests; for (int i = 0; i < n; i++) tests.push_back(TSpec{i % 3 == 0 ? "A" : i % 3 == 1 ? "B" : "AB", i % 2 ? "xy" : "x", i % 4 == 3});
            std::vector<Step> st = {Step::shuffle_real(seed), Step::run(), Step::shuffle_real(seed), Step::run()};
            RunSummary s = run_registry(tests, none, none, st);
            if (s.last_order.size() >= 3) vf::outcome(vf::fmt("N=%d first three: %d %d %d", n > 9 ? 33 : 9, s.last_order[0] % 9, s.last_order[1] % 9, s.last_order[2] % 9));
            if (!is_identity(s.last_order)) vf::count("nontrivial");
        });
        vf::require_outcomes("seeds", 200);
    }
    return vf::finish();
}

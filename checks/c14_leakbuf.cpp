// C14 (part 2) - the leak detector's fixed 4096-byte text buffer.
//
// Deciding step: every history of the stated alphabets (misuse reports of three kinds with file names
// of several lengths, optional startChecking, n leaks of one size / allocator / location length, one
// of three report sequences) is executed on a fresh real MemoryLeakDetector.
// Monitor (no source hook): the only writer into SimpleStringBuffer::buffer_ is the seam
// PlatformSpecificVSNprintf(buffer_ + filled, left + 1, ...). The interposer checks for every call
// whose destination lies inside the detector object that [dest, dest+size) is inside buffer_[0..4096)
// (an overflow inside the detector object is invisible to AddressSanitizer): when the bound handed to
// the formatter does not protect the buffer, the number of bytes that would be stored is computed and a
// store beyond buffer_[4095] is recorded; the call is clamped and forwarded.
#include <string>
#include <vector>
#include <cstring>
#include <cstdlib>
#include <cstdarg>
#include "vf.h"
#include "c14_common.h"
#include "CppUTest/TestHarness.h"
#include "CppUTest/MemoryLeakDetector.h"
#include "CppUTest/TestMemoryAllocator.h"
#include "CppUTest/PlatformSpecificFunctions.h"
#undef new

namespace {

const size_t BUFLEN = SimpleStringBuffer::SIMPLE_STRING_BUFFER_LEN;   // 4096

// ------------------------------------------------------------------ seam monitor
int (*real_vsnprintf)(char*, size_t, const char*, va_list) = nullptr;
MemoryLeakDetector* g_det = nullptr;
struct Violation { bool seen; long dest_off; unsigned long long size; unsigned long long stored; char fmt[48]; } g_viol;
long g_buffer_writes = 0, g_unbounded_calls = 0;

SimpleStringBuffer& sbuf(MemoryLeakDetector* d) { return d->outputBuffer_.outputBuffer_; }

int mon_vsnprintf(char* str, size_t size, const char* format, va_list ap)
{
    if (g_det) {
        char* obj = (char*)g_det;
        if (str >= obj && str < obj + sizeof(MemoryLeakDetector)) {
            char* buf = sbuf(g_det).buffer_;
            g_buffer_writes++;
            bool inside = str >= buf && str < buf + BUFLEN;
            if (!inside || size > (size_t)(buf + BUFLEN - str)) {
                // the bound handed to the formatter does not protect the buffer; how many bytes would it store?
                g_unbounded_calls++;
                va_list cp; va_copy(cp, ap);
                int need = real_vsnprintf(nullptr, 0, format, cp);
                va_end(cp);
                size_t stored = size == 0 ? 0 : need < 0 ? 0 : ((size_t)need + 1 < size ? (size_t)need + 1 : size);
                bool beyond = stored > 0 && (!inside || stored > (size_t)(buf + BUFLEN - str));
                if (beyond && !g_viol.seen) {
                    g_viol.seen = true; g_viol.dest_off = (long)(str - buf); g_viol.size = size; g_viol.stored = stored;
                    strncpy(g_viol.fmt, format, sizeof g_viol.fmt - 1); g_viol.fmt[sizeof g_viol.fmt - 1] = 0;
                }
                if (!inside) return need;                    // do not let it write at all
                size = (size_t)(buf + BUFLEN - str);         // clamp so that the run can continue safely
            }
        }
    }
    return real_vsnprintf(str, size, format, ap);
}

struct Recorder : MemoryLeakFailure {
    int calls = 0; bool unterminated = false; bool foreign_pointer = false;
    void fail(char* s) override {
        calls++;
        if (g_det && s != sbuf(g_det).buffer_) { foreign_pointer = true; return; }
        if (!memchr(s, 0, BUFLEN)) unterminated = true;
    }
};

// exact-size location strings ('f' repeated), shared by all cases (built before the workers fork)
std::vector<char*> g_names;
const char* name_of_len(size_t len)
{
    if (g_names.size() <= len) g_names.resize(len + 1, nullptr);
    if (!g_names[len]) { char* p = (char*)malloc(len + 1); memset(p, 'f', len); p[len] = 0; g_names[len] = p; }
    return g_names[len];
}

TestMemoryAllocator* allocator_of(int t) { return t == 0 ? defaultNewAllocator() : t == 1 ? defaultNewArrayAllocator() : defaultMallocAllocator(); }
const char* allocator_name(int t) { return t == 0 ? "new" : t == 1 ? "new[]" : "malloc"; }

size_t count_occurrences(const std::string& s, const char* what)
{
    size_t n = 0, p = 0, l = strlen(what);
    while ((p = s.find(what, p)) != std::string::npos) { n++; p += l; }
    return n;
}
bool contains_nocase(const std::string& s, const char* what)
{
    std::string a = s, b = what;
    for (auto& c : a) c = (char)tolower((unsigned char)c);
    for (auto& c : b) c = (char)tolower((unsigned char)c);
    return a.find(b) != std::string::npos;
}

// One history on a fresh detector.
struct History {
    // misuse phase
    int kind = 0;            // 0 release of unknown memory, 1 allocator mismatch, 2 guard overwritten
    int m = 0;               // number of misuse reports with file-name length F
    size_t F = 1;
    long F2 = -1;            // >= 0: one more misuse report with this file-name length
    bool start = false;      // startChecking() after the misuse phase (clears the text)
    // leaks
    int n = 0; size_t size = 1; int alloc_type = 0; size_t loc_len = 1;
    int reports = 0;         // 0: report(all)   1: report(checking); mark; report(enabled)   2: report(all) twice

    std::string describe() const {
        return vf::fmt("misuse{kind=%s m=%d fileLen=%zu extraFileLen=%ld} %s leaks{n=%d size=%zu via=%s locationLen=%zu} %s",
                       kind == 0 ? "unknown-release" : kind == 1 ? "type-mismatch" : "overwritten-guard", m, F, F2,
                       start ? "startChecking" : "-", n, size, allocator_name(alloc_type), loc_len,
                       reports == 0 ? "report(all)" : reports == 1 ? "report(checking);mark;report(enabled)" : "report(all);report(all)");
    }

    MemoryLeakDetector* det = nullptr;
    Recorder rec;
    std::string trace;
    bool stop = false;

    // safety after every operation; returns false when the history must end
    bool check_state(const char* op) {
        SimpleStringBuffer& sb = sbuf(det);
        if (g_viol.seen) {
            vf::fail(std::string(op) + "/write-beyond-buffer",
                     describe() + " :: at " + trace + vf::fmt(": the append stores %llu bytes at buffer+%ld (bound handed to the formatter: %llu, format \"%s\"); the buffer has %zu bytes", g_viol.stored, g_viol.dest_off, g_viol.size, vf::esc(g_viol.fmt).c_str(), BUFLEN));
            stop = true; return false;
        }
        if (!memchr(sb.buffer_, 0, BUFLEN)) { vf::fail(std::string(op) + "/text-not-terminated", describe() + " :: at " + trace + ": no NUL inside the 4096 bytes"); stop = true; return false; }
        if (sb.positions_filled_ > BUFLEN - 1 || sb.write_limit_ > BUFLEN - 1) {
            vf::fail(std::string(op) + "/fill-or-limit-out-of-range", describe() + " :: at " + trace + vf::fmt(": filled=%zu limit=%zu", sb.positions_filled_, sb.write_limit_));
            stop = true; return false;
        }
        if (strlen(sb.buffer_) != sb.positions_filled_) {
            vf::fail(std::string(op) + "/fill-position-differs-from-text-length", describe() + " :: at " + trace + vf::fmt(": text length %zu, fill position %zu", strlen(sb.buffer_), sb.positions_filled_));
            stop = true; return false;
        }
        if (rec.unterminated) { vf::fail(std::string(op) + "/unterminated-text-handed-to-reporter", describe() + " :: at " + trace); stop = true; return false; }
        if (rec.foreign_pointer) { vf::harness_error("reporter received a pointer that is not the detector's buffer"); }
        return true;
    }

    void misuse_once(size_t flen) {
        const char* file = name_of_len(flen);
        static char unknown_block[16];
        int before = rec.calls;
        if (kind == 0) {
            vf::ctx("misuse-unknown-release");
            det->deallocMemory(defaultNewAllocator(), unknown_block, file, 77);
        } else if (kind == 1) {
            vf::ctx("misuse-type-mismatch");
            char* p = det->allocMemory(defaultNewAllocator(), 4, file, 12345);
            memset(p, 'm', 4);
            det->deallocMemory(defaultMallocAllocator(), p, file, 77);
        } else {
            vf::ctx("misuse-overwritten-guard");
            char* p = det->allocMemory(defaultNewArrayAllocator(), 4, file, 12345);
            memset(p, 'c', 4);
            p[4] = 'X';     // first guard byte (inside the block the detector obtained)
            det->deallocMemory(defaultNewArrayAllocator(), p, file, 77);
        }
        if (rec.calls != before + 1) vf::harness_error("misuse operation did not reach the failure reporter exactly once");
        vf::count("ops");
    }

    // content of a report that was begun on a cleared buffer
    void check_truthful(const std::string& text, long expected_total, const char* which) {
        size_t listed = count_occurrences(text, "Alloc num (");
        size_t tp = text.find("Total number of leaks:");
        if (expected_total == 0) {
            if (listed != 0) vf::fail("report/lists-leaks-when-there-are-none", describe() + vf::fmt(" :: %s lists %zu entries, 0 leaks exist", which, listed));
            if (tp != std::string::npos && atol(text.c_str() + tp + strlen("Total number of leaks:")) != 0)
                vf::fail("report/total-wrong", describe() + vf::fmt(" :: %s states a non-zero total, 0 leaks exist", which));
            return;
        }
        if (tp == std::string::npos) {
            vf::fail("report/total-missing", describe() + vf::fmt(" :: %s (begun on a cleared buffer, %ld leaks) has no 'Total number of leaks:' line; text ends with \"%s\"", which, expected_total,
                                                                   vf::esc(text.size() > 60 ? text.substr(text.size() - 60) : text).c_str()));
        } else {
            const char* p = text.c_str() + tp + strlen("Total number of leaks:");
            char* end = nullptr;
            long stated = strtol(p, &end, 10);
            if (end == p || stated != expected_total)
                vf::fail("report/total-wrong", describe() + vf::fmt(" :: %s states total \"%s\", %ld leaks exist", which, vf::esc(std::string(p).substr(0, 16)).c_str(), expected_total));
            else if (*end != '\n' && *end != 0 && *end != ' ' && *end != '\r')
                vf::fail("report/total-wrong", describe() + vf::fmt(" :: %s: digits of the total are followed by '%c'", which, *end));
        }
        if ((long)listed > expected_total) vf::fail("report/more-entries-than-leaks", describe() + vf::fmt(" :: %s lists %zu entries for %ld leaks", which, listed, expected_total));
        if ((long)listed < expected_total && !contains_nocase(text, "too many"))
            vf::fail("report/dropped-entries-not-announced", describe() + vf::fmt(" :: %s lists %zu of %ld leaks and does not say that entries were dropped", which, listed, expected_total));
        last_listed = (long)listed;
    }
    long last_listed = -1;

    void run() {
        if (vf::want_sample()) vf::sample(describe());
        c14::still_alive();
        g_viol.seen = false; g_buffer_writes = 0; g_unbounded_calls = 0;
        vf::ctx("construct");
        det = new MemoryLeakDetector(&rec);
        g_det = det;
        std::vector<char*> blocks;
        bool cleared = true;
        std::string oc;
        do {
            det->enable();
            // The detector lists leaks in hash order of their addresses. Allocation numbers start at 1000 here so that
            // every entry of a report has the same length (no mix of 1-, 2- and 3-digit numbers): the byte position at
            // which a report reaches the write limit, and with it every verdict, is then independent of heap addresses.
            det->allocationSequenceNumber_ = 1000;
            for (int i = 0; i < m && !stop; i++) {
                trace = vf::fmt("misuse#%d", i + 1);
                misuse_once(F); cleared = false;
                if (!check_state("misuse")) break;
            }
            if (stop) break;
            if (F2 >= 0) {
                trace = "misuse#extra";
                misuse_once((size_t)F2); cleared = false;
                if (!check_state("misuse")) break;
            }
            if (start) {
                trace = "startChecking"; vf::ctx("startChecking");
                det->startChecking(); cleared = true; vf::count("ops");
                if (sbuf(det).buffer_[0] != 0) vf::fail("startChecking/text-not-cleared", describe());
                if (!check_state("startChecking")) break;
            }
            const char* loc = name_of_len(loc_len);
            vf::ctx("allocMemory");
            TestMemoryAllocator* al = allocator_of(alloc_type);
            for (int i = 0; i < n; i++) {
                char* p = det->allocMemory(al, size, loc, 123, alloc_type == 2);
                for (size_t j = 0; j < size; j++) p[j] = (char)('A' + (i + j) % 50);
                blocks.push_back(p);
            }
            vf::count("ops", n);
            // what each report must state (leaks made after startChecking belong to the checking period, which
            // is part of the enabled period; all = everything)
            long in_checking = start ? n : 0;
            auto do_report = [&](MemLeakPeriod p, const char* name, long expected) -> bool {
                trace = name; vf::ctx("report");
                const char* r = det->report(p);
                vf::count("ops");
                if (r != sbuf(det).buffer_) vf::harness_error("report() returned something else than the fixed buffer");
                if (!check_state("report")) return false;
                std::string text(r);
                if (cleared) { check_truthful(text, expected, name); vf::count("truthfulness_checked"); }
                oc += vf::fmt("%s[%s:%s]", oc.empty() ? "" : " ", cleared ? "cleared" : "appended",
                              expected == 0 ? "none" : count_occurrences(text, "Alloc num (") < (size_t)expected ? "dropped" : "complete");
                cleared = false;
                return true;
            };
            if (reports == 0) { if (!do_report(mem_leak_period_all, "report(all)", n)) break; }
            else if (reports == 1) {
                if (!do_report(mem_leak_period_checking, "report(checking)", in_checking)) break;
                vf::ctx("markChecking"); det->markCheckingPeriodLeaksAsNonCheckingPeriod();
                if (!do_report(mem_leak_period_enabled, "report(enabled)#2", n)) break;
            } else {
                if (!do_report(mem_leak_period_all, "report(all)", n)) break;
                if (!do_report(mem_leak_period_all, "report(all)#2", n)) break;
            }
        } while (false);
        // give everything back (no message is produced by a correct release)
        vf::ctx("cleanup");
        int before = rec.calls;
        TestMemoryAllocator* al = allocator_of(alloc_type);
        for (char* p : blocks) det->deallocMemory(al, p, "cleanup", 1, alloc_type == 2);
        if (!stop && rec.calls != before) vf::fail("release/correct-release-reported-as-misuse", describe());
        g_det = nullptr;
        delete det; det = nullptr;
        if (stop) oc += " [overflow-stopped]";
        vf::outcome(oc);
        // non-trivial: the text reached the lowered write limit at some point (entries dropped, or earlier
        // messages already beyond it) or more than one kind of message shares the buffer
        if (oc.find("dropped") != std::string::npos || oc.find("appended") != std::string::npos || stop) vf::count("nontrivial");
        vf::count("buffer_writes", g_buffer_writes);
        if (g_unbounded_calls) vf::count("appends_whose_bound_exceeds_the_buffer", g_unbounded_calls);
    }
};

const size_t FILE_LENS[] = {1, 40, 200, 1000, 5000};
const int    LEAK_NS[]   = {0, 1, 2, 3, 5, 10, 20, 50, 100, 1000};
const size_t LEAK_SIZES[] = {1, 16, 17, 100, 5000};
const size_t LOC_COARSE[] = {200, 500, 1000, 3000, 3700, 4095, 4096, 5000};

} // namespace

void c14_leak_sections()
{
    real_vsnprintf = PlatformSpecificVSNprintf;
    PlatformSpecificVSNprintf = mon_vsnprintf;
    // Case numbers do not depend on the tier (see c14_common.h): the dimension that grows with the tier is outermost.
    const bool T = vf::thorough();
    const bool RANGE_FULL = c14::full_space();
    for (size_t l = 0; l <= 260; l++) name_of_len(l);
    for (size_t l : FILE_LENS) name_of_len(l);
    for (size_t l : LOC_COARSE) name_of_len(l);

    // ---- report: reports begun on a cleared buffer (and what follows them)
    {
        // location lengths in case-number order: 0..63, the coarse ones, 64..127
        std::vector<size_t> locs;
        for (size_t l = 0; l < 64; l++) locs.push_back(l);
        for (size_t l : LOC_COARSE) locs.push_back(l);
        const long NLOC_Q = (long)locs.size();
        for (size_t l = 64; l < 128; l++) locs.push_back(l);
        const long NLOC = RANGE_FULL ? (long)locs.size() : NLOC_Q;
        vf::info("report.bound", vf::fmt("fresh detector; optional startChecking; n in {0,1,2,3,5,10,20,50,100,1000} leaks of one size in {1,16,17,100,5000} through new/new[]/malloc with a location string of length 0..%d or {200,500,1000,3000,3700,4095,4096,5000}; report sequences {report(all) | report(checking);mark;report(enabled) | report(all) twice}; full product%s",
                                         T ? 127 : 63, T ? "" : " except n=1000 with size 5000 (thorough tier only)"));
        const long INNER = 3L * 5 * 10 * 2 * 3;
        vf::section_index("report", NLOC * INNER, [&](long idx) {
            vf::Radix r(idx);
            History h;
            h.alloc_type = (int)r.take(3);
            h.size = LEAK_SIZES[r.take(5)];
            h.n = LEAK_NS[r.take(10)];
            h.start = r.take(2) != 0;
            h.reports = (int)r.take(3);
            h.loc_len = locs[r.take(NLOC)];
            if (!RANGE_FULL && h.n == 1000 && h.size == 5000) { vf::count("skipped_quick"); return; }
            h.run();
        });
        vf::require_outcomes("report", 6);
    }
    // ---- misuse: m misuse messages of one kind, then the same
    {
        const int M = RANGE_FULL ? 40 : 30;
        vf::info("misuse.bound", vf::fmt("m in 0..%d misuse reports of one kind {release of unknown memory, allocator type mismatch, overwritten guard} with file-name length in {1,40,200,1000,5000}; optional startChecking; n in {0,1,3,40} leaks of size 17 via new, location length 40; the three report sequences; full product", T ? 40 : 30));
        const int NS[] = {0, 1, 3, 40};
        long N = 3L * 5 * 2 * 4 * 3 * (M + 1);
        vf::section_index("misuse", N, [&](long idx) {
            vf::Radix r(idx);
            History h;
            h.kind = (int)r.take(3);
            h.F = FILE_LENS[r.take(5)];
            h.start = r.take(2) != 0;
            h.n = NS[r.take(4)];
            h.reports = (int)r.take(3);
            h.m = (int)r.take(M + 1);
            h.size = 17; h.alloc_type = 0; h.loc_len = 40;
            h.run();
        });
        vf::require_outcomes("misuse", 6);
    }
    // ---- misusefine: accumulated text of every length: m messages (file-name length 1) + one with length 0..159
    {
        const int M = 30;
        vf::info("misusefine.bound", vf::fmt("m in 0..%d releases of unknown memory with file-name length 1 plus one with file-name length 0..159 (one message is ~142 bytes, so the accumulated text takes every length from one message up to the full buffer); optional startChecking; n in %s leaks via malloc; report sequences %s; full product", M,
                                             T ? "{0,2,40}" : "{0,2}", T ? "all three" : "{report(all), report(all) twice}"));
        const int NS[] = {0, 2, 40};
        const int REPORTS[] = {0, 2, 1};
        const long INNER = 160L * (M + 1) * 2;
        const long OUTER = RANGE_FULL ? 9 : 4;       // (leak count, report sequence) pairs in square-shell order: the first 4 are {0,2} x {report(all), twice}
        vf::section_index("misusefine", OUTER * INNER, [&](long idx) {
            vf::Radix r(idx);
            History h;
            h.F2 = r.take(160);
            h.m = (int)r.take(M + 1);
            h.kind = 0; h.F = 1;
            h.start = r.take(2) != 0;
            long ni, ri; c14::shell_pair(r.take(OUTER), ni, ri);
            h.n = NS[ni];
            h.reports = REPORTS[ri];
            h.size = 17; h.alloc_type = 2; h.loc_len = 40;
            h.run();
        });
        vf::require_outcomes("misusefine", 4);
    }
}

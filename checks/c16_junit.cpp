// C16 - JUnit report is well-formed XML and faithful to the run.
//
// Deciding step: every run of a finite, explicitly enumerated family of programs (scripted tests in a private
// TestRegistry, real UtestShell / IgnoredUtestShell / TestResult / JUnitTestOutput) is executed; every file the
// output object writes is captured through the PlatformSpecificFOpen/FPuts/FClose seams and handed to an
// independent, standards-conforming XML parser (expat, loaded with dlopen because the link line is fixed). The
// parsed document is compared with the ground truth of the run (what the scripted tests did), never with text the
// implementation produced.
//
//   struct / struct3x2 / struct3x3 / struct2x4 : all pass/fail/fail-twice/ignored patterns of <= 2 groups x <= 3
//                      tests and <= 3 x <= 2 (with and without package), thorough: <= 3 x <= 3 and <= 2 x <= 4
//   text1 / text2 / text3 : seven text fields (group, test name, test file, failure file, package, failure
//                      message, printed output); every atom of an alphabet of XML- and file-name-relevant texts in
//                      one field, in every pair of fields (and every triple, thorough), the others plain
//   short            : every string up to length 2 (3) over {a & < > " ' LF CR ; #} in one field, the others plain
#include <string>
#include <vector>
#include <memory>
#include <cstring>
#include <cctype>
#include <dlfcn.h>
#include <expat.h>
#define VF_MAIN
#include "vf.h"
#include "CppUTest/TestHarness.h"
#include "CppUTest/TestRegistry.h"
#include "CppUTest/TestOutput.h"
#include "CppUTest/TestResult.h"
#include "CppUTest/JUnitTestOutput.h"
#include "CppUTest/PlatformSpecificFunctions.h"
#undef new

namespace {

// ------------------------------------------------------------------ the judge: expat
struct Expat {
    decltype(&XML_ParserCreate) ParserCreate;
    decltype(&XML_ParserFree) ParserFree;
    decltype(&XML_SetElementHandler) SetElementHandler;
    decltype(&XML_SetCharacterDataHandler) SetCharacterDataHandler;
    decltype(&XML_SetUserData) SetUserData;
    decltype(&XML_Parse) Parse;
    decltype(&XML_GetErrorCode) GetErrorCode;
    decltype(&XML_ErrorString) ErrorString;
    decltype(&XML_GetCurrentByteIndex) GetCurrentByteIndex;
    decltype(&XML_GetCurrentLineNumber) GetCurrentLineNumber;
    decltype(&XML_ExpatVersion) ExpatVersion;
    void load() {
        void* h = dlopen("libexpat.so.1", RTLD_NOW | RTLD_GLOBAL);
        if (!h) h = dlopen("libexpat.so", RTLD_NOW | RTLD_GLOBAL);
        if (!h) vf::harness_error(std::string("cannot load the expat XML parser (libexpat.so.1): ") + dlerror());
#define C16_SYM(field, name) do { field = (decltype(field))dlsym(h, name); if (!field) vf::harness_error("libexpat lacks " name); } while (0)
        C16_SYM(ParserCreate, "XML_ParserCreate");
        C16_SYM(ParserFree, "XML_ParserFree");
        C16_SYM(SetElementHandler, "XML_SetElementHandler");
        C16_SYM(SetCharacterDataHandler, "XML_SetCharacterDataHandler");
        C16_SYM(SetUserData, "XML_SetUserData");
        C16_SYM(Parse, "XML_Parse");
        C16_SYM(GetErrorCode, "XML_GetErrorCode");
        C16_SYM(ErrorString, "XML_ErrorString");
        C16_SYM(GetCurrentByteIndex, "XML_GetCurrentByteIndex");
        C16_SYM(GetCurrentLineNumber, "XML_GetCurrentLineNumber");
        C16_SYM(ExpatVersion, "XML_ExpatVersion");
#undef C16_SYM
    }
} X;

struct XNode {
    std::string name;
    std::vector<std::pair<std::string, std::string>> attrs;
    std::string text;                       // character data directly inside this element
    std::vector<XNode> kids;
    const std::string* attr(const char* n) const { for (auto& a : attrs) if (a.first == n) return &a.second; return nullptr; }
    std::vector<const XNode*> children(const char* n) const { std::vector<const XNode*> v; for (auto& k : kids) if (k.name == n) v.push_back(&k); return v; }
};
struct XDoc {
    bool ok = false; std::string error; long err_byte = -1; long err_line = 0;
    XNode top;                               // synthetic; top.kids[0] is the document element
    std::vector<XNode*> stack;
};
void XMLCALL on_start(void* ud, const XML_Char* name, const XML_Char** atts) {
    XDoc* d = (XDoc*)ud;
    XNode* parent = d->stack.back();
    parent->kids.emplace_back();
    XNode* n = &parent->kids.back();
    n->name = name;
    for (int i = 0; atts[i]; i += 2) n->attrs.emplace_back(atts[i], atts[i + 1]);
    d->stack.push_back(n);
}
void XMLCALL on_end(void* ud, const XML_Char*) { XDoc* d = (XDoc*)ud; if (d->stack.size() > 1) d->stack.pop_back(); }
void XMLCALL on_text(void* ud, const XML_Char* s, int len) { XDoc* d = (XDoc*)ud; d->stack.back()->text.append(s, (size_t)len); }

void parse_xml(const std::string& bytes, XDoc& d) {
    d.stack.clear(); d.stack.push_back(&d.top);
    XML_Parser p = X.ParserCreate(nullptr);          // encoding taken from the document's own declaration
    if (!p) vf::harness_error("XML_ParserCreate failed");
    X.SetUserData(p, &d);
    X.SetElementHandler(p, on_start, on_end);
    X.SetCharacterDataHandler(p, on_text);
    if (X.Parse(p, bytes.data(), (int)bytes.size(), 1) == XML_STATUS_ERROR) {
        d.ok = false;
        d.error = X.ErrorString(X.GetErrorCode(p));
        d.err_byte = (long)X.GetCurrentByteIndex(p);
        d.err_line = (long)X.GetCurrentLineNumber(p);
    } else d.ok = true;
    X.ParserFree(p);
}

// ------------------------------------------------------------------ capture of the file seams
struct CapFile {
    std::string name, mode, content;
    bool closed = false; int writes_after_close = 0, closes = 0;
};
std::vector<std::unique_ptr<CapFile>> g_files;
std::string g_console;
int g_foreign_close;
CapFile* find_file(PlatformSpecificFile f) { for (auto& p : g_files) if ((void*)p.get() == f) return p.get(); return nullptr; }
PlatformSpecificFile cap_open(const char* name, const char* mode) {
    g_files.emplace_back(new CapFile);
    g_files.back()->name = name ? name : "(null)"; g_files.back()->mode = mode ? mode : "(null)";
    return (PlatformSpecificFile)g_files.back().get();
}
void cap_puts(const char* s, PlatformSpecificFile f) {
    CapFile* c = find_file(f);
    if (!c) { g_console += s; return; }
    if (c->closed) { c->writes_after_close++; return; }
    c->content += s;
}
void cap_close(PlatformSpecificFile f) { CapFile* c = find_file(f); if (!c) { g_foreign_close++; return; } c->closed = true; c->closes++; }
void flush_nop() {}
unsigned long time_zero() { return 0; }
const char* timestr_fixed() { return "1970-01-01T00:00:00"; }

// ------------------------------------------------------------------ programs
enum { PASS = 0, FAIL, FAIL2, IGN };
const char* ONAME[] = {"pass", "fail", "fail-twice", "ignored"};
struct TestSpec {
    std::string name, file; size_t line = 0; int outcome = PASS;
    std::string ffile; size_t fline = 0; std::string msg, msg2;
    bool prints = false; std::string out;
};
struct GroupSpec { std::string name; std::vector<TestSpec> tests; };
struct Program { bool has_package = false; std::string package; std::vector<GroupSpec> groups; int repeat = 1; /* runs on ONE output object (-r2) */ };

struct ScriptTest : Utest {
    const TestSpec* s;
    explicit ScriptTest(const TestSpec* spec) : s(spec) {}
    void testBody() override {
        UtestShell* cur = UtestShell::getCurrent();
        if (s->prints) cur->getTestResult()->print(s->out.c_str());
        if (s->outcome == FAIL || s->outcome == FAIL2) cur->fail(s->msg.c_str(), s->ffile.c_str(), s->fline);
    }
    void teardown() override {
        if (s->outcome == FAIL2) UtestShell::getCurrent()->fail(s->msg2.c_str(), s->ffile.c_str(), s->fline + 1);
    }
};
template <class Base> struct ScriptShellT : Base {
    const TestSpec* s;
    ScriptShellT(const char* group, const TestSpec* spec) : Base(group, spec->name.c_str(), spec->file.c_str(), spec->line), s(spec) {}
    Utest* createTest() override { return new ScriptTest(s); }
};

// ------------------------------------------------------------------ reference (from the property statement)
const char* FORBIDDEN_IN_FILE_NAMES = "/\\?%*:|\"<>";
// every listed character must have become '_'; letters, digits, '_', '.', '-' must be unchanged; any other
// character (blank, &, ', line breaks, ...) may be kept or replaced (the statement does not say)
bool file_name_acceptable(const std::string& actual, const std::string& base) {
    if (actual.size() != base.size() + 4 || actual.compare(base.size(), 4, ".xml") != 0) return false;
    for (size_t i = 0; i < base.size(); i++) {
        unsigned char c = (unsigned char)base[i]; char a = actual[i];
        if (strchr(FORBIDDEN_IN_FILE_NAMES, c)) { if (a != '_') return false; }
        else if (isalnum(c) || c == '_' || c == '.' || c == '-') { if (a != (char)c) return false; }
        else if (a != (char)c && a != '_') return false;
    }
    return true;
}
bool ends_with(const std::string& s, const std::string& tail) { return s.size() >= tail.size() && s.compare(s.size() - tail.size(), tail.size(), tail) == 0; }
std::string clip(const std::string& s, size_t n = 700) { return s.size() <= n ? vf::esc(s) : vf::esc(s.substr(0, n)) + "..."; }

struct Verdict { int notwf = 0, mismatches = 0; };

// one defect makes thousands of cases fail: after 100 full witnesses of a signature in one worker the detail is
// shortened (the count and the case id are still recorded; --replay always prints the full detail)
std::map<std::string, int> g_sig_seen;
void report(const std::string& sig, const std::string& desc, const std::string& detail) {
    if (!vf::g_replaying && ++g_sig_seen[sig] > 100) vf::fail(sig, "(same signature as earlier witnesses; replay this case for the detail)");
    else vf::fail(sig, desc + " => " + detail);
}

Verdict judge(const Program& p, const std::string& desc) {
    Verdict v;
    auto bad = [&](const std::string& sig, const std::string& detail) { v.mismatches++; report(sig, desc, detail); };
    size_t expected_files = p.groups.size() * (size_t)p.repeat;
    if (g_files.size() != expected_files) {
        // files can no longer be attributed to groups by position: report this alone (comparing file k with group k would
        // only produce misleading follow-up signatures)
        std::string opened; for (auto& f : g_files) opened += " '" + vf::esc(f->name) + "'";
        bad(g_files.size() < expected_files ? "files/fewer-than-groups" : "files/more-than-groups", vf::fmt("%zu files opened for %zu groups x %d runs:", g_files.size(), p.groups.size(), p.repeat) + opened);
        return v;
    }
    if (g_foreign_close) bad("files/close-of-unknown-handle", "FClose called with a handle FOpen never returned");
    size_t n = std::min(g_files.size(), expected_files);
    // captured output: the unchanged implementation keeps ONE buffer per output object that is never cleared, so the
    // file of a group carries everything printed since the object was created. Accepted (each exactly): that, or
    // everything printed since the start of the run, or what was printed during the group.
    std::string printed_since_creation, printed_since_run_start;
    for (size_t k = 0; k < n; k++) {
        size_t gi = k % p.groups.size(), run = k / p.groups.size();
        if (gi == 0) printed_since_run_start.clear();
        const CapFile& f = *g_files[k]; const GroupSpec& g = p.groups[gi];
        std::string printed; for (auto& t : g.tests) if (t.prints && t.outcome != IGN) printed += t.out;
        std::string printed_before = printed_since_creation;
        printed_since_creation += printed; printed_since_run_start += printed;
        std::string where = vf::fmt("run %zu file #%zu '", run, gi) + vf::esc(f.name) + "': ";
        if (f.mode != "w") bad("files/open-mode", where + "opened with mode '" + f.mode + "'");
        if (!f.closed || f.closes != 1) bad("files/not-closed-once", where + vf::fmt("closed %d times", f.closes));
        if (f.writes_after_close) bad("files/write-after-close", where + vf::fmt("%d writes after close", f.writes_after_close));
        std::string base = "cpputest_" + (p.has_package ? p.package + "_" : std::string()) + g.name;
        // an empty package name: "no package" (what the unchanged code does) or an empty package part are both readings
        bool name_ok = file_name_acceptable(f.name, base) || (p.has_package && p.package.empty() && file_name_acceptable(f.name, "cpputest_" + g.name));
        if (!name_ok) bad("filename/not-derived-from-package-and-group", where + "expected '" + vf::esc(base) + ".xml' with each of /\\?%*:|\"<> replaced by _");

        XDoc d; parse_xml(f.content, d);
        if (!d.ok) {
            v.notwf++;
            report("xml/not-well-formed", desc, where + "expat: " + d.error + vf::fmt(" at line %ld byte %ld of: ", d.err_line, d.err_byte) + clip(f.content));
            continue;
        }
        if (d.top.kids.size() != 1 || d.top.kids[0].name != "testsuite") { bad("suite/root-element", where + "document element is not testsuite: " + clip(f.content)); continue; }
        const XNode& suite = d.top.kids[0];
        size_t want_failed = 0; for (auto& t : g.tests) if (t.outcome == FAIL || t.outcome == FAIL2) want_failed++;
        const std::string* a;
        a = suite.attr("tests");
        if (!a || *a != std::to_string(g.tests.size())) bad("suite/tests-count", where + "tests=" + (a ? "'" + vf::esc(*a) + "'" : "(absent)") + vf::fmt(", the group ran %zu tests", g.tests.size()));
        a = suite.attr("failures");
        if (!a || *a != std::to_string(want_failed)) bad("suite/failures-count", where + "failures=" + (a ? "'" + vf::esc(*a) + "'" : "(absent)") + vf::fmt(", %zu tests of the group failed", want_failed));

        std::vector<const XNode*> tcs = suite.children("testcase");
        if (tcs.size() != g.tests.size()) { bad(tcs.size() < g.tests.size() ? "testcase/fewer-than-tests" : "testcase/more-than-tests", where + vf::fmt("%zu testcase elements for %zu tests: ", tcs.size(), g.tests.size()) + clip(f.content)); }
        size_t m = std::min(tcs.size(), g.tests.size());
        for (size_t ti = 0; ti < m; ti++) {
            const XNode& tc = *tcs[ti]; const TestSpec& t = g.tests[ti];
            std::string tw = where + vf::fmt("testcase #%zu: ", ti);
            a = tc.attr("name");
            if (!a || *a != t.name) bad("testcase/name", tw + "name=" + (a ? "'" + vf::esc(*a) + "'" : "(absent)") + ", test is named '" + vf::esc(t.name) + "'");
            a = tc.attr("file");
            if (!a || *a != t.file) bad("testcase/file", tw + "file=" + (a ? "'" + vf::esc(*a) + "'" : "(absent)") + ", test is in '" + vf::esc(t.file) + "'");
            a = tc.attr("line");
            if (!a || *a != std::to_string(t.line)) bad("testcase/line", tw + "line=" + (a ? "'" + vf::esc(*a) + "'" : "(absent)") + vf::fmt(", test is at line %zu", t.line));
            size_t nskip = tc.children("skipped").size(), nfail = tc.children("failure").size();
            bool ignored = t.outcome == IGN, failed = t.outcome == FAIL || t.outcome == FAIL2;
            if (ignored && nskip != 1) bad("testcase/skipped-marker-missing", tw + vf::fmt("ignored test has %zu skipped elements", nskip));
            if (!ignored && nskip != 0) bad("testcase/skipped-marker-on-executed-test", tw + std::string(ONAME[t.outcome]) + " test carries a skipped element");
            if (failed && nfail == 0) bad("testcase/failure-element-missing", tw + "failed test has no failure element");
            if (failed && nfail > 1) bad("testcase/failure-element-repeated", tw + vf::fmt("%zu failure elements in one testcase", nfail));
            if (!failed && nfail != 0) bad("testcase/failure-element-on-test-that-did-not-fail", tw + std::string(ONAME[t.outcome]) + " test carries a failure element");
            if (failed && nfail >= 1) {
                const XNode& fe = *tc.children("failure")[0];
                a = fe.attr("message");
                std::string want1 = t.ffile + ":" + std::to_string(t.fline) + ": " + t.msg;
                std::string want2 = t.ffile + ":" + std::to_string(t.fline + 1) + ": " + t.msg2;
                bool ok = a && (*a == want1 || (t.outcome == FAIL2 && *a == want2));   // which of several failures is reported is not stated
                if (!ok) bad("failure/message", tw + "message=" + (a ? "'" + vf::esc(*a) + "'" : "(absent)") + ", the failure was '" + vf::esc(want1) + "'");
            }
        }
        std::vector<const XNode*> so = suite.children("system-out");
        if (so.size() != 1) bad("system-out/not-exactly-one", where + vf::fmt("%zu system-out elements", so.size()));
        else {
            const std::string& got = so[0]->text;
            bool ok = so[0]->kids.empty() && (got == printed_since_creation || got == printed_since_run_start || got == printed);
            if (!ok) {
                // narrow the failure mode: this group's text is there, but what precedes it is not the text of earlier groups
                bool tail_ok = so[0]->kids.empty() && ends_with(got, printed) && !printed_before.empty();
                bad(tail_ok ? "system-out/output-of-earlier-groups-altered" : "system-out/text",
                    where + "system-out unescapes to '" + clip(got, 300) + "'; printed during this group '" + vf::esc(printed) + "', printed before it '" + clip(printed_before, 300) + "'");
            }
        }
    }
    return v;
}

std::string render(const Program& p) {
    std::string o = p.has_package ? "package '" + vf::esc(p.package) + "' " : "no package ";
    if (p.repeat > 1) o += vf::fmt("[%d runs on one output object] ", p.repeat);
    for (auto& g : p.groups) {
        o += "group '" + vf::esc(g.name) + "' {";
        for (auto& t : g.tests) {
            o += " '" + vf::esc(t.name) + "'@'" + vf::esc(t.file) + vf::fmt("':%zu %s", t.line, ONAME[t.outcome]);
            if (t.outcome == FAIL || t.outcome == FAIL2) o += "('" + vf::esc(t.msg) + "' at '" + vf::esc(t.ffile) + vf::fmt("':%zu)", t.fline);
            if (t.prints && t.outcome != IGN) o += " prints '" + vf::esc(t.out) + "'";
            o += ";";
        }
        o += " } ";
    }
    return o;
}

Verdict run_program(const Program& p) {
    g_files.clear(); g_console.clear(); g_foreign_close = 0;
    std::string desc = render(p);
    {
        std::vector<std::unique_ptr<UtestShell>> shells;
        TestRegistry reg;
        // TestRegistry::addTest prepends: add in reverse so that the run order is the program order
        for (size_t gi = p.groups.size(); gi-- > 0;) {
            const GroupSpec& g = p.groups[gi];
            for (size_t ti = g.tests.size(); ti-- > 0;) {
                const TestSpec& t = g.tests[ti];
                UtestShell* s = t.outcome == IGN ? (UtestShell*)new ScriptShellT<IgnoredUtestShell>(g.name.c_str(), &t)
                                                 : (UtestShell*)new ScriptShellT<UtestShell>(g.name.c_str(), &t);
                shells.emplace_back(s);
                reg.addTest(s);
            }
        }
        vf::ctx("run");
        {
            JUnitTestOutput out;
            if (p.has_package) out.setPackageName(p.package.c_str());
            for (int r = 0; r < p.repeat; r++) {        // what CommandLineTestRunner does for -rN: one output, a fresh TestResult per run
                TestResult result(out);
                reg.runAllTests(result);
                vf::count("tests_run", (long)result.getTestCount());
            }
        }
    }
    vf::ctx("judge");
    Verdict v = judge(p, desc);
    if (!g_console.empty()) report("console/unexpected-output", desc, "the JUnit output object wrote to a handle it did not open: " + clip(g_console, 200));
    if (vf::want_sample()) vf::sample(desc + vf::fmt(" -> %zu files, ", g_files.size()) + (g_files.empty() ? std::string() : clip(g_files[0]->content, 500)));
    g_files.clear();
    return v;
}

// ------------------------------------------------------------------ structure programs
struct Pattern { std::vector<int> outcomes; };
std::vector<Pattern> patterns_up_to(int max_tests) {
    std::vector<Pattern> v;
    for (int n = 1; n <= max_tests; n++) {
        long count = 1; for (int i = 0; i < n; i++) count *= 4;
        for (long k = 0; k < count; k++) { Pattern p; long r = k; for (int i = 0; i < n; i++) { p.outcomes.push_back((int)(r % 4)); r /= 4; } v.push_back(p); }
    }
    return v;
}
// idx enumerates (package?, number of groups, pattern of each group); both_packages = false: no package only
void run_structure(const std::vector<Pattern>& pats, int max_groups, bool both_packages, bool both_repeats, long idx) {
    long P = (long)pats.size();
    bool pkg = false; int repeat = 1;
    if (both_packages) { pkg = idx & 1; idx >>= 1; }
    if (both_repeats) { repeat = 1 + (int)(idx & 1); idx >>= 1; }
    int ng = 1; long block = P;
    while (idx >= block) { idx -= block; block *= P; ng++; }
    if (ng > max_groups) vf::harness_error("structure index out of range");
    Program p; p.has_package = pkg; p.package = "pkg"; p.repeat = repeat;
    int failed = 0, ignored = 0, total = 0;
    for (int g = 0; g < ng; g++) {
        const Pattern& pat = pats[idx % P]; idx /= P;
        GroupSpec gs; gs.name = vf::fmt("Group%d", g);
        for (size_t t = 0; t < pat.outcomes.size(); t++) {
            TestSpec ts; ts.name = vf::fmt("test_%d_%zu", g, t); ts.file = vf::fmt("tests/group%d.cpp", g); ts.line = (size_t)(100 * (g + 1) + 10 * t);
            ts.outcome = pat.outcomes[t]; ts.ffile = vf::fmt("src/helper%d.cpp", g); ts.fline = (size_t)(1000 * (g + 1) + 10 * t);
            ts.msg = vf::fmt("first failure of %d.%zu", g, t); ts.msg2 = vf::fmt("second failure of %d.%zu", g, t);
            ts.prints = true; ts.out = vf::fmt("[out %d.%zu <&> \"'x'\"]\r\n", g, t);
            failed += ts.outcome == FAIL || ts.outcome == FAIL2; ignored += ts.outcome == IGN; total++;
            gs.tests.push_back(ts);
        }
        p.groups.push_back(gs);
    }
    Verdict v = run_program(p);
    if (failed || ignored) vf::count("nontrivial");
    vf::outcome(vf::fmt("groups=%d failed=%s ignored=%s passed=%s pkg=%d %s", ng, failed > 1 ? "many" : failed ? "1" : "0", ignored > 1 ? "many" : ignored ? "1" : "0",
                        total - failed - ignored > 0 ? "some" : "0", (int)pkg + 2 * (repeat - 1), v.notwf ? "not-well-formed" : v.mismatches ? "mismatch" : "faithful"));
}
long structure_count(long P, int max_groups, bool both_packages, bool both_repeats = false) { long n = 0, b = 1; for (int g = 0; g < max_groups; g++) { b *= P; n += b; } return (both_packages ? 2 : 1) * (both_repeats ? 2 : 1) * n; }

// ------------------------------------------------------------------ printed-text programs: every test of every group prints
// (or does not print) a text of the alphabet; all tests pass
void run_printed(int ng, int nt, const char* const* alphabet, long nA, bool both_repeats, long idx) {
    Program p;
    if (both_repeats) { p.repeat = 1 + (int)(idx & 1); idx >>= 1; }
    int printing = 0, special = 0;
    for (int g = 0; g < ng; g++) {
        GroupSpec gs; gs.name = vf::fmt("Group%d", g);
        for (int t = 0; t < nt; t++) {
            long a = idx % (nA + 1); idx /= (nA + 1);
            TestSpec ts; ts.name = vf::fmt("test_%d_%d", g, t); ts.file = vf::fmt("tests/group%d.cpp", g); ts.line = (size_t)(100 * (g + 1) + 10 * t);
            ts.outcome = PASS; ts.prints = a > 0; if (a > 0) ts.out = alphabet[a - 1];
            if (a > 0) { printing++; if (ts.out.find_first_of("&<>\"'\r\n") != std::string::npos) special++; }
            gs.tests.push_back(ts);
        }
        p.groups.push_back(gs);
    }
    Verdict v = run_program(p);
    if (special) vf::count("nontrivial");
    vf::outcome(vf::fmt("printing=%d with-markup=%d runs=%d %s", printing, special, p.repeat, v.notwf ? "not-well-formed" : v.mismatches ? "mismatch" : "faithful"));
}
// ------------------------------------------------------------------ group-name programs: names that are empty, that consist only of
// characters the file-name rule replaces, and different names that map to the same file name
void run_names(const std::vector<const char*>& names, const std::vector<Pattern>& pats12, const std::vector<Pattern>& pats1, long idx) {
    long G = (long)names.size();
    int variant = (int)(idx % 3); idx /= 3;        // 0: no package; 1: empty package name; 2: package "pkg" and the first test of every group has the empty name
    // number of groups: 1, 2 (patterns of 1..2 tests) or 3 (patterns of 1 test); names pairwise different (a group is a maximal run of equal names)
    long P2 = (long)pats12.size(), P1 = (long)pats1.size();
    long n1 = G * P2, n2 = G * G * P2 * P2;
    int ng; const std::vector<Pattern>* pats;
    if (idx < n1) { ng = 1; pats = &pats12; } else if (idx < n1 + n2) { idx -= n1; ng = 2; pats = &pats12; } else { idx -= n1 + n2; ng = 3; pats = &pats1; }
    long P = (long)pats->size();
    int gi[3]; for (int g = 0; g < ng; g++) { gi[g] = (int)(idx % G); idx /= G; }
    for (int a = 0; a < ng; a++) for (int b = a + 1; b < ng; b++) if (gi[a] == gi[b]) { vf::count("skipped_equal_group_names"); return; }
    vf::count("executed");
    Program p; p.has_package = variant != 0; p.package = variant == 2 ? "pkg" : "";
    int failed = 0, ignored = 0, special = 0; bool collision = false;
    auto encoded = [](std::string n) { for (auto& c : n) if (strchr(FORBIDDEN_IN_FILE_NAMES, c)) c = '_'; return n; };
    for (int g = 0; g < ng; g++) {
        const Pattern& pat = (*pats)[idx % P]; idx /= P;
        GroupSpec gs; gs.name = names[gi[g]];
        if (gs.name.empty() || encoded(gs.name) != gs.name) special++;
        for (int h = 0; h < g; h++) if (encoded(p.groups[h].name) == encoded(gs.name)) collision = true;
        for (size_t t = 0; t < pat.outcomes.size(); t++) {
            TestSpec ts; ts.name = (variant == 2 && t == 0) ? std::string() : vf::fmt("test_%d_%zu", g, t); ts.file = vf::fmt("tests/group%d.cpp", g); ts.line = (size_t)(100 * (g + 1) + 10 * t);
            ts.outcome = pat.outcomes[t]; ts.ffile = vf::fmt("src/helper%d.cpp", g); ts.fline = (size_t)(1000 * (g + 1) + 10 * t);
            ts.msg = vf::fmt("first failure of %d.%zu", g, t); ts.msg2 = vf::fmt("second failure of %d.%zu", g, t);
            ts.prints = true; ts.out = vf::fmt("[out %d.%zu]", g, t);
            failed += ts.outcome == FAIL || ts.outcome == FAIL2; ignored += ts.outcome == IGN;
            gs.tests.push_back(ts);
        }
        p.groups.push_back(gs);
    }
    Verdict v = run_program(p);
    if (special) vf::count("nontrivial");
    vf::outcome(vf::fmt("groups=%d special-names=%d same-file-name=%d variant=%d failed=%d ignored=%d %s", ng, special, (int)collision, variant, failed ? 1 : 0, ignored ? 1 : 0,
                        v.notwf ? "not-well-formed" : v.mismatches ? "mismatch" : "faithful"));
}
long ipow(long b, int e) { long r = 1; while (e-- > 0) r *= b; return r; }

// ------------------------------------------------------------------ text programs
enum { F_GROUP = 0, F_NAME, F_FILE, F_FFILE, F_PACKAGE, F_MSG, F_OUT, NFIELDS };
const char* FIELD_NAME[NFIELDS] = {"group", "test-name", "test-file", "failure-file", "package", "failure-message", "printed-output"};
const char* PLAIN[NFIELDS] = {"grp", "tst", "dir/file.cpp", "dir/helper.cpp", "pkg", "msg", "out"};

bool has_markup(const std::string& s) { return s.find_first_of("&<>\"'\r\n") != std::string::npos; }
bool has_file_name_char(const std::string& s) { return s.find_first_of(FORBIDDEN_IN_FILE_NAMES) != std::string::npos; }

void run_text(const std::string f[NFIELDS]) {
    Program p; p.has_package = true; p.package = f[F_PACKAGE];
    GroupSpec g1; g1.name = f[F_GROUP];
    auto mk = [&](const char* suffix, size_t line, int outcome, bool prints) {
        TestSpec t; t.name = f[F_NAME] + suffix; t.file = f[F_FILE]; t.line = line; t.outcome = outcome;
        t.ffile = f[F_FFILE]; t.fline = line + 1000; t.msg = f[F_MSG]; t.msg2 = "again " + f[F_MSG]; t.prints = prints; t.out = f[F_OUT];
        return t;
    };
    g1.tests.push_back(mk("", 11, FAIL, true));
    g1.tests.push_back(mk("_ignored", 22, IGN, false));
    g1.tests.push_back(mk("_passing", 33, PASS, true));
    g1.tests.push_back(mk("_twice", 44, FAIL2, false));
    p.groups.push_back(g1);
    GroupSpec g2; g2.name = f[F_GROUP] + "_2";
    g2.tests.push_back(mk("", 55, PASS, true));
    g2.tests.back().out = "tail " + f[F_OUT];
    p.groups.push_back(g2);
    Verdict v = run_program(p);
    int mask = 0; bool nontrivial = false;
    for (int i = 0; i < NFIELDS; i++) if (has_markup(f[i]) || f[i].empty()) { mask |= 1 << i; nontrivial = true; }
    if (has_file_name_char(f[F_GROUP]) || has_file_name_char(f[F_PACKAGE])) { mask |= 1 << NFIELDS; nontrivial = true; }
    if (nontrivial) vf::count("nontrivial");
    vf::outcome(vf::fmt("markup-in-fields=%02x %s", mask, v.notwf ? "not-well-formed" : v.mismatches ? "mismatch" : "faithful"));
}

const char* ATOMS_Q[] = {"", "a", "&", "<", ">", "\"", "'", "\n", "\r", "&amp;", "&#10;", "]]>", "a&b<c>\"d'", " ", "/\\?%*:|"};
const char* ATOMS_T[] = {"", "a", "&", "<", ">", "\"", "'", "\n", "\r", "&amp;", "&#10;", "]]>", "a&b<c>\"d'", " ", "/\\?%*:|",
                         "\r\n", "\n\n", "<!--", "<![CDATA[", "<?", "\"/>", "\">", "&lt;", "&#13;", "'\"", "x y ", "</testsuite>"};
const char SHORT_ALPHABET[] = {'a', '&', '<', '>', '"', '\'', '\n', '\r', ';', '#'};

} // namespace

int main(int argc, char** argv) {
    vf::init(argc, argv, "C16");
    MemoryLeakWarningPlugin::turnOffNewDeleteOverloads();
    X.load();
    PlatformSpecificFOpen = cap_open; PlatformSpecificFPuts = cap_puts; PlatformSpecificFClose = cap_close; PlatformSpecificFlush = flush_nop;
    GetPlatformSpecificTimeInMillis = time_zero; GetPlatformSpecificTimeString = timestr_fixed;
    bool T = vf::thorough();
    vf::info("rule", "every program of the stated family is run through the real TestRegistry/TestResult/JUnitTestOutput; every file written through the FOpen/FPuts/FClose seams is parsed by expat and compared with what the scripted tests did; non-trivial = (structure) at least one failed or ignored test, (text) at least one field is empty or contains a character with XML meaning (& < > \" ' CR LF) or a character that is illegal in file names; (names) at least one group name is empty or changed by the file-name rule; (out) at least one printed text contains such a character");
    vf::info("judge", std::string("independent XML parser: ") + X.ExpatVersion() + " (dlopen libexpat.so.1)");

    {
        std::vector<Pattern> pats = patterns_up_to(3);
        long N = structure_count((long)pats.size(), 2, true);
        vf::info("struct.bound", vf::fmt("all programs of 1..2 groups, each group one of the %zu outcome patterns of 1..3 tests over {pass, fail, fail twice (body + teardown), ignored}, x {no package, package}: %ld programs; every executed test prints a distinct line that contains < & > \" ' CR LF", pats.size(), N));
        vf::section_index("struct", N, [&](long idx) { run_structure(pats, 2, true, false, idx); });
        vf::require_outcomes("struct", 8);
    }
    {
        std::vector<Pattern> pats = patterns_up_to(2);
        long N = structure_count((long)pats.size(), 3, true, true);
        vf::info("struct3x2.bound", vf::fmt("all programs of 1..3 groups, each one of the %zu outcome patterns of 1..2 tests, x {no package, package} x {one run, two runs on the same output object (-r2)}: %ld programs", pats.size(), N));
        vf::section_index("struct3x2", N, [&](long idx) { run_structure(pats, 3, true, true, idx); });
        vf::require_outcomes("struct3x2", 8);
    }
    if (T) {
        std::vector<Pattern> pats = patterns_up_to(3);
        long N = structure_count((long)pats.size(), 3, false);
        vf::info("struct3x3.bound", vf::fmt("all programs of 1..3 groups, each one of the %zu outcome patterns of 1..3 tests, no package: %ld programs", pats.size(), N));
        vf::section_index("struct3x3", N, [&](long idx) { run_structure(pats, 3, false, false, idx); });
        vf::require_outcomes("struct3x3", 8);
    }
    if (T) {
        std::vector<Pattern> pats = patterns_up_to(4);
        long N = structure_count((long)pats.size(), 2, false);
        vf::info("struct2x4.bound", vf::fmt("all programs of 1..2 groups, each one of the %zu outcome patterns of 1..4 tests, no package: %ld programs", pats.size(), N));
        vf::section_index("struct2x4", N, [&](long idx) { run_structure(pats, 2, false, false, idx); });
        vf::require_outcomes("struct2x4", 8);
    }

    {
        std::vector<const char*> names = {"Plain", "", "/", "|", "a/b", "a?b", "a_b"};
        if (T) { names.push_back("a b"); names.push_back("<>"); }
        std::vector<Pattern> p12 = patterns_up_to(2), p1 = patterns_up_to(1);
        long G = (long)names.size(), P2 = (long)p12.size(), P1 = (long)p1.size();
        long N = 3 * (G * P2 + G * G * P2 * P2 + G * G * G * P1 * P1 * P1);
        std::string nl; for (auto n : names) nl += std::string(nl.empty() ? "" : " ") + "'" + vf::esc(n) + "'";
        vf::info("names.bound", vf::fmt("group names from {%s} (the empty name; names made only of replaced characters; different names with the same file name cpputest_a_b.xml / cpputest__.xml): every sequence of 1..2 groups with pairwise different names x the %ld outcome patterns of 1..2 tests per group, every sequence of 3 groups x the %ld patterns of 1 test, x {no package; empty package name; package 'pkg' and the first test of every group has the empty name}; index space %ld (sequences with a repeated name are skipped and counted)", nl.c_str(), P2, P1, N));
        vf::section_index("names", N, [&](long idx) { run_names(names, p12, p1, idx); });
        vf::require_outcomes("names", 12);
    }
    const char** atoms = T ? ATOMS_T : ATOMS_Q;
    {
        // printed text in any group: alphabet = no print + the text atoms (the blank and the file-name atom left out in quick)
        static const char* OUT_Q[] = {"a", "&", "<", ">", "\"", "'", "\n", "\r", "&amp;", "&#10;", "]]>", "a&b<c>\"d'"};
        static const char* OUT_S[] = {"a", "&", "<", "\n", "\""};
        const char* const* oa = T ? ATOMS_T : OUT_Q; long nO = T ? (long)(sizeof ATOMS_T / sizeof *ATOMS_T) : (long)(sizeof OUT_Q / sizeof *OUT_Q);
        long nS = (long)(sizeof OUT_S / sizeof *OUT_S) - (T ? 0 : 1);      // quick: without the quote
        vf::info("out.alphabet", vf::fmt("every test passes and either prints nothing or one of %ld texts (%s); out3x2 uses {nothing, a, &, <, LF} (thorough: and \")", nO, T ? "all thorough text atoms" : "a & < > \" ' LF CR &amp; &#10; ]]> a&b<c>\"d'"));
        vf::info("out2x1.bound", vf::fmt("2 groups x 1 test, (%ld+1)^2 print choices x {one run, two runs on one output object}", nO));
        vf::section_index("out2x1", 2 * ipow(nO + 1, 2), [&](long idx) { run_printed(2, 1, oa, nO, true, idx); });
        vf::require_outcomes("out2x1", 4);
        vf::info("out3x1.bound", vf::fmt("3 groups x 1 test, (%ld+1)^3 print choices x {one run, two runs on one output object}", nO));
        vf::section_index("out3x1", 2 * ipow(nO + 1, 3), [&](long idx) { run_printed(3, 1, oa, nO, true, idx); });
        vf::require_outcomes("out3x1", 4);
        vf::info("out2x2.bound", vf::fmt("2 groups x 2 tests, (%ld+1)^4 print choices, one run", nO));
        vf::section_index("out2x2", ipow(nO + 1, 4), [&](long idx) { run_printed(2, 2, oa, nO, false, idx); });
        vf::require_outcomes("out2x2", 4);
        vf::info("out3x2.bound", vf::fmt("3 groups x 2 tests, (%ld+1)^6 print choices x {one run, two runs}", nS));
        vf::section_index("out3x2", 2 * ipow(nS + 1, 6), [&](long idx) { run_printed(3, 2, OUT_S, nS, true, idx); });
        vf::require_outcomes("out3x2", 4);
    }
    long A = T ? (long)(sizeof ATOMS_T / sizeof *ATOMS_T) : (long)(sizeof ATOMS_Q / sizeof *ATOMS_Q);
    std::string atom_list; for (long i = 0; i < A; i++) atom_list += std::string(i ? " " : "") + "'" + vf::esc(atoms[i]) + "'";
    vf::info("text.program", "package P; group G { test N fails with message M at FF:1011 and prints O; N_ignored is ignored; N_passing passes and prints O; N_twice fails in body and teardown }; group G_2 { N passes and prints 'tail 'O }; all tests in file F; plain values: grp, tst, dir/file.cpp, dir/helper.cpp, pkg, msg, out");
    vf::info("text.atoms", atom_list);

    vf::info("text1.bound", vf::fmt("each of the 7 fields x each of the %ld atoms, the other fields plain", A));
    vf::section_index("text1", NFIELDS * A, [&](long idx) {
        vf::Radix r(idx); int fi = (int)r.take(NFIELDS); long ai = r.take(A);
        std::string f[NFIELDS]; for (int i = 0; i < NFIELDS; i++) f[i] = PLAIN[i];
        f[fi] = atoms[ai];
        run_text(f);
    });
    vf::require_outcomes("text1", 3);

    vf::info("text2.bound", vf::fmt("each of the 21 pairs of fields x all %ld^2 pairs of atoms, the other fields plain", A));
    vf::section_index("text2", 21 * A * A, [&](long idx) {
        vf::Radix r(idx); long pr = r.take(21); long a1 = r.take(A), a2 = r.take(A);
        int fa = 0, fb = 1; for (long k = 0; k < pr; k++) { fb++; if (fb == NFIELDS) { fa++; fb = fa + 1; } }
        std::string f[NFIELDS]; for (int i = 0; i < NFIELDS; i++) f[i] = PLAIN[i];
        f[fa] = atoms[a1]; f[fb] = atoms[a2];
        run_text(f);
    });
    vf::require_outcomes("text2", 6);

    if (T) {
        long AQ = (long)(sizeof ATOMS_Q / sizeof *ATOMS_Q);
        vf::info("text3.bound", vf::fmt("each of the 35 triples of fields x all %ld^3 triples of the first %ld atoms (the empty text included), the other fields plain", AQ, AQ));
        vf::section_index("text3", 35 * AQ * AQ * AQ, [&](long idx) {
            vf::Radix r(idx); long tr = r.take(35); long a1 = r.take(AQ), a2 = r.take(AQ), a3 = r.take(AQ);
            int fa = 0, fb = 1, fc = 2;
            for (long k = 0; k < tr; k++) { fc++; if (fc == NFIELDS) { fb++; if (fb == NFIELDS - 1) { fa++; fb = fa + 1; } fc = fb + 1; } }
            std::string f[NFIELDS]; for (int i = 0; i < NFIELDS; i++) f[i] = PLAIN[i];
            f[fa] = ATOMS_Q[a1]; f[fb] = ATOMS_Q[a2]; f[fc] = ATOMS_Q[a3];
            run_text(f);
        });
        vf::require_outcomes("text3", 6);
    }

    {
        int L = T ? 3 : 2; long S = (long)sizeof SHORT_ALPHABET;
        long per_field = 0, b = 1; for (int l = 1; l <= L; l++) { b *= S; per_field += b; }
        vf::info("short.bound", vf::fmt("each of the 7 fields x every string of length 1..%d over {a & < > \" ' LF CR ; #} (%ld strings), the other fields plain", L, per_field));
        vf::section_index("short", NFIELDS * per_field, [&](long idx) {
            vf::Radix r(idx); int fi = (int)r.take(NFIELDS); long k = r.idx;
            int len = 1; long blk = S; while (k >= blk) { k -= blk; blk *= S; len++; }
            std::string s; for (int i = 0; i < len; i++) { s += SHORT_ALPHABET[k % S]; k /= S; }
            std::string f[NFIELDS]; for (int i = 0; i < NFIELDS; i++) f[i] = PLAIN[i];
            f[fi] = s;
            run_text(f);
        });
        vf::require_outcomes("short", 3);
    }
    return vf::finish();
}

// C09 - MockNamedValue: parameter values compare by mathematical value, symmetrically; typed
// values compare only inside their own type; integer getters return the stored integer or fail.
//
// Deciding step: complete operand-lattice sweeps on the real MockNamedValue.
//   intpairs   36 ordered integer type pairs x boundary lattice^2 x object pre-states^2 -> equals both ways
//   scalars    bool / void* / const void* / function pointer, all value pairs of each type
//   strings    all pairs of strings over a 3 symbol alphabet (length <= 3), own exact-size heap copies; all suffix pairs inside one block
//   membufs    all pairs of buffers over {00,01,ff} (length <= 3) + NULL/0, exact-size heap copies; all (offset 0/1, length) pairs inside one block
//   doubles    (value, tolerance) x (value, tolerance) over an IEEE boundary lattice
//   crosstype  specimens of all 13 types (sharing bit patterns on purpose), all ordered pairs of different types
//   getters    every stored integer x every integer getter, inside a real test (fixture)
//   api_param  expectOneCall().withParameter(a) / actualCall().withParameter(b) inside a real test
//   api_return andReturnValue(a) / returnXxxValue() inside a real test
//   reuse      every ordered pair (first setter, second setter) over all kinds incl. objects with/without comparator, with
//              setSize/setName in between and setSize after: the reused object must be indistinguishable from a fresh one
//              that only received the second set (differential oracle: type, text, size, legal getters, equals verdicts)
// Oracle: __int128 equality, libc-free content comparison on std::string, IEEE rules written out.
#include <new>
#include <cmath>
#include <cfloat>
#include <climits>
#include <cstdint>
#include <limits>
#include <string>
#include <vector>
#include <sanitizer/asan_interface.h>
#define VF_MAIN
#include "vf.h"
#include "fixture.h"
#include "CppUTestExt/MockNamedValue.h"
#include "CppUTestExt/MockSupport.h"
#undef new

namespace {

typedef __int128 i128;
typedef unsigned __int128 u128;

static_assert(sizeof(int) == 4 && sizeof(long) == 8 && sizeof(long long) == 8, "lattice written for LP64");

std::string s128(i128 v) {
    if (v == 0) return "0";
    bool neg = v < 0;
    u128 u = neg ? (u128)(-(v + 1)) + 1 : (u128)v;
    std::string s;
    while (u) { s.insert(s.begin(), (char)('0' + (int)(u % 10))); u /= 10; }
    return neg ? "-" + s : s;
}

// ------------------------------------------------------------------ the thirteen value types
enum Kind { K_INT, K_UINT, K_LONG, K_ULONG, K_LL, K_ULL, K_BOOL, K_DOUBLE, K_PTR, K_CPTR, K_FPTR, K_STR, K_MEM, NK };
const int NI = 6;     // the first six are the integer types
const char* const KN[NK] = {"int", "unsigned int", "long int", "unsigned long int", "long long int", "unsigned long long int",
                            "bool", "double", "void*", "const void*", "void (*)()", "const char*", "const unsigned char*"};
const i128 P31 = (i128)1 << 31, P32 = (i128)1 << 32, P63 = (i128)1 << 63, P64 = (i128)1 << 64;
i128 tmin(int t) { return t == K_INT ? -P31 : (t == K_LONG || t == K_LL) ? -P63 : 0; }
i128 tmax(int t) { return t == K_INT ? P31 - 1 : t == K_UINT ? P32 - 1 : (t == K_LONG || t == K_LL) ? P63 - 1 : P64 - 1; }

void set_int(MockNamedValue& v, int t, i128 x) {
    switch (t) {
    case K_INT: v.setValue((int)x); break;
    case K_UINT: v.setValue((unsigned int)x); break;
    case K_LONG: v.setValue((long int)x); break;
    case K_ULONG: v.setValue((unsigned long int)x); break;
    case K_LL: v.setValue((long long)x); break;
    case K_ULL: v.setValue((unsigned long long)x); break;
    default: vf::harness_error("set_int: not an integer type");
    }
}

double bits2double(unsigned long long b) { double d; memcpy(&d, &b, sizeof d); return d; }
unsigned long long double2bits(double d) { unsigned long long b; memcpy(&b, &d, sizeof b); return b; }
std::string dstr(double d) { return vf::fmt("%.17g[%016llx]", d, double2bits(d)); }

// ------------------------------------------------------------------ a value object with a controlled past
// The property says the type tag decides which union member is read. Whether that holds only shows when the
// bytes of the other members are not accidentally zero, so every value object is built on storage with a
// known fill and optionally has a history of holding a value of another type.
unsigned char g_junk[8] = {0xde, 0xad, 0xbe, 0xef, 1, 2, 3, 4};
const char* const PRE[4] = {"new-on-zeroed-storage", "new-on-0xff-storage", "reused-after-membuf+double", "reused-after-string+ullmax-on-0xff"};
struct Slot {
    alignas(16) unsigned char raw[sizeof(MockNamedValue)];
    MockNamedValue* v;
    explicit Slot(int pre, const char* name = "p") {
        memset(raw, (pre == 1 || pre == 3) ? 0xFF : 0x00, sizeof raw);
        v = new (raw) MockNamedValue(name);
        if (pre == 2) { v->setMemoryBuffer(g_junk, 5); v->setValue(bits2double(0xA5A5A5A5A5A5A5A5ULL), bits2double(0x5A5A5A5A5A5A5A5AULL)); }
        if (pre == 3) { v->setValue("stale"); v->setValue((unsigned long long)~0ULL); }
    }
    ~Slot() { v->~MockNamedValue(); }
    Slot(const Slot&) = delete;
};
int NPRE = 3;

// ------------------------------------------------------------------ generic value description (non-integer sections)
void fn_f() {}
void fn_g() {}
struct Val {
    int kind = K_INT;
    i128 i = 0; bool b = false; double d = 0, tol = 0;
    const void* p = nullptr; void (*f)() = nullptr; size_t n = 0;
    std::string label;           // no addresses inside (used in outcomes/details)
    unsigned long long bits = 0; // what the first 8 bytes of the union hold (for the non-trivial rule only)
};
void apply(MockNamedValue& v, const Val& x) {
    switch (x.kind) {
    case K_BOOL: v.setValue(x.b); break;
    case K_DOUBLE: v.setValue(x.d, x.tol); break;
    case K_PTR: v.setValue(const_cast<void*>(x.p)); break;
    case K_CPTR: v.setValue(x.p); break;
    case K_FPTR: v.setValue(x.f); break;
    case K_STR: v.setValue((const char*)x.p); break;
    case K_MEM: v.setMemoryBuffer((const unsigned char*)x.p, x.n); break;
    default: set_int(v, x.kind, x.i);
    }
}
Val vint(int k, i128 x) { Val v; v.kind = k; v.i = x; v.label = std::string(KN[k]) + ":" + s128(x); v.bits = (unsigned long long)x; return v; }
Val vbool(bool b) { Val v; v.kind = K_BOOL; v.b = b; v.label = b ? "bool:true" : "bool:false"; v.bits = b; return v; }
Val vdouble(double d, double tol) { Val v; v.kind = K_DOUBLE; v.d = d; v.tol = tol; v.label = "double:" + dstr(d) + "~" + dstr(tol); v.bits = double2bits(d); return v; }
Val vptr(int k, const void* p, const char* name) { Val v; v.kind = k; v.p = p; v.label = std::string(KN[k]) + ":" + name; v.bits = (unsigned long long)(uintptr_t)p; return v; }
Val vfptr(void (*f)(), const char* name) { Val v; v.kind = K_FPTR; v.f = f; v.label = std::string("void (*)():") + name; v.bits = (unsigned long long)(uintptr_t)f; return v; }
Val vstr(const char* s, const char* name) { Val v; v.kind = K_STR; v.p = s; v.label = std::string("const char*:") + name; v.bits = (unsigned long long)(uintptr_t)s; return v; }
Val vmem(const unsigned char* p, size_t n, const char* name) { Val v; v.kind = K_MEM; v.p = p; v.n = n; v.label = std::string("const unsigned char*:") + name; v.bits = (unsigned long long)(uintptr_t)p; return v; }

// ------------------------------------------------------------------ lattices
typedef std::vector<i128> Lattice[NI];
Lattice LATQ, LATT;       // LATQ: the property's boundary lattice; LATT: plus every power of two and its neighbours
void build_int_lattice(Lattice& LAT, bool thorough) {
    std::vector<i128> all;
    const i128 base[] = {-P63, -P63 + 1, -P32 - 1, -P32, -P32 + 1, -P31 - 1, -P31, -P31 + 1, -2, -1, 0, 1, 2,
                         P31 - 2, P31 - 1, P31, P31 + 1, P32 - 2, P32 - 1, P32, P32 + 1, P63 - 1, P63, P63 + 1, P64 - 2, P64 - 1};
    for (i128 x : base) all.push_back(x);
    if (thorough)
        for (int k = 0; k <= 64; k++) for (int d = -1; d <= 1; d++) { i128 x = ((i128)1 << k) + d; all.push_back(x); all.push_back(-x); }
    std::sort(all.begin(), all.end());
    all.erase(std::unique(all.begin(), all.end()), all.end());
    for (int t = 0; t < NI; t++) { LAT[t].clear(); for (i128 x : all) if (x >= tmin(t) && x <= tmax(t)) LAT[t].push_back(x); }
}

std::vector<std::string> words(const std::string& alphabet, int maxlen) {
    std::vector<std::string> out{""};
    size_t from = 0;
    for (int l = 1; l <= maxlen; l++) {
        size_t to = out.size();
        for (size_t i = from; i < to; i++) for (char c : alphabet) out.push_back(out[i] + c);
        from = to;
    }
    return out;
}
// exact-size heap copy; an over-read by one byte is an ASan report
char* heap_str(const std::string& s) { char* p = (char*)malloc(s.size() + 1); memcpy(p, s.c_str(), s.size() + 1); return p; }
unsigned char* heap_mem(const std::string& s) {
    unsigned char* p = (unsigned char*)malloc(s.size() ? s.size() : 1);
    if (s.size()) memcpy(p, s.data(), s.size()); else ASAN_POISON_MEMORY_REGION(p, 1);
    return p;
}

const char* sign_class(i128 x) { return x < 0 ? "neg" : x >= P63 ? "ge2^63" : x >= P32 ? "ge2^32" : x >= P31 ? "ge2^31" : "small"; }

// doubles: 1 = must be equal, 0 = must be different, -1 = not asserted
int want_double(double a, double b, double tol) {
    if (std::isnan(a) || std::isnan(b)) return 0;                 // NaN equals nothing
    if (std::isnan(tol) || tol < 0) return -1;                   // not stated
    if (a == b) return 1;                                        // the same value (same infinity, +0/-0) is inside any tolerance >= 0
    if (std::isinf(a) || std::isinf(b)) return std::isinf(tol) ? -1 : 0;   // infinitely far apart; an infinite tolerance is not stated
    double d1 = std::fabs(a - b);
    long double d2 = fabsl((long double)a - (long double)b);
    bool r1 = d1 <= tol, r2 = d2 <= (long double)tol;
    if (r1 != r2) return -1;                                     // the rounding of the difference decides: both answers accepted
    return r1 ? 1 : 0;
}
const char* dclass(double d) { return std::isnan(d) ? "nan" : std::isinf(d) ? (d > 0 ? "+inf" : "-inf") : d == 0 ? "zero" : "finite"; }

// integer getters (direct and through the mock call API)
i128 call_getter(const MockNamedValue& v, int g) {
    switch (g) {
    case K_INT: return v.getIntValue();
    case K_UINT: return v.getUnsignedIntValue();
    case K_LONG: return v.getLongIntValue();
    case K_ULONG: return v.getUnsignedLongIntValue();
    case K_LL: return v.getLongLongIntValue();
    default: return v.getUnsignedLongLongIntValue();
    }
}
const char* const GN[NI] = {"getIntValue", "getUnsignedIntValue", "getLongIntValue", "getUnsignedLongIntValue", "getLongLongIntValue", "getUnsignedLongLongIntValue"};
const char* const RN[NI] = {"returnIntValue", "returnUnsignedIntValue", "returnLongIntValue", "returnUnsignedLongIntValue", "returnLongLongIntValue", "returnUnsignedLongLongIntValue"};

void expect_with(MockExpectedCall& e, int t, i128 x) {
    switch (t) {
    case K_INT: e.withParameter("p", (int)x); break;
    case K_UINT: e.withParameter("p", (unsigned int)x); break;
    case K_LONG: e.withParameter("p", (long int)x); break;
    case K_ULONG: e.withParameter("p", (unsigned long int)x); break;
    case K_LL: e.withParameter("p", (long long)x); break;
    default: e.withParameter("p", (unsigned long long)x); break;
    }
}
void actual_with(MockActualCall& a, int t, i128 x) {
    switch (t) {
    case K_INT: a.withParameter("p", (int)x); break;
    case K_UINT: a.withParameter("p", (unsigned int)x); break;
    case K_LONG: a.withParameter("p", (long int)x); break;
    case K_ULONG: a.withParameter("p", (unsigned long int)x); break;
    case K_LL: a.withParameter("p", (long long)x); break;
    default: a.withParameter("p", (unsigned long long)x); break;
    }
}
void expect_return(MockExpectedCall& e, int t, i128 x) {
    switch (t) {
    case K_INT: e.andReturnValue((int)x); break;
    case K_UINT: e.andReturnValue((unsigned int)x); break;
    case K_LONG: e.andReturnValue((long int)x); break;
    case K_ULONG: e.andReturnValue((unsigned long int)x); break;
    case K_LL: e.andReturnValue((long long)x); break;
    default: e.andReturnValue((unsigned long long)x); break;
    }
}
i128 actual_return(MockActualCall& a, int g) {
    switch (g) {
    case K_INT: return a.returnIntValue();
    case K_UINT: return a.returnUnsignedIntValue();
    case K_LONG: return a.returnLongIntValue();
    case K_ULONG: return a.returnUnsignedLongIntValue();
    case K_LL: return a.returnLongLongIntValue();
    default: return a.returnUnsignedLongLongIntValue();
    }
}

// block decoding for (type a, type b, value a, value b) spaces
struct Blocks {
    const std::vector<i128>* LAT;
    long off[NI * NI + 1];
    long per;   // multiplier (pre-states etc.) per value pair
    void build(const Lattice& lat, long per_) { LAT = lat; per = per_; off[0] = 0; for (int a = 0; a < NI; a++) for (int b = 0; b < NI; b++) off[a * NI + b + 1] = off[a * NI + b] + (long)LAT[a].size() * (long)LAT[b].size() * per; }
    long total() const { return off[NI * NI]; }
    // returns the remainder index inside `per`
    long decode(long idx, int& ta, int& tb, i128& A, i128& B) const {
        int k = 0; while (idx >= off[k + 1]) k++;
        ta = k / NI; tb = k % NI;
        vf::Radix r(idx - off[k]);
        long rest = r.take(per);
        A = LAT[ta][r.take((long)LAT[ta].size())];
        B = LAT[tb][r.take((long)LAT[tb].size())];
        return rest;
    }
};

// compares x and y in both directions; returns (ab, ba)
void both_ways(const Val& x, int px, const Val& y, int py, bool& ab, bool& ba) {
    Slot sa(px), sb(py);
    apply(*sa.v, x); apply(*sb.v, y);
    vf::ctx("equals(a,b)"); ab = sa.v->equals(*sb.v);
    vf::ctx("equals(b,a)"); ba = sb.v->equals(*sa.v);
    vf::count("ops", 2);
}
std::string pair_text(const Val& x, int px, const Val& y, int py) {
    return "a=" + x.label + " {" + PRE[px] + "}  b=" + y.label + " {" + PRE[py] + "}";
}

} // namespace

// ------------------------------------------------------------------ reuse: the history of a value object must not matter
namespace {
enum { A_VAL = 0, A_DOUBLE_DEFAULT_TOL, A_OBJ, A_COBJ };
struct Act {
    int how = A_VAL;
    Val v;                 // A_VAL: any Kind; A_DOUBLE_DEFAULT_TOL: v.d; objects: v.p
    std::string tname;     // object type name
    std::string gname;     // kind group (outcomes)
    std::string label;
    bool rep = false;      // representative: used as FIRST setter in the quick tier
    bool is_obj() const { return how == A_OBJ || how == A_COBJ; }
};
void apply_act(MockNamedValue& m, const Act& a) {
    switch (a.how) {
    case A_DOUBLE_DEFAULT_TOL: m.setValue(a.v.d); break;
    case A_OBJ: m.setObjectPointer(a.tname.c_str(), const_cast<void*>(a.v.p)); break;
    case A_COBJ: m.setConstObjectPointer(a.tname.c_str(), a.v.p); break;
    default: apply(m, a.v);
    }
}
bool cmp_int_equal(const void* a, const void* b) { return *(const int*)a == *(const int*)b; }
SimpleString cmp_int_str(const void* a) { return StringFrom(*(const int*)a); }
void copy_int(void* d, const void* s) { *(int*)d = *(const int*)s; }

struct Obs {
    std::string name, type, text, getters; size_t size = 0; const void *comparator = nullptr, *copier = nullptr;
    bool complete = false; size_t failures = 0;
};
// everything a user can read from the object without failing the test, for a value set by `a`
void observe(const MockNamedValue& m, const Act& a, Obs& o) {
    vf::Fixture fx;
    fx.run([&] {
        o.name = m.getName().asCharString();
        o.type = m.getType().asCharString();
        o.text = m.toString().asCharString();
        o.size = m.getSize();
        o.comparator = m.getComparator(); o.copier = m.getCopier();
        std::string& g = o.getters;
        auto ig = [&](int getter) { g += std::string(GN[getter]) + "=" + s128(call_getter(m, getter)) + ";"; };
        if (a.how == A_DOUBLE_DEFAULT_TOL || (a.how == A_VAL && a.v.kind == K_DOUBLE)) {
            g += vf::fmt("getDoubleValue=%016llx;", double2bits(m.getDoubleValue()));
            g += vf::fmt("getDoubleTolerance=%016llx(%.17g);", double2bits(m.getDoubleTolerance()), m.getDoubleTolerance());
        } else if (a.is_obj()) {
            g += vf::fmt("getObjectPointer=%p;getConstObjectPointer=%p;", m.getObjectPointer(), m.getConstObjectPointer());
        } else switch (a.v.kind) {
            case K_BOOL: g += vf::fmt("getBoolValue=%d;", (int)m.getBoolValue()); break;
            case K_INT: ig(K_INT); ig(K_LONG); ig(K_LL); if (a.v.i >= 0) { ig(K_UINT); ig(K_ULONG); ig(K_ULL); } break;
            case K_UINT: ig(K_UINT); ig(K_LONG); ig(K_ULONG); ig(K_LL); ig(K_ULL); break;
            case K_LONG: ig(K_LONG); ig(K_LL); if (a.v.i >= 0) { ig(K_ULONG); ig(K_ULL); } break;
            case K_ULONG: ig(K_ULONG); ig(K_ULL); if (a.v.i < P63) ig(K_LL); break;
            case K_LL: ig(K_LL); if (a.v.i >= 0) ig(K_ULL); break;
            case K_ULL: ig(K_ULL); break;
            case K_PTR: g += vf::fmt("getPointerValue=%p;", m.getPointerValue()); break;
            case K_CPTR: g += vf::fmt("getConstPointerValue=%p;", m.getConstPointerValue()); break;
            case K_FPTR: g += vf::fmt("getFunctionPointerValue=%p;", (void*)(uintptr_t)m.getFunctionPointerValue()); break;
            case K_STR: g += vf::fmt("getStringValue=%p;", (const void*)m.getStringValue()); break;
            case K_MEM: g += vf::fmt("getMemoryBuffer=%p;", (const void*)m.getMemoryBuffer()); break;
            default: break;
        }
        o.complete = true;
    });
    o.failures = fx.failures();
}
} // namespace

static void run_reuse(const bool T, const std::string& X) {
    static unsigned char rb[3] = {'a', 0, 'b'};
    static unsigned char rb2[2] = {'a', 0};
    static int c1 = 1, c2 = 1, c3 = 2;
    const double INF = std::numeric_limits<double>::infinity(), QNAN = std::numeric_limits<double>::quiet_NaN();
    MockFunctionComparator cmp(cmp_int_equal, cmp_int_str);
    MockFunctionCopier cop(copy_int);
    MockNamedValueComparatorsAndCopiersRepository repo;
    repo.installComparator("C", cmp);
    repo.installCopier("C", cop);
    MockNamedValue::setDefaultComparatorsAndCopiersRepository(&repo);    // constant during the section: type "C" has a comparator and a copier, type "T" has none

    std::vector<Act> A;
    auto add = [&](int how, Val v, const std::string& gname, const std::string& label, bool rp, const char* tname = "") {
        Act a; a.how = how; a.v = v; a.gname = gname; a.label = label; a.rep = rp; a.tname = tname; A.push_back(a);
    };
    add(A_VAL, vbool(false), "bool", "setValue(bool false)", true); add(A_VAL, vbool(true), "bool", "setValue(bool true)", true);
    for (int t = 0; t < NI; t++) {
        add(A_VAL, vint(t, 0), KN[t], std::string("setValue(") + KN[t] + " 0)", true);
        add(A_VAL, vint(t, 1), KN[t], std::string("setValue(") + KN[t] + " 1)", false);
        add(A_VAL, vint(t, tmax(t)), KN[t], std::string("setValue(") + KN[t] + " max)", true);
        if (tmin(t) < 0) add(A_VAL, vint(t, tmin(t)), KN[t], std::string("setValue(") + KN[t] + " min)", false);
    }
    const double DV[] = {1.0, 5.0, 0.0, INF, QNAN};
    for (double d : DV) add(A_DOUBLE_DEFAULT_TOL, vdouble(d, 0), "double(no tolerance given)", vf::fmt("setValue(double %g)", d), d == 1.0 || d == 5.0);
    const double DT[][2] = {{1.0, 0.0}, {1.0, 0.4}, {5.0, 1e300}, {1.0, INF}, {1.0, QNAN}, {1.3, 0.005}, {1.004, 0.005}, {5.3, 0.005}, {1.0, 0.005}};
    for (auto& dt : DT) add(A_VAL, vdouble(dt[0], dt[1]), "double(with tolerance)", vf::fmt("setValue(double %g, tolerance %g)", dt[0], dt[1]), dt[1] == 0.0 || dt[1] == 0.4 || dt[1] == 1e300);
    const char* s0 = heap_str(""); const char* s1 = heap_str("a"); const char* s2 = heap_str("ab");
    add(A_VAL, vstr(s0, "\"\""), "const char*", "setValue(\"\")", false); add(A_VAL, vstr(s1, "\"a\""), "const char*", "setValue(\"a\")", true); add(A_VAL, vstr(s2, "\"ab\""), "const char*", "setValue(\"ab\")", true);
    add(A_VAL, vptr(K_PTR, nullptr, "NULL"), "void*", "setValue((void*)NULL)", true); add(A_VAL, vptr(K_PTR, rb, "rb"), "void*", "setValue((void*)rb)", true);
    add(A_VAL, vptr(K_CPTR, nullptr, "NULL"), "const void*", "setValue((const void*)NULL)", true); add(A_VAL, vptr(K_CPTR, rb, "rb"), "const void*", "setValue((const void*)rb)", true);
    add(A_VAL, vfptr(nullptr, "NULL"), "void (*)()", "setValue((void(*)())NULL)", true); add(A_VAL, vfptr(fn_f, "f"), "void (*)()", "setValue(f)", true);
    add(A_VAL, vmem(rb, 0, "rb,0"), "memory buffer", "setMemoryBuffer(rb,0)", true); add(A_VAL, vmem(rb, 1, "rb,1"), "memory buffer", "setMemoryBuffer(rb,1)", false);
    add(A_VAL, vmem(rb, 2, "rb,2"), "memory buffer", "setMemoryBuffer(rb,2)", true); add(A_VAL, vmem(rb, 3, "rb,3"), "memory buffer", "setMemoryBuffer(rb,3)", false);
    add(A_VAL, vmem(rb2, 2, "rb2,2"), "memory buffer", "setMemoryBuffer(rb2,2) [same bytes as rb,2]", false); add(A_VAL, vmem(nullptr, 0, "NULL,0"), "memory buffer", "setMemoryBuffer(NULL,0)", false);
    add(A_OBJ, vptr(K_PTR, &c1, "&c1"), "object", "setObjectPointer(\"C\" [has comparator], &c1 [=1])", true, "C");
    add(A_OBJ, vptr(K_PTR, &c3, "&c3"), "object", "setObjectPointer(\"C\" [has comparator], &c3 [=2])", false, "C");
    add(A_OBJ, vptr(K_PTR, &c1, "&c1"), "object", "setObjectPointer(\"T\" [no comparator], &c1)", true, "T");
    add(A_COBJ, vptr(K_CPTR, &c2, "&c2"), "const object", "setConstObjectPointer(\"C\" [has comparator], &c2 [=1])", true, "C");
    add(A_COBJ, vptr(K_CPTR, &c3, "&c3"), "const object", "setConstObjectPointer(\"C\" [has comparator], &c3 [=2])", false, "C");
    add(A_COBJ, vptr(K_CPTR, &c2, "&c2"), "const object", "setConstObjectPointer(\"T\" [no comparator], &c2)", true, "T");

    std::vector<int> first;
    for (int i = 0; i < (int)A.size(); i++) if (T || A[i].rep) first.push_back(i);
    // probe set: one fresh object per action of the alphabet
    std::vector<Slot*> probes;
    for (auto& a : A) { Slot* s = new Slot(0); apply_act(*s->v, a); probes.push_back(s); }
    const long NA = (long)A.size(), NF = (long)first.size();
    const char* const MID[3] = {"", " setSize(7)", " setName(\"q\")"};
    vf::info("reuse" + X + ".bound", vf::fmt("reused object: construct(\"p\"), FIRST set, [nothing | setSize(7) | setName(\"q\")], SECOND set, [nothing | setSize(4; for a memory buffer 1 or, on NULL, 0)]; fresh object: construct(\"p\" or \"q\"), SECOND set, [same tail]. "
                                             "FIRST over %ld setters (%s), SECOND over all %ld setters of the alphabet: bool x2; the six integer types x {0,1,max,min}; setValue(double) without tolerance x {1,5,0,inf,NaN}; "
                                             "setValue(double,tolerance) x {(1,0),(1,0.4),(5,1e300),(1,inf),(1,NaN),(1.3,.005),(1.004,.005),(5.3,.005),(1,.005)}; strings \"\",\"a\",\"ab\"; void*/const void*/function pointer x {NULL, one address}; "
                                             "setMemoryBuffer x {(rb,0..3),(rb2,2),(NULL,0)}; setObjectPointer/setConstObjectPointer x {type C with comparator+copier: two objects of equal and one of different content; type T without comparator}. "
                                             "Compared reused vs fresh: getName, getType, toString, every getter that is legal for the second value (incl. getDoubleTolerance), getSize (when the second step defines it), comparator/copier (object types), "
                                             "and equals() in both directions against %ld fresh probe values (the alphabet itself) and a fresh twin", NF, T ? "the whole alphabet" : "one to three representatives per kind", NA, NA));
    vf::section_index("reuse" + X, NF * 3 * NA * 2, [&](long idx) {
        vf::Radix r(idx);
        const int end = (int)r.take(2), mid = (int)r.take(3);
        const int i2 = (int)r.take(NA), i1 = first[r.take(NF)];
        const Act &a1 = A[i1], &a2 = A[i2];
        Slot R(0, "p"), F(0, mid == 2 ? "q" : "p"), W(0, mid == 2 ? "q" : "p");
        vf::ctx("first-set"); apply_act(*R.v, a1);
        vf::ctx("between"); if (mid == 1) R.v->setSize(7); if (mid == 2) R.v->setName("q");
        vf::ctx("second-set"); apply_act(*R.v, a2); apply_act(*F.v, a2); apply_act(*W.v, a2);
        // the explicit size afterwards must stay inside the storage when the value is a memory buffer (rb: 3 bytes, rb2: 2, NULL: 0)
        const size_t endsize = !(a2.how == A_VAL && a2.v.kind == K_MEM) ? 4 : a2.v.p ? 1 : 0;
        if (end) { R.v->setSize(endsize); F.v->setSize(endsize); W.v->setSize(endsize); }
        const std::string tail = end ? vf::fmt(" setSize(%zu)", endsize) : std::string();
        const std::string txt = "reused: " + a1.label + MID[mid] + " then " + a2.label + tail + "  vs fresh: " + a2.label + tail;
        Obs oR, oF;
        vf::ctx("observe-reused"); observe(*R.v, a2, oR);
        vf::ctx("observe-fresh"); observe(*F.v, a2, oF);
        vf::count("ops", 4);
        if (vf::want_sample()) vf::sample(txt + " -> type " + oR.type + ", text " + oR.text + ", " + oR.getters);
        if (!oF.complete || oF.failures) vf::fail("reuse/fresh-object-getter-fails", txt + ": a getter that is legal for the value failed on the FRESH object after: " + oF.getters);
        if (oR.type != oF.type) vf::fail("reuse/type-differs", txt + ": getType \"" + oR.type + "\" vs \"" + oF.type + "\"");
        if (oR.text != oF.text || oR.name != oF.name) vf::fail("reuse/text-differs", txt + ": toString/getName \"" + vf::esc(oR.text) + "\"/\"" + oR.name + "\" vs \"" + vf::esc(oF.text) + "\"/\"" + oF.name + "\"");
        if (oR.getters != oF.getters || oR.complete != oF.complete || oR.failures != oF.failures)
            vf::fail("reuse/getter-differs", txt + vf::fmt(": reused {%s}%s vs fresh {%s}%s", oR.getters.c_str(), oR.complete ? "" : " (test failed)", oF.getters.c_str(), oF.complete ? "" : " (test failed)"));
        // getSize is defined by the second step only for setMemoryBuffer or an explicit setSize afterwards; the comparator/copier only for object types
        const bool size_defined = end || (a2.how == A_VAL && a2.v.kind == K_MEM);
        bool stale_size = false, stale_cmp = false;
        if (oR.size != oF.size) { if (size_defined) vf::fail("reuse/size-differs", txt + vf::fmt(": getSize %zu vs %zu", oR.size, oF.size)); else { stale_size = true; vf::count("not_asserted_stale_getSize"); } }
        if (oR.comparator != oF.comparator || oR.copier != oF.copier) {
            if (a2.is_obj()) vf::fail("reuse/comparator-differs", txt + vf::fmt(": comparator/copier present %d/%d vs %d/%d", oR.comparator != nullptr, oR.copier != nullptr, oF.comparator != nullptr, oF.copier != nullptr));
            else { stale_cmp = true; vf::count("not_asserted_stale_comparator"); }
        }
        // equals verdicts against every probe and a fresh twin, both directions
        vf::ctx("equals-vs-probes");
        int eqs = 0;
        // the fresh side depends on (second setter, tail) only: computed once per worker process from this case's own fresh objects
        static std::map<int, std::string> fresh_verdicts;
        auto fit = fresh_verdicts.find(i2 * 2 + end);
        if (fit == fresh_verdicts.end()) {
            std::string fv;
            for (long k = 0; k <= NA; k++) { const MockNamedValue& p = k < NA ? *probes[k]->v : *W.v; fv += F.v->equals(p) ? '1' : '0'; fv += p.equals(*F.v) ? '1' : '0'; }
            vf::count("ops", 2 * (NA + 1));
            fit = fresh_verdicts.insert({i2 * 2 + end, fv}).first;
        }
        const std::string& fv = fit->second;
        for (long k = 0; k <= NA; k++) {
            const MockNamedValue& p = k < NA ? *probes[k]->v : *W.v;
            bool r1 = R.v->equals(p), f1 = fv[2 * k] == '1', r2 = p.equals(*R.v), f2 = fv[2 * k + 1] == '1';
            eqs += r1 + r2;
            if (r1 != f1 || r2 != f2)
                vf::fail("reuse/equals-verdict-differs", txt + ": against " + (k < NA ? "probe " + A[k].label : std::string("a fresh twin")) + vf::fmt(": reused.equals(probe)=%d fresh.equals(probe)=%d; probe.equals(reused)=%d probe.equals(fresh)=%d", r1, f1, r2, f2));
        }
        vf::count("ops", 2 * (NA + 1));
        vf::outcome(a1.gname + " -> " + a2.gname + (stale_size ? " [getSize keeps the earlier size: not asserted]" : "") + (stale_cmp ? " [comparator/copier of the earlier object type kept: not asserted]" : "") + (eqs ? " matches>0" : " matches=0"));
        if (i1 != i2) vf::count("nontrivial");
    });
    vf::require_outcomes("reuse" + X, 100);
    MockNamedValue::setDefaultComparatorsAndCopiersRepository(nullptr);
    for (Slot* s : probes) delete s;
}

// All sections of one tier. The driver replays a case without telling the tier, so the sections of the thorough
// tier carry their own names (suffix X = ".t") and a replay run registers both sets.
static void run_all(const bool T, const std::string& X) {
    NPRE = T ? 4 : 3;
    build_int_lattice(LATQ, false);
    build_int_lattice(LATT, true);
    // equals() has no failure path, so the -fno-exceptions flavour repeats the value sweep on the property's lattice only
    const bool bigpairs = T && std::string(VF_FLAVOUR) != "noexc";
    const Lattice& LP = bigpairs ? LATT : LATQ;     // intpairs
    const Lattice& LG = T ? LATT : LATQ;            // getters, api_return
    vf::info("rule", "every ordered pair of values of the stated lattices is built on two real MockNamedValue objects (each with every listed object pre-state: "
                     "constructed on zero-filled / 0xff-filled storage, or reused after holding a value of another type) and compared in both directions; "
                     "every stored integer is read through every integer getter inside a real test. non-trivial = the oracle's answer is not implied by the type tags and raw bits alone "
                     "(integers: equal values, or different values whose low 32 or low 64 bits coincide; strings/buffers: equal content in different storage, same length, or a prefix relation; "
                     "doubles: NaN/infinity involved or two different finite values decided by the tolerance; cross-type: the two values hold the same bits; getters: stored type differs from the getter's type)");
    auto latdesc = [](const Lattice& L) { std::string d; for (int t = 0; t < NI; t++) d += vf::fmt("%s%s:%zu", t ? ", " : "", KN[t], L[t].size()); return d; };
    const char* const LATQ_TEXT = "{-2^63,-2^63+1,-2^32-1..-2^32+1,-2^31-1..-2^31+1,-2..2,2^31-2..2^31+1,2^32-2..2^32+1,2^63-1..2^63+1,2^64-2,2^64-1} intersected with each type";
    const char* const LATT_TEXT = "the quick lattice plus +-2^k and +-(2^k+-1) for k=0..64, intersected with each type";

    // ================================================================ intpairs
    {
        Blocks bl; bl.build(LP, (long)NPRE * NPRE);
        vf::info("intpairs" + X + ".bound", vf::fmt("36 ordered type pairs x lattice values per type (%s; %s) x %d pre-states per side; both directions",
                                           latdesc(LP).c_str(), bigpairs ? LATT_TEXT : LATQ_TEXT, NPRE));
        vf::section_index("intpairs" + X, bl.total(), [&](long idx) {
            int ta, tb; i128 A, B;
            vf::Radix r(bl.decode(idx, ta, tb, A, B));
            int pa = (int)r.take(NPRE), pb = (int)r.take(NPRE);
            Val x = vint(ta, A), y = vint(tb, B);
            bool ab, ba; both_ways(x, pa, y, pb, ab, ba);
            bool want = A == B;
            if (vf::want_sample()) vf::sample(pair_text(x, pa, y, pb) + vf::fmt(" -> a.equals(b)=%d b.equals(a)=%d", ab, ba));
            if (ab != want) vf::fail(want ? "equals/integers/same-integer-reported-different" : "equals/integers/different-integers-reported-equal", pair_text(x, pa, y, pb) + vf::fmt(": a.equals(b)=%d, expected %d", ab, want));
            if (ba != want) vf::fail(want ? "equals/integers/same-integer-reported-different" : "equals/integers/different-integers-reported-equal", pair_text(x, pa, y, pb) + vf::fmt(": b.equals(a)=%d, expected %d", ba, want));
            if (ab != ba) vf::fail("equals/integers/asymmetric", pair_text(x, pa, y, pb) + vf::fmt(": a.equals(b)=%d but b.equals(a)=%d", ab, ba));
            bool alias32 = !want && (unsigned int)A == (unsigned int)B, alias64 = !want && (unsigned long long)A == (unsigned long long)B;
            vf::outcome(vf::fmt("%s~%s %s -> %d", KN[ta], KN[tb], want ? "same" : alias64 ? "differ-low64-alias" : alias32 ? "differ-low32-alias" : "differ", ab));
            if (want || alias32 || alias64) vf::count("nontrivial");
        });
        vf::require_outcomes("intpairs" + X, 72);
    }

    // ================================================================ scalars
    static unsigned char obj[2] = {'a', 0};
    static unsigned char other = 7;
    {
        std::vector<Val> vals[4];
        vals[0] = {vbool(false), vbool(true)};
        vals[1] = {vptr(K_PTR, nullptr, "NULL"), vptr(K_PTR, &obj[0], "&obj[0]"), vptr(K_PTR, &obj[1], "&obj[1]"), vptr(K_PTR, &other, "&other")};
        vals[2] = {vptr(K_CPTR, nullptr, "NULL"), vptr(K_CPTR, &obj[0], "&obj[0]"), vptr(K_CPTR, &obj[1], "&obj[1]"), vptr(K_CPTR, &other, "&other")};
        vals[3] = {vfptr(nullptr, "NULL"), vfptr(fn_f, "f"), vfptr(fn_g, "g")};
        struct C { int k, i, j; };
        std::vector<C> cases;
        for (int k = 0; k < 4; k++) for (int i = 0; i < (int)vals[k].size(); i++) for (int j = 0; j < (int)vals[k].size(); j++) cases.push_back({k, i, j});
        vf::info("scalars" + X + ".bound", vf::fmt("bool {false,true}^2, void* and const void* {NULL,&obj[0],&obj[1],&other}^2, function pointer {NULL,f,g}^2 (%zu value pairs) x %d pre-states per side; both directions", cases.size(), NPRE));
        vf::section_index("scalars" + X, (long)cases.size() * NPRE * NPRE, [&](long idx) {
            vf::Radix r(idx);
            int pa = (int)r.take(NPRE), pb = (int)r.take(NPRE);
            const C& c = cases[r.take((long)cases.size())];
            const Val &x = vals[c.k][c.i], &y = vals[c.k][c.j];
            bool ab, ba; both_ways(x, pa, y, pb, ab, ba);
            bool want = c.i == c.j;
            if (vf::want_sample()) vf::sample(pair_text(x, pa, y, pb) + vf::fmt(" -> %d/%d", ab, ba));
            if (ab != want || ba != want) vf::fail(want ? "equals/identity/same-value-reported-different" : "equals/identity/different-values-reported-equal", pair_text(x, pa, y, pb) + vf::fmt(": a.equals(b)=%d b.equals(a)=%d, expected %d", ab, ba, want));
            vf::outcome(vf::fmt("%s %s -> %d", KN[x.kind], want ? "same" : "differ", ab));
            if (want) vf::count("nontrivial");
        });
        vf::require_outcomes("scalars" + X, 8);
    }

    // ================================================================ strings
    {
        std::vector<std::string> W = words(std::string("ab\xff"), 3);
        std::vector<char*> ca, cb;
        for (auto& w : W) { ca.push_back(heap_str(w)); cb.push_back(heap_str(w)); }
        const long NW = (long)W.size();
        // aliasing: both values point into ONE block (every suffix pair of every string of length <= 4)
        std::vector<std::string> W4 = words(std::string("ab\xff"), 4);
        std::vector<char*> c4; for (auto& w : W4) c4.push_back(heap_str(w));
        struct C { int i, j, shared; };          // shared: 0 own copies, 1 same pointer, 2 two suffixes of block i (offsets j / 8 and j % 8)
        std::vector<C> cases;
        for (int i = 0; i < NW; i++) for (int j = 0; j < NW; j++) { cases.push_back({i, j, 0}); if (i == j) cases.push_back({i, j, 1}); }
        long nalias = 0;
        for (int b = 0; b < (int)W4.size(); b++) for (int oa = 0; oa <= (int)W4[b].size(); oa++) for (int ob = 0; ob <= (int)W4[b].size(); ob++) { cases.push_back({b, oa * 8 + ob, 2}); nalias++; }
        vf::info("strings" + X + ".bound", vf::fmt("all %ld x %ld pairs of strings over {a,b,\\xff} of length <= 3, each in its own exact-size heap copy (plus, for identical content, the same pointer on both sides); "
                                                   "aliasing: every ordered pair of suffixes (incl. the empty one) of every string of length <= 4 inside ONE heap block (%ld pairs: same pointer, pointer into the middle of the other string); x %d pre-states per side; both directions", NW, NW, nalias, NPRE));
        vf::section_index("strings" + X, (long)cases.size() * NPRE * NPRE, [&](long idx) {
            vf::Radix r(idx);
            int pa = (int)r.take(NPRE), pb = (int)r.take(NPRE);
            const C& c = cases[r.take((long)cases.size())];
            std::string A, B; const char *qa, *qb; std::string na, nb; const char* cls;
            if (c.shared == 2) {
                int oa = c.j / 8, ob = c.j % 8;
                A = W4[c.i].substr(oa); B = W4[c.i].substr(ob); qa = c4[c.i] + oa; qb = c4[c.i] + ob;
                na = vf::fmt("\"%s\"=blk+%d", vf::esc(A).c_str(), oa); nb = vf::fmt("\"%s\"=blk+%d of the same block \"%s\"", vf::esc(B).c_str(), ob, vf::esc(W4[c.i]).c_str());
                cls = oa == ob ? "alias-same-pointer" : "alias-suffix-of-other";
            } else {
                A = W[c.i]; B = W[c.j]; qa = ca[c.i]; qb = c.shared ? ca[c.j] : cb[c.j];
                na = "\"" + vf::esc(A) + "\""; nb = "\"" + vf::esc(B) + "\"" + (c.shared ? "(same pointer)" : "");
                cls = c.shared ? "same-pointer" : "other-storage";
            }
            Val x = vstr(qa, na.c_str()), y = vstr(qb, nb.c_str());
            bool ab, ba; both_ways(x, pa, y, pb, ab, ba);
            bool want = A == B;
            if (vf::want_sample()) vf::sample(pair_text(x, pa, y, pb) + vf::fmt(" -> %d/%d", ab, ba));
            if (ab != want || ba != want) vf::fail(want ? "equals/strings/same-content-reported-different" : "equals/strings/different-content-reported-equal", pair_text(x, pa, y, pb) + vf::fmt(": a.equals(b)=%d b.equals(a)=%d, expected %d", ab, ba, want));
            bool prefix = !want && (A.compare(0, B.size(), B) == 0 || B.compare(0, A.size(), A) == 0);
            bool samelen = !want && A.size() == B.size();
            vf::outcome(vf::fmt("%s %s -> %d", cls, want ? "same-content" : prefix ? "prefix" : samelen ? "same-length" : "differ", ab));
            if ((want && qa != qb) || prefix || samelen || (c.shared == 2 && qa != qb)) vf::count("nontrivial");
        });
        vf::require_outcomes("strings" + X, 8);
    }

    // ================================================================ membufs
    auto hex = [](const std::string& s) { std::string o = "["; char b[4]; for (unsigned char c : s) { snprintf(b, sizeof b, "%02x", c); o += b; } return o + "]"; };
    // aliasing cases shared by membufs and api_param: both values lie in ONE exact-size heap block (all blocks over
    // {00,01,ff} of length <= 4): start offsets 0/1 and every length that fits, on both sides
    std::vector<std::string> MB4 = words(std::string("\x00\x01\xff", 3), 4);
    std::vector<unsigned char*> mb4; for (auto& w : MB4) mb4.push_back(heap_mem(w));
    struct MA { int blk, oa, la, ob, lb; };
    std::vector<MA> malias;
    for (int b = 0; b < (int)MB4.size(); b++) {
        const int L = (int)MB4[b].size();
        for (int oa = 0; oa <= 1 && oa <= L; oa++) for (int la = 0; oa + la <= L; la++)
            for (int ob = 0; ob <= 1 && ob <= L; ob++) for (int lb = 0; ob + lb <= L; lb++) malias.push_back({b, oa, la, ob, lb});
    }
    auto alias_class = [](const MA& m) { return m.oa == m.ob ? (m.la == m.lb ? "alias-same-start-same-length" : "alias-same-start-other-length") : (m.la == m.lb ? "alias-other-start-same-length" : "alias-other-start-other-length"); };
    std::vector<std::string> MW = words(std::string("\x00\x01\xff", 3), 3);
    std::vector<unsigned char*> mca, mcb;
    for (auto& w : MW) { mca.push_back(heap_mem(w)); mcb.push_back(heap_mem(w)); }
    {
        const std::vector<std::string>& W = MW;
        const long NW = (long)W.size();
        // variant 0: own copies; 1: same pointer (i == j only); 2: a NULL pointer for the empty buffers (length 0 only); 3: aliasing case i of `malias`
        struct C { int i, j, var; };
        std::vector<C> cases;
        for (int i = 0; i < NW; i++) for (int j = 0; j < NW; j++) {
            cases.push_back({i, j, 0});
            if (i == j) cases.push_back({i, j, 1});
            if (W[i].empty() || W[j].empty()) cases.push_back({i, j, 2});
        }
        for (int k = 0; k < (int)malias.size(); k++) cases.push_back({k, 0, 3});
        vf::info("membufs" + X + ".bound", vf::fmt("all %ld x %ld pairs of buffers over {00,01,ff} of length <= 3, each in its own exact-size heap block (length 0: a block with no addressable byte; variants: same pointer for identical content, NULL for empty buffers); "
                                                   "aliasing: both buffers inside ONE exact-size block, for every block over {00,01,ff} of length <= 4 every (start offset 0/1, length that fits) on each side (%zu pairs: same start with different lengths incl. 0, same length with overlapping different starts, same start and length); "
                                                   "x %d pre-states per side; both directions", NW, NW, malias.size(), NPRE));
        vf::section_index("membufs" + X, (long)cases.size() * NPRE * NPRE, [&](long idx) {
            vf::Radix r(idx);
            int pa = (int)r.take(NPRE), pb = (int)r.take(NPRE);
            const C& c = cases[r.take((long)cases.size())];
            std::string A, B; const unsigned char *pi, *pj; std::string na, nb; std::string cls;
            if (c.var == 3) {
                const MA& m = malias[c.i];
                A = MB4[m.blk].substr(m.oa, m.la); B = MB4[m.blk].substr(m.ob, m.lb); pi = mb4[m.blk] + m.oa; pj = mb4[m.blk] + m.ob;
                na = hex(A) + vf::fmt("=blk+%d", m.oa); nb = hex(B) + vf::fmt("=blk+%d of the same block ", m.ob) + hex(MB4[m.blk]);
                cls = alias_class(m);
            } else {
                A = W[c.i]; B = W[c.j]; pi = mca[c.i]; pj = c.var == 1 ? mca[c.j] : mcb[c.j];
                if (c.var == 2) { if (A.empty()) pi = nullptr; if (B.empty()) pj = nullptr; }
                na = hex(A) + (pi ? "" : "@NULL"); nb = hex(B) + (pj ? "" : "@NULL") + (c.var == 1 ? "(same pointer)" : "");
                cls = c.var == 1 ? "same-pointer" : c.var == 2 ? "other-storage(NULL,0)" : "other-storage";
            }
            Val x = vmem(pi, A.size(), na.c_str()), y = vmem(pj, B.size(), nb.c_str());
            bool ab, ba; both_ways(x, pa, y, pb, ab, ba);
            bool want = A == B;
            if (vf::want_sample()) vf::sample(pair_text(x, pa, y, pb) + vf::fmt(" -> %d/%d", ab, ba));
            if (ab != want || ba != want) vf::fail(want ? "equals/buffers/same-length-and-content-reported-different" : "equals/buffers/different-length-or-content-reported-equal", pair_text(x, pa, y, pb) + vf::fmt(": a.equals(b)=%d b.equals(a)=%d, expected %d", ab, ba, want));
            bool prefix = !want && (A.compare(0, B.size(), B) == 0 || B.compare(0, A.size(), A) == 0);
            bool samelen = !want && A.size() == B.size();
            vf::outcome(vf::fmt("%s %s -> %d", cls.c_str(), want ? "same-content" : prefix ? "prefix-other-length" : samelen ? "same-length" : "differ", ab));
            if ((want && c.var != 1 && !(c.var == 3 && pi == pj)) || prefix || samelen) vf::count("nontrivial");
        });
        vf::require_outcomes("membufs" + X, 12);
    }

    // ================================================================ doubles
    const double INF = std::numeric_limits<double>::infinity(), QNAN = std::numeric_limits<double>::quiet_NaN();
    const double DEN = std::numeric_limits<double>::denorm_min(), EPS = DBL_EPSILON;
    std::vector<double> D = {0.0, -0.0, DEN, -DEN, DBL_MIN, -DBL_MIN, 0.5, 1.0, -1.0, 1.0 + EPS, 1.0 - EPS / 2, -(1.0 + EPS),
                             1.004, 1.005, std::nextafter(1.005, 2.0), 1.006, 1.5, 2.0, DBL_MAX, -DBL_MAX, INF, -INF, QNAN, -QNAN};
    std::vector<double> TOL = {0.0, DEN, EPS, 0.005, 0.5, 1.0, DBL_MAX, INF, QNAN, -1.0};
    std::vector<double> TOLB = {0.005, 0.0, INF, QNAN};
    {
        const long ND = (long)D.size(), NT = (long)TOL.size(), NTB = (long)TOLB.size();
        const int NP = T ? NPRE : 2;
        vf::info("doubles" + X + ".bound", vf::fmt("a = %ld values x %ld tolerances, b = %ld values x %ld tolerances (values: +-0, +-denorm_min, +-DBL_MIN, 0.5, +-1, 1+eps, 1-eps/2, -(1+eps), 1.004, 1.005, next(1.005), 1.006, 1.5, 2, +-DBL_MAX, +-inf, +-NaN; "
                                          "tolerances of a: 0, denorm_min, eps, 0.005, 0.5, 1, DBL_MAX, +inf, NaN, -1; of b: 0.005, 0, +inf, NaN) x %d pre-states per side; a.equals(b) judged with a's tolerance, b.equals(a) with b's", ND, NT, ND, NTB, NP));
        vf::section_index("doubles" + X, ND * NT * ND * NTB * NP * NP, [&](long idx) {
            vf::Radix r(idx);
            int pa = (int)r.take(NP), pb = (int)r.take(NP);
            double tb = TOLB[r.take(NTB)], ta = TOL[r.take(NT)];
            double a = D[r.take(ND)], b = D[r.take(ND)];
            Val x = vdouble(a, ta), y = vdouble(b, tb);
            bool ab, ba; both_ways(x, pa, y, pb, ab, ba);
            int wab = want_double(a, b, ta), wba = want_double(b, a, tb);
            if (vf::want_sample()) vf::sample(pair_text(x, pa, y, pb) + vf::fmt(" -> %d/%d (oracle %d/%d)", ab, ba, wab, wba));
            bool nanv = std::isnan(a) || std::isnan(b);
            if (wab >= 0 && (int)ab != wab)
                vf::fail(nanv ? "equals/doubles/nan-reported-equal" : wab ? "equals/doubles/within-tolerance-reported-different" : "equals/doubles/outside-tolerance-reported-equal",
                         pair_text(x, pa, y, pb) + vf::fmt(": a.equals(b)=%d, expected %d (a is the expectation; its tolerance counts)", ab, wab));
            if (wba >= 0 && (int)ba != wba)
                vf::fail(nanv ? "equals/doubles/nan-reported-equal" : wba ? "equals/doubles/within-tolerance-reported-different" : "equals/doubles/outside-tolerance-reported-equal",
                         pair_text(x, pa, y, pb) + vf::fmt(": b.equals(a)=%d, expected %d (b is the expectation; its tolerance counts)", ba, wba));
            if (wab < 0) vf::count("not_asserted_directions"); if (wba < 0) vf::count("not_asserted_directions");
            vf::outcome(vf::fmt("%s~%s tol=%s oracle=%d -> %d", dclass(a), dclass(b), std::isnan(ta) ? "nan" : std::isinf(ta) ? "inf" : ta < 0 ? "neg" : ta == 0 ? "0" : "pos", wab, ab));
            bool special = nanv || std::isinf(a) || std::isinf(b);
            if (special || (a != b && wab >= 0)) vf::count("nontrivial");
        });
        vf::require_outcomes("doubles" + X, 20);
    }

    // ================================================================ crosstype
    {
        std::vector<Val> S;
        const unsigned long long ONE_BITS = double2bits(1.0);
        for (int t = 0; t < NI; t++) {
            S.push_back(vint(t, 0)); S.push_back(vint(t, 1));
            if (tmin(t) < 0) S.push_back(vint(t, -1));
            if (tmax(t) >= P63 - 1) {                                  // 64 bit types can hold the bits of every other member
                S.push_back(vint(t, (i128)(uintptr_t)&obj[0] )); S.back().label = std::string(KN[t]) + ":(bits of &obj[0])";
                S.push_back(vint(t, (i128)(uintptr_t)&fn_f)); S.back().label = std::string(KN[t]) + ":(bits of f)";
                S.push_back(vint(t, (i128)ONE_BITS)); S.back().label = std::string(KN[t]) + ":(bits of 1.0)";
            }
        }
        S.push_back(vbool(false)); S.push_back(vbool(true));
        S.push_back(vdouble(0.0, 0.005)); S.push_back(vdouble(1.0, 0.005)); S.push_back(vdouble(1.0, INF));
        S.push_back(vdouble(bits2double((unsigned long long)(uintptr_t)&obj[0]), 0.005)); S.back().label = "double:(bits of &obj[0])~0.005";
        S.push_back(vptr(K_PTR, nullptr, "NULL")); S.push_back(vptr(K_PTR, &obj[0], "&obj[0]")); S.push_back(vptr(K_PTR, (void*)(uintptr_t)1, "(void*)1"));
        S.push_back(vptr(K_CPTR, nullptr, "NULL")); S.push_back(vptr(K_CPTR, &obj[0], "&obj[0]")); S.push_back(vptr(K_CPTR, (void*)(uintptr_t)1, "(void*)1"));
        S.push_back(vfptr(nullptr, "NULL")); S.push_back(vfptr(fn_f, "f")); S.push_back(vfptr((void (*)())(uintptr_t)&obj[0], "(bits of &obj[0])"));
        static const char empty_str[1] = {0};
        S.push_back(vstr(empty_str, "\"\"")); S.push_back(vstr((const char*)&obj[0], "\"a\"@obj"));
        S.push_back(vmem(&obj[0], 0, "[]@obj")); S.push_back(vmem(&obj[0], 1, "[61]@obj")); S.push_back(vmem(&obj[0], 2, "[61 00]@obj")); S.push_back(vmem((const unsigned char*)empty_str, 1, "[00]@\"\""));
        const long NS = (long)S.size();
        vf::info("crosstype" + X + ".bound", vf::fmt("%ld specimens of the 13 types (integers 0,1,-1 and, in the 64 bit types, the bit patterns of a data pointer, a function pointer and of 1.0; bool; doubles incl. one with a pointer's bits; "
                                            "NULL, one shared object address and (void*)1 as void*/const void*/function pointer; strings and buffers on that same object) - every ordered pair of different types that are not both integer types x %d pre-states per side", NS, NPRE));
        struct C { int i, j; };
        std::vector<C> cases;
        for (int i = 0; i < NS; i++) for (int j = 0; j < NS; j++) if (S[i].kind != S[j].kind && !(S[i].kind < NI && S[j].kind < NI)) cases.push_back({i, j});
        vf::section_index("crosstype" + X, (long)cases.size() * NPRE * NPRE, [&](long idx) {
            vf::Radix r(idx);
            int pa = (int)r.take(NPRE), pb = (int)r.take(NPRE);
            const C& c = cases[r.take((long)cases.size())];
            const Val &x = S[c.i], &y = S[c.j];
            bool ab, ba; both_ways(x, pa, y, pb, ab, ba);
            if (vf::want_sample()) vf::sample(pair_text(x, pa, y, pb) + vf::fmt(" -> %d/%d", ab, ba));
            const char* sig = (x.kind < NI || y.kind < NI) ? "equals/different-types/integer-equals-non-integer" : "equals/different-types/reported-equal";
            if (ab || ba) vf::fail(sig, pair_text(x, pa, y, pb) + vf::fmt(": a.equals(b)=%d b.equals(a)=%d, expected 0 (types differ)", ab, ba));
            vf::outcome(vf::fmt("%s~%s -> %d", KN[x.kind], KN[y.kind], ab));
            if (x.bits == y.bits) vf::count("nontrivial");
        });
        vf::require_outcomes("crosstype" + X, 13 * 12 - 6 * 5);
    }

    // ================================================================ getters
    {
        long nvals = 0; long voff[NI + 1]; voff[0] = 0;
        for (int t = 0; t < NI; t++) { nvals += (long)LG[t].size(); voff[t + 1] = nvals; }
        vf::info("getters" + X + ".bound", vf::fmt("every stored integer (6 types x lattice: %s; %s) x %d pre-states x 6 integer getters, each read inside its own real test run", latdesc(LG).c_str(), T ? LATT_TEXT : LATQ_TEXT, NPRE));
        vf::section_index("getters" + X, nvals * NPRE * NI, [&](long idx) {
            vf::Radix r(idx);
            int g = (int)r.take(NI), pre = (int)r.take(NPRE);
            long vi = r.take(nvals);
            int ts = 0; while (vi >= voff[ts + 1]) ts++;
            i128 S = LG[ts][vi - voff[ts]];
            Slot s(pre); set_int(*s.v, ts, S);
            volatile bool returned = false; i128 R = 0; i128* Rp = &R;
            vf::Fixture fx;
            vf::ctx(GN[g]);
            fx.run([&] { *Rp = call_getter(*s.v, g); returned = true; });
            vf::count("ops");
            bool failed = fx.failures() > 0;
            std::string txt = vf::fmt("stored %s %s {%s}, %s()", KN[ts], s128(S).c_str(), PRE[pre], GN[g]);
            if (vf::want_sample()) vf::sample(txt + (failed ? " -> test failed" : " -> " + s128(R)));
            if (returned && !failed && R != S) vf::fail("getter/returns-different-number", txt + " returned " + s128(R) + " and the test did not fail");
            if (!returned && !failed) vf::fail("getter/left-test-without-failure", txt + " did not return, yet no failure was recorded");
            if (ts == g && (failed || !returned)) vf::fail("getter/own-type-read-fails", txt + " failed the test although the value was stored with this very type");
            vf::outcome(vf::fmt("%s via %s %s -> %s", KN[ts], GN[g], sign_class(S), failed ? "test-fails" : "value"));
            if (ts != g) vf::count("nontrivial");
        });
        vf::require_outcomes("getters" + X, 40);
    }

    // ================================================================ api_param (the comparison as a user reaches it)
    {
        Blocks bl; bl.build(LATQ, 1);
        const long NDD = (long)D.size() * (long)D.size() * (long)TOL.size();
        const long NMW = (long)MW.size(), NMB = NMW * NMW + (long)malias.size();
        vf::info("api_param" + X + ".bound", vf::fmt("mock().expectOneCall(\"f\").withParameter(\"p\", a) then actualCall(\"f\").withParameter(\"p\", b), checkExpectations, in a real test: 36 integer type pairs x quick lattice^2 (%ld), doubles a(value,tolerance) x b(value) (%ld), "
                                                     "memory buffers: all %ld x %ld buffers of length <= 3 over {00,01,ff} in own blocks plus the %zu aliasing pairs of the membufs section (%ld); the test must pass iff the values are equal", bl.total(), NDD, NMW, NMW, malias.size(), NMB));
        vf::section_index("api_param" + X, bl.total() + NDD + NMB, [&](long idx) {
            const int kind = idx < bl.total() ? 0 : idx < bl.total() + NDD ? 1 : 2;
            const bool isint = kind == 0;
            int ta = 0, tb = 0; i128 A = 0, B = 0; double a = 0, b = 0, tol = 0;
            std::string MA_, MB_; const unsigned char *pa = nullptr, *pb = nullptr; std::string mcls, mtxt;
            if (kind == 0) bl.decode(idx, ta, tb, A, B);
            else if (kind == 1) { vf::Radix r(idx - bl.total()); tol = TOL[r.take((long)TOL.size())]; a = D[r.take((long)D.size())]; b = D[r.take((long)D.size())]; }
            else {
                long k = idx - bl.total() - NDD;
                if (k < NMW * NMW) { MA_ = MW[k / NMW]; MB_ = MW[k % NMW]; pa = mca[k / NMW]; pb = mcb[k % NMW]; mcls = "other-storage"; mtxt = "expected buffer " + hex(MA_) + ", actual buffer " + hex(MB_) + " (own blocks)"; }
                else {
                    const MA& m = malias[k - NMW * NMW];
                    MA_ = MB4[m.blk].substr(m.oa, m.la); MB_ = MB4[m.blk].substr(m.ob, m.lb); pa = mb4[m.blk] + m.oa; pb = mb4[m.blk] + m.ob; mcls = alias_class(m);
                    mtxt = "expected buffer " + hex(MA_) + vf::fmt("=blk+%d, actual buffer ", m.oa) + hex(MB_) + vf::fmt("=blk+%d of the same block ", m.ob) + hex(MB4[m.blk]);
                }
            }
            volatile bool completed = false;
            vf::Fixture fx;
            vf::ctx("expectOneCall/actualCall");
            fx.run([&] {
                       MockExpectedCall& e = mock().expectOneCall("f");
                       if (kind == 0) expect_with(e, ta, A); else if (kind == 1) e.withParameter("p", a, tol); else e.withParameter("p", pa, MA_.size());
                       MockActualCall& c = mock().actualCall("f");
                       if (kind == 0) actual_with(c, tb, B); else if (kind == 1) c.withParameter("p", b); else c.withParameter("p", pb, MB_.size());
                       completed = true;
                   },
                   nullptr, [] { mock().checkExpectations(); mock().clear(); });
            vf::count("ops", 2);
            bool passed = fx.failures() == 0;
            std::string txt = kind == 0 ? vf::fmt("expected %s %s, actual %s %s", KN[ta], s128(A).c_str(), KN[tb], s128(B).c_str())
                            : kind == 1 ? "expected double " + dstr(a) + " tolerance " + dstr(tol) + ", actual double " + dstr(b) : mtxt;
            if (vf::want_sample()) vf::sample(txt + (passed ? " -> test passes" : " -> test fails"));
            int want = kind == 0 ? (A == B ? 1 : 0) : kind == 1 ? want_double(a, b, tol) : (MA_ == MB_ ? 1 : 0);
            if (passed && !completed) vf::fail("mockcall/left-test-without-failure", txt + ": the test body was left early but no failure was recorded");
            if (want >= 0 && (int)passed != want) {
                std::string sig = std::string("mockcall/") + (kind == 0 ? "integers/" : kind == 1 ? "doubles/" : "buffers/") + (want ? "equal-parameter-rejected" : "different-parameter-accepted");
                vf::fail(sig, txt + (passed ? ": the test passed" : ": the test failed") + vf::fmt(", expected %s", want ? "pass" : "fail"));
            }
            if (isint) {
                bool alias = A != B && ((unsigned int)A == (unsigned int)B || (unsigned long long)A == (unsigned long long)B);
                vf::outcome(vf::fmt("%s~%s %s -> %s", KN[ta], KN[tb], A == B ? "same" : alias ? "differ-alias" : "differ", passed ? "pass" : "fail"));
                if (A == B || alias) vf::count("nontrivial");
            } else if (kind == 1) {
                vf::outcome(vf::fmt("double %s~%s oracle=%d -> %s", dclass(a), dclass(b), want, passed ? "pass" : "fail"));
                if (std::isnan(a) || std::isnan(b) || std::isinf(a) || std::isinf(b) || (a != b && want >= 0)) vf::count("nontrivial");
            } else {
                bool prefix = !want && (MA_.compare(0, MB_.size(), MB_) == 0 || MB_.compare(0, MA_.size(), MA_) == 0);
                vf::outcome(vf::fmt("buffer %s %s -> %s", mcls.c_str(), want ? "same-content" : prefix ? "prefix-other-length" : MA_.size() == MB_.size() ? "same-length" : "differ", passed ? "pass" : "fail"));
                if ((want && pa != pb) || prefix || (!want && MA_.size() == MB_.size())) vf::count("nontrivial");
            }
        });
        vf::require_outcomes("api_param" + X, 80);
    }

    // ================================================================ api_return
    {
        long nvals = 0; long voff[NI + 1]; voff[0] = 0;
        for (int t = 0; t < NI; t++) { nvals += (long)LG[t].size(); voff[t + 1] = nvals; }
        vf::info("api_return" + X + ".bound", vf::fmt("mock().expectOneCall(\"f\").andReturnValue(stored) then actualCall(\"f\").returnXxxValue() in a real test: every stored integer (6 types x lattice, %ld values) x 6 integer return getters", nvals));
        vf::section_index("api_return" + X, nvals * NI, [&](long idx) {
            vf::Radix r(idx);
            int g = (int)r.take(NI);
            long vi = r.take(nvals);
            int ts = 0; while (vi >= voff[ts + 1]) ts++;
            i128 S = LG[ts][vi - voff[ts]];
            volatile bool returned = false; i128 R = 0; i128* Rp = &R;
            vf::Fixture fx;
            vf::ctx(RN[g]);
            fx.run([&] {
                       expect_return(mock().expectOneCall("f"), ts, S);
                       *Rp = actual_return(mock().actualCall("f"), g);
                       returned = true;
                   },
                   nullptr, [] { mock().checkExpectations(); mock().clear(); });
            vf::count("ops", 2);
            bool failed = fx.failures() > 0;
            std::string txt = vf::fmt("andReturnValue(%s %s), %s()", KN[ts], s128(S).c_str(), RN[g]);
            if (vf::want_sample()) vf::sample(txt + (failed ? " -> test failed" : " -> " + s128(R)));
            if (returned && !failed && R != S) vf::fail("mockreturn/returns-different-number", txt + " returned " + s128(R) + " and the test did not fail");
            if (!returned && !failed) vf::fail("mockreturn/left-test-without-failure", txt + " did not return, yet no failure was recorded");
            if (ts == g && (failed || !returned)) vf::fail("mockreturn/own-type-read-fails", txt + " failed the test although the value was stored with this very type");
            vf::outcome(vf::fmt("%s via %s %s -> %s", KN[ts], RN[g], sign_class(S), failed ? "test-fails" : "value"));
            if (ts != g) vf::count("nontrivial");
        });
        vf::require_outcomes("api_return" + X, 40);
    }
    run_reuse(T, X);
}

int main(int argc, char** argv) {
    vf::init(argc, argv, "C09");
    MemoryLeakWarningPlugin::turnOffNewDeleteOverloads();
    if (vf::g_replaying) { run_all(false, ""); run_all(true, ".t"); }
    else run_all(vf::thorough(), vf::thorough() ? ".t" : "");
    return vf::finish();
}

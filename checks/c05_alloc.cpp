// C05 - tracked allocations return sound blocks for every size, or fail cleanly.
//
// Driver: the real global entry points (operator new / new[] in their throwing, nothrow and (file,line) forms,
// cpputest_malloc/calloc/realloc/strdup/strndup/free _location) on a PRIVATE global detector (setGlobalDetector)
// whose three current allocators are recording allocators: they forward to the sanitizer's malloc for requests
// <= 1 MiB, return NULL above, pre-fill new memory with 0xA5 and log every request. PlatformSpecificRealloc is
// interposed the same way (always moves the block). Section "faultsdef" uses the library's DEFAULT allocators
// instead and interposes PlatformSpecificMalloc/Free/Realloc, inside a real test (FAIL is the documented outcome).
//
// Deciding steps (all complete enumerations, nothing sampled):
//   sizes      every listed request size x every allocating entry point
//   realloc    every (old size, new size, origin of the old block) triple, incl. unsatisfiable new sizes
//   calloc     every (count, size) pair of the boundary set
//   strdup     every (length, n, content alphabet) triple for strdup / strndup
//   faults     every workload x every set of <= d underlying calls (alloc_memory, allocMemoryLeakNode,
//              PlatformSpecificRealloc) that return NULL   (stateless DFS over the answers of the seams)
//   faultsdef  the same over PlatformSpecificMalloc / PlatformSpecificRealloc under the default allocators
//
// Reference: plain bookkeeping of the live user blocks (pointer, size, fill pattern) and of the live underlying
// blocks; the oracle derives the detector's bookkeeping ranges (guard bytes, record) from the detector's table.
#include <new>
#include <string>
#include <vector>
#include <set>
#include <cstring>
#include <cstdint>
#include <cstddef>
#include <cstdlib>
#include <typeinfo>
#include <exception>
#include <cxxabi.h>
#include <sanitizer/common_interface_defs.h>
extern "C" void __ubsan_get_current_report_data(const char** OutIssueKind, const char** OutMessage, const char** OutFilename, unsigned* OutLine, unsigned* OutCol, char** OutMemoryAddr);
#define VF_MAIN
#include "vf.h"
#include "fixture.h"
#include "CppUTest/TestHarness.h"
#include "CppUTest/MemoryLeakDetector.h"
#include "CppUTest/MemoryLeakWarningPlugin.h"
#include "CppUTest/TestMemoryAllocator.h"
#include "CppUTest/PlatformSpecificFunctions.h"
#include "CppUTest/MemoryLeakDetectorNewMacros.h"
#include "CppUTest/MemoryLeakDetectorMallocMacros.h"
#undef new
#undef malloc
#undef free
#undef realloc
#undef calloc
#undef strdup
#undef strndup

namespace {

typedef unsigned __int128 u128;
constexpr size_t LIMIT = (size_t)1 << 20;            // the underlying memory refuses larger requests
constexpr size_t SLACK = 256;                        // requests <= LIMIT - SLACK must succeed (bookkeeping is < SLACK)
constexpr size_t MAXA = alignof(std::max_align_t);
constexpr size_t GS = MemoryLeakDetector::memory_corruption_buffer_size;   // the library's own constant (0 in the noguard flavour); values of the guard bytes are never assumed
static_assert(sizeof(MemoryLeakDetectorNode) + GS + 2 * sizeof(void*) < SLACK, "bookkeeping per block must stay below SLACK");

std::string u128s(u128 v) {
    if (v <= (u128)SIZE_MAX) return vf::fmt("%zu", (size_t)v);
    return vf::fmt("%zu*2^64+%zu", (size_t)(v >> 64), (size_t)v);
}
std::string szs(size_t v) {                          // readable rendering of boundary sizes
    if (v > SIZE_MAX - 4096) return vf::fmt("SIZE_MAX-%zu", SIZE_MAX - v);
    return vf::fmt("%zu", v);
}

// ------------------------------------------------------------------ underlying memory (the three seams)
struct URec { char* p; size_t size; bool live; char kind; };     // kind: a alloc_memory, n record, r realloc, m platform malloc
constexpr int MAXU = 160;
URec g_u[MAXU]; int g_nu;
int g_foreign_free, g_table_full, g_refused;
long g_seam_calls;
bool g_in_op, g_default_mode;
u128 g_need; const char* g_wrap_sig; char g_op_desc[200];
// fault enumeration state
vf::Chooser* g_ch; int g_dev, g_dev_max, g_faults_in_op;
struct FaultRec { char kind; int call; }; FaultRec g_faults[8]; int g_nfaults; int g_case_seam_calls;

// One signature per case: the first (most specific) oracle mismatch is reported, what follows from it in the same case is not.
void bad(const std::string& sig, const std::string& detail) { if (vf::g_case_failed) return; vf::fail(sig, detail); }

[[noreturn]] void report_wrapped(size_t got) {
    MemoryLeakWarningPlugin::turnOffNewDeleteOverloads();
    bad(g_wrap_sig, vf::fmt("%s: the library asked the underlying allocator for %zu bytes to hold a block of %s bytes "
             "(unchecked size arithmetic wrapped); a block of that size cannot hold the request and its bookkeeping",
             g_op_desc, got, u128s(g_need).c_str()));
    vf::abandon_case();        // continuing would execute the out-of-bounds writes
}
bool inject(char kind) {
    g_case_seam_calls++;
    if (!g_ch || !g_in_op || g_dev >= g_dev_max) return false;
    if (g_ch->choose(2) == 0) return false;
    g_dev++; g_faults_in_op++;
    if (g_nfaults < 8) g_faults[g_nfaults++] = FaultRec{kind, g_case_seam_calls};
    return true;
}
URec* rec_of(const void* p) { for (int i = 0; i < g_nu; i++) if (g_u[i].live && g_u[i].p == (const char*)p) return &g_u[i]; return nullptr; }
URec* containing(const char* p, size_t len) {
    for (int i = 0; i < g_nu; i++) {
        URec& u = g_u[i];
        if (!u.live || p < u.p) continue;
        size_t off = (size_t)(p - u.p);
        if (off <= u.size && len <= u.size - off) return &u;
    }
    return nullptr;
}
char* u_new_block(size_t size, char kind) {
    if (g_nu >= MAXU) { g_table_full++; return nullptr; }
    char* p = (char*)::malloc(size);
    if (!p) { g_table_full++; return nullptr; }
    memset(p, 0xA5, size);
    g_u[g_nu++] = URec{p, size, true, kind};
    return p;
}
char* u_alloc(size_t size, char kind) {
    g_seam_calls++;
    if (kind != 'n' && g_need && (u128)size < g_need) report_wrapped(size);
    if (size > LIMIT) { g_refused++; return nullptr; }
    if (inject(kind)) return nullptr;
    return u_new_block(size, kind);
}
void u_free(char* p) {
    if (!p) return;
    if (URec* u = rec_of(p)) { u->live = false; ::free(p); return; }
    if (g_default_mode) { ::free(p); return; }      // memory obtained outside an operation under test (framework strings)
    g_foreign_free++;
}
void* seam_realloc(void* mem, size_t size) {
    if (!g_in_op) return ::realloc(mem, size);
    g_seam_calls++;
    if (g_need && (u128)size < g_need) report_wrapped(size);
    if (size > LIMIT) { g_refused++; return nullptr; }
    if (inject('r')) return nullptr;
    URec* old = mem ? rec_of(mem) : nullptr;
    if (mem && !old) { g_foreign_free++; return nullptr; }
    char* p = u_new_block(size, 'r');                // always moves: every stale pointer into the old block is caught
    if (!p) return nullptr;
    if (old) { memcpy(p, old->p, old->size < size ? old->size : size); old->live = false; ::free(old->p); }
    return p;
}
void* seam_malloc(size_t size) {                      // default-allocator configuration only
    if (!g_in_op) return ::malloc(size);
    g_seam_calls++;
    if (size > LIMIT) { g_refused++; return nullptr; }
    if (inject('m')) { g_in_op = false; return nullptr; }      // the default allocator answers with FAIL(): the operation is over
    return u_new_block(size, 'm');
}
void seam_free(void* p) { u_free((char*)p); }

struct RecAllocator : TestMemoryAllocator {
    RecAllocator(const char* n, const char* a, const char* f) : TestMemoryAllocator(n, a, f) {}
    char* alloc_memory(size_t size, const char*, size_t) override { return u_alloc(size, 'a'); }
    void free_memory(char* memory, size_t, const char*, size_t) override { u_free(memory); }
    char* allocMemoryLeakNode(size_t size) override { return u_alloc(size, 'n'); }
    void freeMemoryLeakNode(char* memory) override { u_free(memory); }
};
RecAllocator g_new_alloc("Standard New Allocator", "new", "delete");
RecAllocator g_arr_alloc("Standard New [] Allocator", "new []", "delete []");
RecAllocator g_mal_alloc("Standard Malloc Allocator", "malloc", "free");

struct Reporter : MemoryLeakFailure {
    int calls = 0; char first[240];
    void fail(char* s) override {
        if (calls++ == 0) { strncpy(first, s, sizeof first - 1); first[sizeof first - 1] = 0; for (char* c = first; *c; c++) if (*c == '\n') *c = ' '; }
    }
};

// ------------------------------------------------------------------ per-case environment
// a live user block; fam: N new, A new[], M malloc family; guard = snapshot of the bytes behind the user bytes taken right after the allocation
struct UB { char* p; size_t size; char fam; unsigned char pat; bool guard_taken; unsigned char guard[GS ? GS : 1]; };
UB g_live[40]; int g_nlive; unsigned char g_next_pat;

void* (*g_saved_malloc)(size_t); void (*g_saved_free)(void*); void* (*g_saved_realloc)(void*, size_t);
bool g_seams_installed;
void restore_seams() {
    if (!g_seams_installed) return;
    PlatformSpecificMalloc = g_saved_malloc; PlatformSpecificFree = g_saved_free; PlatformSpecificRealloc = g_saved_realloc;
    g_seams_installed = false;
}

struct Env {
    Reporter rep; MemoryLeakDetector* det;
    MemoryLeakDetector* saved_det; MemoryLeakFailure* saved_rep;
    explicit Env(bool default_mode) {
        for (int i = 0; i < g_nu; i++) if (g_u[i].live) ::free(g_u[i].p);
        g_nu = 0; g_foreign_free = g_table_full = g_refused = 0; g_seam_calls = 0; g_case_seam_calls = 0;
        g_in_op = false; g_default_mode = default_mode; g_need = 0; g_nlive = 0; g_next_pat = 0x11;
        g_dev = 0; g_nfaults = 0; g_faults_in_op = 0;
        saved_det = MemoryLeakWarningPlugin::getGlobalDetector();
        saved_rep = MemoryLeakWarningPlugin::getGlobalFailureReporter();
        det = new MemoryLeakDetector(&rep);
        MemoryLeakWarningPlugin::setGlobalDetector(det, &rep);
        det->enable();
        g_saved_malloc = PlatformSpecificMalloc; g_saved_free = PlatformSpecificFree; g_saved_realloc = PlatformSpecificRealloc;
        g_seams_installed = true;
        PlatformSpecificRealloc = seam_realloc;
        if (default_mode) {
            setCurrentNewAllocatorToDefault(); setCurrentNewArrayAllocatorToDefault(); setCurrentMallocAllocatorToDefault();
            PlatformSpecificMalloc = seam_malloc; PlatformSpecificFree = seam_free;
        } else {
            setCurrentNewAllocator(&g_new_alloc); setCurrentNewArrayAllocator(&g_arr_alloc); setCurrentMallocAllocator(&g_mal_alloc);
        }
    }
    ~Env() {
        MemoryLeakWarningPlugin::turnOffNewDeleteOverloads();
        restore_seams();
        setCurrentNewAllocatorToDefault(); setCurrentNewArrayAllocatorToDefault(); setCurrentMallocAllocatorToDefault();
        MemoryLeakWarningPlugin::setGlobalDetector(saved_det, saved_rep);
        delete det;
        g_default_mode = false;
        for (int i = 0; i < g_nu; i++) if (g_u[i].live) { ::free(g_u[i].p); g_u[i].live = false; }
        g_nu = 0;
    }
};
Env* g_env;

// the window in which the tracked global operators / malloc wrappers are switched on: exactly one library call
bool g_threadsafe;
struct On {
    On() { g_in_op = true; if (g_threadsafe) MemoryLeakWarningPlugin::turnOnThreadSafeNewDeleteOverloads(); else MemoryLeakWarningPlugin::turnOnDefaultNotThreadSafeNewDeleteOverloads(); }
    ~On() { MemoryLeakWarningPlugin::turnOffNewDeleteOverloads(); g_in_op = false; }
};
void begin_op(const char* op, u128 need, const char* wrap_sig, const std::string& desc) {
    vf::ctx(op);
    g_faults_in_op = 0; g_need = g_default_mode ? 0 : need; g_wrap_sig = wrap_sig;
    strncpy(g_op_desc, desc.c_str(), sizeof g_op_desc - 1); g_op_desc[sizeof g_op_desc - 1] = 0;
}
void end_op() { g_need = 0; }

unsigned char pat_at(const UB& b, size_t i) { return (unsigned char)(b.pat + i * 31 + (i >> 8) * 7); }
void fill(const UB& b) { for (size_t i = 0; i < b.size; i++) b.p[i] = (char)pat_at(b, i); }
bool intact(const UB& b) { for (size_t i = 0; i < b.size; i++) if ((unsigned char)b.p[i] != pat_at(b, i)) return false; return true; }
int add_live(char* p, size_t size, char fam) {
    if (g_nlive >= 40) vf::harness_error("too many live blocks");
    g_live[g_nlive] = UB{p, size, fam, g_next_pat, false, {0}}; g_next_pat = (unsigned char)(g_next_pat * 5 + 3);
    fill(g_live[g_nlive]);
    if (GS && containing(p + size, GS)) { memcpy(g_live[g_nlive].guard, p + size, GS); g_live[g_nlive].guard_taken = true; }   // taken after the fill: the user bytes do not reach them
    return g_nlive++;
}
void remove_live(int k) { for (int i = k; i + 1 < g_nlive; i++) g_live[i] = g_live[i + 1]; g_nlive--; }

// Every live user block is still tracked with its size, lies inside live underlying memory with its guard bytes and its
// record, is intact, and no two of these byte ranges overlap. Detector total == number of live blocks.
void check_all(const std::string& pfx, const std::string& desc) {
    vf::ctx("oracle");
    MemoryLeakDetector* det = g_env->det;
    if (g_table_full) vf::harness_error("underlying record table exhausted");
    struct Range { const char* lo; size_t len; int owner; const char* what; };
    Range rg[3 * 40]; int nr = 0;
    for (int i = 0; i < g_nlive; i++) {
        const UB& b = g_live[i];
        MemoryLeakDetectorNode* node = det->memoryTable_.retrieveNode(b.p);
        if (!containing(b.p, b.size)) { bad(pfx + "/block-outside-live-underlying-memory", desc + vf::fmt(": live block #%d (%c, %zu bytes) is not inside a live underlying block any more", i, b.fam, b.size)); continue; }
        if (!node) { bad(pfx + "/live-block-untracked", desc + vf::fmt(": live block #%d (%c, %zu bytes) is no longer in the detector's table", i, b.fam, b.size)); }
        else if (node->size_ != b.size) bad(pfx + "/tracked-size", desc + vf::fmt(": block #%d has %zu bytes, tracked as %zu", i, b.size, node->size_));
        if (!intact(b)) bad(pfx + "/contents-changed", desc + vf::fmt(": live block #%d (%c, %zu bytes) lost its contents", i, b.fam, b.size));
        if (b.size) rg[nr++] = Range{b.p, b.size, i, "user bytes"};
        if (!node) continue;
        if (GS) {
            if (!containing(b.p + b.size, GS)) bad(pfx + "/bookkeeping-outside-underlying-memory", desc + vf::fmt(": guard bytes of block #%d are not inside a live underlying block", i));
            else { if (b.guard_taken && memcmp(b.p + b.size, b.guard, GS) != 0) bad(pfx + "/guard-damaged", desc + vf::fmt(": the %zu guard bytes of live block #%d changed since it was allocated", GS, i)); rg[nr++] = Range{b.p + b.size, GS, i, "guard"}; }
        }
        if (!containing((const char*)node, sizeof(MemoryLeakDetectorNode))) bad(pfx + "/bookkeeping-outside-underlying-memory", desc + vf::fmt(": record of block #%d is not inside a live underlying block", i));
        else {
            if (((uintptr_t)node) % alignof(MemoryLeakDetectorNode)) bad(pfx + "/record-misaligned", desc + vf::fmt(": record of block #%d is not aligned", i));
            rg[nr++] = Range{(const char*)node, sizeof(MemoryLeakDetectorNode), i, "record"};
        }
    }
    for (int i = 0; i < nr; i++) for (int j = i + 1; j < nr; j++)
        if (rg[i].lo < rg[j].lo + rg[j].len && rg[j].lo < rg[i].lo + rg[i].len)
            bad(pfx + "/overlap", desc + vf::fmt(": %s of block #%d overlap %s of block #%d", rg[i].what, rg[i].owner, rg[j].what, rg[j].owner));
    size_t total = det->totalMemoryLeaks(mem_leak_period_all);
    if (total != (size_t)g_nlive) bad(pfx + "/tracked-count", desc + vf::fmt(": detector tracks %zu blocks, %d are live", total, g_nlive));
    if (g_env->rep.calls) { bad("report/spurious-misuse-report", desc + ": the detector reported misuse on a well-formed program: " + g_env->rep.first); g_env->rep.calls = 0; }
    if (g_foreign_free) { bad("allocator/foreign-or-double-return", desc + vf::fmt(": %d blocks returned to the underlying allocator that it does not own (any more)", g_foreign_free)); g_foreign_free = 0; }
}

// ------------------------------------------------------------------ operations
enum Entry { NEW, NEW_NT, NEW_DBG, ARR, ARR_NT, ARR_DBG, MALLOC, REALLOC0, CALLOC_1N, CALLOC_N1, NENTRY };
const char* const ENTRY_NAME[NENTRY] = {"new", "new(nothrow)", "new(file,line)", "new[]", "new[](nothrow)", "new[](file,line)", "malloc", "realloc(NULL,n)", "calloc(1,n)", "calloc(n,1)"};
const char* const ENTRY_OP[NENTRY] = {"new", "new", "new", "new[]", "new[]", "new[]", "malloc", "realloc", "calloc", "calloc"};
const char ENTRY_FAM[NENTRY + 1] = "NNNAAAMMMM";
const bool ENTRY_THROWS[NENTRY] = {true, false, true, true, false, true, false, false, false, false};

struct OpResult { char* p; bool threw; };

OpResult call_alloc(Entry e, size_t n, const std::string& desc) {
    OpResult r{nullptr, false};
    begin_op(ENTRY_NAME[e], n, e == REALLOC0 ? "realloc/size-arithmetic-wrapped" : "alloc/size-arithmetic-wrapped", desc);
    try {
        On on;
        switch (e) {
        case NEW: r.p = (char*)::operator new(n); break;
        case NEW_NT: r.p = (char*)::operator new(n, std::nothrow); break;
        case NEW_DBG: r.p = (char*)::operator new(n, "c05.cpp", (size_t)11); break;
        case ARR: r.p = (char*)::operator new[](n); break;
        case ARR_NT: r.p = (char*)::operator new[](n, std::nothrow); break;
        case ARR_DBG: r.p = (char*)::operator new[](n, "c05.cpp", (size_t)12); break;
        case MALLOC: r.p = (char*)cpputest_malloc_location(n, "c05.c", 13); break;
        case REALLOC0: r.p = (char*)cpputest_realloc_location(nullptr, n, "c05.c", 14); break;
        case CALLOC_1N: r.p = (char*)cpputest_calloc_location(1, n, "c05.c", 15); break;
        case CALLOC_N1: r.p = (char*)cpputest_calloc_location(n, 1, "c05.c", 16); break;
        default: break;
        }
    } catch (const std::bad_alloc&) { r.threw = true; r.p = nullptr; }
    end_op();
    return r;
}

enum Expect { EITHER, MUST_SUCCEED, MUST_FAIL };
Expect expect_for(u128 n) { return n > (u128)LIMIT ? MUST_FAIL : n <= (u128)(LIMIT - SLACK) ? MUST_SUCCEED : EITHER; }

// verdict for an allocation-like result; on success the block joins the live set (filled with its pattern). Returns its index or -1.
int settle(const char* op, OpResult r, bool throwing_form, size_t n, char fam, const std::string& desc, Expect expect, bool check_now = true) {
    std::string sop = op;
    if (!r.p) {
        if (throwing_form && !r.threw) bad(sop + "/null-from-throwing-form", desc + ": the throwing form returned NULL instead of throwing bad_alloc");
        if (expect == MUST_SUCCEED && g_faults_in_op == 0) bad(sop + "/failed-without-cause", desc + ": a satisfiable request failed although the underlying memory answered every call");
        if (check_now) check_all("after-failed-" + sop, desc);
        return -1;
    }
    URec* u = containing(r.p, n);
    if (!u) {
        URec* any = containing(r.p, 0);
        if (any) bad(sop + "/fewer-usable-bytes-than-requested", desc + vf::fmt(": returned block has %zu usable bytes", any->size - (size_t)(r.p - any->p)));
        else bad(sop + "/not-in-live-underlying-memory", desc + ": returned pointer is not inside a live underlying block");
        vf::abandon_case();
    }
    if ((size_t)(r.p - u->p) % MAXA) bad(sop + "/misaligned", desc + vf::fmt(": returned pointer is %zu bytes into an underlying block (max_align_t alignment is %zu)", (size_t)(r.p - u->p), MAXA));
    int k = add_live(r.p, n, fam);
    if (check_now) check_all("state", desc);
    return k;
}

void do_free(int k, const std::string& desc) {
    UB b = g_live[k];
    remove_live(k);
    const char* op = b.fam == 'N' ? "delete" : b.fam == 'A' ? "delete[]" : "free";
    begin_op(op, 0, "", desc);
    {
        On on;
        if (b.fam == 'N') ::operator delete(b.p); else if (b.fam == 'A') ::operator delete[](b.p); else cpputest_free_location(b.p, "c05.c", 19);
    }
    end_op();
    if (g_env->rep.calls) { bad(std::string(op) + "/valid-block-reported-as-misuse", desc + vf::fmt(": releasing a live %zu byte block was reported: ", b.size) + g_env->rep.first); g_env->rep.calls = 0; }
}
int g_nlive_before_cleanup, g_leftover;
void free_all(const std::string& desc) {
    g_nlive_before_cleanup = g_nlive;
    while (g_nlive) do_free(g_nlive - 1, desc);
    check_all("cleanup", desc);
    g_leftover = 0; for (int i = 0; i < g_nu; i++) if (g_u[i].live) g_leftover++;       // reported as a counter, not asserted
}

// realloc of live block k (k < 0: realloc(NULL, n)). Returns index of the resulting block or -1.
int do_realloc(int k, size_t n, const std::string& desc, Expect expect) {
    if (k < 0) return settle("realloc", call_alloc(REALLOC0, n, desc), false, n, 'M', desc, expect);
    UB old = g_live[k];
    begin_op("realloc", n, "realloc/size-arithmetic-wrapped", desc);
    char* q;
    { On on; q = (char*)cpputest_realloc_location(old.p, n, "c05.c", 17); }
    end_op();
    if (!q && n == 0 && g_faults_in_op == 0 && !g_env->det->memoryTable_.retrieveNode(old.p) && !g_env->rep.calls) {
        remove_live(k);                              // realloc(p, 0) read as free(p): accepted
        check_all("state", desc);
        return -1;
    }
    if (!q) {
        if (expect == MUST_SUCCEED && n && g_faults_in_op == 0) bad("realloc/failed-without-cause", desc + ": a satisfiable request failed although the underlying memory answered every call");
        check_all("after-failed-realloc", desc);     // the old block must still be valid and tracked
        return k;
    }
    URec* u = containing(q, n);
    if (!u) {
        URec* any = containing(q, 0);
        if (any) bad("realloc/fewer-usable-bytes-than-requested", desc + vf::fmt(": returned block has %zu usable bytes", any->size - (size_t)(q - any->p)));
        else bad("realloc/not-in-live-underlying-memory", desc + ": returned pointer is not inside a live underlying block");
        vf::abandon_case();
    }
    if ((size_t)(q - u->p) % MAXA) bad("realloc/misaligned", desc + ": returned pointer is not aligned like the underlying block");
    size_t keep = old.size < n ? old.size : n;
    for (size_t i = 0; i < keep; i++) if ((unsigned char)q[i] != pat_at(old, i)) { bad("realloc/contents-not-preserved", desc + vf::fmt(": byte %zu of the first %zu differs after realloc", i, keep)); break; }
    remove_live(k);
    int nk = add_live(q, n, 'M');
    check_all("state", desc);
    return nk;
}

// ------------------------------------------------------------------ section: sizes
std::vector<size_t> g_sizes;
void build_sizes(bool T) {
    std::set<size_t> s;
    size_t dense = T ? 65537 : 4097;
    for (size_t n = 0; n <= dense; n++) s.insert(n);
    for (int k = 3; k <= 63; k++) for (int d = -2; d <= 2; d++) s.insert(((size_t)1 << k) + (size_t)d);
    for (size_t d = 0; d < (T ? 128u : 64u); d++) s.insert(SIZE_MAX - d);
    for (size_t d = 0; d <= 80; d += 8) { s.insert(LIMIT - SLACK - d); s.insert(LIMIT + d); }
    g_sizes.assign(s.begin(), s.end());
}
const char* size_class(u128 n) { return n > (u128)SIZE_MAX ? "beyond-size_t" : n > (u128)(SIZE_MAX - 4096) ? "top" : n > (u128)LIMIT ? "huge" : n > (u128)(LIMIT - SLACK) ? "edge" : n > 4097 ? "large" : "small"; }

void sizes_case(long idx) {
    vf::Radix r(idx);
    Entry e = (Entry)r.take(NENTRY); size_t n = g_sizes[(size_t)r.take((long)g_sizes.size())];
    std::string desc = vf::fmt("%s with n=%s while a 13 byte new block and a 29 byte malloc block are live", ENTRY_NAME[e], szs(n).c_str());
    Env env(false); g_env = &env;
    settle("new", call_alloc(NEW, 13, desc), true, 13, 'N', desc, MUST_SUCCEED, false);
    settle("malloc", call_alloc(MALLOC, 29, desc), false, 29, 'M', desc, MUST_SUCCEED, false);
    OpResult res = call_alloc(e, n, desc);
    Expect ex = expect_for(n);
    if (n == 0 && ENTRY_FAM[e] == 'M') ex = EITHER;         // malloc(0), calloc with a zero product, realloc(NULL,0): NULL and a zero-size block are both accepted
    if (res.p && (e == CALLOC_1N || e == CALLOC_N1) && containing(res.p, n))
        for (size_t i = 0; i < n; i++) if (res.p[i]) { bad("calloc/not-zeroed", desc + vf::fmt(": byte %zu is 0x%02x (fresh underlying memory is 0xA5)", i, (unsigned char)res.p[i])); break; }
    settle(ENTRY_OP[e], res, ENTRY_THROWS[e], n, ENTRY_FAM[e], desc, ex);
    vf::outcome(vf::fmt("%s %s -> %s", ENTRY_NAME[e], size_class(n), res.p ? "block" : res.threw ? "bad_alloc" : "NULL"));
    free_all(desc);
    if (n > LIMIT || n % sizeof(void*)) vf::count("nontrivial");
    vf::count("ops", 5 + (res.p ? 1 : 0));
    if (vf::want_sample()) vf::sample(desc + (res.p ? " -> block" : res.threw ? " -> bad_alloc" : " -> NULL"));
    g_env = nullptr;
}

// ------------------------------------------------------------------ section: realloc
std::vector<size_t> g_re_old, g_re_new;
void build_realloc(bool T) {
    const size_t base[] = {0, 1, 7, 8, 9, 100, 5000};
    std::set<size_t> o(base, base + 7);
    if (T) { for (size_t n = 0; n <= 40; n++) o.insert(n); const size_t more[] = {63, 64, 65, 4095, 4096, 4097, 70000}; o.insert(more, more + 7); }
    g_re_old.assign(o.begin(), o.end());
    std::set<size_t> nw = o;
    const size_t huge[] = {LIMIT + 1, (size_t)1 << 32, (size_t)1 << 63, SIZE_MAX / 2, SIZE_MAX - 100};
    nw.insert(huge, huge + 5);
    for (size_t d = 0; d < (T ? 80u : 16u); d++) nw.insert(SIZE_MAX - d);
    g_re_new.assign(nw.begin(), nw.end());
}
void realloc_case(long idx) {
    vf::Radix r(idx);
    int origin = (int)r.take(3); size_t o = g_re_old[(size_t)r.take((long)g_re_old.size())]; size_t n = g_re_new[(size_t)r.take((long)g_re_new.size())];
    const char* ORIGIN[] = {"malloc", "realloc(NULL,n)", "calloc(n,1)"};
    std::string desc = vf::fmt("realloc of a %zu byte block from %s to %s bytes, two other blocks live", o, ORIGIN[origin], szs(n).c_str());
    Env env(false); g_env = &env;
    settle("new[]", call_alloc(ARR, 21, desc), true, 21, 'A', desc, MUST_SUCCEED, false);
    Entry oe = origin == 0 ? MALLOC : origin == 1 ? REALLOC0 : CALLOC_N1;
    int k = settle(ENTRY_OP[oe], call_alloc(oe, o, desc), false, o, 'M', desc, o ? MUST_SUCCEED : EITHER, false);
    settle("malloc", call_alloc(MALLOC, 29, desc), false, 29, 'M', desc, MUST_SUCCEED, false);
    if (k < 0) { free_all(desc); g_env = nullptr; return; }
    char* before = g_live[k].p;
    int nk = do_realloc(k, n, desc, expect_for(n));
    bool moved = nk >= 0 && g_live[nk].p != before;          // the interposed realloc always moves
    vf::outcome(vf::fmt("%s %s %s -> %s", o == 0 ? "empty" : "nonempty", n > LIMIT ? size_class(n) : n < o ? "shrink" : n == o ? "same" : "grow", ORIGIN[origin], moved ? "block" : "NULL"));
    free_all(desc);
    if (n != o) vf::count("nontrivial");
    vf::count("ops", 8);
    if (vf::want_sample()) vf::sample(desc);
    g_env = nullptr;
}

// ------------------------------------------------------------------ section: calloc
std::vector<size_t> g_cal;
void build_calloc(bool T) {
    std::set<size_t> s;
    const size_t base[] = {0, 1, 2, 3, 7, 65535, 65537, ((size_t)1 << 32) - 1, (size_t)1 << 32, ((size_t)1 << 32) + 1, (size_t)1 << 63, ((size_t)1 << 63) + 1, SIZE_MAX / 3, SIZE_MAX / 2, SIZE_MAX - 1, SIZE_MAX};
    s.insert(base, base + sizeof base / sizeof *base);
    if (T) {
        const size_t more[] = {4, 5, 8, 16, 255, 256, 1024, 65536, (size_t)1 << 20, ((size_t)1 << 20) + 1, (size_t)1 << 31, (size_t)1 << 33, ((size_t)1 << 63) + 1, ((size_t)1 << 63) - 1,
                               SIZE_MAX / 3 + 1, SIZE_MAX / 2 + 1, SIZE_MAX / 5, SIZE_MAX / 7, SIZE_MAX - 2, SIZE_MAX - 7, SIZE_MAX - 8, (size_t)3037000500ull, (size_t)4294967291ull};
        s.insert(more, more + sizeof more / sizeof *more);
    }
    g_cal.assign(s.begin(), s.end());
}
void calloc_case(long idx) {
    vf::Radix r(idx);
    size_t a = g_cal[(size_t)r.take((long)g_cal.size())], b = g_cal[(size_t)r.take((long)g_cal.size())];
    u128 P = (u128)a * (u128)b;
    std::string desc = vf::fmt("calloc(%s, %s), exact product %s, two other blocks live", szs(a).c_str(), szs(b).c_str(), u128s(P).c_str());
    Env env(false); g_env = &env;
    settle("new", call_alloc(NEW, 13, desc), true, 13, 'N', desc, MUST_SUCCEED, false);
    settle("malloc", call_alloc(MALLOC, 29, desc), false, 29, 'M', desc, MUST_SUCCEED, false);
    begin_op("calloc", P, P > (u128)SIZE_MAX ? "calloc/product-wrapped" : "alloc/size-arithmetic-wrapped", desc);
    char* p;
    { On on; p = (char*)cpputest_calloc_location(a, b, "c05.c", 21); }
    end_op();
    const char* res = "NULL";
    if (p && P > (u128)SIZE_MAX) {       // (the seam reports this earlier whenever the wrapped request reaches it)
        bad("calloc/product-wrapped", desc + ": a block was returned for a request whose byte count does not fit in size_t");
        vf::abandon_case();
    }
    if (p) {
        size_t n = (size_t)P;
        URec* u = containing(p, n);
        if (!u) { bad("calloc/fewer-usable-bytes-than-requested", desc + ": returned block is smaller than count x size"); vf::abandon_case(); }
        for (size_t i = 0; i < n; i++) if (p[i]) { bad("calloc/not-zeroed", desc + vf::fmt(": byte %zu is 0x%02x (fresh underlying memory is 0xA5)", i, (unsigned char)p[i])); break; }
        settle("calloc", OpResult{p, false}, false, n, 'M', desc, EITHER);
        res = "block";
    } else {
        Expect ex = expect_for(P);
        if (P == 0) ex = EITHER;                  // calloc(0,x): NULL and a zero-size block are both accepted
        if (ex == MUST_SUCCEED) bad("calloc/failed-without-cause", desc + ": a satisfiable request failed");
        check_all("after-failed-calloc", desc);
    }
    vf::outcome(vf::fmt("%s -> %s", size_class(P), res));
    free_all(desc);
    if (P > (u128)LIMIT) vf::count("nontrivial");
    vf::count("ops", 6);
    if (vf::want_sample()) vf::sample(desc + " -> " + res);
    g_env = nullptr;
}

// ------------------------------------------------------------------ section: strdup / strndup
constexpr int MAXLEN = 64, MAXN = 70;
void strdup_case(long idx) {
    vf::Radix r(idx);
    int alpha = (int)r.take(2); int len = (int)r.take(MAXLEN + 1); int nsel = (int)r.take(MAXN + 3);    // nsel: 0..70 = strndup n; 71 = strdup; 72 = strndup(SIZE_MAX)
    bool is_n = nsel != MAXN + 1; size_t n = nsel == MAXN + 2 ? SIZE_MAX : (size_t)nsel;
    char* src = (char*)::malloc((size_t)len + 1);      // exact size: any read past the terminator is caught
    for (int i = 0; i < len; i++) src[i] = alpha == 0 ? (char)('a' + (i * 7 + len) % 26) : (char)(unsigned char)(1 + (i * 151 + len * 7) % 255);
    src[len] = 0;
    char* want = is_n ? ::strndup(src, n) : ::strdup(src);
    size_t wlen = strlen(want);
    std::string desc = is_n ? vf::fmt("strndup(\"%s\", %s)", vf::esc(src).c_str(), szs(n).c_str()) : vf::fmt("strdup(\"%s\")", vf::esc(src).c_str());
    const char* op = is_n ? "strndup" : "strdup";
    Env env(false); g_env = &env;
    settle("malloc", call_alloc(MALLOC, 29, desc), false, 29, 'M', desc, MUST_SUCCEED, false);
    begin_op(op, wlen + 1, "alloc/size-arithmetic-wrapped", desc);
    char* p;
    { On on; p = is_n ? cpputest_strndup_location(src, n, "c05.c", 23) : cpputest_strdup_location(src, "c05.c", 22); }
    end_op();
    if (!p) { bad(std::string(op) + "/failed-without-cause", desc + ": NULL although memory was available"); check_all(std::string("after-failed-") + op, desc); }
    else {
        URec* u = containing(p, wlen + 1);
        if (!u) { bad(std::string(op) + "/fewer-usable-bytes-than-requested", desc + vf::fmt(": block cannot hold %zu bytes", wlen + 1)); vf::abandon_case(); }
        if (memcmp(p, want, wlen + 1) != 0) bad(std::string(op) + "/wrong-copy", desc + vf::fmt(": got \"%s\", libc gives \"%s\"", vf::esc(std::string(p, strnlen(p, wlen + 1))).c_str(), vf::esc(want).c_str()));
        MemoryLeakDetectorNode* node = env.det->memoryTable_.retrieveNode(p);
        size_t bs = wlen + 1;
        if (node && node->size_ > bs && containing(p, node->size_)) bs = node->size_;      // a larger block is acceptable
        settle(op, OpResult{p, false}, false, bs, 'M', desc, EITHER);
    }
    vf::outcome(vf::fmt("%s %s -> %s", op, !is_n ? "-" : n < (size_t)len ? "cut" : n == (size_t)len ? "exact" : "whole", p ? (wlen ? "copy" : "empty") : "NULL"));
    free_all(desc);
    if (alpha == 1 || (is_n && n <= (size_t)len)) vf::count("nontrivial");
    vf::count("ops", 4);
    if (vf::want_sample()) vf::sample(desc);
    g_env = nullptr;
    ::free(src); ::free(want);
}

// ------------------------------------------------------------------ sections: faults / faultsdef
// op letters: N new  n new(nothrow)  A new[]  a new[](nothrow)  M malloc(100)  C calloc(3,7)  S strdup  T strndup
//             R realloc(newest malloc-family block, 5000)  r realloc(newest, 8)  Z realloc(NULL, 40)
//             D delete oldest new block  d delete[] oldest array  F free oldest malloc-family block
const char* const SCRIPTS[] = {
    "NAMRCSDdFFF",      // the six-operation workload of the design: new, new[], malloc, realloc, calloc, strdup, frees
    "MRrRF",
    "ZRSTFFF",
    "naMCrRDdFF",
    "SMRFTCF",
    "MMRFRF",
    "CrZRrFF",
    "NnAaDdDd",
    "MSRTRCRFFF",
    "ZrZRMFRFF",
};
constexpr int NSCRIPTS_Q = 6, NSCRIPTS_T = 10;

int newest(char fam) { for (int i = g_nlive - 1; i >= 0; i--) if (g_live[i].fam == fam) return i; return -1; }
int oldest(char fam) { for (int i = 0; i < g_nlive; i++) if (g_live[i].fam == fam) return i; return -1; }

char g_trace[48]; int g_trace_n; bool g_script_done;

void step(char c, const std::string& desc) {
    switch (c) {
    case 'N': settle("new", call_alloc(NEW, 24, desc), true, 24, 'N', desc, MUST_SUCCEED); break;
    case 'n': settle("new", call_alloc(NEW_NT, 24, desc), false, 24, 'N', desc, MUST_SUCCEED); break;
    case 'A': settle("new[]", call_alloc(ARR, 10, desc), true, 10, 'A', desc, MUST_SUCCEED); break;
    case 'a': settle("new[]", call_alloc(ARR_NT, 10, desc), false, 10, 'A', desc, MUST_SUCCEED); break;
    case 'M': settle("malloc", call_alloc(MALLOC, 100, desc), false, 100, 'M', desc, MUST_SUCCEED); break;
    case 'Z': do_realloc(-1, 40, desc, MUST_SUCCEED); break;
    case 'C': {
        begin_op("calloc", 21, "alloc/size-arithmetic-wrapped", desc);
        char* p; { On on; p = (char*)cpputest_calloc_location(3, 7, "c05.c", 31); } end_op();
        if (p && containing(p, 21)) for (int i = 0; i < 21; i++) if (p[i]) { bad("calloc/not-zeroed", desc + ": calloc(3,7) block not zero"); break; }
        settle("calloc", OpResult{p, false}, false, 21, 'M', desc, MUST_SUCCEED);
        break; }
    case 'S': case 'T': {
        const char* op = c == 'S' ? "strdup" : "strndup";
        begin_op(op, 6, "alloc/size-arithmetic-wrapped", desc);
        char* p; { On on; p = c == 'S' ? cpputest_strdup_location("hello", "c05.c", 32) : cpputest_strndup_location("hello world", 5, "c05.c", 33); } end_op();
        if (p && containing(p, 6) && memcmp(p, "hello", 6) != 0) bad(std::string(op) + "/wrong-copy", desc + ": copy differs");
        settle(op, OpResult{p, false}, false, 6, 'M', desc, MUST_SUCCEED);
        break; }
    case 'R': case 'r': { int k = newest('M'); if (k >= 0) do_realloc(k, c == 'R' ? 5000 : 8, desc, MUST_SUCCEED); break; }
    case 'D': { int k = oldest('N'); if (k >= 0) { do_free(k, desc); check_all("state", desc); } break; }
    case 'd': { int k = oldest('A'); if (k >= 0) { do_free(k, desc); check_all("state", desc); } break; }
    case 'F': { int k = oldest('M'); if (k >= 0) { do_free(k, desc); check_all("state", desc); } break; }
    }
    vf::count("ops");
}
void run_script(const char* ops, const std::string& base) {
    g_script_done = false; g_trace_n = 0; g_trace[0] = 0;
    for (int i = 0; ops[i]; i++) {
        g_trace[g_trace_n++] = ops[i]; g_trace[g_trace_n] = 0;
        step(ops[i], base + vf::fmt(", at op %d '%c'", i, ops[i]));
    }
    g_script_done = true;
}
// every sequence of `len` enabled operations (realloc/free only when a malloc-family block is live, delete only when a new block is live)
void run_choices(vf::Chooser& ch, int len, const std::string& base) {
    g_script_done = false; g_trace_n = 0; g_trace[0] = 0;
    for (int i = 0; i < len; i++) {
        char en[16]; int n = 0;
        for (const char* o = "NnAaMCSTZ"; *o; o++) en[n++] = *o;
        if (newest('M') >= 0) { en[n++] = 'R'; en[n++] = 'r'; en[n++] = 'F'; }
        if (oldest('N') >= 0) en[n++] = 'D';
        if (oldest('A') >= 0) en[n++] = 'd';
        char c = en[ch.choose(n)];
        g_trace[g_trace_n++] = c; g_trace[g_trace_n] = 0;
        step(c, base + vf::fmt(" %s, at op %d '%c'", g_trace, i, c));
    }
    g_script_done = true;
}
std::string fault_text() {
    std::string s;
    for (int i = 0; i < g_nfaults; i++) s += vf::fmt("%s%s#%d", i ? "," : "", g_faults[i].kind == 'a' ? "alloc_memory" : g_faults[i].kind == 'n' ? "allocMemoryLeakNode" : g_faults[i].kind == 'r' ? "PlatformSpecificRealloc" : "PlatformSpecificMalloc", g_faults[i].call);
    return s.empty() ? "none" : s;
}
const char* op_name_of(char c) { return strchr("Nn", c) ? "new" : strchr("Aa", c) ? "new[]" : c == 'M' ? "malloc" : c == 'C' ? "calloc" : c == 'S' ? "strdup" : c == 'T' ? "strndup" : strchr("RrZ", c) ? "realloc" : "release"; }

// one workload (fixed script si >= 0, or every op sequence of length len) under one configuration with one set of NULL answers.
// configuration: bit 0 = thread-safe overloads, bit 1 = the library's default allocators inside a real test
void fault_case(vf::Chooser& ch, int nscripts, int len, int bound) {
    ch.c.reserve(256); ch.n.reserve(256);            // choose() must not allocate while the tracked operators are on
    int mode = ch.choose(4);
    bool def = (mode & 2) != 0; g_threadsafe = (mode & 1) != 0;
    int si = nscripts ? ch.choose(nscripts) : -1;
    std::string base = vf::fmt("%s overloads, %s, workload", g_threadsafe ? "thread-safe" : "default", def ? "default allocators over PlatformSpecificMalloc/Realloc inside a test" : "recording allocators");
    if (si >= 0) base += std::string(" ") + SCRIPTS[si];
    Env env(def); g_env = &env;
    auto body = [&]() { if (si >= 0) run_script(SCRIPTS[si], base); else run_choices(ch, len, base); };
    size_t failures = 0; std::string output;
    g_ch = &ch; g_dev_max = bound;
    if (def) {
        vf::Fixture fx;
        fx.run(body);
        MemoryLeakWarningPlugin::turnOffNewDeleteOverloads(); g_in_op = false; g_need = 0;
        failures = fx.failures(); output = fx.output();
    } else body();
    g_ch = nullptr;
    bool done = g_script_done;
    std::string desc = base + (si >= 0 ? "" : std::string(" ") + g_trace) + "; underlying calls answered NULL: " + fault_text() + (done ? "" : vf::fmt("; test ended at op %d '%c'", g_trace_n - 1, g_trace[g_trace_n - 1]));
    if (def) {
        int mfaults = 0; for (int i = 0; i < g_nfaults; i++) if (g_faults[i].kind == 'm') mfaults++;
        // the documented answer of the default allocator to NULL from PlatformSpecificMalloc is a test failure; nothing else may fail the test
        if (failures > (size_t)mfaults) bad("faultsdef/test-failed-without-cause", desc + vf::fmt(": %zu failures recorded: ", failures) + output.substr(0, 300));
        if (failures && output.find("malloc returned null pointer") == std::string::npos) bad("faultsdef/undocumented-failure-text", desc + ": " + output.substr(0, 300));
        if (!done && !failures) bad("faultsdef/test-ended-without-failure", desc + ": the test body was left without a recorded failure");
        check_all(done ? std::string("state") : std::string("after-failed-") + op_name_of(g_trace[g_trace_n - 1]), desc);
    } else if (!done) vf::harness_error("workload not finished");
    free_all(desc);
    std::string kinds; for (int i = 0; i < g_nfaults; i++) kinds += g_faults[i].kind;
    if (si >= 0) vf::outcome(vf::fmt("m%d %s faults=%s failures=%zu done=%d", mode, SCRIPTS[si], kinds.c_str(), failures, done));
    else vf::outcome(vf::fmt("m%d faults=%s failures=%zu stopped-at=%c live=%d", mode, kinds.c_str(), failures, done ? '-' : g_trace[g_trace_n - 1], g_nlive_before_cleanup));
    if (g_nfaults) vf::count("nontrivial");
    vf::count("faults_injected", g_nfaults);
    vf::count(def ? "underlying_never_returned_defaultalloc" : "underlying_never_returned_recording", g_leftover);      // information only
    if (vf::want_sample()) vf::sample(desc);
    g_threadsafe = false;
    g_env = nullptr;
}

// operation family for crash signatures: the same defect reached through malloc, calloc, strdup... is one signature
const char* op_family() {
    const char* c = vf::g_shm[vf::g_me].ctx;
    if (!strncmp(c, "realloc", 7)) return "realloc";
    if (!strncmp(c, "delete", 6) || !strcmp(c, "free")) return "release";
    if (!strcmp(c, "oracle")) return "oracle";
    return "alloc";
}
// ------------------------------------------------------------------ sanitizer aborts -> stable signatures
// (the engine's own classification keeps the hex letters of addresses that UBSan prints inside its message; this callback
// scrubs them so that a signature is the same in every worker and in a replay)
void death_callback() {
    static bool entered = false;
    if (entered || vf::g_me < 0) return;
    entered = true;
    MemoryLeakWarningPlugin::turnOffNewDeleteOverloads();
    restore_seams();
    std::string path = vf::tmpdir() + (vf::g_replaying ? std::string("/replay.err") : vf::fmt("/err.%d", vf::g_me));
    std::string err = vf::read_file(path);
    if (vf::g_replaying) { printf("%s\n", err.c_str()); fflush(stdout); }
    std::string scrubbed;
    for (size_t i = 0; i < err.size(); i++) {
        if (err[i] == '0' && i + 1 < err.size() && err[i + 1] == 'x') { scrubbed += "ADDR"; i += 2; while (i < err.size() && isxdigit((unsigned char)err[i])) i++; i--; }
        else scrubbed += err[i];
    }
    std::string mode = vf::classify_stderr(scrubbed);
    if (mode.empty()) mode = "sanitizer-abort";
    std::string first = scrubbed.substr(0, 400);
    size_t e = scrubbed.find("ERROR: "); if (e == std::string::npos) e = scrubbed.find("runtime error: ");
    if (e != std::string::npos) first = scrubbed.substr(e, scrubbed.find('\n', e) - e);
    bad(std::string("crash/") + op_family() + "/" + mode, std::string(g_op_desc) + (g_nfaults ? "; underlying calls answered NULL: " + fault_text() : std::string()) + ": " + first);
    vf::abandon_case();
}

void ubsan_report() {
    static bool entered = false;
    if (entered || vf::g_me < 0) return;
    entered = true;
    MemoryLeakWarningPlugin::turnOffNewDeleteOverloads();
    restore_seams();
    const char *kind = "", *msg = "", *file = ""; unsigned line = 0, col = 0; char* addr = nullptr;
    __ubsan_get_current_report_data(&kind, &msg, &file, &line, &col, &addr);
    const char* base = strrchr(file, '/'); base = base ? base + 1 : file;
    std::string m;                                   // message without addresses
    for (const char* c = msg; *c; c++) { if (c[0] == '0' && c[1] == 'x') { m += "ADDR"; c += 2; while (isxdigit((unsigned char)*c)) c++; c--; } else m += *c; }
    bad(std::string("crash/") + op_family() + "/ubsan:" + kind + "@" + base,
        std::string(g_op_desc) + (g_nfaults ? "; underlying calls answered NULL: " + fault_text() : std::string()) + vf::fmt(": %s:%u: runtime error: %s", file, line, m.c_str()));
    vf::abandon_case();
}
void terminate_handler() {
    if (vf::g_me < 0) abort();
    MemoryLeakWarningPlugin::turnOffNewDeleteOverloads();
    restore_seams();
    std::type_info* t = abi::__cxa_current_exception_type();
    bad(std::string("crash/") + op_family() + "/terminate",
        std::string(g_op_desc) + (g_nfaults ? "; underlying calls answered NULL: " + fault_text() : std::string()) + ": std::terminate called, exception in flight: " + (t ? t->name() : "none") + " (thrown through a noexcept function)");
    vf::abandon_case();
}

} // namespace

// libubsan calls this weak hook for every report, before it prints it (GCC's libubsan has its own copy of the common
// sanitizer runtime, so the death callback registered with libasan is not run for UBSan aborts)
extern "C" void __ubsan_on_report(void) { ubsan_report(); }

int main(int argc, char** argv) {
    MemoryLeakWarningPlugin::turnOffNewDeleteOverloads();      // before anything allocates: a broken allocation path must fail in a case, not in the start-up code
    vf::init(argc, argv, "C05");
    MemoryLeakWarningPlugin::getGlobalDetector();
    __sanitizer_set_death_callback(death_callback);
    std::set_terminate(terminate_handler);
    bool T = vf::thorough();
    build_sizes(T); build_realloc(T); build_calloc(T);
    vf::info("rule", "one case = one request (size x entry point; (old,new,origin) for realloc; (count,size) for calloc; (length,n,alphabet) for strdup/strndup) "
             "or one workload with one set of underlying calls answered NULL, executed on the real global entry points over a private detector and recording underlying memory; "
             "non-trivial = request that cannot be satisfied or whose size is not a multiple of the pointer size (sizes), size change (realloc), product > 1 MiB (calloc), "
             "truncating n or bytes >= 0x80 (strdup), >= 1 injected NULL (faults)");
    vf::info("config", vf::fmt("flavour %s: guard bytes %zu, record size %zu, underlying memory refuses requests > %zu bytes", VF_FLAVOUR, GS, sizeof(MemoryLeakDetectorNode), LIMIT));

    vf::info("sizes.bound", vf::fmt("%zu sizes (every n in 0..%d; 2^k-2..2^k+2 for k=3..63; the top %d values of size_t; 1 MiB limit +-) x %d entry points (new, new nothrow, new(file,line), the three new[] forms, malloc, realloc(NULL,n), calloc(1,n), calloc(n,1)), two other blocks live",
             g_sizes.size(), T ? 65537 : 4097, T ? 128 : 64, (int)NENTRY));
    vf::section_index("sizes", (long)g_sizes.size() * NENTRY, sizes_case);
    vf::require_outcomes("sizes", 20);

    vf::info("realloc.bound", vf::fmt("%zu old sizes x %zu new sizes (the old sizes, 1 MiB+1, 2^32, 2^63, SIZE_MAX/2, SIZE_MAX-100, top %d values) x 3 origins of the old block (malloc, realloc(NULL), calloc)", g_re_old.size(), g_re_new.size(), T ? 80 : 16));
    vf::section_index("realloc", (long)(3 * g_re_old.size() * g_re_new.size()), realloc_case);
    vf::require_outcomes("realloc", 8);

    vf::info("calloc.bound", vf::fmt("all %zu x %zu (count,size) pairs over {0,1,2,3,7,2^16+-1,2^32-1,2^32,2^32+1,2^63,2^63+1,SIZE_MAX/3,SIZE_MAX/2,SIZE_MAX-1,SIZE_MAX%s}", g_cal.size(), g_cal.size(), T ? ", +22 more boundary values" : ""));
    vf::section_index("calloc", (long)(g_cal.size() * g_cal.size()), calloc_case);
    vf::require_outcomes("calloc", 3);

    vf::info("strdup.bound", "strings of every length 0..64 in two alphabets (letters; all byte values 1..255) x {strdup, strndup with n = 0..70, strndup with n = SIZE_MAX}; source in an exact-size heap buffer");
    vf::section_index("strdup", 2L * (MAXLEN + 1) * (MAXN + 3), strdup_case);
    vf::require_outcomes("strdup", 6);

    {
        int ns = T ? NSCRIPTS_T : NSCRIPTS_Q, bound = T ? 4 : 3;
        vf::info("faults.bound", vf::fmt("4 configurations (default / thread-safe overloads x recording allocators / the library's default allocators inside a real test) x %d workloads of 5..11 operations (first: new, new[], malloc, realloc, calloc, strdup, frees) x every set of <= %d calls of alloc_memory / allocMemoryLeakNode / PlatformSpecificRealloc (default allocators: PlatformSpecificMalloc / PlatformSpecificRealloc) answered NULL, in every position; a NULL from PlatformSpecificMalloc ends the test with the documented failure", ns, bound));
        vf::section_dfs("faults", 2, false, [&](vf::Chooser& ch) { fault_case(ch, ns, 0, bound); });
        vf::require_outcomes("faults", 40);
        int len = T ? 3 : 2, sbound = 3;
        if (getenv("C05_SEQ_LEN")) len = atoi(getenv("C05_SEQ_LEN"));       // deeper manual runs (see notes/c05.md); the registered tiers never set it
        vf::info("faultseq.bound", vf::fmt("the same 4 configurations x EVERY sequence of %d enabled operations over {new, new nothrow, new[], new[] nothrow, malloc, calloc, strdup, strndup, realloc(NULL), realloc grow, realloc shrink, free, delete, delete[]} x every set of <= %d underlying calls answered NULL", len, sbound));
        vf::section_dfs("faultseq", 2, false, [&](vf::Chooser& ch) { fault_case(ch, 0, len, sbound); });
        vf::require_outcomes("faultseq", 40);
        // One operation deeper, only on a tree on which this run has found nothing so far: every crashing case costs a worker
        // restart, and on a tree with open defects the deeper space consists mostly of such cases (tens of minutes instead of seconds).
        bool skip = false;
        if (!vf::g_replaying && vf::opt.out != "/dev/stdout") skip = ("\n" + vf::read_file(vf::opt.out, (size_t)256 << 20)).find("\nFAIL\t") != std::string::npos;
        if (skip) vf::info("faultseqdeep.bound", vf::fmt("NOT RUN because earlier sections of this run reported violations (would be: sequences of %d operations, <= 2 NULL answers)", len + 1));
        else {
            vf::info("faultseqdeep.bound", vf::fmt("as faultseq with EVERY sequence of %d enabled operations and every set of <= 2 NULL answers (run because the earlier sections of this run reported nothing)", len + 1));
            vf::section_dfs("faultseqdeep", 2, false, [&](vf::Chooser& ch) { fault_case(ch, 0, len + 1, 2); });
        }
    }
    return vf::finish();
}

// C19 - the C mocking interface behaves exactly like the C++ one.
// Every scenario of the enumerated spaces is a small "program" (c19_prog.h). It is executed twice, each time as the
// body + teardown of a real test (vf::Fixture): once by the C++ back end (c19_core.h, mock()/MockExpectedCall/
// MockActualCall) and once by the C back end (c19_capi.c, a real C file driving mock_c()/mock_scope_c() and the three
// function tables). Compared: which operation aborted the test, failure count, complete failure text, every returned
// value with its type tag, hasReturnValue, OrDefault results, getData, expectedCallsLeft, output bytes, check count.
#include <vector>
#include <string>
#include <functional>
#include <map>
#define VF_MAIN
#include "vf.h"
#include "fixture.h"
#include "mock_scn.h"
#include "c19_core.h"
#include "c19_sections.h"

int main(int argc, char** argv) {
    vf::init(argc, argv, "C19");
    MemoryLeakWarningPlugin::turnOffNewDeleteOverloads();
    c19::register_symbols();
    vf::info("rule", "every scenario program of each section's stated space is executed through the C++ API and through the C function tables "
                     "(real C file), each as body+teardown of a real test; nothing sampled; non-trivial = the scenario fails in the C++ back end, "
                     "or hands out a non-zero value / writes an output byte");
    c19::run_sections();
    return vf::finish();
}

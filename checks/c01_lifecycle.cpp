// C01 - lifecycle, failure count, exit value. Programs of scripted tests (each phase: two statements; phase
// outcome in K = {complete, C++-style check fails at s1/s2, C-style (longjmp) check fails at s1/s2, throws
// std::runtime_error at s1, throws int at s1}) are run through the real TestRegistry::runAllTests and through the
// real CommandLineTestRunner; trace, failure records, printed locations, counters, summary text, runner return
// value, jump-buffer depth (hook H2) and current-test restoration are compared with a reference.
#include <vector>
#include <sys/mman.h>
#include <unistd.h>
#include <string>
#include <stdexcept>
#include <cstring>
#include <new>
#define VF_MAIN
#include "vf.h"
#include "CppUTest/TestHarness.h"
#include "CppUTest/TestRegistry.h"
#include "CppUTest/TestOutput.h"
#include "CppUTest/TestPlugin.h"
#include "CppUTest/CommandLineTestRunner.h"
#include "CppUTest/PlatformSpecificFunctions.h"
#undef new

extern "C" int cpputest_verif_jmp_buf_depth(void);

namespace {

enum Outcome { COMPLETE = 0, CPP_S1, CPP_S2, C_S1, C_S2,
#if CPPUTEST_HAVE_EXCEPTIONS
               THROW_STD, THROW_INT,
#endif
               NK };
const char* ONAME[] = {"ok", "cppfail@1", "cppfail@2", "cfail@1", "cfail@2", "throw-std", "throw-int"};
bool is_fail(int o) { return o != COMPLETE; }
bool is_check_fail(int o) { return o >= CPP_S1 && o <= C_S2; }

// ------------------------------------------------------------------ trace
struct Ev { short test, phase, stmt; };
Ev g_trace[4096]; int g_ntrace;
void tr(int t, int ph, int st) { if (g_ntrace < 4096) g_trace[g_ntrace++] = Ev{(short)t, (short)ph, (short)st}; }

size_t stmt_line(int test, int ph, int st) { return (size_t)(1000 * (test + 1) + 10 * ph + st); }
size_t shell_line(int test) { return (size_t)(1000 * (test + 1)); }

struct Spec { int kind[3]; int later[3]; };      // later[]: the kind from the second execution on (a test that behaves differently when repeated)
Spec g_spec[40]; int g_exec[40];
struct ScriptTest : Utest {
    int idx;
    explicit ScriptTest(int i) : idx(i) {}
    void phase(int ph);
    void setup() override { phase(0); }
    void testBody() override { phase(1); }
    void teardown() override { phase(2); }
};
// the real UtestShell / IgnoredUtestShell with a scripted test object
template <class Base> struct ScriptShellT : Base {
    int idx = 0; char namebuf[16];
    ScriptShellT() : Base("G", "t", "script.cpp", 0) {}
    void init(int i, const char* name) {
        idx = i; snprintf(namebuf, sizeof namebuf, "%s%d", name, i);
        this->setGroupName("G"); this->setTestName(namebuf); this->setFileName("script.cpp"); this->setLineNumber(1000 * (i + 1));
    }
    Utest* createTest() override { return new ScriptTest(idx); }
};
typedef ScriptShellT<UtestShell> ScriptShell;
typedef ScriptShellT<IgnoredUtestShell> IgnoredScriptShell;
// one scripted check, passing or failing, through one member of the assert family (rotated by test, phase and statement so
// that every member occurs at every crash point): each counts as exactly one check whether it passes or fails
void scripted_check(UtestShell* cur, int which, bool pass, const char* file, size_t line, bool c_style) {
    static const unsigned char b1[2] = {1, 2}, b2[2] = {1, 3};
    const TestTerminator& T = c_style ? (const TestTerminator&)TestTerminatorWithoutExceptions() : (const TestTerminator&)NormalTestTerminator();
    switch (which % 15) {
    case 0: cur->assertTrue(pass, "CHECK", "scripted", NULLPTR, file, line, T); break;
    case 1: cur->assertLongsEqual(1, pass ? 1 : 2, NULLPTR, file, line, T); break;
    case 2: cur->assertUnsignedLongsEqual(1u, pass ? 1u : 2u, NULLPTR, file, line, T); break;
    case 3: cur->assertCstrEqual("a", pass ? "a" : "b", NULLPTR, file, line, T); break;
    case 4: cur->assertPointersEqual(b1, pass ? b1 : b2, NULLPTR, file, line, T); break;
    case 5: cur->assertDoublesEqual(1.0, pass ? 1.0 : 2.0, 0.1, NULLPTR, file, line, T); break;
    case 6: cur->assertEquals(!pass, "1", pass ? "1" : "2", NULLPTR, file, line, T); break;
    case 7: cur->assertBinaryEqual(b1, pass ? b1 : b2, 2, NULLPTR, file, line, T); break;
    case 8: cur->assertLongLongsEqual(1, pass ? 1 : 2, NULLPTR, file, line, T); break;
    case 9: cur->assertCstrNEqual("ab", pass ? "ac" : "bc", 1, NULLPTR, file, line, T); break;
    case 10: cur->assertBitsEqual(1, pass ? 1 : 2, 0xff, 1, NULLPTR, file, line, T); break;
    case 11: if (pass) cur->assertSignedBytesEqual(1, 1, NULLPTR, file, line, T); else cur->fail("scripted FAIL", file, line, T); break;
    case 12: cur->assertCstrEqual(pass ? NULLPTR : "a", NULLPTR, NULLPTR, file, line, T); break;              // the NULL-operand branches
    case 13: cur->assertCstrNEqual(NULLPTR, pass ? NULLPTR : "a", 1, NULLPTR, file, line, T); break;
    case 14: cur->assertBinaryEqual(pass ? NULLPTR : b1, NULLPTR, 2, NULLPTR, file, line, T); break;
    }
}
// A C-style check leaves a failing test by longjmp and never by a C++ exception (it is what C code and code that must not
// throw use): the failing C-style checks are made from a function that is declared noexcept, so an exception ends the process.
void scripted_c_check(UtestShell* cur, int which, const char* file, size_t line) noexcept { scripted_check(cur, which, false, file, line, true); }
void ScriptTest::phase(int ph) {
    if (ph == 0) g_exec[idx]++;
    int o = g_exec[idx] <= 1 ? g_spec[idx].kind[ph] : g_spec[idx].later[ph]; int t = idx;
    UtestShell* cur = UtestShell::getCurrent();
    for (int st = 1; st <= 2; st++) {
        int which = t * 5 + ph * 3 + st + g_exec[idx];
        if ((o == CPP_S1 && st == 1) || (o == CPP_S2 && st == 2)) scripted_check(cur, which, false, "script.cpp", stmt_line(t, ph, st), false);
        if ((o == C_S1 && st == 1) || (o == C_S2 && st == 2)) scripted_c_check(cur, which, "script.cpp", stmt_line(t, ph, st));
#if CPPUTEST_HAVE_EXCEPTIONS
        if (o == THROW_STD && st == 1) throw std::runtime_error("scripted std exception");
        if (o == THROW_INT && st == 1) throw 42;
#endif
        scripted_check(cur, which + 7, true, "script.cpp", stmt_line(t, ph, st), false);
        tr(t, ph, st);
    }
}

// ------------------------------------------------------------------ observers
int g_depth_errors, g_current_errors; int g_depth_first_bad;
struct WatchOutput : StringBufferTestOutput {
    int depth_before = 0; UtestShell* cur_before = nullptr; TestResult* res_before = nullptr;
    void printCurrentTestStarted(const UtestShell& t) override {
        depth_before = cpputest_verif_jmp_buf_depth(); cur_before = UtestShell::getCurrent(); res_before = UtestShell::getCurrent()->getTestResult();
        StringBufferTestOutput::printCurrentTestStarted(t);
    }
    void printCurrentTestEnded(const TestResult& r) override {
        if (cpputest_verif_jmp_buf_depth() != depth_before) { if (!g_depth_errors++) g_depth_first_bad = cpputest_verif_jmp_buf_depth() - depth_before; }
        if (UtestShell::getCurrent() != cur_before || UtestShell::getCurrent()->getTestResult() != res_before) g_current_errors++;
        StringBufferTestOutput::printCurrentTestEnded(r);
    }
};
struct WatchPlugin : TestPlugin {
    int depth_pre = 0; bool report_error = false;
    WatchPlugin() : TestPlugin("watch") {}
    void preTestAction(UtestShell&, TestResult&) override { depth_pre = cpputest_verif_jmp_buf_depth(); }
    void postTestAction(UtestShell& t, TestResult& r) override {
        if (cpputest_verif_jmp_buf_depth() != depth_pre) { if (!g_depth_errors++) g_depth_first_bad = cpputest_verif_jmp_buf_depth() - depth_pre; }
        if (report_error) r.addFailure(TestFailure(&t, "plugin.cpp", 7000 + (t.getLineNumber() / 1000 - 1), "plugin reported error"));
    }
};

std::string g_console;
void fputs_capture(const char* s, PlatformSpecificFile) { g_console += s; }
void flush_nop() {}
// Separate-process runs: the console is modelled as a fully buffered stream into a pipe (stdout redirected to a file or a
// pipe): text reaches the pipe when the stream is flushed; a forked child that leaves through _exit() loses what it did not flush.
struct Pipe { volatile size_t len; char data[(1 << 20) - 64]; };
Pipe* g_pipe = nullptr; std::string g_unflushed;
void fputs_buffered(const char* s, PlatformSpecificFile) { g_unflushed += s; }
void flush_to_pipe() {
    if (g_unflushed.empty()) return;
    size_t at = __atomic_fetch_add(&g_pipe->len, g_unflushed.size(), __ATOMIC_SEQ_CST);
    if (at + g_unflushed.size() < sizeof g_pipe->data) memcpy(g_pipe->data + at, g_unflushed.data(), g_unflushed.size());
    g_unflushed.clear();
}
unsigned long time_zero() { return 0; }
const char* timestr_fixed() { return "1970-01-01T00:00:00"; }

// ------------------------------------------------------------------ program + reference
struct TestSpec { int kind[3]; bool ignored; bool filtered; bool varies; int later[3]; };
struct Program {
    std::vector<TestSpec> tests; bool run_ignored = false; bool plugin_error = false;
};
struct Ref {
    std::vector<Ev> trace; size_t failures = 0, run = 0, ignored = 0, filtered = 0, checks = 0, tests = 0;
    std::vector<size_t> fail_lines; std::vector<std::string> fail_files;
    bool failure() const { return failures != 0 || run + ignored == 0; }
};
Ref reference(const Program& p, int rep = 0) {
    Ref r; r.tests = p.tests.size();
    for (size_t t = 0; t < p.tests.size(); t++) {
        TestSpec s = p.tests[t];
        if (rep > 0 && s.varies) for (int k = 0; k < 3; k++) s.kind[k] = s.later[k];
        if (s.filtered) { r.filtered++; continue; }
        if (s.ignored && !p.run_ignored) { r.ignored++; continue; }
        r.run++;
        auto phase = [&](int ph) -> bool {      // returns "completed"
            int o = s.kind[ph];
            for (int st = 1; st <= 2; st++) {
                bool fails_here = ((o == CPP_S1 || o == C_S1) && st == 1) || ((o == CPP_S2 || o == C_S2) && st == 2);
                if (fails_here) { r.checks++; r.failures++; r.fail_files.push_back("script.cpp"); r.fail_lines.push_back(stmt_line((int)t, ph, st)); return false; }
#if CPPUTEST_HAVE_EXCEPTIONS
                if ((o == THROW_STD || o == THROW_INT) && st == 1) { r.failures++; r.fail_files.push_back("script.cpp"); r.fail_lines.push_back(shell_line((int)t)); return false; }
#endif
                r.checks++; r.trace.push_back(Ev{(short)t, (short)ph, (short)st});
            }
            return true;
        };
        if (phase(0)) phase(1);
        phase(2);
        if (p.plugin_error) { r.failures++; r.fail_files.push_back("plugin.cpp"); r.fail_lines.push_back(7000 + t); }
    }
    return r;
}
std::string render(const Program& p) {
    std::string o;
    for (auto& t : p.tests) { o += vf::fmt("[%s%s%s,%s,%s%s] ", t.ignored ? "IGNORED " : "", t.filtered ? "FILTERED " : "", ONAME[t.kind[0]], ONAME[t.kind[1]], ONAME[t.kind[2]], t.varies ? vf::fmt(" then %s,%s,%s", ONAME[t.later[0]], ONAME[t.later[1]], ONAME[t.later[2]]).c_str() : ""); }
    if (p.run_ignored) o += "run-ignored "; if (p.plugin_error) o += "plugin-reports-error ";
    return o;
}
size_t count_occurrences(const std::string& h, const std::string& n) { size_t c = 0, pos = 0; while ((pos = h.find(n, pos)) != std::string::npos) { c++; pos += n.size(); } return c; }

alignas(16) char g_shell_mem[40][sizeof(IgnoredScriptShell) > sizeof(ScriptShell) ? sizeof(IgnoredScriptShell) : sizeof(ScriptShell)];
UtestShell* g_shell_ptr[40];

void build_registry(const Program& p, TestRegistry& reg) {
    // TestRegistry::addTest prepends: add in reverse so that the run order is the program order
    for (int t = (int)p.tests.size() - 1; t >= 0; t--) {
        for (int k = 0; k < 3; k++) { g_spec[t].kind[k] = p.tests[t].kind[k]; g_spec[t].later[k] = p.tests[t].varies ? p.tests[t].later[k] : p.tests[t].kind[k]; }
        g_exec[t] = 0;
        const char* name = p.tests[t].filtered ? "skipme" : "t";
        if (p.tests[t].ignored) { IgnoredScriptShell* s = new (g_shell_mem[t]) IgnoredScriptShell(); s->init(t, name); g_shell_ptr[t] = s; }
        else { ScriptShell* s = new (g_shell_mem[t]) ScriptShell(); s->init(t, name); g_shell_ptr[t] = s; }
        reg.addTest(g_shell_ptr[t]);
    }
}
void destroy_shells(const Program& p) { for (size_t t = 0; t < p.tests.size(); t++) g_shell_ptr[t]->~UtestShell(); }

bool parse_summary(const std::string& out, size_t from, bool& ok, size_t& failures, size_t c[5]) {
    size_t pos_ok = out.find("\nOK (", from), pos_err = out.find("\nErrors (", from);
    size_t pos; if (pos_ok != std::string::npos && (pos_err == std::string::npos || pos_ok < pos_err)) { ok = true; pos = pos_ok + 5; } else if (pos_err != std::string::npos) { ok = false; pos = pos_err + 9; } else return false;
    failures = 0;
    const char* s = out.c_str() + pos;
    if (!ok) { if (strncmp(s, "ran nothing, ", 13) == 0) s += 13; else { unsigned long f; int n = 0; if (sscanf(s, "%lu failures, %n", &f, &n) < 1 || n == 0) return false; failures = f; s += n; } }
    unsigned long a, b, cc, d, e;
    if (sscanf(s, "%lu tests, %lu ran, %lu checks, %lu ignored, %lu filtered out", &a, &b, &cc, &d, &e) != 5) return false;
    c[0] = a; c[1] = b; c[2] = cc; c[3] = d; c[4] = e;
    return true;
}

void compare_one_repetition(const Program& p, const Ref& ref, const std::string& out, size_t summary_from, const char* via, const std::string& desc, int trace_from, int trace_to) {
    // trace
    bool same = (size_t)(trace_to - trace_from) == ref.trace.size();
    for (size_t i = 0; same && i < ref.trace.size(); i++) { const Ev& a = g_trace[trace_from + i]; const Ev& b = ref.trace[i]; if (a.test != b.test || a.phase != b.phase || a.stmt != b.stmt) same = false; }
    if (!same) {
        // classify the first difference for a narrow signature
        std::string what = "other";
        size_t n = (size_t)(trace_to - trace_from), i = 0;
        while (i < n && i < ref.trace.size() && g_trace[trace_from + i].test == ref.trace[i].test && g_trace[trace_from + i].phase == ref.trace[i].phase && g_trace[trace_from + i].stmt == ref.trace[i].stmt) i++;
        if (i < n && (i >= ref.trace.size() || true)) {
            const Ev& a = g_trace[trace_from + i];
            int o = p.tests[a.test].kind[a.phase];
            if (a.phase == 1 && is_fail(p.tests[a.test].kind[0])) what = "body-ran-after-failed-setup";
            else if (is_fail(o)) what = "statement-after-failure-executed";
            else what = "unexpected-statement";
        } else if (i < ref.trace.size()) {
            const Ev& b = ref.trace[i];
            what = b.phase == 2 ? "teardown-not-run" : b.phase == 1 ? "body-not-run" : "setup-not-run";
        }
        vf::fail(std::string("trace/") + what, desc + vf::fmt(" via %s: executed %zu statements, reference %zu (first difference at %zu)", via, n, ref.trace.size(), i));
    }
    // summary
    bool ok; size_t failures; size_t c[5];
    if (!parse_summary(out, summary_from, ok, failures, c)) { vf::fail("summary/missing", desc + vf::fmt(" via %s: no summary found in: ", via) + vf::esc(out.substr(summary_from, 200))); return; }
    if (ok == ref.failure()) vf::fail(ok ? "summary/OK-despite-failure" : "summary/Errors-without-failure", desc + vf::fmt(" via %s: summary reads %s, reference failures=%zu run=%zu ignored=%zu", via, ok ? "OK" : "Errors", ref.failures, ref.run, ref.ignored));
    if (!ok && failures != ref.failures) vf::fail("summary/failure-count", desc + vf::fmt(" via %s: summary says %zu failures, reference %zu", via, failures, ref.failures));
    const char* names[5] = {"tests", "ran", "checks", "ignored", "filtered-out"};
    size_t want[5] = {ref.tests, ref.run, ref.checks, ref.ignored, ref.filtered};
    for (int k = 0; k < 5; k++) if (c[k] != want[k]) vf::fail(std::string("summary/count-") + names[k], desc + vf::fmt(" via %s: %s = %zu, reference %zu", via, names[k], c[k], want[k]));
}

void check_failures_printed(const Ref& ref, const std::string& out, int repetitions, const char* via, const std::string& desc) {
    size_t total = count_occurrences(out, ": error: Failure in ");
    if (total != ref.failures * repetitions) vf::fail(total > ref.failures * repetitions ? "failures/printed-more-than-once" : "failures/not-printed", desc + vf::fmt(" via %s: %zu failure records printed, reference %zu", via, total, ref.failures * repetitions));
    // every failure record carries its location: "<file>:<line>: error: Failure in ..." for failures inside the test file
    // after the test's own line; a failure reported from another file prints the test's location first, then its own
    std::vector<std::string> want;
    for (size_t i = 0; i < ref.fail_lines.size(); i++) {
        if (ref.fail_files[i] == "script.cpp") want.push_back(vf::fmt("script.cpp:%zu: error: Failure in ", ref.fail_lines[i]));
        else { want.push_back(vf::fmt("script.cpp:%zu: error: Failure in ", shell_line((int)(ref.fail_lines[i] - 7000)))); want.push_back(vf::fmt("%s:%zu: error:", ref.fail_files[i].c_str(), ref.fail_lines[i])); }
    }
    for (auto& loc : want) {
        size_t n = 0; for (auto& o : want) if (o == loc) n++;
        if (count_occurrences(out, loc) != n * repetitions) { vf::fail("failures/wrong-location", desc + vf::fmt(" via %s: location '%s' printed %zu times, expected %zu", via, loc.c_str(), count_occurrences(out, loc), n * repetitions)); break; }
    }
}

void run_program(const Program& p, int repeat, bool via_runner) {
    std::string desc = render(p) + vf::fmt("x%d", repeat);
    Ref ref = reference(p);                       // first repetition
    Ref refs[4]; for (int r = 0; r < repeat && r < 4; r++) refs[r] = reference(p, r);
    Ref all; for (int r = 0; r < repeat; r++) { all.failures += refs[r].failures; for (size_t i = 0; i < refs[r].fail_lines.size(); i++) { all.fail_lines.push_back(refs[r].fail_lines[i]); all.fail_files.push_back(refs[r].fail_files[i]); } }
    bool any_rep_fails = false; for (int r = 0; r < repeat; r++) any_rep_fails |= refs[r].failure();
    g_depth_errors = g_current_errors = 0; g_ntrace = 0;
    vf::ctx(via_runner ? "runner" : "registry");
    int depth0 = cpputest_verif_jmp_buf_depth();
    UtestShell* cur0 = UtestShell::getCurrent();
    WatchPlugin plugin; plugin.report_error = p.plugin_error;
    if (!via_runner) {
        int marks[8]; std::string outs; size_t sum_from[8];
        TestRegistry reg; build_registry(p, reg); reg.installPlugin(&plugin);
        TestFilter f("skipme"); f.invertMatching(); reg.setNameFilters(&f);
        if (p.run_ignored) reg.setRunIgnored();
        WatchOutput out;
        for (int r = 0; r < repeat; r++) {
            marks[r] = g_ntrace; sum_from[r] = strlen(out.getOutput().asCharString());
            TestResult result(out);
            reg.runAllTests(result);
            if (result.getFailureCount() != refs[r].failures) vf::fail("result/failure-count", desc + vf::fmt(": TestResult counts %zu failures, reference %zu", result.getFailureCount(), refs[r].failures));
            if (result.isFailure() != refs[r].failure()) vf::fail("result/isFailure", desc + vf::fmt(": isFailure()=%d, reference %d", result.isFailure(), refs[r].failure()));
        }
        marks[repeat] = g_ntrace;
        outs = out.getOutput().asCharString();
        for (int r = 0; r < repeat; r++) compare_one_repetition(p, refs[r], outs, sum_from[r], "registry", desc, marks[r], marks[r + 1]);
        check_failures_printed(all, outs, 1, "registry", desc);
        reg.setNameFilters(nullptr);
        destroy_shells(p);
    } else {
        TestRegistry reg; build_registry(p, reg); reg.installPlugin(&plugin);
        g_console.clear();
        std::vector<const char*> av = {"prog", "-e", "-xn", "skipme"};
        std::string rarg = vf::fmt("-r%d", repeat); if (repeat > 1) av.push_back(rarg.c_str());
        if (p.run_ignored) av.push_back("-ri");
        int rv;
        { CommandLineTestRunner runner((int)av.size(), av.data(), &reg); rv = runner.runAllTestsMain(); }
        UtestShell::setRethrowExceptions(false);
        bool want_zero = !any_rep_fails;
        if ((rv == 0) != want_zero) vf::fail(rv == 0 ? "runner/returns-zero-despite-failure" : "runner/returns-nonzero-without-failure", desc + vf::fmt(": runner returned %d, reference: some repetition fails=%d", rv, any_rep_fails));
        // repetitions: the trace is the concatenation of the repetitions' reference traces
        size_t total = 0; for (int r = 0; r < repeat; r++) total += refs[r].trace.size();
        size_t from = 0, tfrom = 0;
        if ((size_t)g_ntrace != total) vf::fail("trace/repetition-length", desc + vf::fmt(" via runner: %d statements over %d repetitions, reference %zu", g_ntrace, repeat, total));
        else for (int r = 0; r < repeat; r++) {
            size_t s = g_console.find("\nOK (", from), e = g_console.find("\nErrors (", from);
            size_t at = std::min(s, e);
            compare_one_repetition(p, refs[r], g_console, from, "runner", desc, (int)tfrom, (int)(tfrom + refs[r].trace.size()));
            tfrom += refs[r].trace.size();
            from = at == std::string::npos ? g_console.size() : at + 5;
        }
        check_failures_printed(all, g_console, 1, "runner", desc);
        destroy_shells(p);
    }
    if (g_depth_errors) vf::fail("jmpbuf/depth-drift-across-test", desc + vf::fmt(": jump buffer depth changed by %d across a test (%d tests affected)", g_depth_first_bad, g_depth_errors));
    if (cpputest_verif_jmp_buf_depth() != depth0) vf::fail("jmpbuf/depth-drift-across-run", desc + vf::fmt(": depth %d before the run, %d after", depth0, cpputest_verif_jmp_buf_depth()));
    if (g_current_errors || UtestShell::getCurrent() != cur0) vf::fail("current/not-restored", desc + vf::fmt(": current test/result pointers not restored after a test (%d tests; after the run: %s)", g_current_errors, UtestShell::getCurrent() != cur0 ? "changed" : "same"));
    {   // outcome class: failures and checks per executed test (so long runs of one kind fall into that kind's class)
        size_t per = ref.run ? ref.run : 1;
        vf::outcome(vf::fmt("f/test=%zu checks/test=%zu run=%zu ign=%zu flt=%zu %s", ref.failures / per, ref.checks / per, ref.run > 2 ? 2 : ref.run, ref.ignored ? 1 : 0, ref.filtered ? 1 : 0, ref.failure() ? "Errors" : "OK"));
    }
    if (ref.failures) vf::count("nontrivial");
    // leaked global state must not reach the next case: restart the worker behind this case
    if (cpputest_verif_jmp_buf_depth() != depth0 || UtestShell::getCurrent() != cur0) vf::abandon_case();
    vf::count("tests_run", (long)ref.run * repeat);
    if (vf::want_sample()) vf::sample(desc + (via_runner ? " via runner" : " via registry"));
}

// Separate-process mode (-p): every test runs in a forked child, so statements and failure texts stay in the child; what
// C01 still says about such a run is its verdict: runner value and summary head per repetition, and one recorded failure
// per test that has at least one failure (the child's exit status). C11 owns everything else about that mode.
void run_program_sepproc(const Program& p, int repeat) {
    std::string desc = render(p) + vf::fmt("x%d -p", repeat);
    vf::ctx("runner-p");
    bool any_rep_fails = false; std::vector<size_t> failing_tests(repeat, 0); std::vector<bool> rep_fails(repeat, false);
    for (int r = 0; r < repeat; r++) {
        Ref whole = reference(p, r); rep_fails[r] = whole.failure(); any_rep_fails |= whole.failure();
        for (size_t t = 0; t < p.tests.size(); t++) {
            Program one; one.tests.push_back(p.tests[t]); one.run_ignored = p.run_ignored; one.plugin_error = p.plugin_error;
            Ref rt = reference(one, r);
            if (rt.failures) failing_tests[r]++;
        }
    }
    WatchPlugin plugin; plugin.report_error = p.plugin_error;
    TestRegistry reg; build_registry(p, reg); reg.installPlugin(&plugin);
    g_console.clear();
    { static pid_t owner = 0; if (owner != getpid()) { owner = getpid(); g_pipe = (Pipe*)mmap(nullptr, sizeof(Pipe), PROT_READ | PROT_WRITE, MAP_SHARED | MAP_ANONYMOUS, -1, 0); } }
    g_pipe->len = 0; g_unflushed.clear();
    PlatformSpecificFPuts = fputs_buffered; PlatformSpecificFlush = flush_to_pipe;
    std::vector<const char*> av = {"prog", "-e", "-p", "-xn", "skipme"};
    std::string rarg = vf::fmt("-r%d", repeat); if (repeat > 1) av.push_back(rarg.c_str());
    if (p.run_ignored) av.push_back("-ri");
    int rv;
    fflush(stdout); fflush(stderr);
    { CommandLineTestRunner runner((int)av.size(), av.data(), &reg); rv = runner.runAllTestsMain(); }
    UtestShell::setRethrowExceptions(false);
    flush_to_pipe();                                              // what a normal exit of the runner process does
    PlatformSpecificFPuts = fputs_capture; PlatformSpecificFlush = flush_nop;
    g_console.assign(g_pipe->data, std::min((size_t)g_pipe->len, sizeof g_pipe->data));
    // every failure of the reference is printed (by the child it happened in) exactly once with its own location
    for (int r = 0, done = 0; r < repeat && !done; r++) {
        Ref whole = reference(p, r);
        for (size_t i = 0; i < whole.fail_lines.size() && !done; i++) {
            bool at_test_line = false; for (size_t t = 0; t < p.tests.size(); t++) if (whole.fail_files[i] == "script.cpp" && whole.fail_lines[i] == (size_t)shell_line((int)t)) at_test_line = true;
            if (at_test_line) continue;       // an escaped exception is located at the test's own line, like the parent's "Failed in separate process" record
            std::string loc = whole.fail_files[i] == "script.cpp" ? vf::fmt("script.cpp:%zu: error: Failure in ", whole.fail_lines[i]) : vf::fmt("%s:%zu: error:", whole.fail_files[i].c_str(), whole.fail_lines[i]);
            size_t want = 0; for (int r2 = 0; r2 < repeat; r2++) { Ref w2 = reference(p, r2); for (size_t j = 0; j < w2.fail_lines.size(); j++) if (w2.fail_lines[j] == whole.fail_lines[i] && w2.fail_files[j] == whole.fail_files[i]) want++; }
            size_t got = count_occurrences(g_console, loc);
            if (got != want) { vf::fail(got < want ? "runner-p/failure-text-lost" : "runner-p/failure-printed-more-than-once", desc + vf::fmt(": '%s' reached the (buffered) console %zu times, reference %zu", loc.c_str(), got, want)); done = 1; }
        }
    }
    if ((rv == 0) != !any_rep_fails) vf::fail(rv == 0 ? "runner-p/returns-zero-despite-failure" : "runner-p/returns-nonzero-without-failure", desc + vf::fmt(": runner returned %d, reference: some repetition fails=%d", rv, any_rep_fails));
    size_t from = 0;
    for (int r = 0; r < repeat; r++) {
        size_t ok = g_console.find("\nOK (", from), er = g_console.find("\nErrors (", from);
        size_t at = std::min(ok, er);
        if (at == std::string::npos) { vf::fail("runner-p/summary-missing", desc + vf::fmt(": no summary for repetition %d", r + 1)); break; }
        bool says_ok = at == ok;
        if (says_ok == rep_fails[r]) vf::fail(says_ok ? "runner-p/summary-OK-despite-failure" : "runner-p/summary-Errors-without-failure", desc + vf::fmt(": repetition %d summary reads %s, reference fails=%d", r + 1, says_ok ? "OK" : "Errors", (int)rep_fails[r]));
        if (!says_ok && failing_tests[r]) {
            std::string want = vf::fmt("Errors (%zu failures", failing_tests[r]);
            if (g_console.compare(at + 1, want.size(), want) != 0) vf::fail("runner-p/failure-count", desc + vf::fmt(": repetition %d: expected '%s', printed '%s'", r + 1, want.c_str(), g_console.substr(at + 1, 24).c_str()));
        }
        from = at + 5;
    }
    destroy_shells(p);
    vf::outcome(vf::fmt("-p failing-tests=%zu %s", failing_tests[0] > 2 ? 2 : failing_tests[0], any_rep_fails ? "Errors" : "OK"));
    if (any_rep_fails) vf::count("nontrivial");
    if (vf::want_sample()) vf::sample(desc);
}

// The public entry point CommandLineTestRunner::RunAllTests(argc, argv) (current registry, leak plugin installed and removed
// around the run) with MANY failures: the returned value must be non-zero whenever a repetition failed, also when the number
// of failures summed over the repetitions is 256, 512 or 65536-ish (a value that does not survive narrowing).
void run_exit_value(int ntests, int fails_per_test, int repeat) {
    Program p;
    for (int i = 0; i < ntests; i++) { TestSpec t{}; t.kind[1] = CPP_S1; if (fails_per_test >= 2) t.kind[2] = C_S2; p.tests.push_back(t); }
    std::string desc = vf::fmt("%d tests with %d failing phase(s) each x%d via CommandLineTestRunner::RunAllTests", ntests, fails_per_test, repeat);
    vf::ctx("static-runner");
    TestRegistry reg; build_registry(p, reg);
    TestRegistry* before = TestRegistry::getCurrentRegistry();
    reg.setCurrentRegistry(&reg);
    g_console.clear();
    std::string rarg = vf::fmt("-r%d", repeat);
    std::vector<const char*> av = {"prog", "-e", rarg.c_str()};
    int rv = CommandLineTestRunner::RunAllTests((int)av.size(), av.data());
    UtestShell::setRethrowExceptions(false);
    reg.setCurrentRegistry(before == &reg ? nullptr : before);
    long total = (long)ntests * fails_per_test * repeat;
    if (rv == 0) vf::fail("runner/returns-zero-despite-failure", desc + vf::fmt(": %ld failures over all repetitions, the runner returned 0", total));
    size_t errs = count_occurrences(g_console, "\nErrors ("), oks = count_occurrences(g_console, "\nOK (");
    if (errs != (size_t)repeat || oks != 0) vf::fail("summary/OK-despite-failure", desc + vf::fmt(": %zu Errors and %zu OK summaries for %d failing repetitions", errs, oks, repeat));
    destroy_shells(p);
    vf::outcome(vf::fmt("static total=%ld", total));
    vf::count("nontrivial"); vf::count("tests_run", (long)ntests * repeat);
    if (vf::want_sample()) vf::sample(desc);
}

void kind_from(long k, int out[3]) { out[0] = (int)(k % NK); out[1] = (int)((k / NK) % NK); out[2] = (int)(k / NK / NK); }

} // namespace

int main(int argc, char** argv) {
    vf::init(argc, argv, "C01");
    MemoryLeakWarningPlugin::turnOffNewDeleteOverloads();
    PlatformSpecificFPuts = fputs_capture; PlatformSpecificFlush = flush_nop;
    GetPlatformSpecificTimeInMillis = time_zero; GetPlatformSpecificTimeString = timestr_fixed;
    bool T = vf::thorough();
    const long K3 = (long)NK * NK * NK;
    vf::info("rule", vf::fmt("programs of scripted tests; a test kind is (setup,body,teardown) in K^3 with |K|=%d (%s build); every program is run through the real registry or the real command line runner (-e) and compared with the reference; non-trivial = at least one failure expected", (int)NK, CPPUTEST_HAVE_EXCEPTIONS ? "exceptions" : "no-exceptions"));

    vf::info("single.bound", vf::fmt("all %ld test kinds x repeat {1,2,3} x {registry, runner} x plugin-reported error {no,yes}", K3));
    vf::section_index("single", K3 * 3 * 2 * 2, [&](long idx) {
        vf::Radix r(idx); long k = r.take(K3); int rep = 1 + (int)r.take(3); bool runner = r.take(2); bool perr = r.take(2);
        Program p; TestSpec t{}; kind_from(k, t.kind); p.tests.push_back(t); p.plugin_error = perr;
        run_program(p, rep, runner);
    });
    vf::require_outcomes("single", 4);

    vf::info("sepproc.bound", vf::fmt("separate-process mode: all %ld test kinds x repeat {1,2} x plugin-reported error {no,yes}, and all ordered pairs of kinds with at most one failing phase; runner with -p, real fork; verdict-level comparison", K3));
    {
        std::vector<long> few; for (long k = 0; k < K3; k++) { int kk[3]; kind_from(k, kk); int nf = 0; for (int i = 0; i < 3; i++) if (kk[i] != 0) nf++; if (nf <= 1) few.push_back(k); }
        long F = (long)few.size();
        vf::section_index("sepproc", K3 * 2 * 2 + F * F, [&](long idx) {
            Program p;
            if (idx < K3 * 2 * 2) {
                vf::Radix r(idx); long k = r.take(K3); int rep = 1 + (int)r.take(2); bool perr = r.take(2);
                TestSpec t{}; kind_from(k, t.kind); p.tests.push_back(t); p.plugin_error = perr;
                run_program_sepproc(p, rep);
            } else {
                vf::Radix r(idx - K3 * 2 * 2);
                for (int i = 0; i < 2; i++) { TestSpec t{}; kind_from(few[r.take(F)], t.kind); p.tests.push_back(t); }
                run_program_sepproc(p, 1);
            }
        });
        vf::require_outcomes("sepproc", 3);
    }

    {
        // (tests, failing phases per test, repetitions): totals 1..4, 255, 256, 257, 512, 768 and 65536 failures
        static const int W[][3] = { {1,1,1}, {1,2,1}, {3,1,1}, {2,2,1}, {17,1,15}, {1,1,256}, {2,1,128}, {4,1,64}, {8,1,32}, {16,1,16}, {32,1,8}, {32,2,4}, {16,2,8}, {1,2,128}, {1,1,257}, {32,1,16}, {32,2,12}, {32,2,1024} };
        long NW = (long)(sizeof W / sizeof *W);
        vf::info("exitvalue.bound", "CommandLineTestRunner::RunAllTests on the current registry with failure totals 1..4, 255, 256 (reached as 1x256 ... 32x8 and with two failures per test), 257, 512, 768, 65536");
        vf::section_index("exitvalue", NW, [&](long idx) { run_exit_value(W[idx][0], W[idx][1], W[idx][2]); });
        vf::require_outcomes("exitvalue", 6);
    }

    vf::info("pairs.bound", vf::fmt("all %ld ordered pairs of test kinds, registry, repeat 1", K3 * K3));
    vf::section_index("pairs", K3 * K3, [&](long idx) {
        vf::Radix r(idx); Program p; for (int i = 0; i < 2; i++) { TestSpec t{}; kind_from(r.take(K3), t.kind); p.tests.push_back(t); }
        run_program(p, 1, false);
    });
    vf::require_outcomes("pairs", 4);

    vf::info("long.bound", vf::fmt("every kind repeated 12x and 24x (crosses the 10-slot jump buffer stack), registry and runner with -r2: %ld programs", K3 * 2 * 2));
    vf::section_index("long", K3 * 2 * 2, [&](long idx) {
        vf::Radix r(idx); long k = r.take(K3); int n = r.take(2) ? 24 : 12; bool runner = r.take(2);
        Program p; for (int i = 0; i < n; i++) { TestSpec t{}; kind_from(k, t.kind); p.tests.push_back(t); }
        run_program(p, runner ? 2 : 1, runner);
    });
    vf::require_outcomes("long", 3);

    {
        // kinds with at most one failing phase, alternated: all ordered pairs (a,b) run as a b a b ... 12 tests
        std::vector<long> few; for (long k = 0; k < K3; k++) { int kk[3]; kind_from(k, kk); if ((kk[0] != 0) + (kk[1] != 0) + (kk[2] != 0) <= (T ? 3 : 1)) few.push_back(k); }
        long F = (long)few.size();
        vf::info("alternate.bound", vf::fmt("all %ld ordered pairs of kinds with <= %d failing phases, alternated 6x (12 tests), registry", F * F, T ? 3 : 1));
        vf::section_index("alternate", F * F, [&](long idx) {
            vf::Radix r(idx); long a = few[r.take(F)], b = few[r.take(F)];
            Program p; for (int i = 0; i < 12; i++) { TestSpec t{}; kind_from(i % 2 ? b : a, t.kind); p.tests.push_back(t); }
            run_program(p, 1, false);
        });
    }
    {
        // counters: programs of 3 tests from {pass, body fails, ignored-pass, ignored-fail, filtered} x run-ignored x via
        vf::info("mixed.bound", "all 5^3 programs over {pass, body fails (C++), ignored pass, ignored failing, filtered out} x run-ignored {off,on} x {registry, runner} x repeat {1,2}");
        vf::section_index("mixed", 125 * 2 * 2 * 2, [&](long idx) {
            vf::Radix r(idx); Program p;
            for (int i = 0; i < 3; i++) { long c = r.take(5); TestSpec t{}; t.kind[1] = (c == 1 || c == 3) ? CPP_S2 : COMPLETE; t.ignored = (c == 2 || c == 3); t.filtered = c == 4; p.tests.push_back(t); }
            p.run_ignored = r.take(2); bool runner = r.take(2); int rep = 1 + (int)r.take(2);
            run_program(p, rep, runner);
        });
        vf::require_outcomes("mixed", 6);
    }
    {
        // tests that behave differently when repeated: kind A at the first execution, kind B from the second on
        std::vector<long> few; for (long k = 0; k < K3; k++) { int kk[3]; kind_from(k, kk); if ((kk[0] != 0) + (kk[1] != 0) + (kk[2] != 0) <= 1) few.push_back(k); }
        long F = (long)few.size();
        vf::info("varying.bound", vf::fmt("1 test: all %ld x %ld (first kind, later kind) over kinds with <= 1 failing phase x repeat {2,3} x {registry, runner}; 2 tests: all (%ld x %ld)^2 through the runner with -r2", F, F, F, F));
        vf::section_index("varying1", F * F * 2 * 2, [&](long idx) {
            vf::Radix r(idx); TestSpec t{}; kind_from(few[r.take(F)], t.kind); kind_from(few[r.take(F)], t.later); t.varies = true;
            int rep = 2 + (int)r.take(2); bool runner = r.take(2);
            Program p; p.tests.push_back(t); run_program(p, rep, runner);
        });
        vf::require_outcomes("varying1", 4);
        vf::section_index("varying2", F * F * F * F, [&](long idx) {
            vf::Radix r(idx); Program p;
            for (int i = 0; i < 2; i++) { TestSpec t{}; kind_from(few[r.take(F)], t.kind); kind_from(few[r.take(F)], t.later); t.varies = true; p.tests.push_back(t); }
            run_program(p, 2, true);
        });
    }
    if (T) {
        // triples with at most 6 failing phases in total (deviation bound)
        vf::info("triples.bound", vf::fmt("all ordered triples of test kinds with <= 6 non-complete phases in total (of %ld^3), registry", K3));
        vf::section_index("triples", K3 * K3 * K3, [&](long idx) {
            vf::Radix r(idx); Program p; int bad = 0;
            for (int i = 0; i < 3; i++) { TestSpec t{}; kind_from(r.take(K3), t.kind); bad += (t.kind[0] != 0) + (t.kind[1] != 0) + (t.kind[2] != 0); p.tests.push_back(t); }
            if (bad > 6) { vf::count("skipped_over_deviation_bound"); return; }
            vf::count("executed");
            run_program(p, 1, false);
        });
    }
    return vf::finish();
}

// C11 - separate-process mode contains every way a test can die.
// Layer A ("answers", "eintr"): no real processes. PlatformSpecificFork is a seam, waitpid() is interposed by symbol (below the library's own wrapper);
//   every sequence of wait answers (EINTR, other error, stopped(sig), exited(k), signaled(s)) with a bounded
//   number of non-final answers is fed to the real parent-side wait loop of a registry [pass, X, pass]; a reference
//   automaton over the answer sequence decides failures, SIGCONT, termination.
// Layer B ("realfork", plain flavour only: exact signal semantics): X really dies in a forked child - every
//   signal 1..31, every exit status 0..255, a failing check, a self-stop - at each crash point (setup, body,
//   teardown, plugin pre, plugin post); the waitpid seam records the real status words and the same reference decides.
#include <vector>
#include <string>
#include <cstring>
#include <cerrno>
#include <csignal>
#include <unistd.h>
#include <sys/wait.h>
#include <sys/mman.h>
#include <sys/syscall.h>
#include <sys/resource.h>
#define VF_MAIN
#include "vf.h"
#include "CppUTest/TestHarness.h"
#include "CppUTest/TestRegistry.h"
#include "CppUTest/TestOutput.h"
#include "CppUTest/TestPlugin.h"
#include "CppUTest/TestTestingFixture.h"
#include "CppUTest/PlatformSpecificFunctions.h"
#undef new

extern int (*PlatformSpecificFork)(void);
extern int (*PlatformSpecificWaitPid)(int, int*, int);

// ------------------------------------------------------------------ kill() interposed by symbol (the library calls kill(w, SIGCONT) directly)
namespace { bool g_record_kill = false; int g_kills = 0, g_kill_sig[64], g_kill_pid[64]; bool g_forward_kill = false; }
extern "C" int kill(pid_t pid, int sig) {
    if (g_record_kill) { if (g_kills < 64) { g_kill_pid[g_kills] = pid; g_kill_sig[g_kills] = sig; } g_kills++; if (!g_forward_kill) return 0; }
    return (int)syscall(SYS_kill, pid, sig);
}

// waitpid() interposed by symbol as well: layer A goes through the library's own PlatformSpecificWaitPid implementation
// (the function a real run uses) and the scripted answers are given one level below it, by "the operating system".
namespace { bool g_script_wait = false; int waitpid_seam(int pid, int* status, int); }
extern "C" pid_t waitpid(pid_t pid, int* status, int options) {
    if (g_script_wait) return waitpid_seam(pid, status, options);
    return (pid_t)syscall(SYS_wait4, pid, status, options, nullptr);
}

namespace {

enum AKind { A_EINTR, A_ERR, A_STOP, A_EXIT, A_SIG };
struct Ans { AKind k; int v; bool core = false; };
int status_word(const Ans& a) {
    switch (a.k) { case A_STOP: return (a.v << 8) | 0x7f; case A_EXIT: return (a.v & 0xff) << 8; case A_SIG: return (a.v & 0x7f) | (a.core ? 0x80 : 0); default: return 0; }
}
std::string ans_str(const Ans& a) {
    switch (a.k) { case A_EINTR: return "EINTR"; case A_ERR: return "ECHILD"; case A_STOP: return vf::fmt("stopped(%d)", a.v); case A_EXIT: return vf::fmt("exited(%d)", a.v); default: return vf::fmt("signaled(%d%s)", a.v, a.core ? ",core" : ""); }
}

// ---- seams for layer A
const int FAKE_PID = 4242;
std::vector<Ans> g_script; size_t g_script_pos; int g_forks, g_waits; bool g_fork_fails_for_x; int g_x_index; bool g_runaway;
int fork_seam() { int n = g_forks++; if (n == g_x_index && g_fork_fails_for_x) return -1; return FAKE_PID + n; }
int waitpid_seam(int pid, int* status, int) {
    g_waits++;
    bool is_x = pid == FAKE_PID + g_x_index;
    if (!is_x) { *status = 0; return pid; }                       // the neighbours exit normally
    if (g_waits > 400) { g_runaway = true; *status = 0; return pid; } // horizon: a retry-forever loop is ended by force and reported
    Ans a = g_script_pos < g_script.size() ? g_script[g_script_pos++] : Ans{A_EINTR, 0};   // past the script: EINTR forever
    if (a.k == A_EINTR) { errno = EINTR; return -1; }
    if (a.k == A_ERR) { errno = ECHILD; return -1; }
    *status = status_word(a);
    return pid;
}

// ---- reference automaton over the answers actually consumed
struct RefA { int failures = 0; int conts = 0; std::vector<std::string> texts; };
// eintr_gave_up: the implementation stopped on an EINTR (allowed only after at least MIN_RETRIES retries)
const int MIN_RETRIES = 3, HORIZON = 300;

struct Recorder : StringBufferTestOutput {
    std::vector<std::string> failures_of[3]; int cur = -1;
    void printCurrentTestStarted(const UtestShell& t) override { cur++; StringBufferTestOutput::printCurrentTestStarted(t); }
    void printFailure(const TestFailure& f) override { if (cur >= 0 && cur < 3) failures_of[cur].push_back(f.getMessage().asCharString()); }
};

struct SharedMarks { volatile int ran[3]; volatile int where_reached; };
SharedMarks* g_marks;

void mark0() { g_marks->ran[0]++; } void mark2() { g_marks->ran[2]++; }
void nothing() {}

void run_answers(const std::vector<Ans>& script, bool fork_fails) {
    vf::ctx("wait-loop");
    g_script = script; g_script_pos = 0; g_forks = g_waits = 0; g_fork_fails_for_x = fork_fails; g_x_index = 1; g_runaway = false;
    g_kills = 0; g_record_kill = true; g_forward_kill = false;
    g_script_wait = true;
    std::string desc = fork_fails ? "fork fails" : "";
    for (auto& a : script) desc += ans_str(a) + " ";
    Recorder out; TestResult result(out);
    {
        TestRegistry reg; ExecFunctionTestShell t0, t1, t2;
        reg.addTest(&t2); reg.addTest(&t1); reg.addTest(&t0);
        reg.setRunTestsInSeperateProcess();
        reg.runAllTests(result);
    }
    g_record_kill = false; g_script_wait = false;
    // ---- reference
    int want_fail = 0, want_cont = 0; std::vector<std::string> want_text; bool ended = false; int eintr = 0; bool gave_up_ok = false;
    if (fork_fails) { want_fail = 1; want_text.push_back("fork"); ended = true; }
    else for (size_t i = 0; i < g_script_pos && !ended; i++) {
        const Ans& a = script[i];
        switch (a.k) {
        case A_EINTR: eintr++; break;
        case A_ERR: want_fail++; want_text.push_back("waitpid"); ended = true; break;
        case A_STOP: want_fail++; want_cont++; want_text.push_back("Stopped"); break;
        case A_EXIT: if (a.v != 0) { want_fail++; want_text.push_back("Failed in separate process"); } ended = true; break;
        case A_SIG: want_fail++; want_text.push_back(vf::fmt("signal %d", a.v)); ended = true; break;
        }
    }
    const std::vector<std::string>& got = out.failures_of[1];
    if (g_runaway) { vf::fail("wait/retries-unbounded", desc + vf::fmt(": still waiting after %d waitpid calls", g_waits)); return; }
    if (!ended && !fork_fails) {
        // the loop stopped although no final answer was delivered: only legal as "gave up on EINTR"
        int total_eintr = eintr + (int)(g_waits - 2 - (int)g_script_pos > 0 ? g_waits - 2 - (int)g_script_pos : 0);
        (void)total_eintr;
        if (got.size() == (size_t)want_fail + 1 && got.back().find("EINTR") != std::string::npos) { gave_up_ok = true; want_fail++; want_text.push_back("EINTR"); }
        else { vf::fail("wait/stopped-waiting-without-final-status", desc + vf::fmt(": wait loop ended after %zu answers without exit/signal/error", g_script_pos)); return; }
        int eintr_seen = 0; for (size_t i = 0; i < g_script_pos; i++) if (script[i].k == A_EINTR) eintr_seen++;
        eintr_seen += g_waits - 2 - (int)g_script_pos;       // EINTRs delivered past the script
        if (eintr_seen <= MIN_RETRIES) vf::fail("wait/gave-up-on-first-EINTRs", desc + vf::fmt(": gave up after only %d interrupted waits", eintr_seen));
    }
    if ((int)got.size() != want_fail) {
        const char* what = (int)got.size() < want_fail ? "event-not-recorded" : "event-recorded-more-than-once";
        vf::fail(std::string("failures/") + what, desc + vf::fmt(": %zu failures recorded for the dying test, reference %d", got.size(), want_fail));
    } else for (size_t i = 0; i < got.size(); i++) if (got[i].find(want_text[i]) == std::string::npos) { vf::fail("failures/wrong-message", desc + ": failure '" + got[i] + "' should mention '" + want_text[i] + "'"); break; }
    int conts = 0; bool cont_target_ok = true;
    for (int i = 0; i < g_kills && i < 64; i++) { if (g_kill_sig[i] == SIGCONT) { conts++; if (g_kill_pid[i] != FAKE_PID + 1) cont_target_ok = false; } else cont_target_ok = false; }
    if (conts != want_cont) vf::fail(conts < want_cont ? "stop/no-SIGCONT" : "stop/spurious-SIGCONT", desc + vf::fmt(": %d SIGCONT sent, %d stop events", conts, want_cont));
    if (!cont_target_ok) vf::fail("stop/wrong-kill", desc + ": kill() called with another signal or another pid than the child's");
    if (!out.failures_of[0].empty() || !out.failures_of[2].empty()) vf::fail("neighbours/charged", desc + ": a neighbouring test got a failure");
    if (g_forks != 3) vf::fail("run/did-not-continue", desc + vf::fmt(": %d of 3 tests were started", g_forks));
    if (result.getRunCount() != 3) vf::fail("run/run-count", desc + vf::fmt(": run count %zu", result.getRunCount()));
    if (result.isFailure() != (want_fail > 0)) vf::fail("run/overall-verdict", desc + vf::fmt(": isFailure()=%d with %d expected failures", result.isFailure(), want_fail));
    if ((int)result.getFailureCount() != want_fail && (int)got.size() == want_fail) vf::fail("run/failure-count", desc + vf::fmt(": result counts %zu", result.getFailureCount()));
    vf::outcome(vf::fmt("fail=%d cont=%d %s", want_fail > 3 ? 3 : want_fail, want_cont > 2 ? 2 : want_cont, gave_up_ok ? "gave-up" : ended ? "final" : "-"));
    if (want_fail) vf::count("nontrivial");
    vf::count("waits", g_waits);
    if (vf::want_sample()) vf::sample(desc);
}

// ------------------------------------------------------------------ layer B: real processes
int g_real_status[64]; int g_real_n; int g_real_pid_x;
int real_fork() { g_forks++; fflush(stdout); return fork(); }
int real_waitpid(int pid, int* status, int options) {
    int r = waitpid(pid, status, options);
    if (r > 0 && g_forks == 2 && g_real_n < 64) { g_real_status[g_real_n++] = *status; g_real_pid_x = pid; }
    return r;
}
int g_how, g_arg, g_where;       // how: 0 signal, 1 _exit, 2 failing check, 3 self stop, 4 C-style (longjmp) failing check, 5 failure reported by a plugin through the result
pid_t g_runner_pid; bool g_ran_in_runner;
void die_here(int where) {
    if (getpid() == g_runner_pid) { g_ran_in_runner = true; return; }      // separate-process mode is on: X must never execute in the runner itself
    if (where != g_where) return;
    switch (g_how) {
    case 0: raise(g_arg); break;
    case 1: _exit(g_arg);
    case 2: FAIL("scripted failure in the child");
    case 3: raise(SIGSTOP); break;
    case 4: UtestShell::getCurrent()->fail("scripted C-style failure in the child", "child.c", 1, TestTerminatorWithoutExceptions());
    default: break;
    }
}
void x_setup() { die_here(0); } void x_body() { g_marks->ran[1]++; die_here(1); } void x_teardown() { die_here(2); }
struct DyingPlugin : TestPlugin {
    DyingPlugin() : TestPlugin("dying") {}
    void preTestAction(UtestShell& t, TestResult& r) override { if (t.getName() == "X") { die_here(3); if (g_how == 5 && g_where == 3) r.addFailure(TestFailure(&t, "plugin.cpp", 3, "reported by a plugin")); } }
    void postTestAction(UtestShell& t, TestResult& r) override { if (t.getName() == "X") { die_here(4); if (g_how == 5 && g_where == 4) r.addFailure(TestFailure(&t, "plugin.cpp", 4, "reported by a plugin")); } }
};
// what IGNORE_TEST(group, X) expands to: an IgnoredUtestShell creating the test object; with run-ignored on it runs like a TEST
struct XTest : Utest { void setup() override { x_setup(); } void testBody() override { x_body(); } void teardown() override { x_teardown(); } };
struct IgnoredX : IgnoredUtestShell { Utest* createTest() override { return new XTest; } };
const char* WHERE[] = {"setup", "body", "teardown", "plugin-pre", "plugin-post"};
const char* HOW[] = {"signal", "_exit", "failing-check", "self-stop", "failing-C-check", "plugin-reported-failure"};

bool default_terminates(int s) { return !(s == SIGCHLD || s == SIGCONT || s == SIGURG || s == SIGWINCH || s == SIGSTOP || s == SIGTSTP || s == SIGTTIN || s == SIGTTOU); }

void run_real(int how, int arg, int where, int kind) {
    vf::ctx("real-child");
    { static pid_t owner = 0; if (owner != getpid()) { owner = getpid(); g_marks = (SharedMarks*)mmap(nullptr, 4096, PROT_READ | PROT_WRITE, MAP_SHARED | MAP_ANONYMOUS, -1, 0); } }   // shared with our children only, not with sibling workers
    g_how = how; g_arg = arg; g_where = where; g_forks = 0; g_real_n = 0; g_kills = 0; g_record_kill = true; g_forward_kill = true;
    g_marks->ran[0] = g_marks->ran[1] = g_marks->ran[2] = 0;
    std::string desc = vf::fmt("%s(%d) in %s%s", HOW[how], arg, WHERE[where], kind ? " of an IGNORE_TEST run with run-ignored on" : "");
    g_runner_pid = getpid(); g_ran_in_runner = false;
    Recorder out; TestResult result(out);
    {
        TestRegistry reg; DyingPlugin plugin;
        ExecFunctionTestShell t0, t1(x_setup, x_teardown), t2;
        IgnoredX t1i;
        ExecFunctionWithoutParameters f0(mark0), f1(x_body), f2(mark2);
        t0.testFunction_ = &f0; t1.testFunction_ = &f1; t2.testFunction_ = &f2;
        t1.setTestName("X"); t1i.setTestName("X");
        reg.addTest(&t2); reg.addTest(kind ? (UtestShell*)&t1i : &t1); reg.addTest(&t0);
        reg.installPlugin(&plugin);
        reg.setRunTestsInSeperateProcess();
        if (kind) reg.setRunIgnored();
        reg.runAllTests(result);
    }
    if (g_ran_in_runner) { vf::fail("real/ran-in-runner-process", desc + ": separate-process mode is on but the test executed inside the runner process (its death would take the whole run down)"); g_record_kill = false; return; }
    if (g_forks != 3) vf::fail("real/fork-count", desc + vf::fmt(": %d children were forked for 3 tests", g_forks));
    g_record_kill = false;
    // reference from the recorded status words
    int want_fail = 0, want_cont = 0; bool ended = false; std::vector<std::string> want_text;
    for (int i = 0; i < g_real_n; i++) {
        int st = g_real_status[i];
        if (WIFSTOPPED(st)) { want_fail++; want_cont++; want_text.push_back("Stopped"); }
        else if (WIFEXITED(st)) { if (WEXITSTATUS(st) != 0) { want_fail++; want_text.push_back("Failed in separate process"); } ended = true; }
        else if (WIFSIGNALED(st)) { want_fail++; want_text.push_back(vf::fmt("signal %d", WTERMSIG(st))); ended = true; }
    }
    if (!ended) vf::fail("real/child-lost", desc + ": the parent stopped waiting before the child exited or was killed");
    // independent expectation on what the child's death looks like
    if (how == 0 && default_terminates(arg) && !(g_real_n >= 1 && WIFSIGNALED(g_real_status[g_real_n - 1]) && WTERMSIG(g_real_status[g_real_n - 1]) == arg)) vf::harness_error(desc + ": child did not die of the raised signal");
    if (how == 1 && !(g_real_n == 1 && WIFEXITED(g_real_status[0]) && WEXITSTATUS(g_real_status[0]) == arg)) vf::harness_error(desc + ": child exit status not observed");
    const std::vector<std::string>& got = out.failures_of[1];
    if ((int)got.size() != want_fail) vf::fail((int)got.size() < want_fail ? "failures/event-not-recorded" : "failures/event-recorded-more-than-once", desc + vf::fmt(": %zu failures recorded, reference %d", got.size(), want_fail));
    else for (size_t i = 0; i < got.size(); i++) if (got[i].find(want_text[i]) == std::string::npos) { vf::fail("failures/wrong-message", desc + ": failure '" + got[i] + "' should mention '" + want_text[i] + "'"); break; }
    // SIGTSTP/SIGTTIN/SIGTTOU are discarded by the kernel for orphaned process groups: environment dependent, status-driven only
    bool env_dependent = how == 0 && (arg == SIGTSTP || arg == SIGTTIN || arg == SIGTTOU);
    bool must_fail = (how == 0 && default_terminates(arg)) || (how == 1 && arg != 0) || how == 2 || how == 3 || how == 4 || how == 5 || (how == 0 && arg == SIGSTOP);
    if (env_dependent) must_fail = !got.empty();
    if (must_fail && got.empty()) vf::fail("real/death-not-reported", desc + ": the test died but the parent recorded no failure");
    if (!must_fail && !got.empty()) vf::fail("real/normal-completion-reported", desc + ": the child completed normally but a failure was recorded: " + got[0]);
    int conts = 0; for (int i = 0; i < g_kills && i < 64; i++) if (g_kill_sig[i] == SIGCONT && g_kill_pid[i] == g_real_pid_x) conts++;
    if (conts != want_cont) vf::fail(conts < want_cont ? "stop/no-SIGCONT" : "stop/spurious-SIGCONT", desc + vf::fmt(": %d SIGCONT sent, %d stop events", conts, want_cont));
    if (g_marks->ran[0] != 1 || g_marks->ran[2] != 1) vf::fail("run/did-not-continue", desc + vf::fmt(": neighbouring tests ran %d and %d times", g_marks->ran[0], g_marks->ran[2]));
    if (!out.failures_of[0].empty() || !out.failures_of[2].empty()) vf::fail("neighbours/charged", desc + ": a neighbouring test got a failure");
    if (result.isFailure() != (want_fail > 0)) vf::fail("run/overall-verdict", desc + vf::fmt(": isFailure()=%d with %d expected failures", result.isFailure(), want_fail));
    vf::outcome(vf::fmt("%s fail=%d cont=%d", HOW[how], want_fail, want_cont));
    if (want_fail) vf::count("nontrivial");
    if (vf::want_sample()) vf::sample(desc);
}

} // namespace

int main(int argc, char** argv) {
    vf::init(argc, argv, "C11");
    MemoryLeakWarningPlugin::turnOffNewDeleteOverloads();
    struct rlimit rl = {0, 0}; setrlimit(RLIMIT_CORE, &rl);
    g_marks = (SharedMarks*)mmap(nullptr, 4096, PROT_READ | PROT_WRITE, MAP_SHARED | MAP_ANONYMOUS, -1, 0);
    bool T = vf::thorough();
    bool plain = std::string(VF_FLAVOUR) == "plain";
    vf::info("rule", "layer A: every sequence of waitpid answers (<= d non-final answers from {EINTR, stopped by SIGSTOP/SIGTSTP/SIGTTIN/SIGTTOU}, then a final answer from {exited 0..255, signaled 1..64 with/without core, other error}) and fork failure, fed to the real wait loop; layer B (plain build): the child really dies at every crash point; non-trivial = at least one failure expected");

    // ---- layer A: answer sequences (fork through the function-pointer seam, waitpid through the library's own implementation over the interposed symbol)
    int (*lib_waitpid)(int, int*, int) = PlatformSpecificWaitPid;
    PlatformSpecificFork = fork_seam;
    std::vector<Ans> nonfinal = { {A_EINTR, 0}, {A_STOP, SIGSTOP}, {A_STOP, SIGTSTP}, {A_STOP, SIGTTIN}, {A_STOP, SIGTTOU} };
    std::vector<Ans> finals;
    for (int k = 0; k < 256; k++) finals.push_back({A_EXIT, k});
    for (int s = 1; s <= 64; s++) { finals.push_back({A_SIG, s, false}); finals.push_back({A_SIG, s, true}); }
    finals.push_back({A_ERR, 0});
    int d = T ? 5 : 3;
    long nprefix = 0; { long pw = 1; for (int l = 0; l <= d; l++) { nprefix += pw; pw *= (long)nonfinal.size(); } }
    long nfinal = (long)finals.size();
    vf::info("answers.bound", vf::fmt("<= %d non-final answers over %zu options x %ld final answers (+ fork failure): %ld sequences", d, nonfinal.size(), nfinal, nprefix * nfinal + 1));
    vf::section_index("answers", nprefix * nfinal + 1, [&](long idx) {
        if (idx == nprefix * nfinal) { run_answers({}, true); return; }
        vf::Radix r(idx); long fi = r.take(nfinal); long pi = r.idx;
        std::vector<Ans> script; long pw = 1; int len = 0;
        while (pi >= pw) { pi -= pw; pw *= (long)nonfinal.size(); len++; }
        for (int i = 0; i < len; i++) { script.push_back(nonfinal[pi % (long)nonfinal.size()]); pi /= (long)nonfinal.size(); }
        script.push_back(finals[fi]);
        run_answers(script, false);
    });
    vf::require_outcomes("answers", 6);

    // EINTR runs of every length 0..60 and "forever", before / after a stop, then a final answer
    std::vector<Ans> few_finals = { {A_EXIT, 0}, {A_EXIT, 1}, {A_SIG, 9}, {A_ERR, 0} };
    vf::info("eintr.bound", "EINTR runs of length 0..60 and unbounded (horizon 400 waits), placed first / after a stop / before a stop, followed by exited(0), exited(1), signaled(9) or another error");
    vf::section_index("eintr", 62 * 3 * 4, [&](long idx) {
        vf::Radix r(idx); int n = (int)r.take(62); int place = (int)r.take(3); Ans fin = few_finals[r.take(4)];
        std::vector<Ans> script;
        if (place == 1) script.push_back({A_STOP, SIGSTOP});
        if (n < 61) { for (int i = 0; i < n; i++) script.push_back({A_EINTR, 0}); }
        else { for (int i = 0; i < 500; i++) script.push_back({A_EINTR, 0}); }
        if (place == 2) script.push_back({A_STOP, SIGTSTP});
        script.push_back(fin);
        run_answers(script, false);
    });
    vf::require_outcomes("eintr", 4);

    // ---- layer B: real children (no sanitizer: exact signal semantics)
    if (plain) {
        PlatformSpecificFork = real_fork; PlatformSpecificWaitPid = real_waitpid;
        long N = 2 * 5 * (31 + 256 + 1 + 1 + 1 + 1);
        vf::info("realfork.bound", "X a TEST or an IGNORE_TEST run with run-ignored on; crash point in {setup, body, teardown, plugin pre, plugin post} x {raise(1..31), _exit(0..255), failing check, raise(SIGSTOP), C-style failing check (test phases), failure reported by a plugin through the result (plugin actions)}: real fork, real waitpid, status words recorded");
        vf::section_index("realfork", N, [&](long idx) {
            vf::Radix r(idx); int kind = (int)r.take(2); int where = (int)r.take(5); long k = r.idx;
            if (k < 31) run_real(0, (int)k + 1, where, kind);
            else if (k < 31 + 256) run_real(1, (int)(k - 31), where, kind);
            else if (k == 31 + 256) run_real(2, 0, where, kind);
            else if (k == 31 + 256 + 1) run_real(3, 0, where, kind);
            else if (k == 31 + 256 + 2) { if (where <= 2) run_real(4, 0, where, kind); }
            else { if (where >= 3) run_real(5, 0, where, kind); }
        });
        vf::require_outcomes("realfork", 5);
    } else {
        PlatformSpecificFork = fork_seam; PlatformSpecificWaitPid = lib_waitpid;
    }
    return vf::finish();
}

// C12 - command line: every argv is parsed safely and means what the help text says.
//
// Safety layer (sections argv1..argv4): CommandLineArguments(ac, av).parse(plugin), every getter, the
// destructor, with every av[i] (and the av array itself) in an exact-size heap block so that ASan sees
// any read outside the inputs. Spaces, all enumerated completely:
//   argv1  all single-argument vectors: every string over a 23-byte alphabet up to a length bound, every
//          option spelling followed by every suffix over an 11-byte structural alphabet, every dictionary
//          token, and the vector without arguments
//   argv2  all pairs over the dictionary          argv3  all triples over the dictionary
//   argv4  all 4-vectors over a core dictionary (25 tokens quick, 40 thorough)
// Oracle: terminates, no sanitizer report, and a rejected vector makes CommandLineTestRunner print exactly
// the usage (or, with -h, the help) text and run no test of a probe registry.
//
// Meaning layer (sections mean2, mean3, mean4): all sequences of documented option instances (attached and
// separated value forms). A reference configuration is folded from the documented meaning of each
// instance; compared with: accept/reject, every getter, the filter lists, the set of probe tests selected,
// and what CommandLineTestRunner actually does with the configuration on a probe registry (which tests
// run, how often, in which order, through which seam, which output is produced).
#include <string>
#include <vector>
#include <set>
#include <map>
#include <memory>
#include <algorithm>
#define VF_MAIN
#include "vf.h"
#include "CppUTest/TestHarness.h"
#include "CppUTest/TestRegistry.h"
#include "CppUTest/TestOutput.h"
#include "CppUTest/TestPlugin.h"
#include "CppUTest/TestFilter.h"
#include "CppUTest/CommandLineArguments.h"
#include "CppUTest/CommandLineTestRunner.h"
#include "CppUTest/PlatformSpecificFunctions.h"
#undef new

namespace {

typedef std::vector<std::string> Args;

std::string show(const Args& a) {
    std::string s = "[";
    for (size_t i = 0; i < a.size(); i++) { if (i) s += " "; s += "\"" + vf::esc(a[i]) + "\""; }
    return s + "]";
}

// ------------------------------------------------------------------ seams: console, files, time, process
std::string g_console;
struct FileRec { std::string name, data; };
std::vector<FileRec*> g_files;
PlatformSpecificFile seam_fopen(const char* fn, const char*) { FileRec* f = new FileRec{fn, ""}; g_files.push_back(f); return f; }
void seam_fputs(const char* s, PlatformSpecificFile f) {
    if (f == PlatformSpecificStdOut) { if (g_console.size() < (1u << 22)) g_console += s; }
    else if (f) ((FileRec*)f)->data += s;
}
void seam_fclose(PlatformSpecificFile) {}
void seam_flush() {}
unsigned long seam_millis() { return 1234; }
const char* seam_timestr() { return "2000-01-01T00:00:00"; }
int g_sep_calls = 0;
void seam_separate(UtestShell* shell, TestPlugin* plugin, TestResult* result) { g_sep_calls++; shell->runOneTestInCurrentProcess(plugin, *result); }
void reset_io() { g_console.clear(); for (auto f : g_files) delete f; g_files.clear(); g_sep_calls = 0; }

// ------------------------------------------------------------------ exact-size argv
struct Argv {
    int ac; char** av;
    explicit Argv(const Args& a) {
        ac = (int)a.size() + 1;
        av = (char**)malloc(sizeof(char*) * (size_t)ac);          // no av[ac]: reading it is outside the input
        av[0] = dup("prog");
        for (size_t i = 0; i < a.size(); i++) av[i + 1] = dup(a[i]);
    }
    ~Argv() { for (int i = 0; i < ac; i++) free(av[i]); free(av); }
    static char* dup(const std::string& s) { char* p = (char*)malloc(s.size() + 1); memcpy(p, s.c_str(), s.size() + 1); return p; }
};

// ------------------------------------------------------------------ observed configuration
struct Filt {
    std::string text; bool strict, inv;
    bool operator<(const Filt& o) const { if (text != o.text) return text < o.text; if (strict != o.strict) return strict < o.strict; return inv < o.inv; }
    bool operator==(const Filt& o) const { return text == o.text && strict == o.strict && inv == o.inv; }
    bool accepts(const std::string& s) const { bool m = strict ? (s == text) : (s.find(text) != std::string::npos); return inv ? !m : m; }
    std::string str() const { return std::string(inv ? "!" : "") + (strict ? "=" : "~") + "\"" + vf::esc(text) + "\""; }
};
std::string show(const std::vector<Filt>& v) { std::string s = "{"; for (auto& f : v) s += f.str() + " "; return s + "}"; }

enum { F_V, F_VV, F_C, F_P, F_B, F_LG, F_LN, F_LL, F_RI, F_F, F_NORETHROW, NFLAGS };
const char* FLAGNAME[NFLAGS] = {"verbose", "very-verbose", "color", "separate-process", "reverse", "list-groups", "list-names", "list-locations", "run-ignored", "crash-on-fail", "no-rethrow"};
enum { OUT_ECLIPSE, OUT_JUNIT, OUT_TEAMCITY, OUT_NONE };

struct Cfg {
    bool ok = false, help = false;
    bool flag[NFLAGS] = {};
    bool shuffle = false;
    size_t repeat = 0, seed = 0;
    int out = OUT_NONE; int out_count = 0; bool is_eclipse = false, is_junit = false, is_teamcity = false;
    std::string pkg;
    std::vector<Filt> gf, nf;
};

std::vector<Filt> read_filters(const TestFilter* f) {
    std::vector<Filt> v; int guard = 0;
    for (; f; f = f->getNext()) {
        v.push_back({f->filter_.asCharString(), f->strictMatching_, f->invertMatching_});
        if (++guard > 100000) break;
    }
    return v;
}

void read_cfg(const CommandLineArguments& c, Cfg& o) {
    o.help = c.needHelp();
    o.flag[F_V] = c.isVerbose(); o.flag[F_VV] = c.isVeryVerbose(); o.flag[F_C] = c.isColor();
    o.flag[F_P] = c.runTestsInSeperateProcess(); o.flag[F_B] = c.isReversing();
    o.flag[F_LG] = c.isListingTestGroupNames(); o.flag[F_LN] = c.isListingTestGroupAndCaseNames(); o.flag[F_LL] = c.isListingTestLocations();
    o.flag[F_RI] = c.isRunIgnored(); o.flag[F_F] = c.isCrashingOnFail(); o.flag[F_NORETHROW] = !c.isRethrowingExceptions();
    o.shuffle = c.isShuffling(); o.repeat = c.getRepeatCount(); o.seed = c.getShuffleSeed();
    o.is_eclipse = c.isEclipseOutput(); o.is_junit = c.isJUnitOutput(); o.is_teamcity = c.isTeamCityOutput();
    o.out_count = (c.isEclipseOutput() ? 1 : 0) + (c.isJUnitOutput() ? 1 : 0) + (c.isTeamCityOutput() ? 1 : 0);
    o.out = c.isJUnitOutput() ? OUT_JUNIT : c.isTeamCityOutput() ? OUT_TEAMCITY : c.isEclipseOutput() ? OUT_ECLIPSE : OUT_NONE;
    o.pkg = c.getPackageName().asCharString();
    o.gf = read_filters(c.getGroupFilters()); o.nf = read_filters(c.getNameFilters());
    (void)strlen(c.usage()); (void)strlen(c.help());
}

std::string g_usage, g_help;

// the parser alone: construct, parse, every getter, destroy
Cfg direct_parse(const Args& a) {
    Cfg o;
    Argv v(a);
    {
        vf::ctx("construct");
        CommandLineArguments c(v.ac, v.av);
        vf::ctx("parse");
        o.ok = c.parse(NullTestPlugin::instance());
        vf::ctx("getters");
        read_cfg(c, o);
        vf::ctx("destroy");
    }
    vf::ctx("after");
    return o;
}

// ------------------------------------------------------------------ probe registry
const char* GROUPS[3] = {"A", "AB", "B"};
const char* NAMES[3] = {"b", "ab", "c"};
const int NPROBE = 18;                 // id = gi*6 + ign*3 + ni  (groups contiguous)
int probe_gi(int id) { return id / 6; }
bool probe_ign(int id) { return (id / 3) % 2 == 1; }
int probe_ni(int id) { return id % 3; }
std::string probe_str(int id) { return std::string(probe_ign(id) ? "IGNORE_TEST(" : "TEST(") + GROUPS[probe_gi(id)] + ", " + NAMES[probe_ni(id)] + ")"; }

std::vector<int> g_runlog;
struct ProbeTest : Utest { int id; explicit ProbeTest(int i) : id(i) {} void testBody() override { g_runlog.push_back(id); } };
struct ProbeShell : UtestShell {
    int id;
    explicit ProbeShell(int i) : UtestShell(GROUPS[probe_gi(i)], NAMES[probe_ni(i)], "probe.cpp", (size_t)(100 + i)), id(i) {}
    Utest* createTest() override { return new ProbeTest(id); }
};
struct IgnoredProbeShell : IgnoredUtestShell {
    int id;
    explicit IgnoredProbeShell(int i) : IgnoredUtestShell(GROUPS[probe_gi(i)], NAMES[probe_ni(i)], "probe.cpp", (size_t)(100 + i)), id(i) {}
    Utest* createTest() override { return new ProbeTest(id); }
};

bool selected_by(const std::vector<Filt>& gf, const std::vector<Filt>& nf, int id) {
    std::string g = GROUPS[probe_gi(id)], n = NAMES[probe_ni(id)];
    bool gok = gf.empty(), nok = nf.empty();
    for (auto& f : gf) if (f.accepts(g)) gok = true;
    for (auto& f : nf) if (f.accepts(n)) nok = true;
    return gok && nok;
}

const TestTerminator* g_default_terminator = nullptr;

struct RunObs {
    int ret = 0;
    std::vector<int> runlog;
    int sep = 0;
    std::string console;
    std::vector<std::string> files;
    bool crash_terminator = false, rethrow = false;
};

// the whole runner on a fresh probe registry, all I/O captured
RunObs runner_run(const Args& a) {
    RunObs r;
    Argv v(a);
    reset_io(); g_runlog.clear();
    UtestShell::restoreDefaultTestTerminator();
    UtestShell::setRethrowExceptions(false);
    std::vector<std::unique_ptr<UtestShell>> shells;
    {
        TestRegistry reg;
        for (int id = NPROBE - 1; id >= 0; id--) {        // addTest prepends: register backwards so that run order is 0..17
            if (probe_ign(id)) shells.emplace_back(new IgnoredProbeShell(id)); else shells.emplace_back(new ProbeShell(id));
            reg.addTest(shells.back().get());
        }
        reg.setCurrentRegistry(&reg);
        {
            vf::ctx("runner-construct");
            CommandLineTestRunner runner(v.ac, v.av, &reg);
            vf::ctx("runner-run");
            r.ret = runner.runAllTestsMain();
            vf::ctx("runner-destroy");
        }
        vf::ctx("runner-after");
        reg.setCurrentRegistry(nullptr);
    }
    r.runlog = g_runlog; r.sep = g_sep_calls; r.console = g_console;
    for (auto f : g_files) r.files.push_back(f->name);
    r.crash_terminator = (&UtestShell::getCurrentTestTerminator() != g_default_terminator);
    r.rethrow = UtestShell::isRethrowingExceptions();
    UtestShell::restoreDefaultTestTerminator();
    UtestShell::setRethrowExceptions(false);
    reset_io(); g_runlog.clear();
    return r;
}

// rejected => usage or help printed, nothing else, no test runs
void check_rejected_through_runner(const Args& a, bool want_help, bool help_or_usage_both_ok, const char* layer) {
    RunObs r = runner_run(a);
    bool is_usage = r.console == g_usage, is_help = r.console == g_help;
    std::string L = layer;
    if (!is_usage && !is_help)
        vf::fail(L + "/rejected-but-neither-usage-nor-help-printed", show(a) + ": console output was \"" + vf::esc(r.console.substr(0, 200)) + "\"");
    else if (!help_or_usage_both_ok && want_help != is_help)
        vf::fail(L + "/rejected-wrong-text-printed", show(a) + (want_help ? ": help requested, usage printed" : ": no help requested, help printed"));
    if (!r.runlog.empty())
        vf::fail(L + "/rejected-but-tests-ran", show(a) + vf::fmt(": %zu test executions although the vector was rejected", r.runlog.size()));
    if (!r.files.empty())
        vf::fail(L + "/rejected-but-files-written", show(a) + ": output file " + r.files[0] + " opened although the vector was rejected");
}

// ------------------------------------------------------------------ crash bookkeeping shared between workers
// A vector that contains, as a contiguous sub-vector, a shorter vector that already crashed the parser in an
// earlier section of this run is not executed again (every crash costs a process restart and a sanitizer
// report); it is counted and the section is reported INCOMPLETE. With no crash nothing is skipped.
// In the "spelling + suffix" part of argv1 the same applies per option spelling: after CRASH_BUDGET crashes of
// strings starting with one spelling the remaining suffixes of that spelling are skipped and reported.
const int MAXD = 128;
// Safety net for anything else (for instance `--only argv4`, where nothing was learned): after SECTION_CRASH_BUDGET
// crashes in one section its remaining cases are skipped and the section is reported INCOMPLETE.
const int CRASH_BUDGET = 8;
const int SECTION_CRASH_BUDGET = 200;
struct Shared {
    volatile int inflight_kind[64];          // 0 none, 1/2/3 = dictionary vector of that length
    volatile int inflight_tok[64][4];
    volatile unsigned char bad1[MAXD];
    volatile unsigned char bad2[MAXD][MAXD];
    volatile unsigned char bad3[MAXD][MAXD][MAXD];
    volatile long skipped[8];
    volatile int crashes_by_spelling[64];
    volatile int section_crashes;            // safety net: crashes in the running section, whatever their cause
};
Shared* g_sh = nullptr;
int me() { return vf::g_me >= 0 ? vf::g_me : 0; }
void settle(int w) {
    int k = g_sh->inflight_kind[w];
    if (!k) return;
    __sync_fetch_and_add(&g_sh->section_crashes, 1);
    int t0 = g_sh->inflight_tok[w][0], t1 = g_sh->inflight_tok[w][1], t2 = g_sh->inflight_tok[w][2];
    if (k == 1) g_sh->bad1[t0] = 1;
    if (k == 2) g_sh->bad2[t0][t1] = 1;
    if (k == 3) g_sh->bad3[t0][t1][t2] = 1;
    if (k == 4) __sync_fetch_and_add(&g_sh->crashes_by_spelling[t0], 1);
    g_sh->inflight_kind[w] = 0;
}
void settle_all() { for (int w = 0; w < 64; w++) settle(w); }
void mark_inflight(int k, const int* t) { int w = me(); int n = k == 4 ? 1 : k == 5 ? 0 : k; for (int i = 0; i < n; i++) g_sh->inflight_tok[w][i] = t[i]; g_sh->inflight_kind[w] = k; }   // 4: spelling index, 5: anything else
bool section_budget_exhausted(const char* section) {
    if (g_sh->section_crashes < SECTION_CRASH_BUDGET) return false;
    vf::count("skipped_section_crash_budget");
    if (__sync_fetch_and_add(&g_sh->skipped[0], 1) == 0) vf::emit(std::string("INCOMPLETE\t") + section + "\t" + std::to_string(SECTION_CRASH_BUDGET) + " crashes in this section: remaining cases not executed");
    return true;
}
void new_section() { settle_all(); g_sh->section_crashes = 0; g_sh->skipped[0] = 0; }
void clear_inflight() { g_sh->inflight_kind[me()] = 0; }

// ------------------------------------------------------------------ safety layer
std::string outcome_of(const Cfg& c) {
    if (!c.ok) return c.help ? "reject-help" : "reject-usage";
    std::string s = "ok";
    for (int i = 0; i < NFLAGS; i++) if (c.flag[i]) { s += " "; s += FLAGNAME[i]; }
    if (c.repeat != 1) s += c.repeat == 2 ? " r2" : c.repeat < 100 ? " rN" : " rHUGE";
    if (c.shuffle) s += " shuffle";
    if (c.out != OUT_ECLIPSE) s += vf::fmt(" out%d", c.out);
    if (!c.pkg.empty()) s += " pkg";
    if (!c.gf.empty()) s += vf::fmt(" gf%zu", std::min<size_t>(c.gf.size(), 3));
    if (!c.nf.empty()) s += vf::fmt(" nf%zu", std::min<size_t>(c.nf.size(), 3));
    return s;
}

void safety_case(const Args& a) {
    if (vf::want_sample()) { vf::sample(show(a)); fflush(stdout); }
    Cfg c = direct_parse(a);
    if (c.out_count != 1 && c.ok) vf::fail("getters/output-kind-not-exactly-one", show(a) + vf::fmt(": %d of eclipse/junit/teamcity reported", c.out_count));
    if (c.help && c.ok) vf::fail("parse/help-requested-but-accepted", show(a) + ": needHelp() is true and parse() returned true");
    if (!c.ok) check_rejected_through_runner(a, c.help, false, "safety");
    vf::outcome(outcome_of(c));
    if ((c.ok && !a.empty()) || c.help) vf::count("nontrivial");
    vf::count(c.ok ? "accepted" : "rejected");
}

const std::string ALPHA = std::string("-TES(),. a1sxgntrokpv0") + "\xff";      // 23 bytes
const std::string SUFA = std::string(", )(.ab10-") + "\xff";                     // 11 bytes

long pow_sum(long n, int maxlen) { long t = 0, p = 1; for (int l = 0; l <= maxlen; l++) { t += p; p *= n; } return t; }
std::string nth_string(long idx, const std::string& alpha, int maxlen) {
    long n = (long)alpha.size(), p = 1;
    for (int len = 0; len <= maxlen; len++) {
        if (idx < p) { std::string s((size_t)len, ' '); for (int i = len - 1; i >= 0; i--) { s[(size_t)i] = alpha[(size_t)(idx % n)]; idx /= n; } return s; }
        idx -= p; p *= n;
    }
    vf::harness_error("nth_string: index out of range");
}

const std::vector<std::string> SPELLINGS = {
    "-h", "-v", "-vv", "-c", "-p", "-b", "-lg", "-ln", "-ll", "-ri", "-f", "-e", "-ci",
    "-r", "-g", "-t", "-st", "-xt", "-xst", "-sg", "-xg", "-xsg", "-n", "-sn", "-xn", "-xsn", "-s", "-o", "-k",
    "TEST(", "IGNORE_TEST("};

std::vector<std::string> DICT;      // full dictionary
std::vector<int> CORE;              // indices into DICT
void build_dict() {
    DICT = SPELLINGS;
    const char* more[] = {
        // proper prefixes of spellings
        "-", "-x", "-xs", "-l", "T", "TEST", "IGNORE_TEST",
        // extensions of spellings
        "-va", "-vvv", "-ca", "-pa", "-ba", "-lga", "-ria", "-ha", "-r1", "-r3", "-ra", "-r-1", "-ga", "-ta", "-ta.b", "-sta.b", "-xsta.", "-sa", "-s1", "-s0",
        "-oa", "-ojunit", "-onormal", "-oteamcity", "-ka", "-xsna", "-sga",
        // verbose-output forms, whole and broken
        "TEST(a", "TEST(a,", "TEST(a, b", "TEST(a, b)", "TEST(a,b)", "TEST()", "TEST(,)", "TEST(, )", "IGNORE_TEST(a, b)", "IGNORE_TEST(a",
        // values
        "a.b", ".", "a.", ".b", "a.b.c", "a", "a, b)", ", b)", "junit", "1", "0", "3", "12", "-1", "4294967296", "99999999999999999999", "", " ", "\xff", " 7", "+5"};
    for (auto m : more) DICT.push_back(m);
    if ((int)DICT.size() > MAXD) vf::harness_error("dictionary too large");
    const char* core[] = {"-v", "-h", "-p", "-r", "-r3", "-s", "-s1", "-g", "-sg", "-xsn", "-n", "-t", "-xst", "-o", "-ojunit", "-k",
                          "TEST(", "TEST(a, b)", "IGNORE_TEST(", "a.b", "a, b)", "a", "3", "junit", ""};
    const char* core_thorough[] = {"-vv", "-b", "-ri", "-ln", "-xg", "-sn", "-st", "-xt", "-s0", "-r-1", "TEST(a", "TEST(a,b)", ".", "a.b.c", "12"};
    std::vector<std::string> cs(core, core + sizeof core / sizeof *core);
    if (vf::thorough()) cs.insert(cs.end(), core_thorough, core_thorough + sizeof core_thorough / sizeof *core_thorough);
    for (auto& c : cs) {
        int k = -1; for (size_t i = 0; i < DICT.size(); i++) if (DICT[i] == c) k = (int)i;
        if (k < 0) vf::harness_error("core token not in dictionary: " + c);
        CORE.push_back(k);
    }
    if ((int)DICT.size() > MAXD) vf::harness_error("dictionary too large");
}

// ------------------------------------------------------------------ meaning layer: documented option instances
enum Kind { K_FLAG, K_HELP, K_REPEAT, K_SHUFFLE, K_GF, K_NF, K_DOT, K_TEST, K_OUT, K_PKG };
struct Inst {
    Args argv; Kind kind; int flag = 0; long num = 0; std::string a, b; bool strict = false, inv = false; bool core = false;
};
std::vector<Inst> INST;
std::vector<int> INST_CORE;

void add_inst(Inst i, bool core) { i.core = core; INST.push_back(i); if (core) INST_CORE.push_back((int)INST.size() - 1); }
// value option in attached and separated form
void add_valued(const std::string& opt, const std::string& val, Inst proto, int core_form /* 0 none, 1 attached, 2 separated, 3 both */) {
    Inst a1 = proto; a1.argv = {opt + val}; add_inst(a1, core_form & 1);
    Inst a2 = proto; a2.argv = {opt, val}; add_inst(a2, (core_form & 2) != 0);
}

void build_instances() {
    struct { const char* s; int f; bool core; } flags[] = {
        {"-v", F_V, true}, {"-vv", F_VV, true}, {"-c", F_C, true}, {"-p", F_P, true}, {"-b", F_B, true}, {"-lg", F_LG, false}, {"-ln", F_LN, true},
        {"-ll", F_LL, false}, {"-ri", F_RI, true}, {"-f", F_F, false}, {"-e", F_NORETHROW, true}, {"-ci", F_NORETHROW, false}};
    for (auto& f : flags) { Inst i; i.argv = {f.s}; i.kind = K_FLAG; i.flag = f.f; add_inst(i, f.core); }
    { Inst i; i.argv = {"-h"}; i.kind = K_HELP; add_inst(i, true); }
    // -r[<#>] : twice when no count is given
    { Inst i; i.argv = {"-r"}; i.kind = K_REPEAT; i.num = 2; add_inst(i, true); }
    for (long n : {3L, 1L, 12L}) { Inst p; p.kind = K_REPEAT; p.num = n; add_valued("-r", std::to_string(n), p, n == 3 ? 3 : 0); }
    // -s [<seed>] : seed optional, must be greater than 0
    { Inst i; i.argv = {"-s"}; i.kind = K_SHUFFLE; i.num = -1; add_inst(i, true); }
    for (long n : {3L, 1L, 12L, 0L}) { Inst p; p.kind = K_SHUFFLE; p.num = n; add_valued("-s", std::to_string(n), p, n == 3 ? 3 : n == 12 ? 2 : 0); }
    // group and name filters
    struct { const char* opt; bool strict, inv; } gopts[] = {{"-g", false, false}, {"-sg", true, false}, {"-xg", false, true}, {"-xsg", true, true}};
    const char* gvals[] = {"A", "AB", "b"};
    int k = 0;
    for (auto& o : gopts) for (auto v : gvals) { Inst p; p.kind = K_GF; p.a = v; p.strict = o.strict; p.inv = o.inv; int core = 0; if (std::string(v) == "A") core = (k % 2) ? 1 : 2; if (std::string(v) == "AB" && !o.inv) core = (k % 2) ? 2 : 1; add_valued(o.opt, v, p, core); k++; }
    struct { const char* opt; bool strict, inv; } nopts[] = {{"-n", false, false}, {"-sn", true, false}, {"-xn", false, true}, {"-xsn", true, true}};
    const char* nvals[] = {"b", "ab", "A"};
    for (auto& o : nopts) for (auto v : nvals) { Inst p; p.kind = K_NF; p.a = v; p.strict = o.strict; p.inv = o.inv; int core = 0; if (std::string(v) == "b") core = (k % 2) ? 1 : 2; if (std::string(v) == "ab" && o.inv) core = (k % 2) ? 2 : 1; add_valued(o.opt, v, p, core); k++; }
    // group.name forms
    struct { const char* opt; bool strict, inv; } dopts[] = {{"-t", false, false}, {"-st", true, false}, {"-xt", false, true}, {"-xst", true, true}};
    struct { const char* g; const char* n; } pairs[] = {{"A", "b"}, {"AB", "ab"}, {"A", "ab"}, {"B", "c"}, {"b", "A"}};
    for (auto& o : dopts) { int pi = 0; for (auto& pr : pairs) { Inst p; p.kind = K_DOT; p.a = pr.g; p.b = pr.n; p.strict = o.strict; p.inv = o.inv; int core = 0; if (pi == 0) core = (k % 2) ? 1 : 2; if (pi == 1 && !o.inv) core = (k % 2) ? 2 : 1; add_valued(o.opt, std::string(pr.g) + "." + pr.n, p, core); pi++; k++; } }
    // "[IGNORE_]TEST(<group>, <name>)"
    for (const char* macro : {"TEST(", "IGNORE_TEST("}) { int pi = 0; for (auto& pr : pairs) { Inst i; i.kind = K_TEST; i.a = pr.g; i.b = pr.n; i.strict = true; i.argv = {std::string(macro) + pr.g + ", " + pr.n + ")"}; add_inst(i, (macro[0] == 'T' && (pi == 0 || pi == 3)) || (macro[0] == 'I' && pi == 1)); pi++; } }
    // -o{normal|eclipse|junit|teamcity}
    struct { const char* v; int out; int core; } outs[] = {{"normal", OUT_ECLIPSE, 1}, {"eclipse", OUT_ECLIPSE, 2}, {"junit", OUT_JUNIT, 3}, {"teamcity", OUT_TEAMCITY, 2}};
    for (auto& o : outs) { Inst p; p.kind = K_OUT; p.num = o.out; add_valued("-o", o.v, p, o.core); }
    // -k <packageName>
    for (const char* v : {"pkg", "A"}) { Inst p; p.kind = K_PKG; p.a = v; add_valued("-k", v, p, std::string(v) == "pkg" ? 2 : 1); }
}

struct Ref {
    bool reject = false, help_seen = false, other_reject = false;
    bool flag[NFLAGS] = {};
    std::set<long> repeats, seeds;          // seeds: -1 = "some seed greater than 0"
    bool shuffle = false;
    std::set<int> outs; std::set<std::string> pkgs;
    std::vector<Filt> gf, nf;
};

// documented meaning, instance by instance; the first rejecting instance ends the walk only for what is *required*:
// a later -h still makes "help" an acceptable text
Ref reference(const std::vector<int>& seq) {
    Ref r;
    for (int ix : seq) {
        const Inst& i = INST[(size_t)ix];
        if (i.kind == K_HELP) { r.help_seen = true; r.reject = true; continue; }
        if (i.kind == K_SHUFFLE && i.num == 0) { r.other_reject = true; r.reject = true; continue; }
        switch (i.kind) {
        case K_FLAG: r.flag[i.flag] = true; break;
        case K_REPEAT: r.repeats = {i.num}; break;                 // the last occurrence of a single-valued option decides
        case K_SHUFFLE: r.shuffle = true; r.seeds = {i.num}; break;
        case K_GF: r.gf.push_back({i.a, i.strict, i.inv}); break;
        case K_NF: r.nf.push_back({i.a, i.strict, i.inv}); break;
        case K_DOT: case K_TEST: r.gf.push_back({i.a, i.strict, i.inv}); r.nf.push_back({i.b, i.strict, i.inv}); break;
        case K_OUT: r.outs = {(int)i.num}; break;
        case K_PKG: r.pkgs = {i.a}; break;
        default: break;
        }
    }
    if (r.repeats.empty()) r.repeats.insert(1);
    if (r.outs.empty()) r.outs.insert(OUT_ECLIPSE);
    if (r.pkgs.empty()) r.pkgs.insert("");
    return r;
}

std::set<Filt> as_set(const std::vector<Filt>& v) { return std::set<Filt>(v.begin(), v.end()); }
std::set<std::string> words(const std::string& s, const char* seps) {
    std::set<std::string> w; std::string cur;
    for (char c : s) { if (strchr(seps, c)) { if (!cur.empty()) w.insert(cur); cur.clear(); } else cur += c; }
    if (!cur.empty()) w.insert(cur);
    return w;
}
bool contains(const std::string& h, const std::string& n) { return h.find(n) != std::string::npos; }

void meaning_case(const std::vector<int>& seq, bool through_runner) {
    Args a;
    for (int ix : seq) for (auto& s : INST[(size_t)ix].argv) a.push_back(s);
    std::string A = show(a);
    if (vf::want_sample()) { vf::sample(A); fflush(stdout); }
    Ref ref = reference(seq);
    Cfg c = direct_parse(a);
    vf::count("ops");

    if (ref.reject) {
        if (c.ok) { vf::fail("parse/accepted-a-vector-the-help-text-rejects", A + ": contains -h or a seed of 0, parse() returned true"); return; }
        bool both_ok = ref.help_seen && ref.other_reject;
        if (!both_ok && c.help != ref.help_seen) vf::fail("parse/need-help-flag", A + vf::fmt(": needHelp() = %d, expected %d", (int)c.help, (int)ref.help_seen));
        if (through_runner) check_rejected_through_runner(a, ref.help_seen, both_ok, "meaning");
        vf::outcome(c.help ? "reject-help" : "reject-usage");
        vf::count("nontrivial");
        return;
    }
    if (!c.ok) { vf::fail("parse/rejected-a-documented-vector", A + ": every argument is a documented option with a documented value, parse() returned false"); return; }

    // ---- getters
    for (int f = 0; f < NFLAGS; f++)
        if (c.flag[f] != ref.flag[f]) vf::fail(std::string("getter/") + FLAGNAME[f], A + vf::fmt(": %s reported %d, documented %d", FLAGNAME[f], (int)c.flag[f], (int)ref.flag[f]));
    if (c.help) vf::fail("parse/need-help-flag", A + ": needHelp() true without -h");
    if (!ref.repeats.count((long)c.repeat)) vf::fail("getter/repeat-count", A + vf::fmt(": repeat count %zu, documented %ld", c.repeat, *ref.repeats.rbegin()));
    if (c.shuffle != ref.shuffle) vf::fail("getter/shuffling", A + vf::fmt(": isShuffling() = %d, documented %d", (int)c.shuffle, (int)ref.shuffle));
    if (ref.shuffle) {
        bool okseed = c.seed != 0 && (ref.seeds.count(-1) || ref.seeds.count((long)c.seed));
        if (!okseed) vf::fail("getter/shuffle-seed", A + vf::fmt(": seed %zu is not the seed of the last -s (and 0 is never valid)", c.seed));
    }
    if (c.out_count != 1 || !ref.outs.count(c.out)) vf::fail("getter/output-kind", A + vf::fmt(": output kind %d, documented %d by the last -o (0 eclipse/normal, 1 junit, 2 teamcity); eclipse=%d junit=%d teamcity=%d", c.out, *ref.outs.begin(), (int)c.is_eclipse, (int)c.is_junit, (int)c.is_teamcity));
    if (!ref.pkgs.count(c.pkg)) vf::fail("getter/package-name", A + ": package name \"" + vf::esc(c.pkg) + "\"");
    if (as_set(c.gf) != as_set(ref.gf)) vf::fail("filters/group-list", A + ": group filters " + show(c.gf) + ", documented " + show(ref.gf));
    if (as_set(c.nf) != as_set(ref.nf)) vf::fail("filters/name-list", A + ": name filters " + show(c.nf) + ", documented " + show(ref.nf));

    // ---- selection on the probe registry, by the library's own shouldRun() on the parsed lists
    bool sel[NPROBE], actual[NPROBE]; int nsel = 0;
    for (int id = 0; id < NPROBE; id++) { sel[id] = selected_by(ref.gf, ref.nf, id); nsel += sel[id]; }
    {
        Argv v(a);
        CommandLineArguments cla(v.ac, v.av);
        vf::ctx("parse-for-selection");
        cla.parse(NullTestPlugin::instance());
        vf::ctx("shouldRun");
        bool reported = false;
        for (int id = 0; id < NPROBE; id++) {
            ProbeShell sh(id);
            bool s = sh.shouldRun(cla.getGroupFilters(), cla.getNameFilters());
            actual[id] = s;
            if (s != sel[id] && !reported) { vf::fail("filters/selection", A + ": " + probe_str(id) + vf::fmt(" selected=%d, documented %d", (int)s, (int)sel[id])); reported = true; }
        }
        vf::ctx("after");
    }
    // ---- a single -xt / -xst <grp>.<name> and no other group/name filter option: "exclude tests whose group and name
    // contain (exactly match) <grp> and <name>" - documented to exclude exactly the tests matching both. (Known finding: the
    // two inverted filter lists exclude every test whose group matches OR whose name matches.)
    {
        int nfilter = 0; const Inst* x = nullptr;
        for (int ix : seq) { const Inst& i = INST[(size_t)ix]; if (i.kind == K_GF || i.kind == K_NF || i.kind == K_DOT || i.kind == K_TEST) { nfilter++; if (i.kind == K_DOT && i.inv) x = &i; } }
        if (nfilter == 1 && x) {
            Filt g{x->a, x->strict, false}, n{x->b, x->strict, false};
            std::set<std::string> doc_excl, act_excl; bool differ = false;
            for (int id = 0; id < NPROBE; id++) {
                std::string nm = std::string(GROUPS[probe_gi(id)]) + "." + NAMES[probe_ni(id)];
                bool doc_excluded = g.accepts(GROUPS[probe_gi(id)]) && n.accepts(NAMES[probe_ni(id)]);
                if (doc_excluded) doc_excl.insert(nm);
                if (!actual[id]) act_excl.insert(nm);
                if (doc_excluded == actual[id]) differ = true;
            }
            if (differ) {
                auto join = [](const std::set<std::string>& w) { std::string o = "{"; for (auto& e : w) { if (o.size() > 1) o += " "; o += e; } return o + "}"; };
                vf::fail(x->strict ? "meaning/xst-excludes-more-than-the-documented-pair" : "meaning/xt-excludes-more-than-the-documented-pair",
                         A + ": documented to exclude " + join(doc_excl) + " of the probe registry {A,AB,B}x{b,ab,c}, actually excluded " + join(act_excl));
            }
        }
    }
    // observation that is not asserted (see notes): pairing of several group.name options
    {
        int ndot = 0; bool xdot = false;
        for (int ix : seq) if (INST[(size_t)ix].kind == K_DOT || INST[(size_t)ix].kind == K_TEST) { ndot++; if (INST[(size_t)ix].inv) xdot = true; }
        if (ndot >= 2 && !xdot) {
            bool all_dot = true; for (int ix : seq) if (INST[(size_t)ix].kind != K_DOT && INST[(size_t)ix].kind != K_TEST) all_dot = false;
            if (all_dot) for (int id = 0; id < NPROBE; id++) {
                bool any = false;
                for (int ix : seq) { const Inst& i = INST[(size_t)ix]; Filt g{i.a, i.strict, false}, n{i.b, i.strict, false}; if (g.accepts(GROUPS[probe_gi(id)]) && n.accepts(NAMES[probe_ni(id)])) any = true; }
                if (any != sel[id]) { vf::count("obs.several-pairs-select-cross-product"); break; }
            }
        }
    }

    std::string oc = "ok";
    for (int f = 0; f < NFLAGS; f++) if (c.flag[f]) { oc += " "; oc += FLAGNAME[f]; }
    oc += vf::fmt(" r%zu%s out%d%s sel%d", c.repeat, c.shuffle ? " shuffle" : "", c.out, c.pkg.empty() ? "" : " pkg", nsel);
    vf::outcome(oc);
    vf::count("nontrivial");
    if (!through_runner) return;

    // ---- what the runner does with it
    RunObs r = runner_run(a);
    vf::count("ops");
    bool listing = ref.flag[F_LG] || ref.flag[F_LN] || ref.flag[F_LL];
    const int xout = *ref.outs.begin(); const std::string xpkg = *ref.pkgs.begin();     // documented, not observed
    // documented output level from ALL verbosity options of the vector: very verbose if any -vv, else verbose if any -v, else quiet
    // (there is no -q option). A console exists for eclipse/normal and teamcity, and for junit as soon as -v or -vv is given.
    const bool vv = ref.flag[F_VV], vb = ref.flag[F_V] || ref.flag[F_VV];
    const bool console_out = xout == OUT_ECLIPSE || xout == OUT_TEAMCITY || (xout == OUT_JUNIT && vb);
    if (listing) {
        if (!r.runlog.empty()) vf::fail("runner/list-mode-ran-tests", A + vf::fmt(": %zu test executions in a list mode", r.runlog.size()));
        if (console_out) {
            bool okany = false; std::string why;
            if (ref.flag[F_LG]) { auto w = words(r.console, " \n"); std::set<std::string> want = {"A", "AB", "B"}; if (w == want) okany = true; else why += "groups; "; }
            if (ref.flag[F_LN]) {
                auto w = words(r.console, " \n"); bool ok = true;
                for (auto& x : w) { bool known = false; for (int id = 0; id < NPROBE; id++) if (x == std::string(GROUPS[probe_gi(id)]) + "." + NAMES[probe_ni(id)]) known = true; if (!known) ok = false; }
                for (int id = 0; id < NPROBE; id++) if (sel[id] && !w.count(std::string(GROUPS[probe_gi(id)]) + "." + NAMES[probe_ni(id)])) ok = false;
                if (ok) okany = true; else why += "names; ";
            }
            if (ref.flag[F_LL]) {
                auto w = words(r.console, "\n"); bool ok = true;
                for (int id = 0; id < NPROBE; id++) if (sel[id] && !w.count(std::string(GROUPS[probe_gi(id)]) + "." + NAMES[probe_ni(id)] + ".probe.cpp." + std::to_string(100 + id))) ok = false;
                if (ok) okany = true; else why += "locations; ";
            }
            if (!okany) vf::fail("runner/list-output", A + ": list output \"" + vf::esc(r.console.substr(0, 300)) + "\" matches none of the requested lists (" + why + ")");
        }
        return;
    }
    // run counts and order
    std::vector<int> per_rep;
    for (int id = 0; id < NPROBE; id++) if (sel[id] && (!probe_ign(id) || ref.flag[F_RI])) per_rep.push_back(id);
    if (ref.flag[F_B]) std::reverse(per_rep.begin(), per_rep.end());
    size_t rep = c.repeat;
    std::vector<int> want;
    for (size_t k = 0; k < rep; k++) want.insert(want.end(), per_rep.begin(), per_rep.end());
    if (ref.shuffle) {
        std::vector<int> x = r.runlog, y = want; std::sort(x.begin(), x.end()); std::sort(y.begin(), y.end());
        if (x != y) vf::fail("runner/executions", A + vf::fmt(": %zu test executions, documented %zu (each selected test once per repetition)", r.runlog.size(), want.size()));
    } else if (r.runlog != want) {
        std::vector<int> x = r.runlog, y = want; std::sort(x.begin(), x.end()); std::sort(y.begin(), y.end());
        if (x != y) vf::fail("runner/executions", A + vf::fmt(": %zu test executions, documented %zu (each selected test once per repetition)", r.runlog.size(), want.size()));
        else vf::fail("runner/order", A + std::string(": tests ran in an order that is neither the registered one nor, with -b, its reverse"));
    }
    if (ref.flag[F_P] ? (r.sep != (int)r.runlog.size()) : (r.sep != 0))
        vf::fail("runner/separate-process", A + vf::fmt(": %d of %zu executions went through the separate-process seam", r.sep, r.runlog.size()));
    if (r.crash_terminator != ref.flag[F_F]) vf::fail("runner/crash-on-fail", A + vf::fmt(": crash-on-fail terminator active=%d", (int)r.crash_terminator));
    if (r.rethrow == ref.flag[F_NORETHROW]) vf::fail("runner/rethrow", A + vf::fmt(": rethrowing=%d", (int)r.rethrow));
    // output kind
    bool junit_file = false, pkg_ok = true;
    for (auto& f : r.files) { if (contains(f, ".xml")) junit_file = true; if (!xpkg.empty() && f.compare(0, 10 + xpkg.size(), "cpputest_" + xpkg + "_") != 0) pkg_ok = false; }
    if (xout == OUT_JUNIT) {
        if (!junit_file) vf::fail("runner/junit-output", A + ": -ojunit but no xml file written");
        if (!pkg_ok) vf::fail("runner/junit-package", A + ": xml file name lacks the package name: " + r.files[0]);
    } else if (!r.files.empty()) vf::fail("runner/file-output-without-junit", A + ": file " + r.files[0] + " written");
    if ((xout == OUT_TEAMCITY) != contains(r.console, "##teamcity[")) vf::fail("runner/teamcity-output", A + ": teamcity service messages present/absent against -oteamcity");
    if (console_out) {
        if (xout != OUT_TEAMCITY) {          // teamcity announces tests by service messages, not by TEST(g, n) lines
            if (vb) { for (int id : per_rep) { std::string nm = std::string("TEST(") + GROUPS[probe_gi(id)] + ", " + NAMES[probe_ni(id)] + ")"; if (rep > 0 && !contains(r.console, nm)) { vf::fail("runner/verbose-output", A + ": -v/-vv but " + nm + " not printed"); break; } } }
            else if (contains(r.console, "TEST(")) vf::fail("runner/verbose-output", A + ": test names printed without -v/-vv");
        }
        if (ref.flag[F_C] != contains(r.console, "\033[")) vf::fail("runner/color-output", A + ": colour escapes present/absent against -c");
        if (ref.shuffle && !contains(r.console, "seed: " + std::to_string(c.seed) + "\n")) vf::fail("runner/shuffle-seed-announced", A + ": the seed in use is not printed");
    }
    // very verbose ("print internal information during test run"): the same vector with every -vv replaced by -v must print
    // strictly less, by at least one line per executed test; and without any -vv no internal information may appear
    if (vv && !want.empty()) {
        Args a2;
        for (int ix : seq) { const Inst& i = INST[(size_t)ix]; if (i.kind == K_FLAG && i.flag == F_VV) a2.push_back("-v"); else for (auto& x : i.argv) a2.push_back(x); }
        RunObs r2 = runner_run(a2);
        vf::count("ops");
        if (r.console.size() < r2.console.size() + want.size())
            vf::fail("runner/very-verbose-output", A + vf::fmt(": -vv given, but the run prints %zu bytes where the same vector with -v instead of -vv prints %zu: no internal information for %zu executed tests", r.console.size(), r2.console.size(), want.size()));
    }
    if (!vv && contains(r.console, "runAllPreTestAction")) vf::fail("runner/very-verbose-output", A + ": internal information printed without -vv");
}

} // namespace

int main(int argc, char** argv) {
    vf::init(argc, argv, "C12");
    MemoryLeakWarningPlugin::turnOffNewDeleteOverloads();
    PlatformSpecificFOpen = seam_fopen; PlatformSpecificFPuts = seam_fputs; PlatformSpecificFClose = seam_fclose; PlatformSpecificFlush = seam_flush;
    GetPlatformSpecificTimeInMillis = seam_millis; GetPlatformSpecificTimeString = seam_timestr;
    PlatformSpecificRunTestInASeperateProcess = seam_separate;
    g_default_terminator = &UtestShell::getCurrentTestTerminator();
    { const char* av0[] = {"prog"}; CommandLineArguments c(1, av0); g_usage = c.usage(); g_help = c.help(); }
    g_sh = (Shared*)mmap(nullptr, sizeof(Shared), PROT_READ | PROT_WRITE, MAP_SHARED | MAP_ANONYMOUS, -1, 0);
    if (g_sh == MAP_FAILED) { perror("mmap"); return 2; }
    build_dict(); build_instances();
    bool T = vf::thorough();
    const int D = (int)DICT.size(), C = (int)CORE.size();

    vf::info("rule", "safety: every argument vector of the stated finite spaces is parsed with each argument in an exact-size heap block; non-trivial = accepted with at least one argument, or help requested. meaning: every sequence of documented option instances (attached and separated values) up to the length bound; non-trivial = every case (each is compared with the documented configuration)");

    // ---------------- argv1: all single-argument vectors
    {
        int L = T ? 5 : 4, M = T ? 4 : 3;
        long n_alpha = pow_sum((long)ALPHA.size(), L), n_suf = pow_sum((long)SUFA.size(), M), n_pre = (long)SPELLINGS.size() * n_suf;
        long N = 1 + n_alpha + n_pre + D;
        vf::info("argv1.bound", vf::fmt("no argument; every string of length <= %d over the 23 bytes \"%s\"; every one of %zu option spellings followed by every string of length <= %d over the 11 bytes \"%s\"; each of %d dictionary tokens alone", L, vf::esc(ALPHA).c_str(), SPELLINGS.size(), M, vf::esc(SUFA).c_str(), D));
        vf::section_index("argv1", N, [&](long idx) {
            settle(me());
            if (section_budget_exhausted("argv1")) return;
            Args a;
            if (idx == 0) { }
            else if (idx < 1 + n_alpha) { a = {nth_string(idx - 1, ALPHA, L)}; mark_inflight(5, nullptr); }
            else if (idx < 1 + n_alpha + n_pre) {
                long k = idx - 1 - n_alpha; int sp = (int)(k / n_suf);
                if (g_sh->crashes_by_spelling[sp] >= CRASH_BUDGET) {
                    vf::count("skipped_spelling_crash_budget");
                    if (__sync_fetch_and_add(&g_sh->skipped[1], 1) == 0) vf::emit("INCOMPLETE\targv1\tan option spelling whose suffixes crashed the parser " + std::to_string(CRASH_BUDGET) + " times: remaining suffixes of that spelling not executed");
                    return;
                }
                a = {SPELLINGS[(size_t)sp] + nth_string(k % n_suf, SUFA, M)}; mark_inflight(4, &sp);
            }
            else { int t = (int)(idx - 1 - n_alpha - n_pre); a = {DICT[(size_t)t]}; mark_inflight(1, &t); }
            safety_case(a);
            clear_inflight();
        });
        new_section();
        vf::require_outcomes("argv1", 12);
    }
    auto skip = [&](int slot, const char* section) {
        vf::count("skipped_contains_crasher");
        if (__sync_fetch_and_add(&g_sh->skipped[slot], 1) == 0) vf::emit(std::string("INCOMPLETE\t") + section + "\tvectors containing a shorter vector that already crashed the parser are not executed again");
    };
    // ---------------- argv2: all pairs over the dictionary
    vf::info("argv2.bound", vf::fmt("all 2-argument vectors over the %d-token dictionary (every option spelling, prefixes and extensions of them, whole and broken TEST(...) forms, group.name forms, numbers, empty string)", D));
    vf::section_index("argv2", (long)D * D, [&](long idx) {
        settle(me());
        if (section_budget_exhausted("argv2")) return;
        int t[2] = {(int)(idx / D), (int)(idx % D)};
        if (g_sh->bad1[t[0]] || g_sh->bad1[t[1]]) { skip(2, "argv2"); return; }
        mark_inflight(2, t);
        safety_case({DICT[(size_t)t[0]], DICT[(size_t)t[1]]});
        clear_inflight();
    });
    new_section();
    vf::require_outcomes("argv2", 12);
    // ---------------- argv3: all triples over the dictionary
    vf::info("argv3.bound", vf::fmt("all 3-argument vectors over the %d-token dictionary", D));
    vf::section_index("argv3", (long)D * D * D, [&](long idx) {
        settle(me());
        if (section_budget_exhausted("argv3")) return;
        int t[3] = {(int)(idx / ((long)D * D)), (int)((idx / D) % D), (int)(idx % D)};
        if (g_sh->bad1[t[0]] || g_sh->bad1[t[1]] || g_sh->bad1[t[2]] || g_sh->bad2[t[0]][t[1]] || g_sh->bad2[t[1]][t[2]]) { skip(3, "argv3"); return; }
        mark_inflight(3, t);
        safety_case({DICT[(size_t)t[0]], DICT[(size_t)t[1]], DICT[(size_t)t[2]]});
        clear_inflight();
    });
    new_section();
    vf::require_outcomes("argv3", 12);
    // ---------------- argv4: all 4-vectors over the core dictionary (25 tokens quick, 40 thorough)
    {
        std::string cs; for (int k : CORE) cs += "\"" + vf::esc(DICT[(size_t)k]) + "\" ";
        vf::info("argv4.bound", vf::fmt("all 4-argument vectors over the %d-token core dictionary: %s", C, cs.c_str()));
        vf::section_index("argv4", (long)C * C * C * C, [&](long idx) {
            settle(me());
            if (section_budget_exhausted("argv4")) return;
            vf::Radix r(idx);
            int t[4]; for (int i = 3; i >= 0; i--) t[i] = CORE[(size_t)r.take(C)];
            bool bad = false;
            for (int i = 0; i < 4; i++) if (g_sh->bad1[t[i]]) bad = true;
            for (int i = 0; i < 3; i++) if (g_sh->bad2[t[i]][t[i + 1]]) bad = true;
            for (int i = 0; i < 2; i++) if (g_sh->bad3[t[i]][t[i + 1]][t[i + 2]]) bad = true;
            if (bad) { skip(4, "argv4"); return; }
            mark_inflight(5, nullptr);
            safety_case({DICT[(size_t)t[0]], DICT[(size_t)t[1]], DICT[(size_t)t[2]], DICT[(size_t)t[3]]});
            clear_inflight();
        });
        vf::require_outcomes("argv4", 12);
    }

    // ---------------- meaning layer
    const int NI = (int)INST.size(), NC = (int)INST_CORE.size();
    {
        std::string all, core;
        for (auto& i : INST) { all += show(i.argv); if (i.core) core += show(i.argv); }
        vf::info("mean.instances", vf::fmt("%d documented option instances: %s", NI, all.c_str()));
        vf::info("mean.core", vf::fmt("%d core instances: %s", NC, core.c_str()));
        vf::info("mean.probe-registry", "18 tests: groups {A,AB,B} x names {b,ab,c}, each as TEST and as IGNORE_TEST");
    }
    vf::info("mean2.bound", vf::fmt("all sequences of 0, 1 or 2 of the %d instances; parser and runner", NI));
    vf::section_index("mean2", 1 + (long)NI + (long)NI * NI, [&](long idx) {
        std::vector<int> seq;
        if (idx == 0) { }
        else if (idx <= NI) seq = {(int)(idx - 1)};
        else { long k = idx - 1 - NI; seq = {(int)(k / NI), (int)(k % NI)}; }
        meaning_case(seq, true);
    });
    vf::require_outcomes("mean2", 50);
    if (!T) {
        vf::info("mean3.bound", vf::fmt("all sequences of 3 of the %d core instances; parser and runner", NC));
        vf::section_index("mean3", (long)NC * NC * NC, [&](long idx) {
            vf::Radix r(idx); std::vector<int> seq(3); for (int i = 2; i >= 0; i--) seq[(size_t)i] = INST_CORE[(size_t)r.take(NC)];
            meaning_case(seq, true);
        });
        vf::require_outcomes("mean3", 50);
    } else {
        vf::info("mean3.bound", vf::fmt("all sequences of 3 of the %d instances; parser, and runner when all three are core instances", NI));
        vf::section_index("mean3", (long)NI * NI * NI, [&](long idx) {
            vf::Radix r(idx); std::vector<int> seq(3); bool core = true;
            for (int i = 2; i >= 0; i--) { seq[(size_t)i] = (int)r.take(NI); if (!INST[(size_t)seq[(size_t)i]].core) core = false; }
            meaning_case(seq, core);
        });
        vf::require_outcomes("mean3", 50);
        vf::info("mean4.bound", vf::fmt("all sequences of 4 of the %d core instances; parser only", NC));
        vf::section_index("mean4", (long)NC * NC * NC * NC, [&](long idx) {
            vf::Radix r(idx); std::vector<int> seq(4); for (int i = 3; i >= 0; i--) seq[(size_t)i] = INST_CORE[(size_t)r.take(NC)];
            meaning_case(seq, false);
        });
        vf::require_outcomes("mean4", 50);
    }
    return vf::finish();
}

// C13, sections seq (every history of mutating operations up to a depth, unpruned) and seqdeep
// (deeper, pruned on the complete observable state of the objects). Two strings x, y and one
// collection; after every step every value is compared with a std::string model.
#include <sanitizer/asan_interface.h>
#include <string>
#include <vector>
#include <atomic>
#include "c13_common.h"

namespace c13 {

namespace {

enum Op { ASSIGN_OTHER, ASSIGN_SELF, ASSIGN_EMPTY, ASSIGN_AB, ASSIGN_AABA, APPEND_OTHER, APPEND_SELF, APPEND_A, APPEND_BA,
          REPL_CHAR, CUT_A, CUT_B, REPL_A_NONE, REPL_AA_B, REPL_AB_AAB, REPL_OTHER_B, REPL_B_OTHER, SUB_1, SUB_0_2, SUB_2_1, PAD, SPLIT_A,
          COL_0, COL_1, COL_END, PLUS, NOPS };
const char* OPNAME[NOPS] = {"t=o", "t=t", "t=\"\"", "t=\"ab\"", "t=\"aaba\"", "t+=o", "t+=t", "t+=\"a\"", "t+=\"ba\"",
          "t.replace('a','b')", "t.replace('a',NUL)", "t.replace('b',NUL)", "t.replace(\"a\",\"\")", "t.replace(\"aa\",\"b\")", "t.replace(\"ab\",\"aab\")", "t.replace(o,\"b\")", "t.replace(\"b\",o)",
          "t=t.subString(1)", "t=t.subString(0,2)", "t=t.subString(2,1)", "pad(t,o,' ')", "t.split(\"a\",col)",
          "t=col[0]", "t=col[1]", "t=col[size]", "t=t+o"};

// operation class: used for crash attribution and signatures (the concrete operands are in the detail)
const char* OPCLASS[NOPS] = {"assign", "assign", "assign", "assign", "assign", "operator+=", "operator+=", "operator+=", "operator+=",
          "replace(char,char)", "replace(char,NUL)", "replace(char,NUL)", "replace(to,with)", "replace(to,with)", "replace(to,with)", "replace(to,with)", "replace(to,with)",
          "subString", "subString", "subString", "padStringsToSameLength", "split", "collection[]", "collection[]", "collection[]", "operator+"};

std::vector<str> split_a(const str& s) {
    std::vector<str> out; size_t i = 0;
    for (;;) { size_t p = s.find('a', i); if (p == str::npos) break; out.push_back(s.substr(i, p + 1 - i)); i = p + 1; }
    if (i < s.size()) out.push_back(s.substr(i));
    return out;
}

// Transitions that killed a worker (sanitizer abort, hang). A transition is identified by the
// operation and everything it reads (contents and recorded sizes of the objects involved); its
// behaviour is a function of exactly that, so a second execution would die in the same way. The
// first death is reported by the engine with its signature and witness; the same transition reached
// through other histories is not executed again (the history is cut there, counted as crash_cuts).
// The key is published before the operation and withdrawn after it; a key still published when the
// worker slot starts its next execution belongs to a transition that did not return.
struct CrashTable {
    std::atomic<unsigned long long> inflight[64];
    std::atomic<unsigned long long> slot[1 << 14];
    void insert(unsigned long long k) {
        for (size_t i = k % (1 << 14), n = 0; n < (1 << 14); i = (i + 1) % (1 << 14), n++) {
            unsigned long long cur = slot[i].load();
            if (cur == k) return;
            if (cur == 0) { unsigned long long z = 0; if (slot[i].compare_exchange_strong(z, k) || z == k) return; }
        }
    }
    bool has(unsigned long long k) {
        for (size_t i = k % (1 << 14), n = 0; n < (1 << 14); i = (i + 1) % (1 << 14), n++) {
            unsigned long long cur = slot[i].load();
            if (cur == k) return true;
            if (cur == 0) return false;
        }
        return false;
    }
};
CrashTable* g_ct = nullptr;

bool reads_other(int op);

struct Seq {
    int depth; bool prune; size_t maxlen;
    void run(vf::Chooser& ch) {
        std::string trace;
        const bool use_ct = g_ct && vf::g_me >= 0 && !vf::g_replaying;
        if (use_ct) { unsigned long long k = g_ct->inflight[vf::g_me].exchange(0); if (k) g_ct->insert(k); }
        AllocScope sc("seq", "");
        int changes = 0;
        size_t lx = 0, ly = 0, lc = 0;
        {
            SimpleString obj[2];
            SimpleStringCollection col;
            str m[2]; std::vector<str> mcol;
            // a replay executes exactly the recorded steps (a case id is the choice vector up to the failing step), whatever the tier
            const int nsteps = vf::g_replaying ? (int)ch.prefix.size() : depth;
            for (int step = 0; step < nsteps; step++) {
                int c = ch.choose(2 * NOPS);
                int ti = c / NOPS, op = c % NOPS;
                SimpleString& t = obj[ti]; SimpleString& o = obj[1 - ti];
                str& mt = m[ti]; str& mo = m[1 - ti];
                trace += vf::fmt("%s%s; ", ti ? "[t=y,o=x] " : "[t=x,o=y] ", OPNAME[op]);
                sc.what = trace;
                // ---- model first (decides whether the operation is inside the quantifier)
                str nt = mt, no = mo; std::vector<str> ncol = mcol; bool col_free = false, skip = false;
                switch (op) {
                case ASSIGN_OTHER: nt = mo; break;
                case ASSIGN_SELF: break;
                case ASSIGN_EMPTY: nt = ""; break;
                case ASSIGN_AB: nt = "ab"; break;
                case ASSIGN_AABA: nt = "aaba"; break;
                case APPEND_OTHER: case PLUS: nt = mt + mo; break;
                case APPEND_SELF: nt = mt + mt; break;
                case APPEND_A: nt = mt + "a"; break;
                case APPEND_BA: nt = mt + "ba"; break;
                case REPL_CHAR: for (auto& x : nt) if (x == 'a') x = 'b'; break;
                // in-place shortening: the text ends at the first replaced byte (C-string meaning); the buffer keeps its size
                case CUT_A: nt = mt.substr(0, mt.find('a')); break;
                case CUT_B: nt = mt.substr(0, mt.find('b')); break;
                case REPL_A_NONE: nt = ref_replace(mt, "a", ""); break;
                case REPL_AA_B: nt = ref_replace(mt, "aa", "b"); break;
                case REPL_AB_AAB: nt = ref_replace(mt, "ab", "aab"); break;
                case REPL_OTHER_B: if (mo.empty()) skip = true; else nt = ref_replace(mt, mo, "b"); break;   // empty pattern: outside (see replace_empty)
                case REPL_B_OTHER: nt = ref_replace(mt, "b", mo); break;
                case SUB_1: nt = ref_substr(mt, 1, str::npos); break;
                case SUB_0_2: nt = ref_substr(mt, 0, 2); break;
                case SUB_2_1: nt = ref_substr(mt, 2, 1); break;
                case PAD: { size_t mx = std::max(mt.size(), mo.size()); nt = str(mx - mt.size(), ' ') + mt; no = str(mx - mo.size(), ' ') + mo; break; }
                case SPLIT_A: if (mt.empty()) col_free = true; else ncol = split_a(mt); break;
                case COL_0: nt = mcol.size() > 0 ? mcol[0] : ""; break;
                case COL_1: nt = mcol.size() > 1 ? mcol[1] : ""; break;
                case COL_END: nt = ""; break;
                }
                if (nt.size() > maxlen || no.size() > maxlen) skip = true;     // length bound of the section
                if (op == REPL_OTHER_B && o.isEmpty()) skip = true;            // (also when objects and model already disagree)
                if (skip) { vf::count("skipped_steps"); continue; }
                // ---- the real operation
                unsigned long long tkey = 0;
                if (use_ct) {
                    std::string k = std::to_string(op); k += '\0'; k.append(t.buffer_, t.bufferSize_); k += '\0'; k += std::to_string(t.bufferSize_);
                    if (reads_other(op)) { k += '\0'; k.append(o.buffer_, o.bufferSize_); k += '\0'; k += std::to_string(o.bufferSize_); }
                    tkey = vf::hash_str(k) | 1;
                    // (never inside the replayed prefix: those transitions returned when the prefix was first executed)
                    if (ch.in_new_territory() && g_ct->has(tkey)) { vf::count("crash_cuts"); break; }
                    g_ct->inflight[vf::g_me].store(tkey);
                }
                vf::ctx(OPCLASS[op]); g_rec->cur_op = OPCLASS[op];
                bool bad = false;
                try {
                switch (op) {
                case ASSIGN_OTHER: t = o; break;
                case ASSIGN_SELF: t = t; break;
                case ASSIGN_EMPTY: t = ""; break;
                case ASSIGN_AB: t = "ab"; break;
                case ASSIGN_AABA: t = "aaba"; break;
                case APPEND_OTHER: t += o; break;
                case APPEND_SELF: t += t; break;
                case APPEND_A: t += "a"; break;
                case APPEND_BA: t += "ba"; break;
                case REPL_CHAR: t.replace('a', 'b'); break;
                case CUT_A: t.replace('a', '\0'); break;
                case CUT_B: t.replace('b', '\0'); break;
                case REPL_A_NONE: t.replace("a", ""); break;
                case REPL_AA_B: t.replace("aa", "b"); break;
                case REPL_AB_AAB: t.replace("ab", "aab"); break;
                case REPL_OTHER_B: t.replace(o.asCharString(), "b"); break;
                case REPL_B_OTHER: t.replace("b", o.asCharString()); break;
                case SUB_1: t = t.subString(1); break;
                case SUB_0_2: t = t.subString(0, 2); break;
                case SUB_2_1: t = t.subString(2, 1); break;
                case PAD: SimpleString::padStringsToSameLength(t, o, ' '); break;
                case SPLIT_A: t.split("a", col); break;
                case COL_0: t = col[0]; break;
                case COL_1: t = col[1]; break;
                case COL_END: t = col[col.size()]; break;
                case PLUS: t = t + o; break;
                }
                } catch (AbsurdSize&) { bad = true; }
                if (use_ct) g_ct->inflight[vf::g_me].store(0);
                vf::count("ops");
                // ---- compare
                std::string sigbase = std::string("seq/") + OPCLASS[op];
                if (val(t) != nt || val(o) != no) bad = true;
                if (t.size() != nt.size() || o.size() != no.size() || t.isEmpty() != nt.empty() || (t == o) != (nt == no) || !(t == SimpleString(t))) bad = true;
                if (bad)
                    vf::fail(sigbase + "/wrong-value", trace + ": expected t=" + q(nt) + " o=" + q(no) + " got t=" + q(val(t)) + " o=" + q(val(o)));
                if (col_free) {
                    // split of an empty string: no pieces or one empty piece
                    if (!(col.size() == 0 || (col.size() == 1 && val(col[0]).empty()))) vf::fail(sigbase + "/wrong-pieces", trace + vf::fmt(": %zu pieces from an empty string", col.size()));
                    ncol.clear(); for (size_t i = 0; i < col.size(); i++) ncol.push_back(val(col[i]));
                } else {
                    bool same = col.size() == ncol.size();
                    for (size_t i = 0; same && i < ncol.size(); i++) same = val(col[i]) == ncol[i];
                    if (!same) bad = true;
                    if (!same) vf::fail(sigbase + "/wrong-pieces", trace + vf::fmt(": collection differs from the model (%zu pieces, expected %zu)", col.size(), ncol.size()));
                }
                if (!check_own(OPCLASS[op], obj[0], trace)) bad = true;
                if (!check_own(OPCLASS[op], obj[1], trace)) bad = true;
                for (size_t i = 0; i < col.size(); i++) if (!check_own(OPCLASS[op], col[i], trace)) bad = true;
                // (the decision to stop must not depend on whether this worker records failures: vf::g_case_failed is not used)
                if (bad) break;            // the model is no longer a description of the objects
                if (nt != mt || no != mo || ncol != mcol) changes++;
                mt = nt; mo = no; mcol = ncol;
                if (prune) {
                    // canonical key = everything later operations can observe: contents and recorded sizes
                    std::string key;
                    // (whole buffers, also the bytes behind the terminator of a string that was shortened in place)
                    for (int k = 0; k < 2; k++) { key.append(obj[k].buffer_, obj[k].bufferSize_); key += '\0'; key += std::to_string(obj[k].bufferSize_); key += '\0'; }
                    key += std::to_string(col.size());
                    for (size_t i = 0; i < col.size(); i++) { key += '\0'; key.append(col[i].buffer_, col[i].bufferSize_); key += '\0'; key += std::to_string(col[i].bufferSize_); }
                    key += '\0'; key += val(col.empty_);
                    if (ch.prune(vf::hash_str(key), depth - step - 1)) break;
                }
            }
            lx = m[0].size(); ly = m[1].size(); lc = mcol.size();
            vf::ctx("destroy");
        }
        sc.end();
        if (vf::want_sample()) vf::sample(trace);
        if (changes >= 2) vf::count("nontrivial");
        vf::outcome(vf::fmt("x%zu y%zu c%zu", std::min<size_t>(lx, 6), std::min<size_t>(ly, 6), std::min<size_t>(lc, 3)));
    }
};

bool reads_other(int op) { return op == ASSIGN_OTHER || op == APPEND_OTHER || op == REPL_OTHER_B || op == REPL_B_OTHER || op == PAD || op == PLUS; }

} // namespace

void sections_seq(bool T) {
    g_ct = (CrashTable*)mmap(nullptr, sizeof(CrashTable), PROT_READ | PROT_WRITE, MAP_SHARED | MAP_ANONYMOUS, -1, 0);
    if (g_ct == MAP_FAILED) g_ct = nullptr;
    std::string ops;
    for (int i = 0; i < NOPS; i++) { if (i) ops += ", "; ops += OPNAME[i]; }
    {
        Seq s{T ? 4 : 3, false, 1000};
        vf::info("seq.bound", vf::fmt("every history of exactly %d operations, unpruned; each step picks the target t in {x,y} (o = the other one) and one of: %s; x and y start empty; replace with an empty pattern is outside (skipped step)", s.depth, ops.c_str()));
        vf::section_dfs("seq", 2, false, [&](vf::Chooser& ch) { s.run(ch); });
        vf::require_outcomes("seq", 12);
    }
    {
        Seq s{T ? 6 : 5, true, 6};
        vf::info("seqdeep.bound", vf::fmt("same operations, histories up to depth %d, values longer than %zu bytes are outside (skipped step); pruned on the canonical state = complete buffer contents (also behind the terminator) and recorded buffer sizes of x, y, every piece of the collection and its out-of-range string (nothing else is observable by later operations: the string allocator keeps no state between operations)", s.depth, s.maxlen));
        if (g_ct) memset((void*)g_ct, 0, sizeof *g_ct);
        vf::section_dfs("seqdeep", 2, true, [&](vf::Chooser& ch) { s.run(ch); });
        vf::require_outcomes("seqdeep", 12);
    }
}

} // namespace c13

/* c03_capi.h - list of the C-language check bodies of check C03 (shared by c03_capi.c and c03_checks.cpp).
 * Every body is compiled as C from the real TestHarness_c.h macros: one macro, then c03_after(). */
#ifndef C03_CAPI_H
#define C03_CAPI_H
#include <stddef.h>

/* name, operand type, macro : two-operand equality checks (each also has a _TEXT variant) */
#define C03_C2(X) \
    X(bool, int, CHECK_EQUAL_C_BOOL) \
    X(int, int, CHECK_EQUAL_C_INT) \
    X(uint, unsigned int, CHECK_EQUAL_C_UINT) \
    X(long, long, CHECK_EQUAL_C_LONG) \
    X(ulong, unsigned long, CHECK_EQUAL_C_ULONG) \
    X(longlong, long long, CHECK_EQUAL_C_LONGLONG) \
    X(ulonglong, unsigned long long, CHECK_EQUAL_C_ULONGLONG) \
    X(char, char, CHECK_EQUAL_C_CHAR) \
    X(ubyte, unsigned char, CHECK_EQUAL_C_UBYTE) \
    X(sbyte, signed char, CHECK_EQUAL_C_SBYTE) \
    X(string, const char*, CHECK_EQUAL_C_STRING) \
    X(pointer, const void*, CHECK_EQUAL_C_POINTER)

/* name, operand type : masked-bit checks on operands of 1, 2, 4 and 8 bytes */
#define C03_CBITS(X) \
    X(w1, unsigned char) \
    X(w2, unsigned short) \
    X(w4, unsigned int) \
    X(w8, unsigned long long)

#ifdef __cplusplus
extern "C" {
#endif

void c03_after(void);   /* defined by the harness: "the statement after the check was reached" */

#define C03_DECL2(n, T, M) void c03c_##n(T e, T a); void c03c_##n##_text(T e, T a);
C03_C2(C03_DECL2)
#define C03_DECLB(n, T) void c03c_bits_##n(T e, T a, T m); void c03c_bits_##n##_text(T e, T a, T m);
C03_CBITS(C03_DECLB)

void c03c_real(double e, double a, double t);
void c03c_real_text(double e, double a, double t);
void c03c_memcmp(const void* e, const void* a, size_t n);
void c03c_memcmp_text(const void* e, const void* a, size_t n);
void c03c_check(int v);
void c03c_check_text(int v);
void c03c_fail(void);
void c03c_fail_text(void);

#ifdef __cplusplus
}
#endif
#endif

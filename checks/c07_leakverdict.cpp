// C07 - per-test leak verdict and blame. Programs of scripted tests run under the REAL MemoryLeakWarningPlugin
// on the global detector with the real global operators / malloc wrappers switched on. Each test performs an
// allocation/release script spread over setup, body and teardown (including releasing blocks of earlier tests,
// EXPECT_N_LEAKS, IGNORE_ALL_LEAKS_IN_TEST, failing an own check). Reference: the set of blocks allocated between
// a test's pre and post action that are still outstanding at post.
#include <vector>
#include <algorithm>
#include <string>
#include <cstring>
#include <new>
#define VF_MAIN
#include "vf.h"
#include "CppUTest/TestHarness.h"
#include "CppUTest/TestRegistry.h"
#include "CppUTest/TestOutput.h"
#include "CppUTest/MemoryLeakWarningPlugin.h"
#include "CppUTest/MemoryLeakDetector.h"
#include "CppUTest/PlatformSpecificFunctions.h"
#include "CppUTest/MemoryLeakDetectorMallocMacros.h"
#undef new
#undef malloc
#undef free
#undef realloc
#undef calloc
#undef strdup
#undef strndup

namespace {

// op alphabet, simplest first
enum Op : char { NEW = 'n', MAL = 'm', FREE_OWN = 'f', FREE_OLD = 'F', EXP1 = '1', EXP2 = '2', IGN = 'I', FAILCHK = 'X', REALLOC_FAILS = 'R', REALLOC = 'r', BULK = 'B' };
const char OPS[] = {NEW, MAL, FREE_OWN, FREE_OLD, EXP1, EXP2, IGN, FAILCHK, REALLOC_FAILS, REALLOC, BULK};
constexpr int NOPS = 11;
constexpr int NBULK = 40;   // B: 40 blocks allocated and kept by the test: more than the leak report can list (its buffer is finite), the total must still be exact
// r: successful realloc of the oldest live malloc block of an earlier test (else of the test's own newest malloc block) to a
// new size: the old block is released and the result is a block of the test that reallocated it
// R: realloc of the oldest live malloc block of an earlier test (else of the test's own newest malloc block) for which the
// underlying reallocation fails: the caller gets NULL and the block stays exactly what it was, with the test it belongs to
void* realloc_fails(void*, size_t) { return nullptr; }
int g_realloc_not_null;

struct Step { char op; char phase; };
struct TestScript { Step steps[4]; int n = 0; };
struct Program { TestScript tests[3]; int ntests = 0; };

// ---- runtime state (static storage only: harness code must not allocate while the overloads are on)
struct Block { char* p; int size; char fam; int owner; bool live; };
Block g_blocks[256]; int g_nblocks; int g_size_next;
Program g_prog;
int g_current_test;
struct Watch : TestPlugin {     // tells the scripted phases which test is running (installed below the leak plugin)
    Watch() : TestPlugin("watch") {}
};

int test_index_of_current() { return g_current_test; }

void run_phase(int phase) {
    int t = test_index_of_current();
    const TestScript& s = g_prog.tests[t];
    for (int i = 0; i < s.n; i++) {
        if (s.steps[i].phase != phase) continue;
        switch (s.steps[i].op) {
        case NEW: case MAL: {
            int size = g_size_next++;
            char* p = s.steps[i].op == NEW ? (char*)operator new((size_t)size) : (char*)cpputest_malloc_location((size_t)size, "script.c", 77);
            g_blocks[g_nblocks++] = Block{p, size, s.steps[i].op, t, true};
            break; }
        case FREE_OWN: case FREE_OLD: {
            int k = -1;
            if (s.steps[i].op == FREE_OWN) { for (int b = g_nblocks - 1; b >= 0; b--) if (g_blocks[b].live && g_blocks[b].owner == t) { k = b; break; } }
            else { for (int b = 0; b < g_nblocks; b++) if (g_blocks[b].live && g_blocks[b].owner < t) { k = b; break; } }
            if (k < 0) break;
            g_blocks[k].live = false;
            if (g_blocks[k].fam == NEW) operator delete(g_blocks[k].p); else cpputest_free_location(g_blocks[k].p, "script.c", 78);
            break; }
        case BULK: {
            for (int n = 0; n < NBULK && g_nblocks < 250; n++) { int size = g_size_next++; char* p = (char*)cpputest_malloc_location((size_t)size, "script.c", 81); g_blocks[g_nblocks++] = Block{p, size, MAL, t, true}; }
            break; }
        case REALLOC: {
            int k = -1;
            for (int b = 0; b < g_nblocks; b++) if (g_blocks[b].live && g_blocks[b].fam == MAL && g_blocks[b].owner < t) { k = b; break; }
            if (k < 0) for (int b = g_nblocks - 1; b >= 0; b--) if (g_blocks[b].live && g_blocks[b].fam == MAL && g_blocks[b].owner == t) { k = b; break; }
            if (k < 0) break;
            int size = g_size_next++;
            char* p = (char*)cpputest_realloc_location(g_blocks[k].p, (size_t)size, "script.c", 80);
            g_blocks[k].live = false;
            g_blocks[g_nblocks++] = Block{p, size, MAL, t, true};
            break; }
        case REALLOC_FAILS: {
            int k = -1;
            for (int b = 0; b < g_nblocks; b++) if (g_blocks[b].live && g_blocks[b].fam == MAL && g_blocks[b].owner < t) { k = b; break; }
            if (k < 0) for (int b = g_nblocks - 1; b >= 0; b--) if (g_blocks[b].live && g_blocks[b].fam == MAL && g_blocks[b].owner == t) { k = b; break; }
            if (k < 0) break;
            void* (*saved)(void*, size_t) = PlatformSpecificRealloc; PlatformSpecificRealloc = realloc_fails;
            void* r = cpputest_realloc_location(g_blocks[k].p, (size_t)g_blocks[k].size + 40, "script.c", 79);
            PlatformSpecificRealloc = saved;
            if (r) g_realloc_not_null++;
            break; }
        case EXP1: EXPECT_N_LEAKS(1); break;
        case EXP2: EXPECT_N_LEAKS(2); break;
        case IGN: IGNORE_ALL_LEAKS_IN_TEST(); break;
        case FAILCHK: FAIL("scripted own failure");
        }
    }
}
void do_setup() { run_phase(0); }
void do_teardown() { run_phase(2); }
struct Body : ExecFunction { void exec() override { run_phase(1); } };

struct Recorder : StringBufferTestOutput {
    int cur = -1; int nfail[3] = {0, 0, 0}; char leaktext[3][6000];
    void printCurrentTestStarted(const UtestShell& t) override { cur++; g_current_test = cur; StringBufferTestOutput::printCurrentTestStarted(t); }
    void printFailure(const TestFailure& f) override {
        if (cur < 0 || cur > 2) return;
        nfail[cur]++;
        SimpleString msg = f.getMessage();
        const char* m = msg.asCharString();
        if (strstr(m, "Memory leak(s) found") || strstr(m, "Total number of leaks") || strstr(m, "No memory leaks were detected")) { strncpy(leaktext[cur], m, sizeof leaktext[cur] - 1); leaktext[cur][sizeof leaktext[cur] - 1] = 0; }
    }
};

// ---- reference
struct RefTest { int own_failures = 0; bool leak_failure = false; std::vector<int> leaked_sizes; };
struct RefProg { RefTest t[3]; std::vector<int> final_outstanding; };
RefProg reference(const Program& p) {
    RefProg r; struct B { int size, owner; bool live; bool mal; }; std::vector<B> blocks; int size_next = 11;
    for (int t = 0; t < p.ntests; t++) {
        const TestScript& s = p.tests[t];
        int expected = 0; bool ignore = false; bool setup_ok = true;
        for (int phase = 0; phase < 3; phase++) {
            if (phase == 1 && !setup_ok) continue;
            for (int i = 0; i < s.n; i++) {
                if (s.steps[i].phase != phase) continue;
                char op = s.steps[i].op; bool aborted = false;
                switch (op) {
                case NEW: case MAL: blocks.push_back({size_next++, t, true, op == MAL}); break;
                case FREE_OWN: { for (int b = (int)blocks.size() - 1; b >= 0; b--) if (blocks[b].live && blocks[b].owner == t) { blocks[b].live = false; break; } break; }
                case FREE_OLD: { for (size_t b = 0; b < blocks.size(); b++) if (blocks[b].live && blocks[b].owner < t) { blocks[b].live = false; break; } break; }
                case BULK: for (int n = 0; n < NBULK; n++) blocks.push_back({size_next++, t, true, true}); break;
                case REALLOC_FAILS: break;      // nothing changes
                case REALLOC: {
                    int k = -1;
                    for (size_t b = 0; b < blocks.size(); b++) if (blocks[b].live && blocks[b].mal && blocks[b].owner < t) { k = (int)b; break; }
                    if (k < 0) for (int b = (int)blocks.size() - 1; b >= 0; b--) if (blocks[b].live && blocks[b].mal && blocks[b].owner == t) { k = b; break; }
                    if (k < 0) break;
                    blocks[k].live = false; blocks.push_back({size_next++, t, true, true});
                    break; }
                case EXP1: expected = 1; break;
                case EXP2: expected = 2; break;
                case IGN: ignore = true; break;
                case FAILCHK: r.t[t].own_failures++; aborted = true; if (phase == 0) setup_ok = false; break;
                }
                if (aborted) break;
            }
        }
        for (auto& b : blocks) if (b.live && b.owner == t) r.t[t].leaked_sizes.push_back(b.size);
        r.t[t].leak_failure = r.t[t].own_failures == 0 && !ignore && (int)r.t[t].leaked_sizes.size() != expected;
    }
    for (auto& b : blocks) if (b.live) r.final_outstanding.push_back(b.size);
    return r;
}

std::string render(const Program& p) {
    std::string o; const char* ph = "sbt";
    for (int t = 0; t < p.ntests; t++) { o += "["; for (int i = 0; i < p.tests[t].n; i++) { o += ph[(int)p.tests[t].steps[i].phase]; o += ':'; o += p.tests[t].steps[i].op; o += ' '; } o += "] "; }
    return o + "(n new, m malloc, f free own newest, F free oldest block of an earlier test, R failing / r successful realloc of the oldest malloc block of an earlier test (else own newest), B 40 blocks kept, 1/2 EXPECT_N_LEAKS, I IGNORE_ALL_LEAKS, X fail own check; s/b/t = setup/body/teardown)";
}
std::vector<int> parse_sizes(const char* text) { std::vector<int> v; const char* p = text; while ((p = strstr(p, "Leak size: "))) { const char* q = p + 11; while (*q >= '0' && *q <= '9') q++; if (strncmp(q, " Allocated at", 13) == 0) v.push_back(atoi(p + 11)); /* an entry cut off by the end of the report buffer is not an entry */ p += 11; } std::sort(v.begin(), v.end()); return v; }
int parse_total(const char* text) { if (strstr(text, "No memory leaks were detected")) return 0; const char* p = strstr(text, "Total number of leaks:"); return p ? atoi(p + 22) : -1; }

alignas(16) char g_plugin_mem[sizeof(MemoryLeakWarningPlugin)];
MemoryLeakWarningPlugin* g_plugin; MemoryLeakDetector* g_det;

void run_program(const Program& p) {
    vf::ctx("program");
    g_prog = p; g_nblocks = 0; g_size_next = 11; g_current_test = 0; g_realloc_not_null = 0;
    RefProg ref = reference(p);
    static Recorder* out_keep = nullptr; (void)out_keep;
    Recorder out; memset(out.leaktext, 0, sizeof out.leaktext);
    TestResult result(out);
    TestRegistry reg;
    ExecFunctionTestShell shells[3] = { ExecFunctionTestShell(do_setup, do_teardown), ExecFunctionTestShell(do_setup, do_teardown), ExecFunctionTestShell(do_setup, do_teardown) };
    Body body;
    for (int t = p.ntests - 1; t >= 0; t--) { shells[t].testFunction_ = &body; reg.addTest(&shells[t]); }
    reg.installPlugin(g_plugin);
    g_det->clearAllAccounting(mem_leak_period_all);
    g_det->enable();
    // every case starts from a freshly constructed plugin AT THE SAME ADDRESS (the library keeps a static pointer to the
    // first plugin ever constructed, which EXPECT_N_LEAKS / IGNORE_ALL_LEAKS_IN_TEST address); no private member is touched
    g_plugin->~MemoryLeakWarningPlugin();
    g_plugin = new (g_plugin_mem) MemoryLeakWarningPlugin("leakcheck");
    MemoryLeakWarningPlugin::turnOnDefaultNotThreadSafeNewDeleteOverloads();
    reg.runAllTests(result);                                  // no harness allocation in here
    const char* final_report = g_plugin->FinalReport(0);
    static char final_copy[4096]; strncpy(final_copy, final_report, sizeof final_copy - 1);
    // give back what is still outstanding through the tracked path, then reset
    for (int b = 0; b < g_nblocks; b++) if (g_blocks[b].live) { if (g_blocks[b].fam == NEW) operator delete(g_blocks[b].p); else cpputest_free_location(g_blocks[b].p, "cleanup.c", 1); }
    MemoryLeakWarningPlugin::turnOffNewDeleteOverloads();
    g_det->clearAllAccounting(mem_leak_period_all);
    reg.removePluginByName(g_plugin->getName());

    std::string desc;
    auto d = [&]() { if (desc.empty()) desc = render(p); return desc; };
    bool any_leak_failure = false;
    if (g_realloc_not_null) vf::fail("realloc/failed-reallocation-returned-a-block", d() + ": the underlying reallocation failed but the caller got a non-NULL pointer");
    for (int t = 0; t < p.ntests; t++) {
        const RefTest& rt = ref.t[t];
        int want = rt.own_failures + (rt.leak_failure ? 1 : 0);
        bool got_leak = out.leaktext[t][0] != 0;
        any_leak_failure |= rt.leak_failure;
        if (got_leak != rt.leak_failure) {
            const char* why = rt.leak_failure ? "leaking-test-not-failed"
                              : rt.own_failures ? "leak-failure-on-already-failed-test"
                              : "clean-test-failed-for-leaks";
            vf::fail(std::string("verdict/") + why, d() + vf::fmt(": test %d: leak failure %s, reference: %zu leaked blocks, own failures %d", t, got_leak ? "reported" : "absent", rt.leaked_sizes.size(), rt.own_failures));
            continue;
        }
        if (out.nfail[t] != want) vf::fail("verdict/failure-count", d() + vf::fmt(": test %d has %d failures, reference %d", t, out.nfail[t], want));
        if (rt.leak_failure) {
            std::vector<int> sizes = parse_sizes(out.leaktext[t]), wants = rt.leaked_sizes; std::sort(wants.begin(), wants.end());
            bool truncated = wants.size() > 12;      // a long report lists as many entries as fit; every listed one must be the test's own
            if (truncated) { bool subset = true; for (int z : sizes) if (!std::binary_search(wants.begin(), wants.end(), z)) subset = false; if (!subset) vf::fail("report/blames-foreign-block", d() + vf::fmt(": test %d report lists a block the test does not own", t)); }
            else if (sizes != wants) vf::fail(sizes.size() > wants.size() ? "report/blames-foreign-block" : "report/wrong-blocks-listed", d() + vf::fmt(": test %d report lists %zu blocks, reference %zu", t, sizes.size(), wants.size()));
            if (parse_total(out.leaktext[t]) != (int)wants.size()) vf::fail("report/total", d() + vf::fmt(": test %d report total %d, reference %zu", t, parse_total(out.leaktext[t]), wants.size()));
        }
    }
    // (the plugin's FinalReport is not asserted here: C07 does not speak about it; report(enabled) vs. the outstanding set is C04's subject)
    (void)final_copy;
    vf::outcome(vf::fmt("%d%d%d own=%d", ref.t[0].leak_failure, ref.t[1].leak_failure, ref.t[2].leak_failure, ref.t[0].own_failures + ref.t[1].own_failures + ref.t[2].own_failures > 0));
    if (any_leak_failure) vf::count("nontrivial");
    if (vf::want_sample()) vf::sample(d());
}

// enumerate a test script: sequence of <= L ops, each with a phase, phases non-decreasing
void build_scripts(int L, std::vector<TestScript>& out, int nops = NOPS) {
    std::vector<TestScript> cur(1);
    out.push_back(TestScript());
    for (int len = 1; len <= L; len++) {
        std::vector<TestScript> next;
        for (auto& s : cur) for (int o = 0; o < nops; o++) for (int ph = (s.n ? s.steps[s.n - 1].phase : 0); ph < 3; ph++) {
            TestScript t = s; t.steps[t.n++] = Step{OPS[o], (char)ph}; next.push_back(t);
        }
        for (auto& s : next) out.push_back(s);
        cur = next;
    }
}

} // namespace

int main(int argc, char** argv) {
    vf::init(argc, argv, "C07");
    MemoryLeakWarningPlugin::turnOffNewDeleteOverloads();
    g_det = MemoryLeakWarningPlugin::getGlobalDetector();
    g_plugin = new (g_plugin_mem) MemoryLeakWarningPlugin("leakcheck");       // first (and only) plugin object: EXPECT_N_LEAKS/IGNORE_ALL_LEAKS address it
    bool T = vf::thorough();
    vf::info("rule", "programs of scripted tests under the real leak plugin; a script is a sequence of ops from {new, malloc, free own newest, free oldest block of an earlier test, failing realloc and successful realloc of an earlier (else own) malloc block, EXPECT_N_LEAKS(1), EXPECT_N_LEAKS(2), IGNORE_ALL_LEAKS_IN_TEST, fail own check}, each placed in setup/body/teardown (phases non-decreasing); non-trivial = some test must get a leak failure");
    std::vector<TestScript> s2, s3; build_scripts(2, s2); build_scripts(3, s3);
    long n2 = (long)s2.size(), n3 = (long)s3.size();
    vf::info("single.bound", vf::fmt("1 test, all %ld scripts with <= 3 ops", n3));
    vf::section_index("single", n3, [&](long idx) { Program p; p.ntests = 1; p.tests[0] = s3[idx]; run_program(p); });
    vf::require_outcomes("single", 3);
    vf::info("pairs.bound", vf::fmt("2 tests, all %ld x %ld scripts with <= 2 ops each", n2, n2));
    vf::section_index("pairs", n2 * n2, [&](long idx) { Program p; p.ntests = 2; p.tests[0] = s2[idx % n2]; p.tests[1] = s2[idx / n2]; run_program(p); });
    vf::require_outcomes("pairs", 6);
    if (T) {
        // pairs with <= 3 ops per test over the first 8 ops (the reallocation and bulk ops: single with <= 3, pairs with <= 2, triples1)
        std::vector<TestScript> u3; build_scripts(3, u3, 8); long m3 = (long)u3.size();
        vf::info("pairs3.bound", vf::fmt("2 tests, all %ld x %ld scripts with <= 3 ops each over {n,m,f,F,1,2,I,X}", m3, m3));
        vf::section_index("pairs3", m3 * m3, [&](long idx) { Program p; p.ntests = 2; p.tests[0] = u3[idx % m3]; p.tests[1] = u3[idx / m3]; run_program(p); });
        // triples: <= 2 ops per test over the first 8 ops (the reallocation and bulk ops are covered by single/pairs/pairs3/triples1)
        std::vector<TestScript> t2; build_scripts(2, t2, 8); long m2 = (long)t2.size();
        vf::info("triples.bound", vf::fmt("3 tests, all %ld^3 scripts with <= 2 ops each over {n,m,f,F,1,2,I,X}", m2));
        vf::section_index("triples", m2 * m2 * m2, [&](long idx) { Program p; p.ntests = 3; p.tests[0] = t2[idx % m2]; p.tests[1] = t2[(idx / m2) % m2]; p.tests[2] = t2[idx / m2 / m2]; run_program(p); });
        vf::require_outcomes("triples", 8);
    }
    {
        // triples with <= 1 op per test over the whole alphabet (both tiers)
        std::vector<TestScript> s1; build_scripts(1, s1); long n1 = (long)s1.size();
        vf::info("triples1.bound", vf::fmt("3 tests, all %ld^3 scripts with <= 1 op each", n1));
        vf::section_index("triples1", n1 * n1 * n1, [&](long idx) { Program p; p.ntests = 3; p.tests[0] = s1[idx % n1]; p.tests[1] = s1[(idx / n1) % n1]; p.tests[2] = s1[idx / n1 / n1]; run_program(p); });
    }
    return vf::finish();
}

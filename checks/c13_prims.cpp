// C13, sections on the free helpers: atoi (AtoI/AtoU/ToLower/MemCmp on raw bytes), format (formatted
// construction around the 100-byte fast path), numbers (decimal/hex/pointer/double formatters),
// ordinal, maskedbits, binaryfmt.
#include <sanitizer/asan_interface.h>
#include <cfloat>
#include <cmath>
#include <string>
#include <vector>
#include <set>
#include "c13_common.h"

namespace c13 {


// ---------------------------------------------------------------- reference number rendering (no printf)
static str dec_u(unsigned long long v) { if (!v) return "0"; str s; while (v) { s.insert(s.begin(), (char)('0' + v % 10)); v /= 10; } return s; }
static str dec_s(long long v) { if (v >= 0) return dec_u((unsigned long long)v); return "-" + dec_u(0ULL - (unsigned long long)v); }
static str hex_u(unsigned long long v) { if (!v) return "0"; str s; while (v) { s.insert(s.begin(), "0123456789abcdef"[v % 16]); v /= 16; } return s; }
static str HEX2(unsigned v) { str s; s += "0123456789ABCDEF"[(v >> 4) & 15]; s += "0123456789ABCDEF"[v & 15]; return s; }

// ---------------------------------------------------------------- atoi
static std::vector<str> g_A;
static bool c_space(unsigned char c) { return c == ' ' || (c >= 9 && c <= 13); }
static void atoi_case(long idx) {
    const str& s = g_A[(size_t)idx];
    Exact es(s);
    std::string S = q(s);
    if (vf::want_sample()) vf::sample("AtoI/AtoU(" + S + ")");
    // reference written from the definition: optional white space, [sign for AtoI], decimal digits
    size_t i = 0; while (i < s.size() && c_space((unsigned char)s[i])) i++;
    size_t j = i; unsigned long long u = 0; while (j < s.size() && s[j] >= '0' && s[j] <= '9') u = u * 10 + (unsigned)(s[j++] - '0');
    size_t k = i; bool neg = false; if (k < s.size() && (s[k] == '-' || s[k] == '+')) { neg = s[k] == '-'; k++; }
    long long v = 0; size_t k0 = k; while (k < s.size() && s[k] >= '0' && s[k] <= '9') v = v * 10 + (s[k++] - '0');
    if (neg) v = -v;
    if (j > i || k > k0) vf::count("nontrivial");
    vf::ctx("AtoU");
    if (u <= UINT_MAX) expect_num("AtoU/wrong", SimpleString::AtoU(es), (long long)u, "AtoU(" + S + ")");
    vf::ctx("AtoI");
    if (v >= -(long long)INT_MAX && v <= INT_MAX) {
        expect_num("AtoI/wrong", SimpleString::AtoI(es), v, "AtoI(" + S + ")");
        expect_num("AtoI/differs-from-libc", SimpleString::AtoI(es), atoi(es), "AtoI(" + S + ") vs atoi");
    }
    vf::outcome(vf::fmt("ws=%d sign=%d digits=%d", i > 0, k0 > i, (int)std::min<size_t>(k - k0, 3)));
}
static void bytes_case(long idx) {
    if (idx < 256) {
        vf::ctx("ToLower");
        char c = (char)idx;
        if (vf::want_sample()) vf::sample(vf::fmt("ToLower(0x%02x)", (unsigned)idx));
        if (idx >= 'A' && idx <= 'Z') vf::count("nontrivial");
        expect_num("ToLower/wrong", (unsigned char)SimpleString::ToLower(c), (unsigned char)ref_lower(c), vf::fmt("ToLower(0x%02x)", (unsigned)idx));
        vf::outcome(SimpleString::ToLower(c) == c ? "same" : "lowered");
        return;
    }
    idx -= 256;
    static const unsigned char B[4] = {0x00, 0x01, 0x80, 0xff};
    unsigned char* a = (unsigned char*)malloc(3); unsigned char* b = (unsigned char*)malloc(3);
    long x = idx % 64, y = idx / 64;
    for (int i = 0; i < 3; i++) { a[i] = B[(x >> (2 * i)) & 3]; b[i] = B[(y >> (2 * i)) & 3]; }
    if (x != y) vf::count("nontrivial");
    vf::ctx("MemCmp");
    for (size_t n = 0; n <= 3; n++)
        expect_num("MemCmp/wrong-sign", sgn(SimpleString::MemCmp(a, b, n)), sgn(memcmp(a, b, n)), vf::fmt("MemCmp(%02x%02x%02x, %02x%02x%02x, %zu)", a[0], a[1], a[2], b[0], b[1], b[2], n));
    vf::outcome(vf::fmt("cmp=%d", sgn(memcmp(a, b, 3))));
    free(a); free(b);
}

// ---------------------------------------------------------------- formatted construction
static SimpleString vwrap(const char* f, ...) { va_list ap; va_start(ap, f); SimpleString r = VStringFromFormat(f, ap); va_end(ap); return r; }
static std::vector<size_t> g_L;
static void format_case(long idx) {
    vf::Radix r(idx);
    int form = (int)r.take(4);
    size_t L = g_L[(size_t)r.take((long)g_L.size())];
    str s = pattern(L, "ab%c\x80 \n");        // a '%' inside an argument must not be interpreted
    Exact es(s);
    std::string what = vf::fmt("form %d with a %zu-byte argument", form, L);
    if (vf::want_sample()) vf::sample(what);
    if (L >= 90 && L <= 110) vf::count("nontrivial");
    scoped("StringFromFormat", what, [&] {
        SimpleString got; str want;
        switch (form) {
        case 0: got = StringFromFormat("%s", (const char*)es); want = s; break;
        case 1: got = StringFromFormat("%d|%s|%u", -12, (const char*)es, 7u); want = "-12|" + s + "|7"; break;
        case 2: got = vwrap("%s%c", (const char*)es, 'Z'); want = s + "Z"; break;
        case 3: got = StringFromFormat("%.*s", (int)(L / 2), (const char*)es); want = s.substr(0, L / 2); break;
        }
        expect_eq("StringFromFormat/wrong-result", val(got), want, what);
        check_own("StringFromFormat", got, what);
    });
    size_t total = form == 0 ? L : form == 1 ? L + 6 : form == 2 ? L + 1 : L / 2;
    vf::outcome(total < 99 ? "fast" : total == 99 ? "fast-last" : total == 100 ? "slow-first" : "slow");
}

// ---------------------------------------------------------------- numbers
static std::vector<long long> g_N;          // signed lattice
static std::vector<unsigned long long> g_UN;
static void numbers_case(long idx) {
    if (idx < (long)g_N.size()) {
        long long v = g_N[(size_t)idx];
        std::string what = vf::fmt("value %lld", v);
        if (vf::want_sample()) vf::sample(what);
        if (v < 0 || v > 9) vf::count("nontrivial");
        scoped("StringFrom(number)", what, [&] {
            if (v >= INT_MIN && v <= INT_MAX) {
                expect_eq("StringFrom(int)/wrong", val(StringFrom((int)v)), dec_s(v), what);
                expect_eq("HexStringFrom(int)/wrong", val(HexStringFrom((int)v)), hex_u((unsigned int)(int)v), what);
                expect_eq("BracketsFormattedHexStringFrom/wrong", val(BracketsFormattedHexStringFrom((int)v)), "(0x" + hex_u((unsigned int)(int)v) + ")", what);
            }
            if (v >= SCHAR_MIN && v <= SCHAR_MAX) {
                expect_eq("HexStringFrom(signed char)/wrong", val(HexStringFrom((signed char)v)), hex_u((unsigned char)(signed char)v), what);
                expect_eq("BracketsFormattedHexStringFrom/wrong", val(BracketsFormattedHexStringFrom((signed char)v)), "(0x" + hex_u((unsigned char)(signed char)v) + ")", what);
            }
            expect_eq("StringFrom(long)/wrong", val(StringFrom((long)v)), dec_s(v), what);
            expect_eq("StringFrom(long long)/wrong", val(StringFrom((cpputest_longlong)v)), dec_s(v), what);
            expect_eq("HexStringFrom(long)/wrong", val(HexStringFrom((long)v)), hex_u((unsigned long)v), what);
            expect_eq("HexStringFrom(long long)/wrong", val(HexStringFrom((cpputest_longlong)v)), hex_u((unsigned long long)v), what);
            expect_eq("BracketsFormattedHexStringFrom/wrong", val(BracketsFormattedHexStringFrom((long)v)), "(0x" + hex_u((unsigned long)v) + ")", what);
            expect_eq("BracketsFormattedHexStringFrom/wrong", val(BracketsFormattedHexStringFrom((cpputest_longlong)v)), "(0x" + hex_u((unsigned long long)v) + ")", what);
        });
        vf::outcome(vf::fmt("s digits=%zu", dec_s(v).size()));
        return;
    }
    idx -= (long)g_N.size();
    if (idx < (long)g_UN.size()) {
        unsigned long long v = g_UN[(size_t)idx];
        std::string what = vf::fmt("value %llu", v);
        if (vf::want_sample()) vf::sample(what);
        if (v > 9) vf::count("nontrivial");
        scoped("StringFrom(number)", what, [&] {
            if (v <= UINT_MAX) {
                expect_eq("StringFrom(unsigned)/wrong", val(StringFrom((unsigned int)v)), dec_u(v), what);
                expect_eq("HexStringFrom(unsigned)/wrong", val(HexStringFrom((unsigned int)v)), hex_u(v), what);
                expect_eq("BracketsFormattedHexStringFrom/wrong", val(BracketsFormattedHexStringFrom((unsigned int)v)), "(0x" + hex_u(v) + ")", what);
            }
            expect_eq("StringFrom(unsigned long)/wrong", val(StringFrom((unsigned long)v)), dec_u(v), what);
            expect_eq("StringFrom(unsigned long long)/wrong", val(StringFrom((cpputest_ulonglong)v)), dec_u(v), what);
            expect_eq("HexStringFrom(unsigned long)/wrong", val(HexStringFrom((unsigned long)v)), hex_u(v), what);
            expect_eq("HexStringFrom(unsigned long long)/wrong", val(HexStringFrom((cpputest_ulonglong)v)), hex_u(v), what);
            expect_eq("BracketsFormattedHexStringFrom/wrong", val(BracketsFormattedHexStringFrom((unsigned long)v)), "(0x" + hex_u(v) + ")", what);
            expect_eq("BracketsFormattedHexStringFrom/wrong", val(BracketsFormattedHexStringFrom((cpputest_ulonglong)v)), "(0x" + hex_u(v) + ")", what);
            expect_eq("StringFrom(pointer)/wrong", val(StringFrom((const void*)(uintptr_t)v)), "0x" + hex_u(v), what);
            expect_eq("HexStringFrom(pointer)/wrong", val(HexStringFrom((const void*)(uintptr_t)v)), hex_u(v), what);
            expect_eq("StringFrom(function pointer)/wrong", val(StringFrom((void (*)())(uintptr_t)v)), "0x" + hex_u(v), what);
            expect_eq("HexStringFrom(function pointer)/wrong", val(HexStringFrom((void (*)())(uintptr_t)v)), hex_u(v), what);
        });
        vf::outcome(vf::fmt("u digits=%zu", dec_u(v).size()));
        return;
    }
    idx -= (long)g_UN.size();
    if (idx < 256) {
        std::string what = vf::fmt("char 0x%02lx", idx);
        if (vf::want_sample()) vf::sample(what);
        if (idx >= 0x80) vf::count("nontrivial");
        scoped("StringFrom(char)", what, [&] {
            if (idx) expect_eq("StringFrom(char)/wrong", val(StringFrom((char)idx)), str(1, (char)idx), what);
            expect_eq("HexStringFrom(signed char)/wrong", val(HexStringFrom((signed char)idx)), hex_u((unsigned)idx), what);
        });
        vf::outcome(idx >= 0x80 ? "c high" : "c low");
        return;
    }
    idx -= 256;
    // doubles x precision, booleans, null
    static const double D[] = {0.0, -0.0, 1.0, -1.0, 0.1, 1.5, 2.5, 1e10, 1e-10, 123456789.123, 3.14159265358979, 1e100, DBL_MAX, DBL_MIN, -DBL_MAX, 0.30000000000000004, 999999.5, 1e6, 1e-5};
    static const int PR[] = {1, 2, 6, 7, 10, 17};
    const long ND = sizeof D / sizeof *D, NP = sizeof PR / sizeof *PR;
    if (idx < ND * NP) {
        double d = D[idx / NP]; int p = PR[idx % NP];
        char ref[64]; snprintf(ref, sizeof ref, "%.*g", p, d);
        std::string what = vf::fmt("StringFrom(%s as double, %d)", ref, p);
        if (vf::want_sample()) vf::sample(what);
        vf::count("nontrivial");
        scoped("StringFrom(double)", what, [&] {
            SimpleString got = StringFrom(d, p);
            vf::count("ops");
            // textbook = the shortest-style decimal rendering with p significant digits: it must read back to the
            // same value as the libc rendering with the same precision
            if (val(got) != ref && strtod(got.asCharString(), nullptr) != strtod(ref, nullptr)) vf::fail("StringFrom(double)/wrong", what + ": got " + q(val(got)));
            if (p == 6) expect_eq("StringFrom(double)/default-precision-differs", val(StringFrom(d)), val(got), what);
        });
        vf::outcome("double");
        return;
    }
    scoped("StringFrom(special)", "specials", [&] {
        if (vf::want_sample()) vf::sample("bool / nullptr / nan / inf");
        expect_eq("StringFrom(bool)/wrong", val(StringFrom(true)), "true", "true");
        expect_eq("StringFrom(bool)/wrong", val(StringFrom(false)), "false", "false");
        expect_eq("StringFrom(nullptr)/wrong", val(StringFrom(nullptr)), "(null)", "nullptr");
        // not-a-number and infinities: only "does not look like a finite number", safe
        for (double d : {(double)NAN, (double)INFINITY, -(double)INFINITY}) {
            str g = val(StringFrom(d)); vf::count("ops");
            if (g.empty() || (g[0] >= '0' && g[0] <= '9')) vf::fail("StringFrom(double)/non-finite-rendered-as-number", q(g));
        }
    });
    vf::outcome("special");
}

// ---------------------------------------------------------------- ordinal
static str ref_ordinal(unsigned n) {
    const char* suf = "th";
    unsigned h = n % 100, d = n % 10;
    if (h < 11 || h > 13) { if (d == 1) suf = "st"; else if (d == 2) suf = "nd"; else if (d == 3) suf = "rd"; }
    return dec_u(n) + suf;
}
static std::vector<unsigned> g_ordBase;     // each case: 100 consecutive numbers from a base
static void ordinal_case(long idx) {
    unsigned base = g_ordBase[(size_t)idx];
    if (vf::want_sample()) vf::sample(vf::fmt("StringFromOrdinalNumber(%u..%u)", base, base + 99));
    vf::count("nontrivial");
    scoped("StringFromOrdinalNumber", vf::fmt("%u..", base), [&] {
        std::set<str> sufs;
        for (unsigned k = 0; k < 100; k++) {
            unsigned n = base + k;
            if (n < base) break;        // wrapped past UINT_MAX
            str got = val(StringFromOrdinalNumber(n)), want = ref_ordinal(n);
            vf::count("ops");
            if (got != want) vf::fail(n % 100 >= 11 && n % 100 <= 13 ? "StringFromOrdinalNumber/wrong-suffix-for-11-12-13-beyond-100" : "StringFromOrdinalNumber/wrong", vf::fmt("StringFromOrdinalNumber(%u) = %s, expected %s", n, got.c_str(), want.c_str()));
            sufs.insert(want.substr(want.size() - 2));
        }
        for (auto& s : sufs) vf::outcome(s);
    });
}

// ---------------------------------------------------------------- masked bits
static const unsigned long MB[] = {0x0, 0x1, 0x80, 0xFF, 0xCC, 0x8000, 0xFFFF, 0xA5A5A5A5UL, 0x8000000000000000UL, ~0UL, 0x0123456789ABCDEFUL};
static void masked_case(long idx) {
    vf::Radix r(idx);
    unsigned long value = MB[r.take(11)];
    size_t bytes = (size_t)r.take(10);
    if (vf::want_sample()) vf::sample(vf::fmt("StringFromMaskedBits(0x%lx, every mask of the lattice, %zu)", value, bytes));
    vf::count("nontrivial");
    for (unsigned long mask : MB) {
        std::string what = vf::fmt("StringFromMaskedBits(0x%lx, 0x%lx, %zu)", value, mask, bytes);
        scoped("StringFromMaskedBits", what, [&] {
            size_t nb = std::min(bytes, sizeof(unsigned long)) * 8;
            str want;
            for (size_t i = 0; i < nb; i++) {
                size_t bit = nb - 1 - i;
                want += ((mask >> bit) & 1) ? (((value >> bit) & 1) ? '1' : '0') : 'x';
                if (i % 8 == 7 && i != nb - 1) want += ' ';
            }
            expect_eq("StringFromMaskedBits/wrong", val(StringFromMaskedBits(value, mask, bytes)), want, what);
        });
    }
    vf::outcome(vf::fmt("bytes=%zu", bytes));
}

// ---------------------------------------------------------------- binary dumps
static const size_t BS[] = {0, 1, 2, 3, 16, 127, 128, 129, 300};
static void binary_case(long idx) {
    vf::Radix r(idx);
    int fill = (int)r.take(4);
    size_t n = BS[r.take(9)];
    unsigned char* b = (unsigned char*)malloc(n ? n : 1);
    for (size_t i = 0; i < n; i++) b[i] = fill == 0 ? 0x00 : fill == 1 ? 0xff : fill == 2 ? 0x80 : (unsigned char)(i * 37 + 1);
    if (n == 0) ASAN_POISON_MEMORY_REGION(b, 1);
    std::string what = vf::fmt("%zu bytes, fill %d", n, fill);
    if (vf::want_sample()) vf::sample("StringFromBinary* of " + what);
    if (n >= 2) vf::count("nontrivial");
    auto dump = [&](size_t k) { str s; for (size_t i = 0; i < k; i++) { if (i) s += ' '; s += HEX2(b[i]); } return s; };
    scoped("StringFromBinary", what, [&] {
        expect_eq("StringFromBinary/wrong", val(StringFromBinary(b, n)), dump(n), what);
        expect_eq("StringFromBinaryOrNull/wrong", val(StringFromBinaryOrNull(b, n)), dump(n), what);
        expect_eq("StringFromBinaryOrNull/wrong", val(StringFromBinaryOrNull(NULLPTR, n)), "(null)", "NULL");
        str ws = "Size = " + dec_u(n) + " | HexContents = " + dump(std::min<size_t>(n, 128)) + (n > 128 ? " ..." : "");
        expect_eq("StringFromBinaryWithSize/wrong", val(StringFromBinaryWithSize(b, n)), ws, what);
        expect_eq("StringFromBinaryWithSizeOrNull/wrong", val(StringFromBinaryWithSizeOrNull(b, n)), ws, what);
        expect_eq("StringFromBinaryWithSizeOrNull/wrong", val(StringFromBinaryWithSizeOrNull(NULLPTR, n)), "(null)", "NULL");
    });
    vf::outcome(vf::fmt("n=%zu", n));
    if (n == 0) ASAN_UNPOISON_MEMORY_REGION(b, 1);
    free(b);
}

void sections_primitives(bool T) {
    {
        const str alpha = str(" \t-+019a\x80");
        std::vector<str> extra;
        for (int c = 1; c < 256; c++) { extra.push_back(str(1, (char)c) + "1"); extra.push_back(str(1, (char)c) + "-1"); }
        for (const char* x : {"2147483647", "-2147483647", "  +2147483647", "4294967295", "0000000012", "123456789", "-0", "+0", "\v\f\r\n 42abc", "12 34"}) extra.push_back(x);
        const bool big = T || vf::g_replaying;       // replay decodes case ids of either tier: quick universe = prefix of the thorough one
        g_A = universe(alpha, 4, extra);
        if (big) for (auto& x : universe(alpha, 6)) if (x.size() > 4) g_A.push_back(x);
        vf::info("atoi.bound", vf::fmt("AtoI and AtoU on %zu strings: every string over {space,tab,-,+,0,1,9,a,0x80} of length <= %d, every byte 1..255 followed by 1 and by -1, boundary literals; values outside the result type are not asserted", g_A.size(), T ? 6 : 4));
        vf::section_index("atoi", (long)g_A.size(), atoi_case);
        vf::require_outcomes("atoi", 8);
        vf::info("bytes.bound", "ToLower on all 256 byte values; MemCmp on all pairs of 3-byte arrays over {00,01,80,ff} with n = 0..3");
        vf::section_index("bytes", 256 + 64 * 64, bytes_case);
        vf::require_outcomes("bytes", 4);
    }
    {
        for (size_t l = 0; l <= 130; l++) g_L.push_back(l);
        for (size_t l : {198, 199, 200, 201, 202, 1000, 5000}) g_L.push_back(l);
        if (T || vf::g_replaying) for (size_t l = 131; l <= 400; l++) g_L.push_back(l);
        vf::info("format.bound", vf::fmt("StringFromFormat/VStringFromFormat with 4 format shapes x %zu argument lengths (0..130, 198..202, 1000, 5000%s): every total length around the 100-byte fast path", g_L.size(), T ? ", 131..400" : ""));
        vf::section_index("format", (long)g_L.size() * 4, format_case);
        vf::require_outcomes("format", 4);
    }
    {
        std::set<long long> sn; std::set<unsigned long long> un;
        for (int k = 0; k < 64; k++) {
            unsigned long long p = 1ULL << k;
            for (unsigned long long v : {p, p - 1, p + 1}) { un.insert(v); if (v <= (unsigned long long)LLONG_MAX) { sn.insert((long long)v); sn.insert(-(long long)v); } }
        }
        unsigned long long p10 = 1;
        for (int k = 0; k < 19; k++) { for (unsigned long long v : {p10, p10 - 1, p10 + 1}) { un.insert(v); sn.insert((long long)v); sn.insert(-(long long)v); } p10 *= 10; }
        for (long long v = -300; v <= 300; v++) { sn.insert(v); if (v >= 0) un.insert((unsigned long long)v); }
        sn.insert(LLONG_MIN); sn.insert(LLONG_MAX); sn.insert(INT_MIN); sn.insert(INT_MAX); un.insert(ULLONG_MAX); un.insert(UINT_MAX);
        g_N.assign(sn.begin(), sn.end()); g_UN.assign(un.begin(), un.end());
        vf::info("numbers.bound", vf::fmt("%zu signed and %zu unsigned values (-300..300, 2^k and 10^k with their neighbours, type limits) through every StringFrom/HexStringFrom/BracketsFormattedHexStringFrom overload that can hold them, pointer and function-pointer forms; all 256 char values; 19 doubles x 6 precisions; bool, nullptr, NaN, infinities; reference = digit-by-digit conversion written in the harness", g_N.size(), g_UN.size()));
        vf::section_index("numbers", (long)(g_N.size() + g_UN.size() + 256 + 19 * 6 + 1), numbers_case);
        vf::require_outcomes("numbers", 10);
    }
    {
        unsigned lim = T ? 3000000u : 100000u;
        for (unsigned b = 0; b < 100000u; b += 100) g_ordBase.push_back(b);
        for (unsigned long long p = 1000000ULL; p <= 4000000000ULL; p *= 10) g_ordBase.push_back((unsigned)p - 50);
        for (unsigned b : {0x7fffffffu - 50, 0x80000000u - 20, 0xffffffffu - 99, 2147483600u, 4294967200u, 4000000000u - 50}) g_ordBase.push_back(b);
        for (unsigned b = 100000u; b < (vf::g_replaying ? 3000000u : lim); b += 100) g_ordBase.push_back(b);
        vf::info("ordinal.bound", vf::fmt("StringFromOrdinalNumber for every number 0..%u and 100 numbers around each of 10^6..10^9, 4*10^9, 2^31, 2^32", lim - 1));
        vf::section_index("ordinal", (long)g_ordBase.size(), ordinal_case);
        vf::require_outcomes("ordinal", 4);
    }
    {
        vf::info("maskedbits.bound", "StringFromMaskedBits: byte counts 0..9 x 11 values x 11 masks (0, 1, 0x80, 0xFF, 0xCC, 0x8000, 0xFFFF, 0xA5A5A5A5, 2^63, all ones, 0x0123456789ABCDEF)");
        vf::section_index("maskedbits", 110, masked_case);
        vf::require_outcomes("maskedbits", 9);
        vf::info("binaryfmt.bound", "StringFromBinary, ...OrNull, ...WithSize, ...WithSizeOrNull: sizes 0,1,2,3,16,127,128,129,300 x 4 fill patterns, input blocks of exactly that size, NULL input");
        vf::section_index("binaryfmt", 36, binary_case);
        vf::require_outcomes("binaryfmt", 9);
    }
}

} // namespace c13

// c19_sections.h - check C19: value alphabets and the enumerated sections.
#pragma once
#include "c19_core.h"
#include "mock_scn.h"

namespace c19 {

// ---------------------------------------------------------------- objects the scenarios point at
inline c19_T g_t[4] = {{1, 10}, {2, 10}, {1, 20}, {3, 30}};
inline char g_obj[4];
inline unsigned char g_bufA[4] = {0x00, 0x01, 0xff, 0x7f};
inline unsigned char g_bufB[4] = {0x00, 0x01, 0xff, 0x7f};       // same content, other storage
inline unsigned char g_bufC[4] = {0x00, 0x02, 0xff, 0x7f};
inline unsigned char g_src[4][C19_SLOTSIZE];
inline char s_empty[] = "", s_a[] = "a", s_a2[] = "a", s_ab[] = "ab", s_hi[] = "a\xff\x01", s_long[] = "a string that is longer than twenty-four bytes",
            s_dflt[] = "dflt", s_r[] = "r";
extern "C" inline void c19_fn1(void) {}
extern "C" inline void c19_fn2(void) {}

struct Sym { const void* base; size_t size; const char* name; };
inline std::vector<Sym> g_syms;
inline std::vector<std::pair<c19_fn, const char*>> g_fsyms;
inline void register_symbols() {
    g_syms = {{g_t, sizeof g_t, "t"}, {g_obj, sizeof g_obj, "obj"}, {g_bufA, 4, "bufA"}, {g_bufB, 4, "bufB"}, {g_bufC, 4, "bufC"},
              {g_src, sizeof g_src, "src"}, {s_empty, 1, "s_empty"}, {s_a, 2, "s_a"}, {s_a2, 2, "s_a2"}, {s_ab, 3, "s_ab"}, {s_hi, 4, "s_hi"},
              {s_long, sizeof s_long, "s_long"}, {s_dflt, 5, "s_dflt"}, {s_r, 2, "s_r"}};
    g_fsyms = {{c19_fn1, "fn1"}, {c19_fn2, "fn2"}};
    for (int s = 0; s < 4; s++) for (int b = 0; b < C19_SLOTSIZE; b++) g_src[s][b] = (unsigned char)(0x10 * (s + 1) + b);
}
inline std::string sym(const void* p) {
    if (!p) return "NULL";
    for (auto& s : g_syms) if ((const char*)p >= (const char*)s.base && (const char*)p < (const char*)s.base + s.size) {
        size_t off = (size_t)((const char*)p - (const char*)s.base);
        return off ? vf::fmt("%s+%zu", s.name, off) : std::string(s.name);
    }
    return "<other address>";
}
inline std::string symf(c19_fn f) {
    if (!f) return "NULL";
    for (auto& s : g_fsyms) if (s.first == f) return s.second;
    return "<other function>";
}

inline bool sanitized() { return std::string(VF_FLAVOUR) != "plain"; }

// ================================================================ section family (a): the C08 scenario space
inline Program from_scenario(const scn::Scenario& s) {
    Program p;
    if (s.strict) p.strict();
    for (size_t i = 0; i < s.exps.size(); i++) {
        const scn::Exp& e = s.exps[i];
        if (e.count == 0 && e.np == 0 && !e.ignoreOther && !s.readReturn && !s.outParam) { p.expect_none(scn::FN[e.fn]); continue; }
        if (e.count == 1) p.expect_one(scn::FN[e.fn]); else p.expect_n((unsigned)e.count, scn::FN[e.fn]);
        for (int k = 0; k < e.np; k++) p.e_param(scn::PN[e.pname[k]], vint(e.pval[k]));
        if (s.outParam) p.e_out("o", &g_src[i % 4][0], 1);
        if (e.ignoreOther) p.e_ignore();
        p.e_ret(vint(100 + (int)i));
    }
    if (s.ignoreOtherCalls) p.simple(C19_IOC);
    for (size_t c = 0; c < s.acts.size(); c++) {
        const scn::Act& a = s.acts[c];
        p.actual(scn::FN[a.fn]);
        for (int k = 0; k < a.np; k++) p.a_param(scn::PN[a.pname[k]], vint(a.pval[k]));
        if (s.outParam) p.a_out("o", (int)c % C19_NSLOTS);
        if (s.readReturn) p.getter_def(C19_A_GETDEF, vint(-1));
    }
    p.end_body();
    p.simple(C19_CHECK); p.simple(C19_LEFT); p.simple(C19_CLEAR);
    return p;
}

struct Sweep { const char* name; bool ig; int maxE, maxA; int flagbits; int nfn; };

inline void run_scn_sweep(const Sweep& sw) {
    scn::Alphabet A = scn::make_alphabet(sw.ig, false, sw.nfn);
    long nE = scn::tuples_upto((long)A.eo.size(), sw.maxE), nA = scn::tuples_upto((long)A.ao.size(), sw.maxA);
    int nflags = 1 << sw.flagbits;
    long N = nE * nA * nflags;
    vf::info(std::string(sw.name) + ".bound", vf::fmt("C08 scenario space without onObject: <=%d expectations over %zu options (%d functions; counts 0..2; int parameters {p,q} in {1,2}%s) x <=%d actual calls over %zu options x %d flag combinations (strict order, ignoreOtherCalls%s); %ld index points before the renaming-symmetry filter; teardown checkExpectations, expectedCallsLeft, clear",
             sw.maxE, A.eo.size(), sw.nfn, sw.ig ? "; ignoreOtherParameters" : "", sw.maxA, A.ao.size(), nflags, sw.flagbits > 2 ? ", returnIntValueOrDefault read on every call, 1-byte output parameter" : "", N));
    vf::section_index(sw.name, N, [&](long idx) {
        vf::Radix r(idx);
        int flags = (int)r.take(nflags);
        long ia = r.take(nA), ie = r.take(nE);
        static thread_local std::vector<int> te, ta;
        scn::decode_tuple(ie, (long)A.eo.size(), te); scn::decode_tuple(ia, (long)A.ao.size(), ta);
        scn::Scenario s;
        s.strict = flags & 1; s.ignoreOtherCalls = flags & 2; s.readReturn = flags & 4; s.outParam = flags & 8;
        for (int i : te) s.exps.push_back(A.eo[i]);
        for (int i : ta) s.acts.push_back(A.ao[i]);
        if (!scn::canonical(s)) { vf::count("skipped_symmetric"); return; }
        differential(from_scenario(s), vf::fmt("%s%s", s.strict ? "strict" : "", s.ignoreOtherCalls ? "ioc" : ""));
    });
    vf::require_outcomes(sw.name, 8);
}

void run_typed_sections();     // c19 part (b)
void run_state_sections();     // modes / stale / comparator scopes

inline void run_sections() {
    bool T = vf::thorough();
    std::vector<Sweep> sweeps;
    if (sanitized()) {
        if (!T) sweeps = {{"scn12", true, 1, 2, 4, 2}};
        else    sweeps = {{"scn22", false, 2, 2, 2, 2}, {"scn12", true, 1, 2, 4, 2}};
    } else if (!T) {
        sweeps = {{"scn22", false, 2, 2, 2, 2}, {"scn12", true, 1, 2, 4, 2}};
    } else {
        sweeps = {{"scn22", false, 2, 2, 4, 2}, {"scn22i", true, 2, 2, 2, 2}, {"scn13", false, 1, 3, 4, 2}};
    }
    for (auto& sw : sweeps) run_scn_sweep(sw);
    run_typed_sections();
    run_state_sections();
}

} // namespace c19

// C14 - shared between the two translation units of the check.
// The driver replays a failing case without telling the binary which tier found it, so every section
// numbers its cases such that the quick space is a PREFIX of the thorough space: operand lists start
// with the quick operands, pairs are numbered in square shells (all pairs over the first q operands
// come before any pair that uses operand q), and dimensions that grow with the tier are outermost.
#pragma once
#include <cmath>
#include "vf.h"

namespace c14 {

// full (thorough) dimensions are used when running the thorough tier and when replaying
inline bool full_space() { return vf::thorough() || vf::g_replaying; }

// k -> (i, j): shell m = max(i, j) holds the 2m+1 pairs (0..m-1, m), (m, 0..m) at numbers m*m .. (m+1)^2-1
inline void shell_pair(long k, long& i, long& j)
{
    long m = (long)std::sqrt((double)k);
    while (m * m > k) m--;
    while ((m + 1) * (m + 1) <= k) m++;
    long r = k - m * m;
    if (r < m) { i = r; j = m; } else { i = m; j = r - m; }
}

// heavy cases: the engine refreshes its progress stamp only every 64 cases
inline void still_alive() { if (vf::g_me >= 0) vf::g_shm[vf::g_me].progress_ts = vf::now_s(); }

} // namespace c14

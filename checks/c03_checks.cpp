// C03 - every check macro records a failure exactly when the predicate it names is false for its
// operands, and is counted as exactly one check (a passing CHECK_COMPARE is the one uncounted kind).
//
// Deciding step: for every check macro ("kind") the complete cartesian product of its operand
// alphabets is enumerated; each tuple runs ONE check inside a fresh real test (TestTestingFixture:
// real UtestShell, TestRegistry::runAllTests, private TestResult) and the failure-count and
// check-count deltas are compared with a predicate computed independently (__int128 arithmetic,
// libc string functions, IEEE rules written out with directed rounding). The C-language variants
// are compiled as C from TestHarness_c.h (c03_capi.c).
#include <cmath>
#include <cfenv>
#include <cfloat>
#include <climits>
#include <cstdint>
#include <cstring>
#include <limits>
#include <memory>
#include <string>
#include <vector>
#include <functional>
#include <type_traits>
#define VF_MAIN
#include "vf.h"
#include "fixture.h"
#include "CppUTest/TestHarness_c.h"
#include "CppUTest/MemoryLeakWarningPlugin.h"
#undef new
#include "c03_capi.h"

namespace {

enum { P_FALSE = 0, P_TRUE = 1, P_ANY = 2 };   // predicate value; P_ANY = verdict not asserted (see notes)

struct Case {
    bool skip = false;            // tuple outside the domain of the check (e.g. block shorter than the size)
    std::string text;             // rendering of the operands
    int pred = P_ANY;
    int count = 1;                // expected check-count delta
    bool nontrivial = false;
    std::function<void()> body;   // executes exactly one check macro
};
struct Kind { std::string name; long n; std::function<Case(long)> make; };
struct Sec {
    std::string name;
    std::vector<Kind> kinds; std::vector<long> start; long total = 0;
    explicit Sec(const char* n) : name(n) {}
    void add(Kind k) { start.push_back(total); total += k.n; kinds.push_back(std::move(k)); }
};

bool g_after = false;

// ---------------------------------------------------------------- rendering
std::string i128s(__int128 v) {
    bool neg = v < 0; unsigned __int128 u = neg ? (unsigned __int128)0 - (unsigned __int128)v : (unsigned __int128)v;
    std::string s; do { s.insert(s.begin(), (char)('0' + (int)(u % 10))); u /= 10; } while (u);
    return (neg ? "-" : "") + s;
}
struct Buf { const unsigned char* p; size_t len; };          // memory block operand (p == NULL: the NULL block)
typedef void (*FnPtr)();
std::vector<std::pair<const void*, std::string> > g_ptrnames;
std::vector<std::pair<FnPtr, std::string> > g_fnnames;

template<class T> typename std::enable_if<std::is_integral<T>::value, std::string>::type R(T v) { return i128s((__int128)v); }
std::string R(double v) {
    if (std::isnan(v)) return "nan";
    if (std::isinf(v)) return v > 0 ? "+inf" : "-inf";
    return vf::fmt("%a", v);
}
std::string R(const char* s) { return s ? "\"" + vf::esc(s) + "\"" : std::string("NULL"); }
std::string R(const void* p) { for (auto& e : g_ptrnames) if (e.first == p) return e.second; return "?ptr"; }
std::string R(FnPtr p) { for (auto& e : g_fnnames) if (e.first == p) return e.second; return "?fn"; }
std::string R(Buf b) { if (!b.p) return "NULL"; return "[" + vf::esc(std::string((const char*)b.p, b.len)) + "]"; }

template<class A, class B> bool bitsame(const A& a, const B& b) {
    if (!std::is_same<A, B>::value || sizeof(A) != sizeof(B)) return false;
    return memcmp(&a, &b, sizeof(A)) == 0;
}
bool bitsame(Buf a, Buf b) { return a.p == b.p; }

// ---------------------------------------------------------------- kind builders (complete products)
void add0(Sec& s, const std::string& name, void (*fn)(), int pred, int count) {
    s.add({name, 1, [=](long) { Case c; c.text = ""; c.pred = pred; c.count = count; c.nontrivial = true; c.body = [=] { fn(); }; return c; }});
}
template<class T>
void add1(Sec& s, const std::string& name, const std::vector<T>& v, void (*fn)(T), std::function<int(T)> pred, int pass_count = 1) {
    auto pv = std::make_shared<std::vector<T> >(v);
    s.add({name, (long)v.size(), [=](long idx) {
        Case c; T x = (*pv)[idx];
        c.text = R(x); c.pred = pred(x); c.count = c.pred == P_TRUE ? pass_count : c.pred == P_FALSE ? 1 : -1;
        c.nontrivial = c.pred != P_TRUE || !bitsame(x, (T)1);
        c.body = [=] { fn(x); };
        return c; }});
}
template<class TE, class TA>
void add2(Sec& s, const std::string& name, const std::vector<TE>& ve, const std::vector<TA>& va, void (*fn)(TE, TA),
          std::function<int(TE, TA)> pred, int pass_count = 1) {
    auto pe = std::make_shared<std::vector<TE> >(ve); auto pa = std::make_shared<std::vector<TA> >(va);
    long na = (long)va.size();
    s.add({name, (long)ve.size() * na, [=](long idx) {
        Case c; TE e = (*pe)[idx / na]; TA a = (*pa)[idx % na];
        c.text = R(e) + ", " + R(a); c.pred = pred(e, a); c.count = c.pred == P_TRUE ? pass_count : c.pred == P_FALSE ? 1 : -1;
        c.nontrivial = c.pred != P_TRUE || !bitsame(e, a);
        c.body = [=] { fn(e, a); };
        return c; }});
}
template<class T1, class T2, class T3>
void add3(Sec& s, const std::string& name, const std::vector<T1>& v1, const std::vector<T2>& v2, const std::vector<T3>& v3,
          void (*fn)(T1, T2, T3), std::function<int(T1, T2, T3)> pred, std::function<bool(T1, T2, T3)> skip = nullptr) {
    auto p1 = std::make_shared<std::vector<T1> >(v1); auto p2 = std::make_shared<std::vector<T2> >(v2); auto p3 = std::make_shared<std::vector<T3> >(v3);
    long n2 = (long)v2.size(), n3 = (long)v3.size();
    s.add({name, (long)v1.size() * n2 * n3, [=](long idx) {
        Case c; T3 z = (*p3)[idx % n3]; T2 a = (*p2)[(idx / n3) % n2]; T1 e = (*p1)[idx / n3 / n2];
        if (skip && skip(e, a, z)) { c.skip = true; return c; }
        c.text = R(e) + ", " + R(a) + ", " + R(z); c.pred = pred(e, a, z); c.count = 1;
        c.nontrivial = c.pred != P_TRUE || !bitsame(e, a);
        c.body = [=] { fn(e, a, z); };
        return c; }});
}

// ---------------------------------------------------------------- executing one case
void run_case(const Sec& s, long idx) {
    size_t k = std::upper_bound(s.start.begin(), s.start.end(), idx) - s.start.begin() - 1;
    const Kind& kind = s.kinds[k];
    Case c = kind.make(idx - s.start[k]);
    if (c.skip) { vf::count("outside_domain"); return; }
    // signature stem: the macro name (no operand-type tag, no relational operator, no _TEXT suffix); the detail names the kind
    std::string stem = kind.name.substr(0, kind.name.find_first_of("<(")); { size_t p = stem.find("_TEXT"); if (p != std::string::npos) stem.erase(p, 5); }
    vf::ctx("check");       // crash attribution: one signature per section and crash site; the replay prints the kind and operands
    std::string what = kind.name + "(" + c.text + ")";
    if (vf::g_replaying) { printf("CASE\t%s\n", vf::sanitize(what).c_str()); fflush(stdout); }     // shown even when the check crashes
    g_after = false;
    size_t fails, checks, tests;
    {
        vf::Fixture f;
        f.run([&] { c.body(); c03_after(); });
        fails = f.failures(); checks = f.checks(); tests = f.fx.getTestCount();
    }
    vf::ctx("oracle");
    vf::count("ops");
    if (tests != 1) vf::harness_error("fixture did not run exactly one test");
    std::string obs = vf::fmt(" -> failures=%zu checks=%zu after=%d", fails, checks, (int)g_after);
    if (c.pred == P_FALSE && fails == 0) vf::fail(stem + "/false-pass", what + ": the predicate is false for these operands but no failure was recorded" + obs);
    if (c.pred == P_TRUE && fails != 0) vf::fail(stem + "/false-fail", what + ": the predicate holds for these operands but a failure was recorded" + obs);
    if (fails > 1) vf::fail(stem + "/more-than-one-failure", what + ": one check recorded several failures" + obs);
    int want = c.count;
    if (want < 0) want = fails ? 1 : (kind.name.compare(0, 13, "CHECK_COMPARE") == 0 ? 0 : 1);    // verdict unasserted: count follows the observed verdict
    if ((long)checks != want) vf::fail(stem + "/check-count", what + vf::fmt(": counted as %zu checks, expected %d", checks, want) + obs);
    vf::outcome(kind.name + (fails ? " fail" : " pass") + vf::fmt(" checks=%zu after=%d", checks, (int)g_after) + (c.pred == P_ANY ? " (verdict not asserted)" : ""));
    if (c.nontrivial) vf::count("nontrivial");
    if (c.pred == P_ANY) vf::count("verdict_not_asserted");
    if (fails) vf::count("observed_fail"); else vf::count("observed_pass");
    if (vf::g_replaying) { printf("OBSERVED\t%s\n", obs.c_str()); fflush(stdout); }
    else if (vf::want_sample()) vf::sample(what + obs);
}

void run_section(Sec& s, const std::string& bound, int min_outcomes = 0) {
    vf::info(s.name + ".bound", bound + vf::fmt(" [%zu check kinds, %ld tuples]", s.kinds.size(), s.total));
    std::string names;
    for (auto& k : s.kinds) names += (names.empty() ? "" : " ") + k.name;
    vf::info(s.name + ".kinds", names);
    vf::section_index(s.name, s.total, [&](long idx) { run_case(s, idx); });
    vf::require_outcomes(s.name, min_outcomes ? min_outcomes : (int)s.kinds.size() + 1);
}

// ---------------------------------------------------------------- alphabets
typedef __int128 I128;
const I128 ONE = 1;
std::vector<I128> lattice(int level) {
    // level 0: the boundary lattice of the design; 1: + more width boundaries; 2: every 2^k-1, 2^k, 2^k+1 (k=0..64), both signs
    std::vector<I128> v;
    auto around = [&](I128 c) { v.push_back(c - 1); v.push_back(c); v.push_back(c + 1); };
    I128 min64 = -(ONE << 63);
    v.push_back(min64); v.push_back(min64 + 1);
    around(-(ONE << 31)); around(-128); v.push_back(-1); v.push_back(0); v.push_back(1); around(128); around(256);
    around(ONE << 31); around(ONE << 32); v.push_back((ONE << 63) - 1); v.push_back(ONE << 63); v.push_back((ONE << 64) - 1);
    v.push_back(-2); v.push_back(2); around(ONE << 53); v.push_back((ONE << 64) - 2); v.push_back((ONE << 63) + 1);
    if (level >= 1) { around(ONE << 15); around(ONE << 16); around(-(ONE << 15)); around(-(ONE << 32)); around(-(ONE << 53)); around(ONE << 62); around(-(ONE << 62)); around(ONE << 24); around(ONE << 48); }
    if (level >= 2) for (int k = 0; k <= 64; k++) { around(ONE << k); around(-(ONE << k)); }
    std::sort(v.begin(), v.end()); v.erase(std::unique(v.begin(), v.end()), v.end());
    return v;
}
template<class T> std::vector<T> lat(const std::vector<I128>& L) {
    std::vector<T> r;
    for (I128 v : L) if (v >= (I128)std::numeric_limits<T>::min() && v <= (I128)std::numeric_limits<T>::max()) r.push_back((T)v);
    return r;
}
template<class T> std::vector<T> all_bytes() { std::vector<T> r; for (int i = 0; i < 256; i++) r.push_back((T)(unsigned char)i); return r; }

// exact-size heap copies, so that ASan sees every read beyond an operand
const char* heap_str(const std::string& s) { char* p = (char*)malloc(s.size() + 1); memcpy(p, s.c_str(), s.size() + 1); return p; }
Buf heap_buf(const std::string& s) { unsigned char* p = (unsigned char*)malloc(s.size()); if (s.size()) memcpy(p, s.data(), s.size()); return Buf{p, s.size()}; }
void words(const std::string& alphabet, size_t maxlen, std::vector<std::string>& out) {
    std::vector<std::string> cur(1, ""); out.push_back("");
    for (size_t l = 1; l <= maxlen; l++) {
        std::vector<std::string> nxt;
        for (auto& w : cur) for (char ch : alphabet) nxt.push_back(w + ch);
        out.insert(out.end(), nxt.begin(), nxt.end()); cur.swap(nxt);
    }
}
std::vector<std::string> uniq(std::vector<std::string> v) { std::sort(v.begin(), v.end()); v.erase(std::unique(v.begin(), v.end()), v.end()); return v; }

// ---------------------------------------------------------------- reference predicates
template<class TE, class TA> int eq_int(TE e, TA a) { return (I128)e == (I128)a ? P_TRUE : P_FALSE; }
std::string fold(const char* s) { std::string r(s); for (auto& ch : r) if (ch >= 'A' && ch <= 'Z') ch = (char)(ch - 'A' + 'a'); return r; }

int str_equal(const char* e, const char* a) { if (!e && !a) return P_TRUE; if (!e || !a) return P_FALSE; return strcmp(e, a) == 0; }
int str_nocase_equal(const char* e, const char* a) { if (!e && !a) return P_TRUE; if (!e || !a) return P_FALSE; return fold(e) == fold(a); }
// "actual contains expected". Two NULLs: not asserted (nothing is contained in "no string"; the library lets it pass)
int str_contains(const char* e, const char* a) { if (!e && !a) return P_ANY; if (!e || !a) return P_FALSE; return strstr(a, e) != NULL; }
int str_nocase_contains(const char* e, const char* a) { if (!e && !a) return P_ANY; if (!e || !a) return P_FALSE; return strstr(fold(a).c_str(), fold(e).c_str()) != NULL; }
// length-limited: "NULL strings ... equal only NULL" holds at every length, 0 included (the zero-length exemption of the
// statement is for blocks only)
int str_n_equal(const char* e, const char* a, size_t n) { if (!e && !a) return P_TRUE; if (!e || !a) return P_FALSE; return strncmp(e, a, n) == 0; }
int mem_equal(Buf e, Buf a, size_t n) { if (n == 0) return P_TRUE; if (!e.p && !a.p) return P_TRUE; if (!e.p || !a.p) return P_FALSE; return memcmp(e.p, a.p, n) == 0; }
bool mem_skip(Buf e, Buf a, size_t n) { return (e.p && e.len < n) || (a.p && a.len < n); }

// doubles with tolerance. NaN operand: never equal. Tolerance NaN or negative: outside the statement (not asserted).
// same value (== covers +0/-0 and the same infinity): equal. Otherwise equal iff |e-a| <= t, where |e-a| is taken
// both exactly (round-up of the difference decides it, since t is a double) and as the rounded double difference;
// where the two readings differ the verdict is not asserted. Tolerance +inf: everything that is not NaN is equal.
int dbl_equal(double e, double a, double t) {
    if (std::isnan(e) || std::isnan(a)) return P_FALSE;
    if (std::isnan(t) || (t < 0)) return P_ANY;
    if (e == a) return P_TRUE;
    if (std::isinf(t)) return P_TRUE;                          // +inf is a non-negative tolerance: every difference, an infinite one too, is "no more than" it
    if (std::isinf(e) || std::isinf(a)) return P_FALSE;        // different values, infinitely far apart, finite tolerance
    volatile double hi_v = e > a ? e : a, lo_v = e > a ? a : e, rn, up;
    int old = fegetround();
    fesetround(FE_TONEAREST); rn = hi_v - lo_v;
    fesetround(FE_UPWARD); up = hi_v - lo_v;
    fesetround(old);
    bool exact = up <= t, rounded = rn <= t;
    if (exact != rounded) return P_ANY;
    return exact ? P_TRUE : P_FALSE;
}

enum Rel { EQ, NE, LT, LE, GT, GE };
const char* REL_NAME[] = {"==", "!=", "<", "<=", ">", ">="};
template<class V> int rel_holds(int r, V e, V a) {    // V = I128 (exact) or double (IEEE: unordered => only != holds)
    switch (r) { case EQ: return e == a; case NE: return e != a; case LT: return e < a; case LE: return e <= a; case GT: return e > a; default: return e >= a; }
}

// ---------------------------------------------------------------- distinct functions / objects for the pointer checks
int g_obj[2]; int g_other;
void fn_f() { g_obj[0]++; }
void fn_g() { g_obj[1] += 2; }
void fn_h() { g_other += 3; }

enum EInt : int { EInt_zero = 0 };
enum EU8 : unsigned char { EU8_zero = 0 };
enum EUInt : unsigned int { EUInt_zero = 0 };
enum ELL : long long { ELL_zero = 0 };
enum EULL : unsigned long long { EULL_zero = 0 };

#define TXT "c03 text"
#define F1(T, stmt) ((void (*)(T))[](T v) { stmt; })
#define F2(TE, TA, stmt) ((void (*)(TE, TA))[](TE e, TA a) { stmt; })
#define F3(T1, T2, T3, stmt) ((void (*)(T1, T2, T3))[](T1 e, T2 a, T3 z) { stmt; })

template<class T> void add_int_cpp(Sec& s, const char* tname, const std::vector<T>& v, const std::vector<T>& vsmall) {
    std::string t = std::string("<") + tname + ">";
    add2<T, T>(s, "CHECK_EQUAL" + t, v, v, F2(T, T, CHECK_EQUAL(e, a)), eq_int<T, T>);
    add2<T, T>(s, "CHECK_EQUAL_TEXT" + t, vsmall, vsmall, F2(T, T, CHECK_EQUAL_TEXT(e, a, TXT)), eq_int<T, T>);
    add1<T>(s, "CHECK_EQUAL_ZERO" + t, v, F1(T, CHECK_EQUAL_ZERO(v)), [](T x) { return (int)(x == 0); });
    add1<T>(s, "CHECK_EQUAL_ZERO_TEXT" + t, v, F1(T, CHECK_EQUAL_ZERO_TEXT(v, TXT)), [](T x) { return (int)(x == 0); });
}
template<class T> void add_compare(Sec& s, const char* tname, const std::vector<T>& v, bool text_too) {
    std::string t = std::string("<") + tname + ">";
    typedef typename std::conditional<std::is_floating_point<T>::value, double, I128>::type V;
#define CMP(r, op) \
    add2<T, T>(s, std::string("CHECK_COMPARE(") + #op + ")" + t, v, v, F2(T, T, CHECK_COMPARE(e, op, a)), [](T e, T a) { return rel_holds<V>(r, (V)e, (V)a); }, 0); \
    if (text_too) add2<T, T>(s, std::string("CHECK_COMPARE_TEXT(") + #op + ")" + t, v, v, F2(T, T, CHECK_COMPARE_TEXT(e, op, a, TXT)), [](T e, T a) { return rel_holds<V>(r, (V)e, (V)a); }, 0);
    CMP(EQ, ==) CMP(NE, !=) CMP(LT, <) CMP(LE, <=) CMP(GT, >) CMP(GE, >=)
#undef CMP
}
template<class U> void add_bits(Sec& s, const char* w, const std::vector<I128>& B, void (*cfn)(U, U, U), void (*cfn_text)(U, U, U)) {
    std::vector<U> v; for (I128 x : B) v.push_back((U)(unsigned long long)x);
    std::sort(v.begin(), v.end()); v.erase(std::unique(v.begin(), v.end()), v.end());
    auto pred = [](U e, U a, U m) { return (int)(((unsigned long long)e & (unsigned long long)m) == ((unsigned long long)a & (unsigned long long)m)); };
    std::string t = std::string("<") + w + ">";
    add3<U, U, U>(s, "BITS_EQUAL" + t, v, v, v, F3(U, U, U, BITS_EQUAL(e, a, z)), pred);
    add3<U, U, U>(s, "BITS_EQUAL_TEXT" + t, v, v, v, F3(U, U, U, BITS_EQUAL_TEXT(e, a, z, TXT)), pred);
    add3<U, U, U>(s, "CHECK_EQUAL_C_BITS" + t, v, v, v, cfn, pred);
    add3<U, U, U>(s, "CHECK_EQUAL_C_BITS_TEXT" + t, v, v, v, cfn_text, pred);
}

} // namespace

extern "C" void c03_after(void) { g_after = true; }
static void run_tier(const bool T, const std::string sfx);

int main(int argc, char** argv) {
    vf::init(argc, argv, "C03");
    MemoryLeakWarningPlugin::turnOffNewDeleteOverloads();
    vf::info("rule", "for every check macro the complete product of its operand alphabets; each tuple executes exactly one check in a fresh real test "
                     "(TestTestingFixture) and failure/check count deltas are compared with an independently computed predicate; non-trivial = the predicate is "
                     "false, or it holds although the operands are not bitwise identical (masking, tolerance, case folding, length limit, +-0, distinct buffers, relational)");

    // harness self-test: an empty body is 0 failures / 0 checks, so every delta below is caused by the one macro
    if (!vf::g_replaying) {
        vf::Fixture f; f.run([] {});
        if (f.failures() != 0 || f.checks() != 0 || f.fx.getTestCount() != 1) vf::harness_error("empty fixture test is not 0 failures / 0 checks / 1 test");
    }

    // The driver replays a case without passing the tier, so case ids must not depend on it: the thorough
    // alphabets (supersets of the quick ones) live in sections of their own, named <section>_t. A normal run
    // enumerates the sections of its tier only; a replay builds both sets and executes the one that is named.
    for (int pass = 0; pass < 2; pass++) {
        const bool T = pass == 1;
        if (!vf::g_replaying && T != vf::thorough()) continue;
        run_tier(T, T ? "_t" : "");
    }
    return vf::finish();
}

static void run_tier(const bool T, const std::string sfx) {
    const std::vector<I128> L = lattice(T ? 2 : 0), LS = lattice(0), LM = lattice(T ? 1 : 0);
    auto lsz = [&](const std::vector<I128>& l) { return vf::fmt("%zu values in [-2^63, 2^64)", l.size()); };

    // ------------------------------------------------------------ boolean checks
    {
        Sec s(("bool" + sfx).c_str());
        std::vector<int> vi = {0, 1, 2, -1, 256, 65536, INT_MAX, INT_MIN};
        std::vector<bool> vb = {false, true};
        std::vector<long long> vl = {0, 1, -1, 1LL << 32, 1LL << 40, LLONG_MAX, LLONG_MIN, 3LL << 32};
        std::vector<double> vd = {0.0, -0.0, 0.5, -0.5, 4.9e-324, 1.0, HUGE_VAL, std::nan("")};
        if (g_ptrnames.empty()) {
            g_ptrnames.push_back({(const void*)0, "NULL"}); g_ptrnames.push_back({(const void*)&g_obj[0], "p"});
            g_ptrnames.push_back({(const void*)&g_obj[1], "p+1"}); g_ptrnames.push_back({(const void*)&g_other, "q"});
        }
        std::vector<const void*> vp = {(const void*)0, (const void*)&g_obj[0]};
#define BOOLKINDS(TY, tn, vals, truth) \
        add1<TY>(s, "CHECK<" tn ">", vals, F1(TY, CHECK(v)), [](TY x) { return (int)(truth); }); \
        add1<TY>(s, "CHECK_TEXT<" tn ">", vals, F1(TY, CHECK_TEXT(v, TXT)), [](TY x) { return (int)(truth); }); \
        add1<TY>(s, "CHECK_TRUE<" tn ">", vals, F1(TY, CHECK_TRUE(v)), [](TY x) { return (int)(truth); }); \
        add1<TY>(s, "CHECK_TRUE_TEXT<" tn ">", vals, F1(TY, CHECK_TRUE_TEXT(v, TXT)), [](TY x) { return (int)(truth); }); \
        add1<TY>(s, "CHECK_FALSE<" tn ">", vals, F1(TY, CHECK_FALSE(v)), [](TY x) { return (int)!(truth); }); \
        add1<TY>(s, "CHECK_FALSE_TEXT<" tn ">", vals, F1(TY, CHECK_FALSE_TEXT(v, TXT)), [](TY x) { return (int)!(truth); });
        BOOLKINDS(int, "int", vi, x != 0)
        BOOLKINDS(bool, "bool", vb, x)
        BOOLKINDS(long long, "long long", vl, x != 0)
        BOOLKINDS(double, "double", vd, x != 0.0)      // NaN is "true" in C and C++
        BOOLKINDS(const void*, "pointer", vp, x != 0)
        add1<int>(s, "CHECK_C", vi, c03c_check, [](int x) { return (int)(x != 0); });
        add1<int>(s, "CHECK_C_TEXT", vi, c03c_check_text, [](int x) { return (int)(x != 0); });
        run_section(s, "operands: int {0,1,2,-1,256,65536,INT_MAX,INT_MIN}; bool; long long {0,+-1,2^32,2^40,3*2^32,min,max}; double {+-0,+-0.5,denorm_min,1,inf,NaN}; pointer {NULL,p}; CHECK_C on the int values");
    }

    // ------------------------------------------------------------ integer equality, every width and signedness
    {
        Sec s(("int" + sfx).c_str());
        auto vl = lat<long>(L), vls = lat<long>(LS); auto vul = lat<unsigned long>(L), vuls = lat<unsigned long>(LS);
        auto vll = lat<long long>(L), vlls = lat<long long>(LS); auto vull = lat<unsigned long long>(L), vulls = lat<unsigned long long>(LS);
        auto vi = lat<int>(L), vis = lat<int>(LS); auto vu = lat<unsigned>(L), vus = lat<unsigned>(LS);
        auto vu8 = lat<unsigned char>(L);
        add2<long, long>(s, "LONGS_EQUAL", vl, vl, F2(long, long, LONGS_EQUAL(e, a)), eq_int<long, long>);
        add2<long, long>(s, "LONGS_EQUAL_TEXT", vls, vls, F2(long, long, LONGS_EQUAL_TEXT(e, a, TXT)), eq_int<long, long>);
        add2<unsigned, int>(s, "LONGS_EQUAL<unsigned,int>", vus, vis, F2(unsigned, int, LONGS_EQUAL(e, a)), eq_int<unsigned, int>);
        add2<int, long>(s, "LONGS_EQUAL<int,long>", vis, vls, F2(int, long, LONGS_EQUAL(e, a)), eq_int<int, long>);
        add2<unsigned long, unsigned long>(s, "UNSIGNED_LONGS_EQUAL", vul, vul, F2(unsigned long, unsigned long, UNSIGNED_LONGS_EQUAL(e, a)), eq_int<unsigned long, unsigned long>);
        add2<unsigned long, unsigned long>(s, "UNSIGNED_LONGS_EQUAL_TEXT", vuls, vuls, F2(unsigned long, unsigned long, UNSIGNED_LONGS_EQUAL_TEXT(e, a, TXT)), eq_int<unsigned long, unsigned long>);
        add2<unsigned, unsigned long>(s, "UNSIGNED_LONGS_EQUAL<unsigned,unsigned long>", vus, vuls, F2(unsigned, unsigned long, UNSIGNED_LONGS_EQUAL(e, a)), eq_int<unsigned, unsigned long>);
        add2<long long, long long>(s, "LONGLONGS_EQUAL", vll, vll, F2(long long, long long, LONGLONGS_EQUAL(e, a)), eq_int<long long, long long>);
        add2<long long, long long>(s, "LONGLONGS_EQUAL_TEXT", vlls, vlls, F2(long long, long long, LONGLONGS_EQUAL_TEXT(e, a, TXT)), eq_int<long long, long long>);
        add2<unsigned, long long>(s, "LONGLONGS_EQUAL<unsigned,long long>", vus, vlls, F2(unsigned, long long, LONGLONGS_EQUAL(e, a)), eq_int<unsigned, long long>);
        add2<unsigned long long, unsigned long long>(s, "UNSIGNED_LONGLONGS_EQUAL", vull, vull, F2(unsigned long long, unsigned long long, UNSIGNED_LONGLONGS_EQUAL(e, a)), eq_int<unsigned long long, unsigned long long>);
        add2<unsigned long long, unsigned long long>(s, "UNSIGNED_LONGLONGS_EQUAL_TEXT", vulls, vulls, F2(unsigned long long, unsigned long long, UNSIGNED_LONGLONGS_EQUAL_TEXT(e, a, TXT)), eq_int<unsigned long long, unsigned long long>);
        add_int_cpp<int>(s, "int", vi, vis); add_int_cpp<unsigned>(s, "unsigned", vu, vus);
        add_int_cpp<long>(s, "long", vl, vls); add_int_cpp<unsigned long>(s, "unsigned long", vul, vuls);
        add_int_cpp<long long>(s, "long long", vll, vlls); add_int_cpp<unsigned long long>(s, "unsigned long long", vull, vulls);
        add2<int, int>(s, "ENUMS_EQUAL_INT", vi, vi, F2(int, int, ENUMS_EQUAL_INT((EInt)e, (EInt)a)), eq_int<int, int>);
        add2<int, int>(s, "ENUMS_EQUAL_INT_TEXT", vis, vis, F2(int, int, ENUMS_EQUAL_INT_TEXT((EInt)e, (EInt)a, TXT)), eq_int<int, int>);
        add2<unsigned char, unsigned char>(s, "ENUMS_EQUAL_TYPE<unsigned char>", vu8, vu8, F2(unsigned char, unsigned char, ENUMS_EQUAL_TYPE(unsigned char, (EU8)e, (EU8)a)), eq_int<unsigned char, unsigned char>);
        add2<unsigned, unsigned>(s, "ENUMS_EQUAL_TYPE<unsigned>", vu, vu, F2(unsigned, unsigned, ENUMS_EQUAL_TYPE(unsigned int, (EUInt)e, (EUInt)a)), eq_int<unsigned, unsigned>);
        add2<long long, long long>(s, "ENUMS_EQUAL_TYPE<long long>", vll, vll, F2(long long, long long, ENUMS_EQUAL_TYPE(long long, (ELL)e, (ELL)a)), eq_int<long long, long long>);
        add2<unsigned long long, unsigned long long>(s, "ENUMS_EQUAL_TYPE<unsigned long long>", vull, vull, F2(unsigned long long, unsigned long long, ENUMS_EQUAL_TYPE(unsigned long long, (EULL)e, (EULL)a)), eq_int<unsigned long long, unsigned long long>);
        add2<unsigned long long, unsigned long long>(s, "ENUMS_EQUAL_TYPE_TEXT<unsigned long long>", vulls, vulls, F2(unsigned long long, unsigned long long, ENUMS_EQUAL_TYPE_TEXT(unsigned long long, (EULL)e, (EULL)a, TXT)), eq_int<unsigned long long, unsigned long long>);
        // C-language variants (operands of the parameter type of each entry point)
        add2<int, int>(s, "CHECK_EQUAL_C_INT", vi, vi, c03c_int, eq_int<int, int>);
        add2<int, int>(s, "CHECK_EQUAL_C_INT_TEXT", vis, vis, c03c_int_text, eq_int<int, int>);
        add2<unsigned, unsigned>(s, "CHECK_EQUAL_C_UINT", vu, vu, c03c_uint, eq_int<unsigned, unsigned>);
        add2<unsigned, unsigned>(s, "CHECK_EQUAL_C_UINT_TEXT", vus, vus, c03c_uint_text, eq_int<unsigned, unsigned>);
        add2<long, long>(s, "CHECK_EQUAL_C_LONG", vl, vl, c03c_long, eq_int<long, long>);
        add2<long, long>(s, "CHECK_EQUAL_C_LONG_TEXT", vls, vls, c03c_long_text, eq_int<long, long>);
        add2<unsigned long, unsigned long>(s, "CHECK_EQUAL_C_ULONG", vul, vul, c03c_ulong, eq_int<unsigned long, unsigned long>);
        add2<unsigned long, unsigned long>(s, "CHECK_EQUAL_C_ULONG_TEXT", vuls, vuls, c03c_ulong_text, eq_int<unsigned long, unsigned long>);
        add2<long long, long long>(s, "CHECK_EQUAL_C_LONGLONG", vll, vll, c03c_longlong, eq_int<long long, long long>);
        add2<long long, long long>(s, "CHECK_EQUAL_C_LONGLONG_TEXT", vlls, vlls, c03c_longlong_text, eq_int<long long, long long>);
        add2<unsigned long long, unsigned long long>(s, "CHECK_EQUAL_C_ULONGLONG", vull, vull, c03c_ulonglong, eq_int<unsigned long long, unsigned long long>);
        add2<unsigned long long, unsigned long long>(s, "CHECK_EQUAL_C_ULONGLONG_TEXT", vulls, vulls, c03c_ulonglong_text, eq_int<unsigned long long, unsigned long long>);
        run_section(s, "both operands over the boundary lattice intersected with the operand type: " + lsz(L) + " (TEXT and mixed-type variants: " + lsz(LS) + "): min, min+1, +-2^31 +-1, -129..-127, -2..2, 127..129, 255..257, 2^32 +-1, 2^53 +-1, 2^63 -1/+0/+1, 2^64-2, 2^64-1" + (T ? " plus every 2^k-1, 2^k, 2^k+1 and their negatives for k = 0..64" : ""));
    }

    // ------------------------------------------------------------ bytes: all 256 x 256 pairs
    {
        Sec s(("bytes" + sfx).c_str());
        auto u8 = all_bytes<unsigned char>(); auto s8 = all_bytes<signed char>(); auto c8 = all_bytes<char>();
        auto lowbyte_u = [](unsigned char e, unsigned char a) { return (int)(e == a); };
        auto lowbyte_s = [](signed char e, signed char a) { return (int)(e == a); };
        auto lowbyte_c = [](char e, char a) { return (int)(e == a); };
        add2<unsigned char, unsigned char>(s, "BYTES_EQUAL<unsigned char>", u8, u8, F2(unsigned char, unsigned char, BYTES_EQUAL(e, a)), lowbyte_u);
        add2<signed char, signed char>(s, "BYTES_EQUAL<signed char>", s8, s8, F2(signed char, signed char, BYTES_EQUAL(e, a)), lowbyte_s);
        add2<char, char>(s, "BYTES_EQUAL_TEXT<char>", c8, c8, F2(char, char, BYTES_EQUAL_TEXT(e, a, TXT)), lowbyte_c);
        add2<signed char, signed char>(s, "SIGNED_BYTES_EQUAL", s8, s8, F2(signed char, signed char, SIGNED_BYTES_EQUAL(e, a)), lowbyte_s);
        add2<signed char, signed char>(s, "SIGNED_BYTES_EQUAL_TEXT", s8, s8, F2(signed char, signed char, SIGNED_BYTES_EQUAL_TEXT(e, a, TXT)), lowbyte_s);
        // the kinds whose failure text renders the operands as characters use all ASCII plus boundary bytes >= 0x80
        // (4 in quick, 8 in thorough): failing pairs of such bytes are expensive while the failure-text defect exists
        const int hiq[] = {0x80, 0x81, 0xfe, 0xff}, hit[] = {0x80, 0x81, 0x9f, 0xa0, 0xc4, 0xe4, 0xfe, 0xff};
        std::vector<char> c8r; for (int i = 0; i < 128; i++) c8r.push_back((char)i);
        if (T) for (int h : hit) c8r.push_back((char)(unsigned char)h); else for (int h : hiq) c8r.push_back((char)(unsigned char)h);
        add2<char, char>(s, "CHECK_EQUAL<char>", c8r, c8r, F2(char, char, CHECK_EQUAL(e, a)), lowbyte_c);
        add2<char, char>(s, "CHECK_EQUAL_C_CHAR", c8r, c8r, c03c_char, lowbyte_c);
        add2<unsigned char, unsigned char>(s, "CHECK_EQUAL_C_UBYTE", u8, u8, c03c_ubyte, lowbyte_u);
        add2<signed char, signed char>(s, "CHECK_EQUAL_C_SBYTE", s8, s8, c03c_sbyte, lowbyte_s);
        std::vector<int> b256; for (int i = 0; i < 256; i++) b256.push_back(i);
        add2<int, int>(s, "CHECK_EQUAL_C_BOOL", b256, b256, c03c_bool, [](int e, int a) { return (int)((e != 0) == (a != 0)); });
        std::vector<int> bi = {0, 1, 2, -1, 256, 65536, INT_MAX, INT_MIN}; std::vector<bool> bb = {false, true};
        add2<int, int>(s, "CHECK_EQUAL_C_BOOL<int lattice>", bi, bi, c03c_bool, [](int e, int a) { return (int)((e != 0) == (a != 0)); });
        add2<int, int>(s, "CHECK_EQUAL_C_BOOL_TEXT", bi, bi, c03c_bool_text, [](int e, int a) { return (int)((e != 0) == (a != 0)); });
        add2<bool, bool>(s, "CHECK_EQUAL<bool>", bb, bb, F2(bool, bool, CHECK_EQUAL(e, a)), [](bool e, bool a) { return (int)(e == a); });
        if (T) {
            add2<unsigned char, unsigned char>(s, "BYTES_EQUAL_TEXT<unsigned char>", u8, u8, F2(unsigned char, unsigned char, BYTES_EQUAL_TEXT(e, a, TXT)), lowbyte_u);
            add2<char, char>(s, "CHECK_EQUAL_C_CHAR_TEXT", c8r, c8r, c03c_char_text, lowbyte_c);
            add2<unsigned char, unsigned char>(s, "CHECK_EQUAL_C_UBYTE_TEXT", u8, u8, c03c_ubyte_text, lowbyte_u);
            add2<signed char, signed char>(s, "CHECK_EQUAL_C_SBYTE_TEXT", s8, s8, c03c_sbyte_text, lowbyte_s);
        } else {
            std::vector<unsigned char> u8s = {0, 1, 0x7f, 0x80, 0xff}; std::vector<signed char> s8s = {0, 1, 127, -128, -1}; std::vector<char> c8s = {0, 1, 127, (char)-128, (char)-1};
            add2<char, char>(s, "CHECK_EQUAL_C_CHAR_TEXT", c8s, c8s, c03c_char_text, lowbyte_c);
            add2<unsigned char, unsigned char>(s, "CHECK_EQUAL_C_UBYTE_TEXT", u8s, u8s, c03c_ubyte_text, lowbyte_u);
            add2<signed char, signed char>(s, "CHECK_EQUAL_C_SBYTE_TEXT", s8s, s8s, c03c_sbyte_text, lowbyte_s);
        }
        run_section(s, std::string("all 256 x 256 byte pairs per kind (unsigned char, signed char, char") + (T ? "; CHECK_EQUAL<char>, CHECK_EQUAL_C_CHAR(_TEXT): 0..127 and 8 bytes >= 0x80, squared" : "; CHECK_EQUAL<char> and CHECK_EQUAL_C_CHAR: 0..127 and 0x80,0x81,0xfe,0xff squared") + "); C BOOL over 0..255 squared and an int lattice squared; C *_TEXT byte kinds over " + (T ? "all pairs" : "{0,1,0x7f,0x80,0xff} squared"));
    }

    // ------------------------------------------------------------ pointers
    {
        Sec s(("ptr" + sfx).c_str());
        std::vector<const void*> vp = {(const void*)0, (const void*)&g_obj[0], (const void*)&g_obj[1], (const void*)&g_other};
        if (g_fnnames.empty()) { g_fnnames.push_back({(FnPtr)0, "NULL"}); g_fnnames.push_back({fn_f, "f"}); g_fnnames.push_back({fn_g, "g"}); g_fnnames.push_back({fn_h, "h"}); }
        std::vector<FnPtr> vf_ = {(FnPtr)0, fn_f, fn_g, fn_h};
        if (fn_f == fn_g || fn_g == fn_h || fn_f == fn_h) vf::harness_error("function pointer alphabet is not distinct");
        auto peq = [](const void* e, const void* a) { return (int)((uintptr_t)e == (uintptr_t)a); };
        auto feq = [](FnPtr e, FnPtr a) { return (int)((uintptr_t)e == (uintptr_t)a); };
        add2<const void*, const void*>(s, "POINTERS_EQUAL", vp, vp, F2(const void*, const void*, POINTERS_EQUAL(e, a)), peq);
        add2<const void*, const void*>(s, "POINTERS_EQUAL_TEXT", vp, vp, F2(const void*, const void*, POINTERS_EQUAL_TEXT(e, a, TXT)), peq);
        add2<const void*, const void*>(s, "CHECK_EQUAL<const void*>", vp, vp, F2(const void*, const void*, CHECK_EQUAL(e, a)), peq);
        add2<FnPtr, FnPtr>(s, "FUNCTIONPOINTERS_EQUAL", vf_, vf_, F2(FnPtr, FnPtr, FUNCTIONPOINTERS_EQUAL(e, a)), feq);
        add2<FnPtr, FnPtr>(s, "FUNCTIONPOINTERS_EQUAL_TEXT", vf_, vf_, F2(FnPtr, FnPtr, FUNCTIONPOINTERS_EQUAL_TEXT(e, a, TXT)), feq);
        add2<const void*, const void*>(s, "CHECK_EQUAL_C_POINTER", vp, vp, c03c_pointer, peq);
        add2<const void*, const void*>(s, "CHECK_EQUAL_C_POINTER_TEXT", vp, vp, c03c_pointer_text, peq);
        run_section(s, "both operands over {NULL, p, p+1, q} (object pointers) / {NULL, f, g, h} (function pointers)");
    }

    // ------------------------------------------------------------ doubles with tolerance
    std::vector<double> D;
    {
        const double dmin = std::numeric_limits<double>::denorm_min(), eps = DBL_EPSILON, inf = HUGE_VAL;
        D = {0.0, -0.0, dmin, -dmin, DBL_MIN, -DBL_MIN, 0.5, std::nextafter(1.0, 0.0), 1.0, 1.0 + eps, 1.5, 2.0, 3.0, -1.0, -(1.0 + eps),
             std::nextafter(DBL_MAX, 0.0), DBL_MAX, -DBL_MAX, inf, -inf, std::nan("")};
        if (T) { double more[] = {-0.5, 2 * dmin, std::nextafter(DBL_MIN, 0.0), 1e-300, 1e300, -1e300, 0.1, 0.2, 0.3, 1.0 + 2 * eps, -2.0, DBL_MAX / 2, -std::nan("")}; D.insert(D.end(), more, more + sizeof more / sizeof *more); }
        std::vector<double> TOL = {0.0, -0.0, dmin, eps / 2, eps, 0.5, 1.0, 2.0, DBL_MAX, inf, std::nan(""), -1.0};
        if (T) { double more[] = {DBL_MIN, 2 * eps, 0.1, 1e300, std::nextafter(DBL_MAX, 0.0), -dmin, -inf}; TOL.insert(TOL.end(), more, more + sizeof more / sizeof *more); }
        Sec s(("double" + sfx).c_str());
        add3<double, double, double>(s, "DOUBLES_EQUAL", D, D, TOL, F3(double, double, double, DOUBLES_EQUAL(e, a, z)), dbl_equal);
        add3<double, double, double>(s, "DOUBLES_EQUAL_TEXT", D, D, TOL, F3(double, double, double, DOUBLES_EQUAL_TEXT(e, a, z, TXT)), dbl_equal);
        add3<double, double, double>(s, "CHECK_EQUAL_C_REAL", D, D, TOL, c03c_real, dbl_equal);
        add3<double, double, double>(s, "CHECK_EQUAL_C_REAL_TEXT", D, D, TOL, c03c_real_text, dbl_equal);
        add2<double, double>(s, "CHECK_EQUAL<double>", D, D, F2(double, double, CHECK_EQUAL(e, a)), [](double e, double a) { return (int)(e == a); });
        run_section(s, vf::fmt("operands over %zu doubles {+-0, +-denorm_min, +-DBL_MIN, 0.5, 1-eps/2, 1, 1+eps, 1.5, 2, 3, -1, -(1+eps), DBL_MAX and its predecessor, -DBL_MAX, +-inf, NaN%s} squared x %zu tolerances {+-0, denorm_min, eps/2, eps, 0.5, 1, 2, DBL_MAX, +inf, NaN, -1%s}; verdict not asserted for NaN/negative tolerance and where the exact and the rounded difference disagree about <= tolerance",
                               D.size(), T ? ", ..." : "", TOL.size(), T ? ", ..." : ""));
    }

    // ------------------------------------------------------------ C strings
    {
        std::vector<std::string> w;
        words("aAb", T ? 4 : 3, w);
        words(std::string("aAzZ@`[{b") + "\xe4", T ? 2 : 1, w);     // ASCII case-folding boundaries and one byte >= 0x80 ...
        words("\xc4", 1, w);                                          // ... and a second one (0xe4 - 0x20) as a single character
        w = uniq(w);
        std::vector<const char*> se(1, (const char*)0), sa(1, (const char*)0);      // two pools: equal contents never share a buffer
        for (auto& x : w) { se.push_back(heap_str(x)); sa.push_back(heap_str(x)); }
        std::vector<size_t> lens = {0, 1, 2, 3, 4, (size_t)-1};
        if (T) lens.push_back(5);
        Sec s(("str" + sfx).c_str());
        typedef const char* S;
        add2<S, S>(s, "STRCMP_EQUAL", se, sa, F2(S, S, STRCMP_EQUAL(e, a)), str_equal);
        add2<S, S>(s, "STRCMP_EQUAL_TEXT", se, sa, F2(S, S, STRCMP_EQUAL_TEXT(e, a, TXT)), str_equal);
        add2<S, S>(s, "STRCMP_NOCASE_EQUAL", se, sa, F2(S, S, STRCMP_NOCASE_EQUAL(e, a)), str_nocase_equal);
        add2<S, S>(s, "STRCMP_NOCASE_EQUAL_TEXT", se, sa, F2(S, S, STRCMP_NOCASE_EQUAL_TEXT(e, a, TXT)), str_nocase_equal);
        add2<S, S>(s, "STRCMP_CONTAINS", se, sa, F2(S, S, STRCMP_CONTAINS(e, a)), str_contains);
        add2<S, S>(s, "STRCMP_CONTAINS_TEXT", se, sa, F2(S, S, STRCMP_CONTAINS_TEXT(e, a, TXT)), str_contains);
        add2<S, S>(s, "STRCMP_NOCASE_CONTAINS", se, sa, F2(S, S, STRCMP_NOCASE_CONTAINS(e, a)), str_nocase_contains);
        add2<S, S>(s, "STRCMP_NOCASE_CONTAINS_TEXT", se, sa, F2(S, S, STRCMP_NOCASE_CONTAINS_TEXT(e, a, TXT)), str_nocase_contains);
        add2<S, S>(s, "CHECK_EQUAL_C_STRING", se, sa, c03c_string, str_equal);
        add2<S, S>(s, "CHECK_EQUAL_C_STRING_TEXT", se, sa, c03c_string_text, str_equal);
        add3<S, S, size_t>(s, "STRNCMP_EQUAL", se, sa, lens, F3(S, S, size_t, STRNCMP_EQUAL(e, a, z)), str_n_equal);
        add3<S, S, size_t>(s, "STRNCMP_EQUAL_TEXT", se, sa, lens, F3(S, S, size_t, STRNCMP_EQUAL_TEXT(e, a, z, TXT)), str_n_equal);
        run_section(s, vf::fmt("both operands over NULL and %zu strings (every string over {a,A,b} of length <= %d, every string over {a,A,z,Z,@,`,[,{,b,0xe4} of length <= %d, the string {0xc4}), held in exact-size heap buffers of two separate pools; STRNCMP lengths {0..%d, SIZE_MAX}",
                               w.size(), T ? 4 : 3, T ? 2 : 1, T ? 5 : 4));
    }

    // ------------------------------------------------------------ substring search: haystacks longer than the needle
    // (needles with a self-overlapping prefix that occur only inside an earlier partial match need length(haystack) >
    // length(needle) + 1, which the all-pairs section above does not reach)
    {
        std::vector<std::string> hw, nw;
        words("aAb", T ? 6 : 5, hw); words("aAb", T ? 4 : 3, nw);
        std::vector<const char*> ne(1, (const char*)0), ha(1, (const char*)0);
        for (auto& x : nw) ne.push_back(heap_str(x));
        for (auto& x : hw) ha.push_back(heap_str(x));
        Sec s(("contains" + sfx).c_str());
        typedef const char* S;
        add2<S, S>(s, "STRCMP_CONTAINS", ne, ha, F2(S, S, STRCMP_CONTAINS(e, a)), str_contains);
        add2<S, S>(s, "STRCMP_CONTAINS_TEXT", ne, ha, F2(S, S, STRCMP_CONTAINS_TEXT(e, a, TXT)), str_contains);
        add2<S, S>(s, "STRCMP_NOCASE_CONTAINS", ne, ha, F2(S, S, STRCMP_NOCASE_CONTAINS(e, a)), str_nocase_contains);
        add2<S, S>(s, "STRCMP_NOCASE_CONTAINS_TEXT", ne, ha, F2(S, S, STRCMP_NOCASE_CONTAINS_TEXT(e, a, TXT)), str_nocase_contains);
        run_section(s, vf::fmt("expected (needle) over NULL and every string over {a,A,b} of length <= %d (%zu) x actual (haystack) over NULL and every string over {a,A,b} of length <= %d (%zu); exact-size heap buffers; oracle libc strstr on the (folded) operands",
                               T ? 4 : 3, nw.size(), T ? 6 : 5, hw.size()));
    }

    // ------------------------------------------------------------ long strings and blocks: single differences at every position
    {
        std::vector<int> ns = {7, 8, 9, 16, 17};
        if (T) { int more[] = {4, 5, 15, 31, 32, 33, 63, 64, 65}; ns.insert(ns.end(), more, more + sizeof more / sizeof *more); }
        Sec s(("long" + sfx).c_str());
        typedef const char* S;
        std::string nlist;
        for (int n : ns) {
            std::string base; for (int i = 0; i < n; i++) base += "abAB"[i % 4];
            std::vector<std::string> v; v.push_back(base); v.push_back(base.substr(0, n - 1)); v.push_back(base.substr(1)); v.push_back(base + "z");
            for (int i = 0; i < n; i++) { std::string x = base; x[i] = 'z'; v.push_back(x); x = base; x[i] = (char)(x[i] ^ 0x20); v.push_back(x); }
            std::vector<const char*> se(1, (const char*)0), sa(1, (const char*)0);
            for (auto& x : v) { se.push_back(heap_str(x)); sa.push_back(heap_str(x)); }
            std::vector<size_t> lens = {0, 1, (size_t)n - 1, (size_t)n, (size_t)n + 1, (size_t)-1};
            std::string t = vf::fmt("<n=%d>", n); nlist += vf::fmt("%s%d", nlist.empty() ? "" : ",", n);
            add2<S, S>(s, "STRCMP_EQUAL" + t, se, sa, F2(S, S, STRCMP_EQUAL(e, a)), str_equal);
            add2<S, S>(s, "STRCMP_NOCASE_EQUAL" + t, se, sa, F2(S, S, STRCMP_NOCASE_EQUAL(e, a)), str_nocase_equal);
            add2<S, S>(s, "STRCMP_CONTAINS" + t, se, sa, F2(S, S, STRCMP_CONTAINS(e, a)), str_contains);
            add2<S, S>(s, "STRCMP_NOCASE_CONTAINS" + t, se, sa, F2(S, S, STRCMP_NOCASE_CONTAINS(e, a)), str_nocase_contains);
            add2<S, S>(s, "CHECK_EQUAL_C_STRING" + t, se, sa, c03c_string, str_equal);
            add3<S, S, size_t>(s, "STRNCMP_EQUAL" + t, se, sa, lens, F3(S, S, size_t, STRNCMP_EQUAL(e, a, z)), str_n_equal);
            // blocks of n bytes: the base block and the base with one byte changed at each position
            std::string bb; for (int i = 0; i < n; i++) bb += (char)(unsigned char)((i * 37 + 1) & 0xff);
            std::vector<Buf> be, ba; be.push_back(heap_buf(bb)); ba.push_back(heap_buf(bb));
            for (int i = 0; i < n; i++) { std::string x = bb; x[i] = (char)(x[i] ^ 0x80); be.push_back(heap_buf(x)); ba.push_back(heap_buf(x)); }
            std::vector<size_t> sizes = {0, 1, (size_t)n - 1, (size_t)n};
            add3<Buf, Buf, size_t>(s, "MEMCMP_EQUAL" + t, be, ba, sizes, F3(Buf, Buf, size_t, MEMCMP_EQUAL(e.p, a.p, z)), mem_equal, mem_skip);
            add3<Buf, Buf, size_t>(s, "CHECK_EQUAL_C_MEMCMP" + t, be, ba, sizes, F3(Buf, Buf, size_t, c03c_memcmp(e.p, a.p, z)), mem_equal, mem_skip);
        }
        run_section(s, "for each length n in {" + nlist + "}: both operands over the base string (abAB repeated, n characters), the base without its last / without its first character, the base plus one character, and the base with the character at each position replaced / case-flipped (NULL and 2n+4 strings, all pairs, two pools); STRNCMP lengths {0,1,n-1,n,n+1,SIZE_MAX}; blocks: the n-byte base block and the base with one byte changed at each position, all pairs x sizes {0,1,n-1,n}");
    }

    // ------------------------------------------------------------ memory blocks
    {
        std::vector<std::string> w;
        words(std::string("\x00\x01\xff", 3), T ? 4 : 3, w);
        std::vector<Buf> be(1, Buf{0, 0}), ba(1, Buf{0, 0});
        for (auto& x : w) { be.push_back(heap_buf(x)); ba.push_back(heap_buf(x)); }
        std::vector<size_t> sizes = {0, 1, 2, 3}; if (T) sizes.push_back(4);
        Sec s(("mem" + sfx).c_str());
        add3<Buf, Buf, size_t>(s, "MEMCMP_EQUAL", be, ba, sizes, F3(Buf, Buf, size_t, MEMCMP_EQUAL(e.p, a.p, z)), mem_equal, mem_skip);
        add3<Buf, Buf, size_t>(s, "MEMCMP_EQUAL_TEXT", be, ba, sizes, F3(Buf, Buf, size_t, MEMCMP_EQUAL_TEXT(e.p, a.p, z, TXT)), mem_equal, mem_skip);
        add3<Buf, Buf, size_t>(s, "CHECK_EQUAL_C_MEMCMP", be, ba, sizes, F3(Buf, Buf, size_t, c03c_memcmp(e.p, a.p, z)), mem_equal, mem_skip);
        add3<Buf, Buf, size_t>(s, "CHECK_EQUAL_C_MEMCMP_TEXT", be, ba, sizes, F3(Buf, Buf, size_t, c03c_memcmp_text(e.p, a.p, z)), mem_equal, mem_skip);
        run_section(s, vf::fmt("both operands over NULL and every block over {0x00,0x01,0xff} of length <= %d (exact-size heap blocks, two pools) x size 0..%d; tuples whose size exceeds a non-NULL block are outside the domain and skipped", T ? 4 : 3, T ? 4 : 3));
    }

    // ------------------------------------------------------------ masked bits
    {
        std::vector<I128> B = {0, 1, 2, 0x7f, 0x80, 0xff, 0xfe, 0x100, 0x8000, 0xffff, 0x10000, ONE << 31, (ONE << 32) - 1, ONE << 32, ONE << 63, (ONE << 64) - 1,
                               (I128)0x5555555555555555ULL, (I128)0xaaaaaaaaaaaaaaaaULL};
        if (T) { I128 more[] = {3, 0x0f, 0xf0, 0x7fff, 0xff00, (ONE << 31) - 1, (ONE << 33), (ONE << 63) - 1, (ONE << 64) - 2, (I128)0xffffffff00000000ULL, (I128)0x00000000ffff0000ULL}; B.insert(B.end(), more, more + sizeof more / sizeof *more); }
        Sec s(("bits" + sfx).c_str());
        add_bits<unsigned char>(s, "w1", B, c03c_bits_w1, c03c_bits_w1_text);
        add_bits<unsigned short>(s, "w2", B, c03c_bits_w2, c03c_bits_w2_text);
        add_bits<unsigned int>(s, "w4", B, c03c_bits_w4, c03c_bits_w4_text);
        add_bits<unsigned long long>(s, "w8", B, c03c_bits_w8, c03c_bits_w8_text);
        run_section(s, vf::fmt("expected, actual and mask over a %zu-value bit lattice truncated to the operand width (cube), operand widths 1, 2, 4, 8 bytes (unsigned types), C++ and C macros", B.size()));
    }

    // ------------------------------------------------------------ relational comparison
    {
        Sec s(("cmp" + sfx).c_str());
        add_compare<int>(s, "int", lat<int>(LM), false);
        add_compare<unsigned>(s, "unsigned", lat<unsigned>(LM), false);
        add_compare<long long>(s, "long long", lat<long long>(LM), true);
        add_compare<unsigned long long>(s, "unsigned long long", lat<unsigned long long>(LM), false);
        add_compare<double>(s, "double", D, false);
        run_section(s, "CHECK_COMPARE with ==, !=, <, <=, >, >= ; both operands of one type over the integer lattice (" + lsz(LM) + ") intersected with int / unsigned / long long / unsigned long long, and over the double alphabet; a passing comparison is expected to count 0 checks, a failing one 1");
    }

    // ------------------------------------------------------------ unconditional failures, exceptions
    {
        Sec s(("misc" + sfx).c_str());
        add0(s, "FAIL", [] { FAIL(TXT); }, P_FALSE, 1);
        add0(s, "FAIL_TEST", [] { FAIL_TEST(TXT); }, P_FALSE, 1);
        add0(s, "FAIL_C", c03c_fail, P_FALSE, 1);
        add0(s, "FAIL_TEXT_C", c03c_fail_text, P_FALSE, 1);
#if CPPUTEST_HAVE_EXCEPTIONS
        add0(s, "CHECK_THROWS(expected thrown)", [] { CHECK_THROWS(int, throw 4); }, P_TRUE, 1);
        add0(s, "CHECK_THROWS(other thrown)", [] { CHECK_THROWS(int, throw 4.0); }, P_FALSE, 1);
        add0(s, "CHECK_THROWS(nothing thrown)", [] { CHECK_THROWS(int, (void)0); }, P_FALSE, 1);
        add0(s, "CHECK_THROWS(derived thrown)", [] { struct Bs { int x; }; struct Dv : Bs {}; CHECK_THROWS(Bs, throw Dv()); }, P_TRUE, 1);
#endif
        run_section(s, "FAIL, FAIL_TEST, FAIL_C, FAIL_TEXT_C (always fail, one check); CHECK_THROWS with the expected type, a derived type, another type, nothing thrown (only where exceptions are enabled)", 4);
    }
}


// C15 - injected out-of-memory hits exactly the designated allocations.
//
// Deciding step: every scripted history up to a length bound over
//   {allocate at location A/B/C (through allocator family malloc/new/new[]), register one designated
//    failure (global index or location x local index), clearFailedAllocs, checkAllFailedAllocsWereDone}
// is executed on a fresh real FailableMemoryAllocator and compared, operation by operation, with a
// reference model written from the property text (sections "direct", "realtest" and "mixed"); every
// (workload over malloc/calloc/strdup/strndup) x (arming position) x (countdown value) x (restore
// position) x (second arming before the restore) is executed on the C-level out-of-memory simulation
// (section "cdown").
//
// Sections:
//   direct   FailableMemoryAllocator::alloc_memory called directly; the failure raised by the check is
//            received by a recording UtestShell installed as current test.
//   realtest as direct, shorter histories; the check is called inside a test run by the real registry.
//   mixed   the same allocator installed as current malloc, new and new[] allocator under the global
//           leak detector; allocations through cpputest_malloc_location / operator new(size,file,line)
//           / operator new[](size,file,line); failure observed as NULL or bad_alloc.
//   cdown   cpputest_malloc_set_out_of_memory[_countdown] / set_not_out_of_memory with
//           cpputest_malloc/calloc/strdup/strndup.
#include <new>
#include <deque>
#include <csetjmp>
#include <csignal>
#include <cstdint>
#define VF_MAIN
#include "vf.h"
#include "fixture.h"
#include "CppUTest/TestMemoryAllocator.h"
#include "CppUTest/MemoryLeakWarningPlugin.h"
#include "CppUTest/MemoryLeakDetector.h"
#include "CppUTest/TestHarness_c.h"
#undef new

namespace {

// ------------------------------------------------------------------ locations
// A and B share the file and differ in the line, A and C share the line and differ in the file.
// Registration and use pass different character arrays with equal content (a location is a file
// *name* and a line, not a pointer).
char FILE_REG_A[] = "alpha.c", FILE_REG_B[] = "alpha.c";
char FILE_USE_A[] = "alpha.c", FILE_USE_B[] = "alpha.c", FILE_USE_C[] = "beta.c";
struct Loc { const char* reg; const char* use; size_t line; const char* name; };
const Loc DEFAULT_LOCS[3] = {{FILE_REG_A, FILE_USE_A, 10, "A"}, {FILE_REG_B, FILE_USE_B, 20, "B"}, {FILE_USE_C, FILE_USE_C, 10, "C"}};
// The three location roles of the history being executed (one process executes one history at a time).
const Loc* LOCS = DEFAULT_LOCS;
// reference: a location is the text of the file name plus the line
bool same_loc(int a, int b) { return strcmp(LOCS[a].use, LOCS[b].use) == 0 && LOCS[a].line == LOCS[b].line; }

// ---- location sets of the *_paths sections: A and B are designated, C never. Every name exists in two
// separately allocated buffers with equal text (registration / allocation).
struct LocSet { Loc l[3]; std::string desc; };
std::vector<LocSet> LOCSETS;
std::deque<std::string> g_names;                       // stable storage
const char* keep_name(const std::string& s) { g_names.push_back(s); return g_names.back().c_str(); }
std::string path_of(size_t n) {                         // deterministic path text of length n, no ':' in it
    std::string s; const char* unit = "/build/tree/component_";
    for (size_t i = 0; s.size() < n; i++) { s += unit; s += (char)('a' + i % 26); }
    s.resize(n); return s;
}
void add_set(const std::string& desc, const std::string& fa, size_t la, const std::string& fb, size_t lb, const std::string& fc, size_t lc) {
    LocSet x; x.desc = desc;
    x.l[0] = Loc{keep_name(fa), keep_name(fa), la, "A"};
    x.l[1] = Loc{keep_name(fb), keep_name(fb), lb, "B"};
    x.l[2] = Loc{keep_name(fc), keep_name(fc), lc, "C"};
    LOCSETS.push_back(x);
}
void build_locsets() {
    const size_t SM = (size_t)-1;
    std::string p126 = path_of(126), p127 = p126 + "x", p128 = p127 + "y", p129 = p128 + "z";
    std::string c127 = path_of(127), c255 = path_of(255), p300 = path_of(300), p1000 = path_of(1000);
    std::string q1000 = p1000, r1000 = p1000; q1000[999] = '#'; r1000[500] = '#';
    add_set("A=alpha.c:10 B=alpha.c:20 C=beta.c:10", "alpha.c", 10, "alpha.c", 20, "beta.c", 10);
    add_set("A=<126 chars>:10 B=A+'x' (127, A is a proper prefix):10 C=B+'y' (128):10", p126, 10, p127, 10, p128, 10);
    add_set("A=<128>:1 B=A+'z' (129):1 C=<127, prefix of A>:1", p128, 1, p129, 1, p127, 1);
    add_set("A=<127 common>a.c:42 B=<same 127>b.c:42 C=<the 127 common chars>:42", c127 + "a.c", 42, c127 + "b.c", 42, c127, 42);
    add_set("A=<255>:0 B=A+'q' (256):0 C=<255, same text as A>:1", c255, 0, c255 + "q", 0, c255, 1);
    add_set("A=<255 common>a:7 B=<same 255>b:7 C=<same 255>c:7", c255 + "a", 7, c255 + "b", 7, c255 + "c", 7);
    add_set("A=<300>:SIZE_MAX B=<same 300>:SIZE_MAX-1 C=<same 300>:0", p300, SM, p300, SM - 1, p300, 0);
    add_set("A=<1000>:10 B=<1000, last char differs>:10 C=<1000, char 500 differs>:10", p1000, 10, q1000, 10, r1000, 10);
    add_set("A=<empty name>:10 B=<empty name>:0 C=x:10", "", 10, "", 0, "x", 10);
    add_set("A=alpha.c:0 B=alpha.c:1 C=alpha.c:SIZE_MAX", "alpha.c", 0, "alpha.c", 1, "alpha.c", SM);
    add_set("A=gamma.c:5 B=delta.c:5 C=gamma.c:5 (C is the same location as A, in a third buffer)", "gamma.c", 5, "delta.c", 5, "gamma.c", 5);
    add_set("A=<129>:3 B=<same 129>:4 C=<same 129>:3 (C is the same location as A, in a third buffer)", p129, 3, p129, 4, p129, 3);
    // registration and use must not share a buffer
    for (auto& x : LOCSETS) for (auto& l : x.l) if (l.reg == l.use) vf::harness_error("location buffers shared");
}

struct Desig { int loc; int n; };            // loc < 0: global index n; else n-th allocation at LOCS[loc]
// simplest first
const Desig DESIGS_DIRECT[9] = {{-1, 1}, {-1, 2}, {0, 1}, {0, 2}, {1, 1}, {-1, 3}, {0, 3}, {1, 2}, {-1, 4}};
const Desig DESIGS_MIXED[6] = {{-1, 1}, {-1, 2}, {0, 1}, {0, 2}, {1, 1}, {-1, 3}};

std::string desig_str(Desig d) { return d.loc < 0 ? vf::fmt("fail#%d", d.n) : vf::fmt("fail(%s,%d)", LOCS[d.loc].name, d.n); }

// ------------------------------------------------------------------ script
enum Kind { ALLOC, DESIGNATE, CLEAR, CHECK };
enum Family { F_DIRECT, F_MALLOC, F_NEW, F_NEWARRAY };
const char* FAM_NAME[] = {"alloc", "malloc", "new", "new[]"};
struct Op { Kind kind; int loc; int fam; Desig d; };
struct Res { bool failed; int failures; char text[1400]; };
const int MAXOPS = 24;

struct Cfg {
    const char* section;
    bool detector;               // mixed mode
    bool real_test;              // check op: inside a test run by the real registry (else: recording test shell)
    int depth, nloc, maxdes, maxclear, maxcheck;
    const Desig* desigs; int ndesigs;
    int nsets;                   // > 1: the first choice of a history selects one of LOCSETS for the roles A, B, C
};

// All choices are drawn before anything is executed: which operations are enabled depends only on the
// operations chosen so far, never on results. (In "mixed" the harness must not touch the heap while the
// allocator under test is installed for the global operators.)
int draw(vf::Chooser& ch, const Cfg& c, Op* ops) {
    int nfam = c.detector ? 3 : 1;
    unsigned used = 0; int ndes = 0, nclear = 0, ncheck = 0;
    for (int step = 0; step < c.depth; step++) {
        int n_alloc = nfam * c.nloc;
        int n_des = ndes < c.maxdes ? c.ndesigs - ndes : 0;
        int n_clear = nclear < c.maxclear ? 1 : 0;
        int n_check = ncheck < c.maxcheck ? 1 : 0;
        int v = ch.choose(n_alloc + n_des + n_clear + n_check);
        Op& o = ops[step]; o = Op{ALLOC, 0, 0, {0, 0}};
        if (v < n_alloc) { o.kind = ALLOC; o.loc = v % c.nloc; o.fam = c.detector ? 1 + v / c.nloc : F_DIRECT; continue; }
        v -= n_alloc;
        if (v < n_des) {
            int k = 0;
            for (int i = 0; i < c.ndesigs; i++) { if (used & (1u << i)) continue; if (k++ == v) { used |= 1u << i; o.d = c.desigs[i]; break; } }
            o.kind = DESIGNATE; ndes++; continue;
        }
        v -= n_des;
        if (v < n_clear) { o.kind = CLEAR; nclear++; continue; }
        o.kind = CHECK; ncheck++;
    }
    return c.depth;
}

std::string op_str(const Op& o) {
    switch (o.kind) {
    case ALLOC: return vf::fmt("%s@%s", FAM_NAME[o.fam], LOCS[o.loc].name);
    case DESIGNATE: return desig_str(o.d);
    case CLEAR: return "clear";
    default: return "check";
    }
}

// ------------------------------------------------------------------ failure reports
// On a tree with a defect in this area hundreds of thousands of histories disagree. The witness text is
// rendered and listed for the first 200 disagreements per signature and worker process; the others are
// only counted (same counters as vf::fail keeps). A replay always renders.
template <class F> void report(const std::string& sig, F detail) {
    if (!vf::g_recording) return;
    static std::map<std::string, int> listed;
    if (vf::g_replaying || listed[sig]++ < 200) { vf::fail(sig, detail()); return; }
    vf::g_case_failed++;
    vf::count("fail_events"); vf::count("fail_events_counted_not_listed");
}

// ------------------------------------------------------------------ reference model (from the property text)
// A global designation n targets the n-th allocation since the last clear; (loc,n) targets the n-th
// allocation at loc since the designation was registered. A designation is pending until its target
// happened. clear forgets all designations and restarts the global count.
struct Pend { Desig d; int seen; };
struct Model {
    int g = 0; Pend pend[8]; int np = 0;
    void designate(Desig d) { pend[np++] = Pend{d, 0}; }
    int alloc(int loc) {          // number of designations that target this allocation (they are consumed)
        g++;
        int hits = 0, keep = 0;
        for (int i = 0; i < np; i++) {
            Pend p = pend[i]; bool hit;
            if (p.d.loc < 0) hit = p.d.n == g;
            else { bool here = same_loc(p.d.loc, loc); if (here) p.seen++; hit = here && p.seen == p.d.n; }
            if (hit) hits++; else pend[keep++] = p;
        }
        np = keep;
        return hits;
    }
    void clear() { np = 0; g = 0; }
    std::string pending_str() const { std::string s; for (int i = 0; i < np; i++) { if (i) s += ","; s += desig_str(pend[i].d); } return np ? s : "none"; }
};

// ------------------------------------------------------------------ execution on the real allocator
// calls through volatile pointers: the compiler may not assume that these operator new return non-null
typedef void* (*NewFn)(size_t, const char*, size_t);
NewFn volatile g_new = static_cast<NewFn>(&operator new);
NewFn volatile g_new_array = static_cast<NewFn>(&operator new[]);

bool do_alloc(FailableMemoryAllocator& fa, const Op& o) {       // true = allocation failed
    const Loc& l = LOCS[o.loc];
    switch (o.fam) {
    case F_DIRECT: {
        vf::ctx("alloc_memory");
        char* p = fa.alloc_memory(8, l.use, l.line);
        if (!p) return true;
        memset(p, 0x5a, 8);
        vf::ctx("free_memory");
        fa.free_memory(p, 8, l.use, l.line);
        return false;
    }
    case F_MALLOC: {
        vf::ctx("malloc");
        char* p = (char*)cpputest_malloc_location(8, l.use, l.line);
        if (!p) return true;
        memset(p, 0x5a, 8);
        vf::ctx("free");
        cpputest_free_location(p, l.use, l.line);
        return false;
    }
    case F_NEW: {
        vf::ctx("new");
        char* p = nullptr;
#if CPPUTEST_HAVE_EXCEPTIONS
        try { p = (char*)g_new(8, l.use, l.line); } catch (const std::bad_alloc&) { return true; }
#else
        p = (char*)g_new(8, l.use, l.line);
#endif
        if (!p) return true;
        memset(p, 0x5a, 8);
        vf::ctx("delete");
        operator delete(p);
        return false;
    }
    default: {
        vf::ctx("new[]");
        char* p = nullptr;
#if CPPUTEST_HAVE_EXCEPTIONS
        try { p = (char*)g_new_array(8, l.use, l.line); } catch (const std::bad_alloc&) { return true; }
#else
        p = (char*)g_new_array(8, l.use, l.line);
#endif
        if (!p) return true;
        memset(p, 0x5a, 8);
        vf::ctx("delete[]");
        operator delete[](p);
        return false;
    }
    }
}

// The current test that receives the failure raised by checkAllFailedAllocsWereDone. In section
// "direct" it is this recording shell (a failure costs a microsecond); section "realtest" repeats
// the histories up to a smaller length with the check executed inside a test that the library's own
// registry runs (vf::Fixture), where the failure has to end up as exactly one failed test.
struct RecordingShell : UtestShell {
    int failures = 0; char text[1400];
    RecordingShell() : UtestShell("C15", "check", "c15_oom.cpp", 1) { text[0] = 0; }
    void record(const TestFailure& f) { failures++; snprintf(text, sizeof text, "%s", f.getMessage().asCharString()); }
    void failWith(const TestFailure& f) override { record(f); }
    void failWith(const TestFailure& f, const TestTerminator&) override { record(f); }
};

// final phase: after a clear every allocation succeeds (4 allocations: the largest global index is 4)
const int NFINAL = 4;

void execute(const Cfg& c, const Op* ops, int nops, Res* res, bool* final_failed) {
    FailableMemoryAllocator fa("failable under test", "malloc", "free");
    if (c.detector) {
        setCurrentMallocAllocator(&fa); setCurrentNewAllocator(&fa); setCurrentNewArrayAllocator(&fa);
        MemoryLeakWarningPlugin::turnOnDefaultNotThreadSafeNewDeleteOverloads();
        // ---- no harness heap use from here ...
    }
    for (int i = 0; i < nops; i++) {
        const Op& o = ops[i]; Res& r = res[i];
        r.failed = false; r.failures = 0; r.text[0] = 0;
        switch (o.kind) {
        case ALLOC: r.failed = do_alloc(fa, o); break;
        case DESIGNATE:
            if (o.d.loc < 0) { vf::ctx("failAllocNumber"); fa.failAllocNumber(o.d.n); }
            else { vf::ctx("failNthAllocAt"); fa.failNthAllocAt(o.d.n, LOCS[o.d.loc].reg, LOCS[o.d.loc].line); }
            break;
        case CLEAR: vf::ctx("clearFailedAllocs"); fa.clearFailedAllocs(); break;
        case CHECK: {
            vf::ctx("checkAllFailedAllocsWereDone");
            if (!c.real_test) {
                RecordingShell shell;
                UtestShell* saved = UtestShell::currentTest_;
                UtestShell::currentTest_ = &shell;
                fa.checkAllFailedAllocsWereDone();
                UtestShell::currentTest_ = saved;
                r.failures = shell.failures;
                snprintf(r.text, sizeof r.text, "%s", shell.text);
                break;
            }
            vf::Fixture fx;
            fx.run([&] { fa.checkAllFailedAllocsWereDone(); });
            r.failures = (int)fx.failures();
            std::string out = fx.output();
            size_t p = out.find("Expected ");
            if (p != std::string::npos) { size_t e = out.find('\n', p); snprintf(r.text, sizeof r.text, "%s", out.substr(p, e == std::string::npos ? e : e - p).c_str()); }
            break;
        }
        }
    }
    vf::ctx("final-clearFailedAllocs");
    fa.clearFailedAllocs();
    for (int i = 0; i < NFINAL; i++) {
        Op o{ALLOC, i % c.nloc, c.detector ? 1 + i % 3 : F_DIRECT, {0, 0}};
        final_failed[i] = do_alloc(fa, o);
    }
    if (c.detector) {
        // ---- ... to here
        MemoryLeakWarningPlugin::turnOffNewDeleteOverloads();
        setCurrentMallocAllocatorToDefault(); setCurrentNewAllocatorToDefault(); setCurrentNewArrayAllocatorToDefault();
    }
    vf::ctx("destroy");
}

// does the report text name a designation that the model holds as pending?
// Does the report text name a designation that the model holds as pending? The text has to be exactly
// what the library prints for that designation, with the complete file name.
// 0 yes; 1 no; 2 it names a pending location with a file name that is only a beginning of the real one
int names_pending(const Model& m, const char* text) {
    int verdict = 1;
    for (int i = 0; i < m.np; i++) {
        const Desig& d = m.pend[i].d;
        if (d.loc < 0) { if (vf::fmt("Expected allocation number %d was never done", d.n) == text) return 0; continue; }
        std::string head = "Expected failing alloc at ", tail = vf::fmt(":%d was never done", (int)LOCS[d.loc].line), t = text;
        if (t == head + LOCS[d.loc].reg + tail) return 0;
        if (t.size() >= head.size() + tail.size() && t.compare(0, head.size(), head) == 0 && t.compare(t.size() - tail.size(), tail.size(), tail) == 0) {
            std::string named = t.substr(head.size(), t.size() - head.size() - tail.size());
            if (named.size() < strlen(LOCS[d.loc].reg) && strncmp(LOCS[d.loc].reg, named.c_str(), named.size()) == 0) verdict = 2;
        }
    }
    return verdict;
}
std::string brief(const std::string& t) { return t.size() <= 240 ? t : t.substr(0, 90) + vf::fmt("...<%zu characters in all>...", t.size()) + t.substr(t.size() - 60); }

void scenario(const Cfg& c, vf::Chooser& ch) {
    Op ops[MAXOPS]; Res res[MAXOPS]; bool final_failed[NFINAL];
    int set = c.nsets > 1 ? ch.choose(c.nsets) : 0;
    LOCS = c.nsets > 1 ? LOCSETS[set].l : DEFAULT_LOCS;
    int nops = draw(ch, c, ops);
    execute(c, ops, nops, res, final_failed);

    // ---- compare with the model; only the first disagreement of a history is reported (afterwards the
    // real allocator and the model are in different states), and nothing is compared after an allocation
    // that two designations target at once (the property does not say which of them is used up).
    // Text is only rendered for a disagreement or a sample.
    auto render = [&](int upto, std::string* pending_before) {
        Model mm; std::string t;
        if (c.nsets > 1) t = vf::fmt("[locations %d: %s] ", set, LOCSETS[set].desc.c_str());
        for (int i = 0; i <= upto && i < nops; i++) {
            if (i == upto && pending_before) *pending_before = mm.pending_str();
            const Op& o = ops[i]; t += op_str(o);
            switch (o.kind) {
            case ALLOC: mm.alloc(o.loc); t += res[i].failed ? "=NULL " : "=ok "; break;
            case DESIGNATE: mm.designate(o.d); t += " "; break;
            case CLEAR: mm.clear(); t += " "; break;
            default: t += vf::fmt("=%d ", res[i].failures);
            }
        }
        return t;
    };
    Model m; char pattern[MAXOPS + 1]; int npat = 0; bool compare = true, nontrivial = false, silent = false;
    for (int i = 0; i < nops; i++) {
        const Op& o = ops[i]; const Res& r = res[i];
        switch (o.kind) {
        case ALLOC: {
            bool nothing_pending = m.np == 0;
            int hits = m.alloc(o.loc);
            pattern[npat++] = r.failed ? 'F' : 's';
            if (hits) nontrivial = true;
            if (compare && (hits != 0) != r.failed) {
                report(hits ? "alloc/designated-allocation-succeeded" : nothing_pending ? "alloc/failed-with-nothing-pending" : "alloc/undesignated-allocation-failed", [&] {
                    std::string before; std::string t = render(i, &before);
                    if (hits) return t + vf::fmt(": allocation #%d (since clear) is the target of a pending designation {%s} but succeeded", m.g, before.c_str());
                    return t + vf::fmt(": allocation #%d (since clear) at %s is not the target of any pending designation {%s} but failed", m.g, LOCS[o.loc].name, before.c_str());
                });
                compare = false;
            }
            if (hits > 1) { silent = true; compare = false; }
            break;
        }
        case DESIGNATE: m.designate(o.d); break;
        case CLEAR: m.clear(); pattern[npat++] = 'c'; break;
        case CHECK: {
            bool expect = m.np != 0;
            pattern[npat++] = r.failures ? 'R' : 'q';
            if (expect) nontrivial = true;
            if (compare) {
                const char* sig = nullptr;
                if (expect && r.failures == 0) sig = "check/pending-designation-not-reported";
                else if (!expect && r.failures != 0) sig = "check/reported-although-nothing-pending";
                else if (expect && r.failures != 1) sig = "check/failure-count";
                else if (expect) { int v = names_pending(m, r.text); if (v == 1) sig = "check/report-names-no-pending-designation"; else if (v == 2) sig = "check/report-file-name-incomplete"; }
                if (sig) { report(sig, [&] { return render(i, nullptr) + ": pending {" + m.pending_str() + vf::fmt("}, the check raised %d failure(s): ", r.failures) + brief(r.text); }); compare = false; }
            }
            break;
        }
        }
        vf::count("ops");
    }
    for (int i = 0; i < NFINAL; i++) {
        // independent of everything before: asserted even when comparison stopped
        if (final_failed[i]) { report("clear/allocation-failed-after-clear", [&] { return render(nops, nullptr) + vf::fmt("| clear: allocation #%d after clearFailedAllocs failed", i + 1); }); break; }
    }
    if (silent) vf::count("double_target_histories");
    if (nontrivial) vf::count("nontrivial");
    pattern[npat] = 0;
    vf::outcome(pattern);
    if (vf::want_sample()) vf::sample(render(nops, nullptr) + "| clear + 4 allocations" + (final_failed[0] || final_failed[1] || final_failed[2] || final_failed[3] ? " (one failed)" : " ok"));
}

// ------------------------------------------------------------------ C-level countdown
enum CFam { C_MALLOC, C_CALLOC, C_STRDUP, C_STRNDUP };
const char* CFAM_NAME[] = {"malloc", "calloc", "strdup", "strndup"};
const char SRC[] = "out of memory";

// A write through a null pointer inside the library is a memory error that the engine would attribute
// as a crash of the worker (about 0.2 s each for the sanitizer report). On a tree where one of the
// functions does that, a third of this section's cases would die that way, so the harness catches
// exactly this fault itself: SIGSEGV with a fault address in the zero page while one of the guarded
// calls is running -> leave the call by siglongjmp and report `cdown/<fn>-null-write`. Every other
// fault is handed back to the sanitizer's handler (crash attribution by the engine as usual).
sigjmp_buf g_jmp;
volatile sig_atomic_t g_guard = 0;
struct sigaction g_prev_segv;
void segv_handler(int, siginfo_t* si, void*) {
    if (g_guard && (uintptr_t)si->si_addr < 4096) { g_guard = 0; siglongjmp(g_jmp, 1); }
    sigaction(SIGSEGV, &g_prev_segv, nullptr);      // not ours: the faulting instruction runs again under the previous handler
}
void install_segv_handler() {
    struct sigaction sa; memset(&sa, 0, sizeof sa);
    sa.sa_sigaction = segv_handler; sa.sa_flags = SA_SIGINFO | SA_NODEFER;
    sigemptyset(&sa.sa_mask);
    sigaction(SIGSEGV, &sa, &g_prev_segv);
}

void* c_alloc(int fam, bool* null_write) {
    void* volatile res = nullptr;
    switch (fam) {
    case C_MALLOC: { vf::ctx("malloc"); void* p = cpputest_malloc(16); if (p) memset(p, 0x5a, 16); return p; }
    case C_CALLOC: { vf::ctx("calloc"); char* p = (char*)cpputest_calloc(4, 4); if (p) { volatile char s = 0; for (int i = 0; i < 16; i++) s = s | p[i]; } return p; }
    default:
        vf::ctx(fam == C_STRDUP ? "strdup" : "strndup");
        if (sigsetjmp(g_jmp, 1) == 0) {
            g_guard = 1;
            res = fam == C_STRDUP ? cpputest_strdup(SRC) : cpputest_strndup(SRC, 5);
            g_guard = 0;
            if (res) { volatile size_t n = strlen((char*)res); (void)n; }
        } else { *null_write = true; res = nullptr; }
        return res;
    }
}

// Index space: [0, N(3)) are the workloads of length 3, [N(3), N(3)+N(4)) those of length 4; the quick
// tier runs the first block, the thorough tier both, so a case number means the same in both tiers.
long cdown_N(int L) { long n = 1; for (int i = 0; i < L; i++) n *= 4; return n * (L + 4) * (L * (L + 1) / 2) * 4; }

// reference: after arming with k (set_out_of_memory = 0), the j-th allocation since arming fails iff
// k == 0 or j >= k (countdown(3): two succeed, the third and all later fail), until restore.
// The C allocation functions only reach the leak detector (and with it the current malloc allocator)
// while the overloads are switched on, and then the harness must not use the heap itself: the
// script is executed first (results in fixed arrays), then compared.
void cdown_case(long idx) {
    int L = 3;
    if (idx >= cdown_N(3)) { L = 4; idx -= cdown_N(3); }
    vf::Radix rx(idx);
    int fam[8]; for (int i = 0; i < L; i++) fam[i] = (int)rx.take(4);
    int kk = (int)rx.take(L + 4);              // 0: set_out_of_memory(); else countdown(kk-1) = 0..L+2
    int pair = (int)rx.take(L * (L + 1) / 2);  // (arm, restore) with 0 <= arm < restore <= L
    int arm = 0, restore = 1;                  // armed before operation `arm`; set_not_out_of_memory before operation `restore` (L: only at the end)
    for (int a = 0, n = 0; a < L; a++) for (int r = a + 1; r <= L; r++, n++) if (n == pair) { arm = a; restore = r; }
    int k = kk == 0 ? 0 : kk - 1;
    // armed a second time immediately before the restoring call (no allocation in between, so no
    // expectation depends on what a second arming means): 0 no, 1 set_out_of_memory, 2 countdown(0), 3 countdown(2)
    int rearm = (int)rx.take(4);
    auto do_rearm = [&] {
        if (rearm == 1) { vf::ctx("set_out_of_memory"); cpputest_malloc_set_out_of_memory(); }
        else if (rearm) { vf::ctx("set_out_of_memory_countdown"); cpputest_malloc_set_out_of_memory_countdown(rearm == 2 ? 0 : 2); }
    };
    const char* REARM[] = {"", "oom ", "countdown(0) ", "countdown(2) "};

    void* live[24]; int nlive = 0;
    bool got[8], after[4] = {true, true, true, true}, ra, rb, rd, nw = false;
    int nafter = 0, ndone = 0, fault_at = -1;
    // ---- execution (no harness heap use)
    MemoryLeakWarningPlugin::turnOnDefaultNotThreadSafeNewDeleteOverloads();
    vf::ctx("reset");
    cpputest_malloc_set_not_out_of_memory();
    for (int i = 0; i < L; i++) {
        if (i == arm) {
            if (kk == 0) { vf::ctx("set_out_of_memory"); cpputest_malloc_set_out_of_memory(); }
            else { vf::ctx("set_out_of_memory_countdown"); cpputest_malloc_set_out_of_memory_countdown(k); }
        }
        if (i == restore) { do_rearm(); vf::ctx("set_not_out_of_memory"); cpputest_malloc_set_not_out_of_memory(); }
        void* p = c_alloc(fam[i], &nw);
        if (nw) { fault_at = i; break; }       // the history ends here
        got[i] = p != nullptr; ndone = i + 1;
        if (p) live[nlive++] = p;
    }
    if (restore == L && fault_at < 0) do_rearm();
    vf::ctx("set_not_out_of_memory");
    cpputest_malloc_set_not_out_of_memory();
    if (fault_at < 0) {
        for (int f = 0; f < 4; f++) {
            void* p = c_alloc(f, &nw);
            after[f] = p != nullptr; nafter++;
            if (p) live[nlive++] = p; else break;
        }
        // arming again after a restore works like the first time
        vf::ctx("set_out_of_memory_countdown");
        cpputest_malloc_set_out_of_memory_countdown(2);
        void* a = c_alloc(C_MALLOC, &nw); void* b = c_alloc(C_MALLOC, &nw);
        vf::ctx("set_not_out_of_memory");
        cpputest_malloc_set_not_out_of_memory();
        void* d = c_alloc(C_MALLOC, &nw);
        ra = a != nullptr; rb = b != nullptr; rd = d != nullptr;
        if (a) live[nlive++] = a;
        if (b) live[nlive++] = b;
        if (d) live[nlive++] = d;
    }
    vf::ctx("free");
    for (int i = 0; i < nlive; i++) cpputest_free(live[i]);
    MemoryLeakWarningPlugin::turnOffNewDeleteOverloads();
    vf::ctx("compare");

    // ---- comparison
    std::string trace, pattern; bool bad = false, nontrivial = false;
    int since = 0; bool armed = false;
    for (int i = 0; i < L && i <= ndone; i++) {
        if (i == arm) { trace += kk == 0 ? std::string("oom ") : vf::fmt("countdown(%d) ", k); armed = true; since = 0; }
        if (i == restore) { trace += REARM[rearm]; trace += "restore "; armed = false; }
        bool expect_fail = false;
        if (armed) { since++; expect_fail = k == 0 || since >= k; }
        if (expect_fail) nontrivial = true;
        if (i == fault_at) {
            trace += vf::fmt("%s=<SIGSEGV writing to the zero page> ", CFAM_NAME[fam[i]]);
            pattern += 'X';
            vf::fail(vf::fmt("cdown/%s-null-write", CFAM_NAME[fam[i]]), trace + vf::fmt(": cpputest_%s wrote through a null pointer instead of returning NULL (allocation %d after arming with %d%s)", CFAM_NAME[fam[i]], since, k, expect_fail ? ", expected to fail" : ", expected to SUCCEED"));
            break;
        }
        if (i == ndone) break;
        trace += vf::fmt("%s=%s ", CFAM_NAME[fam[i]], got[i] ? "ok" : "NULL");
        pattern += got[i] ? 's' : 'F';
        if (!bad && expect_fail && got[i]) { vf::fail(vf::fmt("cdown/%s-succeeded-while-out-of-memory", CFAM_NAME[fam[i]]), trace + vf::fmt(": allocation %d after arming with %d must fail", since, k)); bad = true; }
        if (!bad && !expect_fail && !got[i]) { vf::fail(vf::fmt("cdown/%s-failed-%s", CFAM_NAME[fam[i]], armed ? "before-countdown-expired" : "without-injection"), trace + (armed ? vf::fmt(": allocation %d after arming with %d must succeed", since, k) : std::string(": no injection active"))); bad = true; }
        vf::count("ops");
    }
    if (fault_at < 0) {
        trace += "| "; if (restore == L) trace += REARM[rearm];
        trace += "restore ";
        for (int f = 0; f < nafter; f++) {
            trace += vf::fmt("%s=%s ", CFAM_NAME[f], after[f] ? "ok" : "NULL");
            if (!after[f]) vf::fail("cdown/allocation-failed-after-restore", trace + ": set_not_out_of_memory did not restore normal behaviour");
        }
        if (nw) vf::fail("cdown/null-write-after-restore", trace + ": a strdup/strndup after set_not_out_of_memory wrote through a null pointer");
        if (!ra || rb || !rd) vf::fail("cdown/re-arming-after-restore", trace + vf::fmt("| countdown(2) malloc=%s malloc=%s restore malloc=%s", ra ? "ok" : "NULL", rb ? "ok" : "NULL", rd ? "ok" : "NULL"));
    }
    if (nontrivial) vf::count("nontrivial");
    vf::outcome(pattern);
    if (vf::want_sample()) vf::sample(trace);
}

} // namespace

// The driver replays a case without telling the tier (`--replay section:case` only). A case of a
// history section is its complete choice vector, one choice per operation, so the number of choices
// identifies the bound it was found under.
int replay_len() {
    if (!vf::g_replaying) return -1;
    size_t c = vf::opt.replay.find(':');
    if (c == std::string::npos || c + 1 >= vf::opt.replay.size() || vf::opt.replay[c + 1] == '-') return 0;
    return 1 + (int)std::count(vf::opt.replay.begin() + (long)c, vf::opt.replay.end(), '.');
}

int main(int argc, char** argv) {
    vf::init(argc, argv, "C15");
    MemoryLeakWarningPlugin::turnOffNewDeleteOverloads();
    bool T = vf::thorough();
    int rl = replay_len();
    auto tier_of = [&](int thorough_depth) { return rl >= 0 ? rl >= thorough_depth : T; };
    vf::info("rule", "every history over {allocate at location A/B/C, register one designated failure (global index 1..4 or n-th at A/B), clearFailedAllocs, checkAllFailedAllocsWereDone} up to the length bound, executed on a fresh FailableMemoryAllocator and compared step by step with a reference model; every C-level workload x arming position x countdown x restore position; non-trivial = at least one allocation was the target of a designation / of the simulated out-of-memory, or a check had a pending designation to report");
    {
        bool t = tier_of(8);
        Cfg c{"direct", false, false, t ? 8 : 7, 3, t ? 3 : 2, 1, 1, DESIGS_DIRECT, 9, 1};
        vf::info("direct.bound", vf::fmt("all histories of exactly %d operations (every prefix is compared): allocations at 3 locations (A=alpha.c:10, B=alpha.c:20, C=beta.c:10), <=%d distinct designations out of {global 1..4, (A,1..3), (B,1..2)} registered at any position, <=1 clearFailedAllocs and <=1 checkAllFailedAllocsWereDone (recording test shell) at any position; then clear + 4 allocations", c.depth, c.maxdes));
        vf::section_dfs(c.section, 2, false, [&](vf::Chooser& ch) { scenario(c, ch); });
        vf::require_outcomes(c.section, 20);
    }
    {
        bool t = tier_of(6);
        Cfg c{"realtest", false, true, t ? 6 : 5, 3, 2, 1, 1, DESIGS_DIRECT, 9, 1};
        vf::info("realtest.bound", vf::fmt("as direct with histories of exactly %d operations and <=2 designations, but checkAllFailedAllocsWereDone is called inside a test that the library's registry runs (TestTestingFixture); observed: number of failed tests and the failure text", c.depth));
        vf::section_dfs(c.section, 2, false, [&](vf::Chooser& ch) { scenario(c, ch); });
        vf::require_outcomes(c.section, 20);
    }
    {
        bool t = tier_of(6);
        Cfg c{"mixed", true, false, t ? 6 : 5, 2, 2, 1, 0, DESIGS_MIXED, 6, 1};
        vf::info("mixed.bound", vf::fmt("all histories of exactly %d operations with the allocator installed for malloc, new and new[] under the global detector: allocations {malloc,new,new[]} x {A,B}, <=2 distinct designations out of {global 1..3, (A,1..2), (B,1)}, <=1 clearFailedAllocs; then clear + 4 allocations", c.depth));
        vf::section_dfs(c.section, 2, false, [&](vf::Chooser& ch) { scenario(c, ch); });
        vf::require_outcomes(c.section, 10);
    }
    build_locsets();
    int NS = (int)LOCSETS.size();
    vf::info("paths.locations", "the first choice of a *_paths history selects the locations for the roles A, B (designated) and C (never designated); registration and allocation always pass different buffers with equal text; sets: " + [&] { std::string d; for (int i = 0; i < NS; i++) d += vf::fmt("%d: %s; ", i, LOCSETS[i].desc.c_str()); return d; }());
    {
        bool t = tier_of(6 + 1);
        Cfg c{"direct_paths", false, false, t ? 6 : 5, 3, 2, 1, 1, DESIGS_DIRECT, 9, NS};
        vf::info("direct_paths.bound", vf::fmt("%d location sets x all histories of exactly %d operations as in direct (<=2 designations, <=1 clear, <=1 check whose text must name the complete file of a pending designation)", NS, c.depth));
        vf::section_dfs(c.section, 2, false, [&](vf::Chooser& ch) { scenario(c, ch); });
        vf::require_outcomes(c.section, 20);
    }
    {
        bool t = tier_of(5 + 1);
        Cfg c{"realtest_paths", false, true, t ? 5 : 4, 3, 2, 1, 1, DESIGS_DIRECT, 9, NS};
        vf::info("realtest_paths.bound", vf::fmt("%d location sets x all histories of exactly %d operations as in realtest (check inside a test run by the registry; the failure text in the test output must name the complete file)", NS, c.depth));
        vf::section_dfs(c.section, 2, false, [&](vf::Chooser& ch) { scenario(c, ch); });
        vf::require_outcomes(c.section, 10);
    }
    {
        bool t = tier_of(5 + 1);
        Cfg c{"mixed_paths", true, false, t ? 5 : 4, 2, 2, 1, 0, DESIGS_MIXED, 6, NS};
        vf::info("mixed_paths.bound", vf::fmt("%d location sets x all histories of exactly %d operations as in mixed (malloc/new/new[] x {A,B} under the detector)", NS, c.depth));
        vf::section_dfs(c.section, 2, false, [&](vf::Chooser& ch) { scenario(c, ch); });
        vf::require_outcomes(c.section, 10);
    }
    LOCS = DEFAULT_LOCS;
    {
        long N = (T || vf::g_replaying) ? cdown_N(3) + cdown_N(4) : cdown_N(3);
        vf::info("cdown.bound", vf::fmt("all workloads of L allocations over {malloc, calloc, strdup, strndup} x armed before operation 0..L-1 x {set_out_of_memory, countdown 0..L+2} x restored before operation arm+1..L-1 or only at the end x {not armed again, set_out_of_memory / countdown(0) / countdown(2) again right before the restoring call}, L = %s; then restore, one allocation of each family, countdown(2) again", T ? "3 and 4" : "3"));
        install_segv_handler();
        vf::section_index("cdown", N, [&](long idx) { cdown_case(idx); });
        vf::require_outcomes("cdown", 6);
    }
    return vf::finish();
}

// t10 - SUPPLEMENTARY pass for C10 (not the deciding step): the same kind of allocation scripts run by
// 2..16 free-running threads (no scheduler, real pthread mutex behind the platform seam) in a
// ThreadSanitizer build. A cooperative scheduler's hand-offs are happens-before edges that blind a
// race detector, so unsynchronised accesses are looked for here, separately.
#include <vector>
#include <string>
#include <cstring>
#include <pthread.h>
#define VF_MAIN
#include "vf.h"
#include "CppUTest/TestHarness.h"
#include "CppUTest/MemoryLeakDetector.h"
#include "CppUTest/MemoryLeakWarningPlugin.h"
#include "CppUTest/TestMemoryAllocator.h"
#include "CppUTest/MemoryLeakDetectorMallocMacros.h"
#undef new
#undef malloc
#undef free
#undef realloc
#undef calloc
#undef strdup
#undef strndup

// Note: the malloc family is entered at cpputest_*_location_with_leak_detection (what the malloc/free macros
// reach after the C facade). The facade itself (TestHarness_c.cpp) bumps an unsynchronised statistics counter
// `malloc_count` and reads the out-of-memory countdown before the detector lock is taken; ThreadSanitizer reports
// that as a race. It is not detector state (C10 speaks of "the detector's state"), so it is recorded in DESIGN.md
// as an observation and kept out of this pass.
namespace {
struct Reporter : MemoryLeakFailure { int calls = 0; void fail(char*) override { __atomic_add_fetch(&calls, 1, __ATOMIC_SEQ_CST); } };

struct Arg { int tid; int iters; int keep; char* kept[4]; size_t kept_n; int errors; };

void* body(void* a) {
    Arg* g = (Arg*)a;
    for (int it = 0; it < g->iters; it++) {
        char* p = (char*)operator new(8); memset(p, g->tid, 8);
        char* q = (char*)operator new[](5); memset(q, g->tid, 5);
        char* m = (char*)cpputest_malloc_location_with_leak_detection(12, "t.c", 1); memset(m, g->tid, 12);
        m = (char*)cpputest_realloc_location_with_leak_detection(m, 24, "t.c", 2);
        for (int i = 0; i < 12; i++) if (m[i] != (char)g->tid) g->errors++;
        for (int i = 0; i < 8; i++) if (p[i] != (char)g->tid) g->errors++;
        operator delete(p);
        operator delete[](q);
        if (it == g->iters - 1 && g->keep) { g->kept[g->kept_n++] = m; }
        else cpputest_free_location_with_leak_detection(m, "t.c", 3);
    }
    return nullptr;
}
}

int main(int argc, char** argv) {
    vf::init(argc, argv, "C10");
    MemoryLeakWarningPlugin::turnOffNewDeleteOverloads();
    vf::info("rule", "supplementary free-running ThreadSanitizer pass: n threads x iterations of {new,new[],malloc,realloc,delete,delete[],free} through the thread-safe wrappers with the real pthread mutex; non-trivial = more than 2 threads");
    vf::info("tsan.bound", "threads 2..16, 50 or 400 iterations, with and without blocks kept to the end");
    const int NT[] = {2, 3, 4, 8, 16};
    long N = 5 * 2 * 2;
    vf::section_index("tsan", N, [&](long idx) {
        vf::Radix r(idx); int nt = NT[r.take(5)]; int iters = r.take(2) ? 400 : 50; int keep = (int)r.take(2);
        vf::ctx("freerun");
        Reporter rep;
        MemoryLeakDetector* saved = MemoryLeakWarningPlugin::getGlobalDetector();
        MemoryLeakFailure* saved_rep = MemoryLeakWarningPlugin::getGlobalFailureReporter();
        MemoryLeakDetector* det = new MemoryLeakDetector(&rep);
        MemoryLeakWarningPlugin::setGlobalDetector(det, &rep);
        det->enable();
        std::vector<Arg> args(nt); std::vector<pthread_t> th(nt);
        for (int i = 0; i < nt; i++) { args[i] = Arg(); args[i].tid = i + 1; args[i].iters = iters; args[i].keep = keep; }
        MemoryLeakWarningPlugin::turnOnThreadSafeNewDeleteOverloads();
        for (int i = 0; i < nt; i++) pthread_create(&th[i], nullptr, body, &args[i]);
        for (int i = 0; i < nt; i++) pthread_join(th[i], nullptr);
        MemoryLeakWarningPlugin::turnOffNewDeleteOverloads();
        size_t held = 0; int errors = 0;
        for (auto& a : args) { held += a.kept_n; errors += a.errors; }
        size_t total = det->totalMemoryLeaks(mem_leak_period_all);
        std::string desc = vf::fmt("%d threads x %d iterations keep=%d", nt, iters, keep);
        if (total != held) vf::fail("freerun/outstanding-count", desc + vf::fmt(": detector holds %zu, threads hold %zu", total, held));
        if (rep.calls) vf::fail("freerun/spurious-misuse-report", desc + vf::fmt(": %d reporter calls", rep.calls));
        if (errors) vf::fail("freerun/content-changed", desc);
        if (det->allocationSequenceNumber_ != 1u + (unsigned)(4 * iters * nt)) vf::fail("freerun/allocation-numbers", desc + vf::fmt(": counter %u", det->allocationSequenceNumber_));
        MemoryLeakWarningPlugin::turnOnThreadSafeNewDeleteOverloads();
        for (auto& a : args) for (size_t k = 0; k < a.kept_n; k++) cpputest_free_location_with_leak_detection(a.kept[k], "t.c", 9);
        MemoryLeakWarningPlugin::turnOffNewDeleteOverloads();
        MemoryLeakWarningPlugin::setGlobalDetector(saved, saved_rep);
        delete det;
        vf::outcome(vf::fmt("threads=%d held=%zu", nt, held));
        if (nt > 2) vf::count("nontrivial");
        if (vf::want_sample()) vf::sample(desc);
    });
    vf::require_outcomes("tsan", 5);
    return vf::finish();
}

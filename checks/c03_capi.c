/* c03_capi.c - the C-language variants of the checks, compiled as C from the TestHarness_c.h macros.
 * Each function executes exactly one check macro on its operands and then the "statement after". */
#include "CppUTest/TestHarness_c.h"
#include "c03_capi.h"

#define C03_DEF2(n, T, M) \
    void c03c_##n(T e, T a) { M(e, a); c03_after(); } \
    void c03c_##n##_text(T e, T a) { M##_TEXT(e, a, "c03 text"); c03_after(); }
C03_C2(C03_DEF2)

#define C03_DEFB(n, T) \
    void c03c_bits_##n(T e, T a, T m) { CHECK_EQUAL_C_BITS(e, a, m); c03_after(); } \
    void c03c_bits_##n##_text(T e, T a, T m) { CHECK_EQUAL_C_BITS_TEXT(e, a, m, "c03 text"); c03_after(); }
C03_CBITS(C03_DEFB)

void c03c_real(double e, double a, double t) { CHECK_EQUAL_C_REAL(e, a, t); c03_after(); }
void c03c_real_text(double e, double a, double t) { CHECK_EQUAL_C_REAL_TEXT(e, a, t, "c03 text"); c03_after(); }
void c03c_memcmp(const void* e, const void* a, size_t n) { CHECK_EQUAL_C_MEMCMP(e, a, n); c03_after(); }
void c03c_memcmp_text(const void* e, const void* a, size_t n) { CHECK_EQUAL_C_MEMCMP_TEXT(e, a, n, "c03 text"); c03_after(); }
void c03c_check(int v) { CHECK_C(v); c03_after(); }
void c03c_check_text(int v) { CHECK_C_TEXT(v, "c03 text"); c03_after(); }
void c03c_fail(void) { FAIL_C(); c03_after(); }
void c03c_fail_text(void) { FAIL_TEXT_C("c03 text"); c03_after(); }

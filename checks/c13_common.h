// c13_common.h - shared pieces of the C13 harness (SimpleString vs. textbook reference).
// Include order: standard headers, vf.h, then CppUTest headers, then #undef new.
#pragma once
#include <sanitizer/asan_interface.h>
#include <climits>
#include <cstdint>
#include <string>
#include <vector>
#include "vf.h"
#include "CppUTest/TestHarness.h"
#include "CppUTest/SimpleString.h"
#include "CppUTest/TestMemoryAllocator.h"
#include "CppUTest/PlatformSpecificFunctions.h"
#undef new

namespace c13 {

typedef std::string str;

// ---------------------------------------------------------------- recording string allocator
// Exact-size malloc blocks (ASan redzones right behind the requested size), filled with '#' so that
// a missing terminator / uninitialised byte shows up deterministically. A released block is poisoned
// and kept until the case ends: use after release, double release and address reuse are all visible.
// thrown by the recording allocator when an absurd size is requested (a wrapped size computation):
// the operation is abandoned, which a real allocator would do by failing
struct AbsurdSize {};
struct Blk { char* p; size_t size; bool released; };
struct RecAlloc : TestMemoryAllocator {
    std::vector<Blk> blocks;
    int dbl = 0, foreign = 0, mismatch = 0;
    size_t mm_req = 0, mm_rel = 0;
    long total = 0;
    const char* cur_op = "?";
    const std::string* cur_what = nullptr;
    char* alloc_memory(size_t size, const char*, size_t) override {
        if (size > ((size_t)1 << 30)) {
            // an arithmetic wrap in a size computation; a real allocator fails here as well
            vf::fail(std::string(cur_op) + "/absurd-buffer-size-requested", (cur_what ? *cur_what : std::string()) + vf::fmt(": a buffer of %zu bytes was requested", size));
            throw AbsurdSize();
        }
        char* p = (char*)malloc(size ? size : 1);
        memset(p, '#', size ? size : 1);
        if (size == 0) ASAN_POISON_MEMORY_REGION(p, 1);
        blocks.push_back({p, size, false});
        total++;
        return p;
    }
    void free_memory(char* memory, size_t size, const char*, size_t) override {
        for (size_t i = blocks.size(); i-- > 0;) {
            Blk& b = blocks[i];
            if (b.p != memory) continue;
            if (b.released) { dbl++; return; }
            if (b.size != size) { if (!mismatch) { mm_req = b.size; mm_rel = size; } mismatch++; }
            b.released = true;
            ASAN_POISON_MEMORY_REGION(b.p, b.size ? b.size : 1);
            return;
        }
        foreign++;
    }
    int outstanding() const { int n = 0; for (auto& b : blocks) if (!b.released) n++; return n; }
    void reset() {
        for (auto& b : blocks) { ASAN_UNPOISON_MEMORY_REGION(b.p, b.size ? b.size : 1); free(b.p); }
        blocks.clear(); dbl = foreign = mismatch = 0; total = 0;
    }
};
extern RecAlloc* g_rec;

// One scope = one group of operations whose strings are all gone at the end. Installs the recording
// allocator, checks the pairing rules when it ends. `op` names the operation for the signature.
struct AllocScope {
    const char* op;
    std::string what;
    AllocScope(const char* o, const std::string& w) : op(o), what(w) {
        g_rec->reset();
        g_rec->cur_op = o;
        g_rec->cur_what = &what;
        SimpleString::setStringAllocator(g_rec);
        vf::ctx(o);
    }
    // call after every SimpleString of the scope has been destroyed
    void end() {
        SimpleString::setStringAllocator(NULLPTR);
        RecAlloc& r = *g_rec;
        if (r.mismatch) vf::fail(std::string(op) + "/buffer-released-with-other-size", what + vf::fmt(": a buffer requested with %zu bytes was released with size %zu", r.mm_req, r.mm_rel));
        if (r.dbl) vf::fail(std::string(op) + "/buffer-released-twice", what);
        if (r.foreign) vf::fail(std::string(op) + "/foreign-buffer-released", what);
        if (r.outstanding()) vf::fail(std::string(op) + "/buffer-not-released", what + vf::fmt(": %d buffers outstanding after all strings are gone", r.outstanding()));
        vf::count("buffers", r.total);
        r.cur_what = nullptr;
        r.reset();
    }
};

template <class F> inline void scoped(const char* op, const std::string& what, F f) {
    AllocScope sc(op, what);
    try { f(); } catch (AbsurdSize&) {}
    sc.end();
}

// exact-size heap copy of a byte string (with terminator) so that any over-read is an ASan report
struct Exact {
    char* p; size_t n;
    explicit Exact(const str& s) : n(s.size() + 1) { p = (char*)malloc(n); memcpy(p, s.c_str(), n); }
    Exact(const Exact&) = delete;
    ~Exact() { free(p); }
    operator const char*() const { return p; }
};

inline str val(const SimpleString& s) { return str(s.asCharString()); }
inline std::string q(const str& s) { return "\"" + vf::esc(s) + "\""; }

// checks a result against the reference; sig = "<op>/<mode>"
inline bool expect_eq(const char* sig, const str& got, const str& want, const std::string& what) {
    vf::count("ops");
    if (got == want) return true;
    vf::fail(sig, what + ": expected " + q(want) + " got " + q(got));
    return false;
}
inline bool expect_num(const char* sig, long long got, long long want, const std::string& what) {
    vf::count("ops");
    if (got == want) return true;
    vf::fail(sig, what + vf::fmt(": expected %lld got %lld", want, got));
    return false;
}
// every SimpleString's recorded size must be the size of the block it owns
inline bool check_own(const char* op, const SimpleString& s, const std::string& what) {
    for (auto& b : g_rec->blocks) if (b.p == s.buffer_) {
        if (b.released) vf::fail(std::string(op) + "/holds-released-buffer", what);
        else if (b.size != s.bufferSize_) vf::fail(std::string(op) + "/recorded-size-differs-from-buffer", what + vf::fmt(": block %zu recorded %zu", b.size, s.bufferSize_));
        else if (strnlen(s.buffer_, b.size) >= b.size) vf::fail(std::string(op) + "/unterminated", what);
        else return true;
        return false;
    }
    vf::fail(std::string(op) + "/buffer-not-from-string-allocator", what);
    return false;
}

// ---------------------------------------------------------------- string universes
// all strings over `alpha` of length <= maxlen, shortest first, then `extra`
inline std::vector<str> universe(const str& alpha, int maxlen, const std::vector<str>& extra = {}) {
    std::vector<str> out; out.push_back("");
    size_t from = 0;
    for (int l = 1; l <= maxlen; l++) {
        size_t to = out.size();
        for (size_t i = from; i < to; i++) for (char c : alpha) out.push_back(out[i] + c);
        from = to;
    }
    for (auto& e : extra) out.push_back(e);
    return out;
}
inline str pattern(size_t n, const str& unit) { str s; while (s.size() < n) s += unit; s.resize(n); return s; }

// ---------------------------------------------------------------- reference (textbook) functions
inline char ref_lower(char c) { return (c >= 'A' && c <= 'Z') ? (char)(c - 'A' + 'a') : c; }
inline str ref_lower(const str& s) { str o = s; for (auto& c : o) c = ref_lower(c); return o; }
inline str ref_substr(const str& s, size_t pos, size_t amount) { if (pos >= s.size()) return ""; return s.substr(pos, amount); }
inline size_t ref_count_overlapping(const str& s, const str& t) { size_t n = 0; for (size_t p = s.find(t); p != str::npos; p = s.find(t, p + 1)) n++; return n; }
inline size_t ref_count_disjoint(const str& s, const str& t) { size_t n = 0; for (size_t p = s.find(t); p != str::npos; p = s.find(t, p + t.size())) n++; return n; }
inline str ref_replace(const str& s, const str& to, const str& with) {   // to non-empty; left to right, non-overlapping
    str o; size_t i = 0;
    while (i < s.size()) {
        if (s.compare(i, to.size(), to) == 0) { o += with; i += to.size(); }
        else o += s[i++];
    }
    return o;
}
inline int sgn(long long v) { return v < 0 ? -1 : v > 0 ? 1 : 0; }

void sections_objects(bool T);     // c13_simplestring.cpp : unary, seq, seqdeep
void sections_pairs(bool T);       // c13_pairs.cpp        : binary, replace, replace_empty
void sections_seq(bool T);         // c13_seq.cpp          : seq, seqdeep
void sections_primitives(bool T);  // c13_prims.cpp        : primitives, formatted construction, formatters

} // namespace c13

// c19_typed.cpp - check C19 part (b): typed sweeps. Every parameter kind x boundary values x {matching, mismatching}
// actual (all ordered pairs of typed values, also across kinds), every return kind x boundary values x every getter and
// OrDefault getter (call level and support level) with and without a return value, output parameters plain / of a
// custom type with C copier, the data store for every kind and both scopes.
#include <vector>
#include <string>
#include "vf.h"
#include "fixture.h"
#include "c19_sections.h"

namespace c19 {

namespace {

struct TV { c19_val v; const char* type; };        // typed value (+ custom type name)

std::vector<TV> param_values(bool expected_side) {
    std::vector<TV> L;
    auto add = [&](const c19_val& v, const char* type = nullptr) { L.push_back({v, type}); };
    for (long long x : {0LL, 1LL, 2LL, 256LL, -1LL, (long long)INT_MIN}) add(vbool(x));
    for (long long x : {0LL, 1LL, -1LL, 256LL, (long long)INT_MAX, (long long)INT_MIN}) add(vint(x));
    for (unsigned long long x : {0ULL, 1ULL, (unsigned long long)INT_MAX + 1, (unsigned long long)UINT_MAX}) add(vuint(x));
    for (long long x : {0LL, 1LL, -1LL, (long long)INT_MAX + 1, (long long)INT_MIN - 1, 1LL << 32, (long long)LONG_MAX, (long long)LONG_MIN}) add(vlong(x));
    for (unsigned long long x : {0ULL, 1ULL, 1ULL << 32, (unsigned long long)LONG_MAX + 1, (unsigned long long)ULONG_MAX}) add(vulong(x));
    for (long long x : {0LL, 1LL, -1LL, 1LL << 32, LLONG_MAX, LLONG_MIN}) add(vll(x));
    for (unsigned long long x : {0ULL, 1ULL, 1ULL << 32, 1ULL << 63, ULLONG_MAX}) add(vull(x));
    for (double x : {0.0, -0.0, 1.0, 1.004, 1.006, 0.1, 16777216.0, 16777217.0, DBL_MAX, 4.9e-324, (double)INFINITY, -(double)INFINITY, (double)NAN}) add(vdbl(x));
    if (expected_side) {
        add(vdtol(1.0, 0.0)); add(vdtol(1.0, 0.01)); add(vdtol(1.0, 0.5)); add(vdtol(0.1, 1e-12)); add(vdtol(16777217.0, 0.25)); add(vdtol(1.0, (double)INFINITY));
    }
    for (char* s : {s_empty, s_a, s_a2, s_ab, s_hi, s_long}) add(vstr(s));
    for (void* p : {(void*)nullptr, (void*)&g_obj[0], (void*)&g_obj[1]}) add(vptr(p));
    for (void* p : {(void*)nullptr, (void*)&g_obj[0], (void*)&g_obj[1]}) add(vcptr(p));
    for (c19_fn f : {(c19_fn) nullptr, (c19_fn)c19_fn1, (c19_fn)c19_fn2}) add(vfptr(f));
    add(vbuf(g_bufA, 0)); add(vbuf(g_bufA, 1)); add(vbuf(g_bufA, 2)); add(vbuf(g_bufA, 4)); add(vbuf(g_bufB, 4)); add(vbuf(g_bufC, 4)); add(vbuf(nullptr, 0));
    add(vobj(&g_t[0]), "T"); add(vobj(&g_t[1]), "T"); add(vobj(&g_t[2]), "T"); add(vobj(&g_t[0]), "U"); add(vobj(&g_t[2]), "U");
    return L;
}

std::vector<c19_val> return_values() {
    std::vector<c19_val> L;
    for (long long x : {0LL, 1LL, 2LL, 256LL, (long long)INT_MIN}) L.push_back(vbool(x));
    for (long long x : {0LL, 1LL, -1LL, (long long)INT_MAX, (long long)INT_MIN}) L.push_back(vint(x));
    for (unsigned long long x : {0ULL, 1ULL, (unsigned long long)INT_MAX + 1, (unsigned long long)UINT_MAX}) L.push_back(vuint(x));
    for (long long x : {0LL, -1LL, (long long)INT_MAX + 1, (long long)INT_MIN - 1, (long long)LONG_MAX, (long long)LONG_MIN}) L.push_back(vlong(x));
    for (unsigned long long x : {0ULL, 1ULL << 32, (unsigned long long)LONG_MAX + 1, (unsigned long long)ULONG_MAX}) L.push_back(vulong(x));
    for (long long x : {0LL, -1LL, 1LL << 32, LLONG_MAX, LLONG_MIN}) L.push_back(vll(x));
    for (unsigned long long x : {0ULL, 1ULL << 32, 1ULL << 63, ULLONG_MAX}) L.push_back(vull(x));
    for (double x : {0.0, -0.0, 0.1, 16777217.0, DBL_MAX, 4.9e-324, -(double)INFINITY, (double)NAN}) L.push_back(vdbl(x));
    for (char* s : {s_empty, s_r, s_hi, s_long}) L.push_back(vstr(s));
    for (void* p : {(void*)nullptr, (void*)&g_obj[1]}) L.push_back(vptr(p));
    for (void* p : {(void*)nullptr, (void*)&g_obj[1]}) L.push_back(vcptr(p));
    for (c19_fn f : {(c19_fn) nullptr, (c19_fn)c19_fn1}) L.push_back(vfptr(f));
    return L;
}

c19_val default_value(int kind, int which) {
    switch (kind) {
    case C19_BOOL: return vbool(which ? 0 : 1);
    case C19_INT: return vint(which ? (long long)INT_MIN : -1);
    case C19_UINT: return vuint(which ? (unsigned long long)UINT_MAX : 7);
    case C19_LONG: return vlong(which ? (long long)LONG_MIN : -1);
    case C19_ULONG: return vulong(which ? (unsigned long long)ULONG_MAX : 7);
    case C19_LL: return vll(which ? LLONG_MIN : -1);
    case C19_ULL: return vull(which ? ULLONG_MAX : 7);
    case C19_DOUBLE: return vdbl(which ? 0.1 : 2.5);
    case C19_STRING: return vstr(which ? nullptr : s_dflt);
    case C19_PTR: return vptr(which ? nullptr : (void*)&g_obj[2]);
    case C19_CPTR: return vcptr(which ? nullptr : (void*)&g_obj[2]);
    case C19_FPTR: return vfptr(which ? (c19_fn) nullptr : (c19_fn)c19_fn2);
    }
    return V(kind);
}

// the 38 ways of asking for the return value at one level
struct Ask { int code; int kind; int which; };
std::vector<Ask> asks(bool support_level) {
    std::vector<Ask> A;
    A.push_back({support_level ? C19_S_HAS : C19_A_HAS, -1, 0});
    A.push_back({support_level ? C19_S_RETVAL : C19_A_RETVAL, -1, 0});
    for (int k = 0; k < C19_NGETTERS; k++) A.push_back({support_level ? C19_S_GET : C19_A_GET, k, 0});
    for (int k = 0; k < C19_NGETTERS; k++) for (int w = 0; w < 2; w++) A.push_back({support_level ? C19_S_GETDEF : C19_A_GETDEF, k, w});
    return A;
}
void add_ask(Program& p, const Ask& a, const char* scope = nullptr) {
    if (a.code == C19_S_GETDEF || a.code == C19_A_GETDEF) p.getter_def(a.code, default_value(a.kind, a.which), scope);
    else if (a.code == C19_S_GET || a.code == C19_A_GET) p.getter(a.code, a.kind, scope);
    else p.simple(a.code, scope);
}

std::vector<TV> data_values() {
    std::vector<TV> L;
    auto add = [&](const c19_val& v, const char* type = nullptr) { L.push_back({v, type}); };
    for (long long x : {0LL, 1LL, 256LL}) add(vbool(x));
    for (long long x : {0LL, -1LL, (long long)INT_MIN, (long long)INT_MAX}) add(vint(x));
    for (unsigned long long x : {0ULL, (unsigned long long)INT_MAX + 1, (unsigned long long)UINT_MAX}) add(vuint(x));
    for (double x : {0.1, -0.0, DBL_MAX, (double)NAN}) add(vdbl(x));
    for (char* s : {s_a, s_empty, s_hi, (char*)nullptr}) add(vstr(s));
    for (void* p : {(void*)nullptr, (void*)&g_obj[0]}) add(vptr(p));
    for (void* p : {(void*)nullptr, (void*)&g_obj[0]}) add(vcptr(p));
    for (c19_fn f : {(c19_fn) nullptr, (c19_fn)c19_fn1}) add(vfptr(f));
    add(vobj(&g_t[0]), "T"); add(vobj(&g_t[1]), "U"); add(vcobj(&g_t[0]), "T"); add(vcobj(nullptr), "V");
    return L;
}

std::vector<std::string> type_names() {
    static const char* builtin[] = {"bool", "int", "unsigned int", "long int", "unsigned long int", "long long int", "unsigned long long int",
                                    "double", "const char*", "void*", "const void*", "void (*)()", "const unsigned char*"};
    std::vector<std::string> L;
    auto add = [&](const std::string& n) { for (auto& x : L) if (x == n) return; L.push_back(n); };
    for (const char* b : builtin) {
        std::string n = b, up = b;
        for (auto& c : up) if (c >= 'a' && c <= 'z') c = (char)(c - 'a' + 'A');
        add(n + "*"); add(n + "x"); add(n.substr(0, n.size() - 1)); add(up);      // not the name itself: an object whose type is
        // called exactly like a built-in has its pointer bits read as that built-in by both interfaces (undefined, address dependent)
    }
    add("T"); add("Point");
    return L;
}

} // namespace

void run_typed_sections() {
    // ---------------------------------------------------------------- param: expectation value x actual value
    {
        static std::vector<TV> E = param_values(true), A = param_values(false);
        long nE = (long)E.size(), nA = (long)A.size();
        vf::info("param.bound", vf::fmt("expectOneCall(f).withParameter(p, e) / actualCall(f).withParameter(p, a) / checkExpectations / clear for every ordered pair of %ld expectation values and %ld actual values (15 kinds: bool passed as int 0,1,2,256,-1,INT_MIN; int/unsigned/long/unsigned long/long long/unsigned long long at their sign and width boundaries; 13 doubles incl. +-0, values that do not survive float, +-inf, NaN; double with tolerance 0, 0.01, 0.5, 1e-12, 0.25, inf; strings incl. equal content in other storage, a high byte, a long one; NULL and two addresses as pointer / const pointer / function pointer; memory buffers of sizes 0,1,2,4 incl. equal content in other storage and NULL; custom types T and U with C comparators) x {no comparator installed, T installed, T and U installed} when a custom type is involved", nE, nA));
        vf::section_index("param", nE * nA * 3, [&](long idx) {
            vf::Radix r(idx);
            int cfg = (int)r.take(3); const TV& a = A[r.take(nA)]; const TV& e = E[r.take(nE)];
            bool custom = e.type || a.type;
            if (!custom && cfg) { vf::count("skipped_no_custom_type"); return; }
            Program p;
            if (cfg >= 1) p.install_cmp("T", 0);
            if (cfg >= 2) p.install_cmp("U", 1);
            p.expect_one("f"); p.e_param("p", e.v, e.type);
            p.actual("f"); p.a_param("p", a.v, a.type);
            p.end_body(); p.simple(C19_CHECK); p.simple(C19_CLEAR); p.simple(C19_REMOVE_ALL);
            differential(p, vf::fmt("%s/%s", kind_name(e.v.kind), kind_name(a.v.kind)));
        });
        vf::require_outcomes("param", 100);
    }
    // ---------------------------------------------------------------- ret: return value x way of asking
    {
        static std::vector<c19_val> R = return_values();
        static std::vector<Ask> Q[2] = {asks(false), asks(true)};
        long nR = (long)R.size() + 1, nQ = (long)Q[0].size();
        vf::info("ret.bound", vf::fmt("expectOneCall(f)[.andReturnValue(v)] / actualCall(f) / one question / checkExpectations / clear for v in {no return value} + %ld values of the 12 returnable kinds (boundary values as in 'param') x %ld questions (hasReturnValue, returnValue with type tag, the 12 typed getters, the 12 OrDefault getters with two defaults each) asked on the call handle and on the support object; plus the call-handle questions on a call ignored because mocking is disabled or because of ignoreOtherCalls", nR - 1, nQ));
        vf::section_index("ret", nR * nQ * 2 + 2 * nQ, [&](long idx) {
            Program p;
            std::string oc;
            if (idx < nR * nQ * 2) {
                vf::Radix r(idx);
                int level = (int)r.take(2); const Ask& q = Q[level][r.take(nQ)]; long ir = r.take(nR);
                p.expect_one("f");
                if (ir > 0) p.e_ret(R[ir - 1]);
                p.actual("f");
                add_ask(p, q);
                oc = vf::fmt("%s/%s/%d", ir > 0 ? kind_name(R[ir - 1].kind) : "none", family(p.ops.back()), q.kind);
            } else {
                long j = idx - nR * nQ * 2;
                int mode = (int)(j / nQ); const Ask& q = Q[0][j % nQ];
                if (mode == 0) { p.simple(C19_DISABLE); p.expect_one("f"); p.e_ret(vint(5)); p.actual("f"); }
                else { p.simple(C19_IOC); p.actual("f"); }
                add_ask(p, q);
                if (mode == 0) p.simple(C19_ENABLE);
                oc = vf::fmt("ignored%d/%s/%d", mode, family(p.ops.back()), q.kind);
            }
            p.usual_teardown();
            differential(p, oc);
        });
        vf::require_outcomes("ret", 100);
    }
    // ---------------------------------------------------------------- retscope: another scope is selected between actualCall and the question
    {
        static std::vector<c19_val> R = return_values();
        static std::vector<Ask> Q = asks(false);
        long nR = (long)R.size() + 1, nQ = (long)Q.size();
        vf::info("retscope.bound", vf::fmt("as 'ret' for the %ld questions on the call handle (hasReturnValue, returnValue, 12 getters, 12 OrDefault getters x 2 defaults) x {no return value} + %ld return values, but a different scope is selected between actualCall and the question, 4 variants: call in the global scope and scope s selected by hasReturnValue while s has a last actual call WITH a return value (of another kind) / call in global and s selected by getData while s has no actual call; call in scope s and the global scope selected likewise with / without a pending return value. The C++ back end asks the MockActualCall object obtained from actualCall.", nQ, nR - 1));
        vf::section_index("retscope", nR * nQ * 4, [&](long idx) {
            vf::Radix r(idx);
            int variant = (int)r.take(4); const Ask& q = Q[r.take(nQ)]; long ir = r.take(nR);
            const char* S = "s";
            const char* X = (variant & 2) ? S : nullptr;         // scope of the call under test
            const char* Y = (variant & 2) ? nullptr : S;         // the other scope, selected in between
            bool pending = variant & 1;
            Program p;
            if (pending) {
                bool is_string = ir > 0 && R[ir - 1].kind == C19_STRING;
                p.expect_one("g", Y); p.e_ret(is_string ? vint(77) : vstr(s_r));
                p.actual("g", Y);
            }
            p.expect_one("f", X);
            if (ir > 0) p.e_ret(R[ir - 1]);
            p.actual("f", X);
            if (pending) p.simple(C19_S_HAS, Y); else p.get_data("k", Y);
            add_ask(p, q);
            std::string oc = vf::fmt("%s/%s/%d/v%d", ir > 0 ? kind_name(R[ir - 1].kind) : "none", family(p.ops.back()), q.kind, variant);
            p.usual_teardown();
            differential(p, oc);
        });
        vf::require_outcomes("retscope", 100);
    }
    // ---------------------------------------------------------------- outparam
    {
        vf::info("outparam.bound", "expectation side {no output parameter, withOutputParameterReturning of 0/1/3/16 bytes, withOutputParameterOfTypeReturning T, of type U, withUnmodifiedOutputParameter} x actual side {none, withOutputParameter, withOutputParameterOfType T, of type U} x parameter name same/different x {no copier, C copier for T, C copiers for T and U}; plus two output parameters passed in both orders; output slots are compared byte for byte");
        const long NE = 8, NA = 4;
        vf::section_index("outparam", NE * NA * 2 * 3 + 2, [&](long idx) {
            Program p;
            std::string oc;
            if (idx < NE * NA * 2 * 3) {
                vf::Radix r(idx);
                int cfg = (int)r.take(3), same = (int)r.take(2), a = (int)r.take(NA), e = (int)r.take(NE);
                if (cfg >= 1) p.install_cpy("T", 0);
                if (cfg >= 2) p.install_cpy("U", 1);
                p.expect_one("f");
                static const size_t sizes[] = {0, 0, 1, 3, 16};
                if (e >= 1 && e <= 4) p.e_out("o", g_src[0], sizes[e]);
                else if (e == 5) p.e_out_typed("T", "o", &g_t[3]);
                else if (e == 6) p.e_out_typed("U", "o", &g_t[3]);
                else if (e == 7) p.e_unmod("o");
                p.actual("f");
                const char* an = same ? "o" : "x";
                if (a == 1) p.a_out(an, 0); else if (a == 2) p.a_out_typed("T", an, 0); else if (a == 3) p.a_out_typed("U", an, 0);
                oc = vf::fmt("e%d/a%d/%d/%d", e, a, same, cfg);
            } else {
                int rev = (int)(idx - NE * NA * 2 * 3);
                p.expect_one("f"); p.e_out("o1", g_src[0], 2); p.e_out("o2", g_src[1], 3);
                p.actual("f");
                if (rev) { p.a_out("o2", 1); p.a_out("o1", 0); } else { p.a_out("o1", 0); p.a_out("o2", 1); }
                oc = "two";
            }
            p.end_body(); p.simple(C19_CHECK); p.simple(C19_CLEAR); p.simple(C19_REMOVE_ALL);
            differential(p, oc);
        });
        vf::require_outcomes("outparam", 20);
    }
    // ---------------------------------------------------------------- typenames: custom type names around the built-in type names
    {
        static std::vector<std::string> N = type_names();
        long nN = (long)N.size();
        vf::info("typenames.bound", vf::fmt("%ld custom type names: for each of the 13 built-in type strings of the C value conversion (bool, int, unsigned int, long int, unsigned long int, long long int, unsigned long long int, double, const char*, void*, const void*, void (*)(), const unsigned char*) the name + '*', the name + 'x', the name without its last character and its upper-case spelling, plus the plain names T and Point; x 14 uses: setDataObject / setDataConstObject of an object or NULL then getData (tag and value); withParameterOfType on both sides with a C comparator installed under that name or not x {equal object, different object, actual of type T}; withOutputParameterOfTypeReturning with a C copier installed under that name or not x {actual of the same type, plain actual output parameter}", nN));
        vf::section_index("typenames", nN * 14, [&](long idx) {
            const char* name = N[idx / 14].c_str(); int use = (int)(idx % 14);
            Program p;
            if (use < 4) {
                void* obj = (use & 1) ? nullptr : (void*)&g_t[0];
                p.set_data("k", (use & 2) ? vcobj(obj) : vobj(obj), name);
                p.get_data("k");
                p.usual_teardown();
            } else if (use < 10) {
                int u = use - 4, installed = u / 3, what = u % 3;
                if (installed) { p.install_cmp(name, 0); p.install_cmp("T", 0); }
                p.expect_one("f"); p.e_param("p", vobj(&g_t[0]), name);
                p.actual("f"); p.a_param("p", vobj(what == 1 ? &g_t[1] : &g_t[2]), what == 2 ? "T" : name);
                p.end_body(); p.simple(C19_CHECK); p.simple(C19_CLEAR); p.simple(C19_REMOVE_ALL);
            } else {
                int u = use - 10, installed = u / 2, plain = u % 2;
                if (installed) p.install_cpy(name, 0);
                p.expect_one("f"); p.e_out_typed(name, "o", &g_t[3]);
                p.actual("f"); if (plain) p.a_out("o", 0); else p.a_out_typed(name, "o", 0);
                p.end_body(); p.simple(C19_CHECK); p.simple(C19_CLEAR); p.simple(C19_REMOVE_ALL);
            }
            differential(p, vf::fmt("%s/%d", name, use));
        });
        vf::require_outcomes("typenames", 100);
    }
    // ---------------------------------------------------------------- data store
    {
        static std::vector<TV> D = data_values();
        long nD = (long)D.size();
        vf::info("data.bound", vf::fmt("setData(k, v1) [setData(k, v2)] in scope X, then getData(k) and getData(unset) in scope Y: v1 over %ld typed values (bool 0/1/256, int, unsigned, double incl. NaN and -0, strings incl. NULL, pointer, const pointer, function pointer, object and const object of custom types), v2 over the same values or absent, X and Y over {global, \"s\"}; value and type tag compared", nD));
        vf::section_index("data", nD * (nD + 1) * 4, [&](long idx) {
            vf::Radix r(idx);
            int sc = (int)r.take(4); long i2 = r.take(nD + 1); const TV& v1 = D[r.take(nD)];
            const char* X = (sc & 1) ? "s" : nullptr; const char* Y = (sc & 2) ? "s" : nullptr;
            Program p;
            p.set_data("k", v1.v, v1.type, X);
            if (i2 > 0) p.set_data("k", D[i2 - 1].v, D[i2 - 1].type, X);
            p.get_data("k", Y); p.get_data("unset", Y);
            p.usual_teardown();
            differential(p, vf::fmt("%s/%s/%d", kind_name(v1.v.kind), i2 > 0 ? kind_name(D[i2 - 1].v.kind) : "-", sc));
        });
        vf::require_outcomes("data", 50);
    }
}

} // namespace c19

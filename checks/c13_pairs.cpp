// C13, sections binary (all pairs), replace (all triples), replace_empty.
#include <sanitizer/asan_interface.h>
#include <string>
#include <vector>
#include <set>
#include <cmath>
#include "c13_common.h"

namespace c13 {

static const size_t NPOS = SimpleString::npos;

static std::vector<str> g_B;      // operands of the binary section

static str join(SimpleStringCollection& col) { str o; for (size_t i = 0; i < col.size(); i++) o += val(col[i]); return o; }
static std::string show(SimpleStringCollection& col) { std::string o = "{"; for (size_t i = 0; i < col.size(); i++) { if (i) o += ","; o += q(val(col[i])); } return o + "}"; }

// textbook split that keeps the delimiter at the end of each piece (the documented convention of this
// class: "a\nb" -> {"a\n","b"}), for a non-empty delimiter, scanning left to right without overlap
static std::vector<str> ref_split(const str& s, const str& d) {
    std::vector<str> out; size_t i = 0;
    for (;;) {
        size_t p = s.find(d, i);
        if (p == str::npos) break;
        out.push_back(s.substr(i, p + d.size() - i)); i = p + d.size();
    }
    if (i < s.size()) out.push_back(s.substr(i));
    return out;
}

static void binary_case(long idx) {
    // pairs are numbered by square shells (all pairs of the first n operands are the cases 0..n*n-1),
    // so that a case id means the same pair whatever the size of the universe
    long k = (long)sqrtl((long double)idx);
    while (k * k > idx) k--;
    while ((k + 1) * (k + 1) <= idx) k++;
    long rr = idx - k * k;
    const str& s = g_B[(size_t)(rr < k ? rr : k)];
    const str& t = g_B[(size_t)(rr < k ? k : rr - k)];
    Exact es(s), et(t);
    const std::string S = q(s), Tq = q(t);
    const std::string P = S + " , " + Tq;
    if (vf::want_sample()) vf::sample("pair " + P);
    if (!s.empty() && !t.empty()) vf::count("nontrivial");
    int mask = 0;

    scoped("compare", P, [&] {
        SimpleString a(es), b(et);
        vf::ctx("operator==");
        expect_num("operator==/wrong", a == b, s == t, S + " == " + Tq);
        expect_num("operator!=/wrong", a != b, s != t, S + " != " + Tq);
        vf::ctx("equalsNoCase");
        expect_num("equalsNoCase/wrong", a.equalsNoCase(b), ref_lower(s) == ref_lower(t), S + ".equalsNoCase(" + Tq + ")");
        vf::ctx("contains");
        bool c = s.find(t) != str::npos;
        expect_num("contains/wrong", a.contains(b), c, S + ".contains(" + Tq + ")");
        vf::ctx("containsNoCase");
        expect_num("containsNoCase/wrong", a.containsNoCase(b), ref_lower(s).find(ref_lower(t)) != str::npos, S + ".containsNoCase(" + Tq + ")");
        vf::ctx("startsWith");
        bool sw = t.size() <= s.size() && s.compare(0, t.size(), t) == 0;
        expect_num("startsWith/wrong", a.startsWith(b), sw, S + ".startsWith(" + Tq + ")");
        vf::ctx("endsWith");
        bool ew = t.size() <= s.size() && s.compare(s.size() - t.size(), t.size(), t) == 0;
        expect_num("endsWith/wrong", a.endsWith(b), ew, S + ".endsWith(" + Tq + ")");
        vf::ctx("count");
        size_t n = a.count(b);
        vf::count("ops");
        if (!t.empty()) {       // empty pattern: no textbook count (only safety); overlapping vs. disjoint: both accepted
            size_t lo = ref_count_disjoint(s, t), hi = ref_count_overlapping(s, t);
            if (n < lo || n > hi) vf::fail("count/wrong", vf::fmt("%s.count(%s) = %zu, expected %zu..%zu", S.c_str(), Tq.c_str(), n, lo, hi));
            if (lo != hi) mask |= 64;
        }
        expect_eq("compare/operand-changed", val(a) + "|" + val(b), s + "|" + t, P);
        mask |= (s == t) | c << 1 | sw << 2 | ew << 3 | (ref_lower(s) == ref_lower(t)) << 4;
    });

    scoped("concatenate", P, [&] {
        SimpleString a(es), b(et);
        vf::ctx("operator+");
        SimpleString c = a + b;
        expect_eq("operator+/wrong-result", val(c), s + t, S + " + " + Tq);
        check_own("operator+", c, P);
        expect_eq("operator+/operand-changed", val(a) + "|" + val(b), s + "|" + t, P);
        vf::ctx("operator+=(SimpleString)");
        SimpleString d(es);
        d += b;
        expect_eq("operator+=/wrong-result", val(d), s + t, S + " += " + Tq);
        check_own("operator+=", d, P);
        vf::ctx("operator+=(const char*)");
        SimpleString e(es);
        e += (const char*)et;
        expect_eq("operator+=/wrong-result", val(e), s + t, S + " += (const char*)" + Tq);
        check_own("operator+=", e, P);
        e += e;
        expect_eq("operator+=/self-append-wrong", val(e), s + t + s + t, "e += e with e = " + q(s + t));
        check_own("operator+=", e, P);
        vf::ctx("assign");
        a = b;
        expect_eq("assign/wrong-value", val(a), t, S + " = " + Tq);
        check_own("assign", a, P);
        b = "";
        expect_eq("assign/aliases-source", val(a), t, "a = b; b = \"\"");
    });

    scoped("padStringsToSameLength", P, [&] {
        SimpleString a(es), b(et);
        SimpleString::padStringsToSameLength(a, b, ' ');
        size_t m = std::max(s.size(), t.size());
        expect_eq("padStringsToSameLength/wrong-result", val(a) + "|" + val(b), str(m - s.size(), ' ') + s + "|" + str(m - t.size(), ' ') + t, "pad(" + P + ", ' ')");
        check_own("padStringsToSameLength", a, P); check_own("padStringsToSameLength", b, P);
    });

    scoped("split", P, [&] {
        SimpleString a(es), b(et);
        {
            SimpleStringCollection col;
            a.split(b, col);
            vf::count("ops");
            std::string what = S + ".split(" + Tq + ") = " + show(col);
            if (s.empty() || t.empty()) {
                // no textbook answer for an empty delimiter; for an empty receiver zero pieces and one empty piece are both fine
                if (join(col) != s) vf::fail("split/pieces-do-not-concatenate-to-receiver", what);
            } else {
                std::vector<str> want = ref_split(s, t);
                bool same = want.size() == col.size();
                for (size_t i = 0; same && i < want.size(); i++) same = val(col[i]) == want[i];
                if (!same) {
                    if (t.size() == 1) vf::fail("split/wrong-pieces", what);
                    // longer delimiters: cutting rules differ between readings (overlap, where the cut lies);
                    // every reading keeps all characters of the receiver in order
                    else if (join(col) != s) vf::fail("split/multi-char-delimiter-loses-characters", what);
                }
                if (want.size() > 1) mask |= 32;
            }
            for (size_t i = 0; i < col.size(); i++) check_own("split", col[i], P);
            vf::ctx("collection[]");
            expect_eq("collection[]/out-of-range-not-empty", val(col[col.size()]), "", "col[size]");
            expect_eq("collection[]/out-of-range-not-empty", val(col[col.size() + 7]), "", "col[size+7]");
            vf::ctx("split-again");
            b.split(a, col);        // reuse of a filled collection
            vf::count("ops");
            vf::ctx("collection-destroy");
        }
        expect_eq("split/operand-changed", val(a) + "|" + val(b), s + "|" + t, P);
    });

    // ---- C-library-like primitives on the same pair, operands in exact-size blocks
    vf::ctx("StrCmp");
    expect_num("StrCmp/wrong-sign", sgn(SimpleString::StrCmp(es, et)), sgn(strcmp(es, et)), "StrCmp(" + P + ")");
    size_t mx = std::max(s.size(), t.size());
    vf::ctx("StrNCmp");
    for (size_t n : {(size_t)0, (size_t)1, (size_t)2, (size_t)3, mx, mx + 1, mx + 2, NPOS})
        expect_num("StrNCmp/wrong-sign", sgn(SimpleString::StrNCmp(es, et, n)), sgn(strncmp(es, et, n)), vf::fmt("StrNCmp(%s, %zu)", P.c_str(), n));
    vf::ctx("StrStr");
    {
        const char* got = SimpleString::StrStr(es, et); const char* want = strstr(es, et);
        expect_num("StrStr/wrong", got ? got - es.p : -1, want ? want - es.p : -1, "StrStr(" + P + ") as offset");
    }
    vf::ctx("MemCmp");
    for (size_t n = 0; n <= std::min(s.size(), t.size()) + 1; n++)
        expect_num("MemCmp/wrong-sign", sgn(SimpleString::MemCmp(es.p, et.p, n)), sgn(memcmp(es.p, et.p, n)), vf::fmt("MemCmp(%s, %zu)", P.c_str(), n));
    vf::ctx("StrNCpy");
    for (size_t n = 0; n <= t.size() + 3; n++) {
        // destination of exactly n bytes pre-filled from s-independent filler; bytes behind the copied terminator are not asserted
        char* d = (char*)malloc(n ? n : 1); memset(d, '%', n ? n : 1);
        char* ret = SimpleString::StrNCpy(d, et, n);
        vf::count("ops");
        std::string what = vf::fmt("StrNCpy(dst[%zu], %s, %zu)", n, Tq.c_str(), n);
        if (ret != d) vf::fail("StrNCpy/wrong-return", what);
        if (n == 0) { if (d[0] != '%') vf::fail("StrNCpy/writes-with-n-0", what); }
        else if (memcmp(d, et.p, std::min(n, t.size() + 1)) != 0) vf::fail("StrNCpy/wrong-content", what);
        free(d);
    }
    if (SimpleString::StrNCpy(NULLPTR, et, 3) != NULLPTR) vf::fail("StrNCpy/wrong-return", "StrNCpy(NULL, ...)");
    vf::outcome(vf::fmt("mask=%d", mask));
}

// ---------------------------------------------------------------- replace(to, with)
static std::vector<str> g_R, g_T, g_W;
static void replace_case(long idx) {
    vf::Radix r(idx);
    const str& w = g_W[(size_t)r.take((long)g_W.size())];
    const str& t = g_T[(size_t)r.take((long)g_T.size())];
    const str& s = g_R[(size_t)r.take((long)g_R.size())];
    Exact es(s), et(t), ew(w);
    std::string what = q(s) + ".replace(" + q(t) + ", " + q(w) + ")";
    if (vf::want_sample()) vf::sample(what);
    str want = ref_replace(s, t, w);
    size_t lo = ref_count_disjoint(s, t), hi = ref_count_overlapping(s, t);
    if (lo >= 1) vf::count("nontrivial");
    if (lo != hi) vf::count("overlapping_occurrences");
    scoped("replace(to,with)", what, [&] {
        SimpleString a(es);
        a.replace(et, ew);
        vf::count("ops");
        bool ok = val(a) == want;
        if (!ok) vf::fail(lo != hi ? "replace(to,with)/wrong-result-overlapping-occurrences" : "replace(to,with)/wrong-result", what + ": expected " + q(want) + " got " + q(val(a)));
        check_own("replace(to,with)", a, what);
        vf::ctx("replace-then-append");
        a += "z";                               // the object must stay usable (recorded size consistent)
        if (ok) expect_eq("replace(to,with)/unusable-after", val(a), want + "z", what + " then += \"z\"");
    });
    vf::outcome(vf::fmt("n=%zu%s d=%d", std::min<size_t>(lo, 4), lo != hi ? "+ov" : "", (int)std::max(-3L, std::min(3L, (long)want.size() - (long)s.size()))));
}

static const char* RE_RECV[] = {"", "a", "ab", "\x80" "a"};
static const char* RE_WITH[] = {"", "b", "bc"};
static void replace_empty_case(long idx) {
    vf::Radix r(idx);
    str w = RE_WITH[r.take(3)], s = RE_RECV[r.take(4)];
    Exact es(s), ew(w), et("");
    std::string what = q(s) + ".replace(\"\", " + q(w) + ")";
    if (vf::want_sample()) vf::sample(what);
    if (!s.empty()) vf::count("nontrivial");
    scoped("replace(empty,with)", what, [&] {
        SimpleString a(es);
        a.replace(et, ew);          // result not asserted: must return, stay inside its buffers, leave a usable object
        vf::count("ops");
        check_own("replace(empty,with)", a, what);
        vf::outcome(val(a) == s ? "unchanged" : "changed");
    });
}

void sections_pairs(bool T) {
    {
        const bool big = T || vf::g_replaying;       // (replay: see the remark in the unary section)
        g_B = universe("abA\n\x01\x7f\x80", 3);
        for (size_t n : {99, 100}) g_B.push_back(pattern(n, "ab\nA\x80"));
        g_B.push_back(pattern(100, "a"));
        if (big) { for (auto& x : universe("abA\n\x01\x7f\x80", 4)) if (x.size() > 3) g_B.push_back(x); }
        if (big) { for (auto& x : universe("ab", 6)) if (x.size() > 4) g_B.push_back(x); }
        vf::info("binary.bound", vf::fmt("all ordered pairs of %zu operands: every byte string over {a,b,A,\\n,0x01,0x7f,0x80} of length <= %d%s, three patterned strings of 99/100 bytes; per pair: ==, !=, equalsNoCase, contains, containsNoCase, startsWith, endsWith, count, +, += (both forms, self-append), =, padStringsToSameLength, split + collection indexing/reuse, StrCmp, StrNCmp (n in 0..3, max, max+1, max+2, SIZE_MAX), StrStr, MemCmp (n <= min+1), StrNCpy (n <= len+3, destination of exactly n bytes)", g_B.size(), T ? 4 : 3, T ? ", every string over {a,b} of length 5..6" : ""));
        vf::section_index("binary", (long)g_B.size() * (long)g_B.size(), binary_case);
        vf::require_outcomes("binary", 8);
    }
    {
        g_R = universe("ab\x80", (T || vf::g_replaying) ? 6 : 4);
        g_T = universe("ab\x80", 2); g_T.erase(g_T.begin());
        for (const char* x : {"aaa", "aba", "abab", "aab"}) g_T.push_back(x);
        g_W = universe("ab\n", 2);
        for (const char* x : {"aaa", "abab", "\x80"}) g_W.push_back(x);
        vf::info("replace.bound", vf::fmt("all triples: %zu receivers (every string over {a,b,0x80} of length <= %d) x %zu patterns (non-empty strings over the same alphabet of length <= 2, and aaa, aba, abab, aab) x %zu replacements (strings over {a,b,\\n} of length <= 2, and aaa, abab, 0x80); reference = left-to-right non-overlapping replacement", g_R.size(), T ? 6 : 4, g_T.size(), g_W.size()));
        vf::section_index("replace", (long)(g_R.size() * g_T.size() * g_W.size()), replace_case);
        vf::require_outcomes("replace", 12);
    }
    {
        vf::info("replace_empty.bound", "empty pattern: receivers {\"\", a, ab, 0x80 a} x replacements {\"\", b, bc}; only termination, memory safety and buffer pairing are asserted");
        double saved = vf::opt.hang_s;
        vf::opt.hang_s = vf::g_replaying ? 0.5 : 4;      // cases take microseconds; a hang is a hang
        vf::section_index("replace_empty", 12, replace_empty_case);
        vf::opt.hang_s = saved;
    }
}

} // namespace c13

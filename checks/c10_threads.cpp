// C10 - thread-safe allocation mode: every schedule of 2..3 real threads running allocation scripts
// through the real thread-safe wrappers, up to a preemption bound (section "sched2", "sched3"),
// plus the deterministic "misuse while the lock is held" scenarios (section "misuse").
//
// Scheduling points: the interposed PlatformSpecificMutexLock/Unlock (modelled mutex) and - only when the
// running thread does NOT own the detector mutex - the H1 observation points inside the detector
// (so a wrapper that forgot the lock yields a real lost update, not just a lockset report).
// Lockset invariant: every H1 point is reached with the mutex owned by the running thread.
#include <vector>
#include <string>
#include <functional>
#include <cstring>
#include <csetjmp>
#include <new>
#define VF_MAIN
#include "vf.h"
#include "vfsched.h"
#include "CppUTest/TestHarness.h"
#include "CppUTest/MemoryLeakDetector.h"
#include "CppUTest/MemoryLeakWarningPlugin.h"
#include "CppUTest/TestMemoryAllocator.h"
#include "CppUTest/PlatformSpecificFunctions.h"
#include "CppUTest/TestTestingFixture.h"
#include "CppUTest/TestRegistry.h"
#include "CppUTest/TestOutput.h"
#include "CppUTest/MemoryLeakDetectorMallocMacros.h"
#undef new
#undef malloc
#undef free
#undef realloc
#undef calloc
#undef strdup
#undef strndup

extern "C" void (*cpputest_verif_point)(const char* tag);
using namespace vf;

namespace {

// ------------------------------------------------------------------ arena: all blocks in ONE hash bucket
constexpr size_t HASH_PRIME = MemoryLeakDetectorTable::hash_prime;       // the library's own bucket count: slots spaced by a multiple of it share a bucket
constexpr size_t STRIDE = HASH_PRIME * 64;
constexpr int NSLOTS = 96;
alignas(64) char g_arena[STRIDE * (NSLOTS + 2)];
char* g_base;
int g_next_slot;
char g_slot_state[NSLOTS];          // 0 unused, 1 live, 2 returned
int g_alloc_log[NSLOTS]; int g_alloc_log_n;
int g_arena_double_free, g_arena_foreign_free, g_arena_exhausted;

char* arena_alloc(size_t size) {
    if (g_next_slot >= NSLOTS || size + 256 > STRIDE) { g_arena_exhausted++; return nullptr; }
    int s = g_next_slot++;
    g_slot_state[s] = 1;
    if (g_alloc_log_n < NSLOTS) g_alloc_log[g_alloc_log_n++] = sched::self();
    return g_base + (size_t)s * STRIDE;
}
void arena_free(char* p) {
    if (p < g_base || p >= g_base + STRIDE * NSLOTS || (size_t)(p - g_base) % STRIDE) { g_arena_foreign_free++; return; }
    int s = (int)((p - g_base) / STRIDE);
    if (g_slot_state[s] != 1) { g_arena_double_free++; return; }
    g_slot_state[s] = 2;
}
void* arena_realloc(void* mem, size_t size) {
    char* n = arena_alloc(size);
    if (!n) return nullptr;
    if (mem) { memcpy(n, mem, 256 < size ? 256 : size); arena_free((char*)mem); }
    return n;
}
void arena_reset() {
    g_next_slot = 0; memset(g_slot_state, 0, sizeof g_slot_state); g_alloc_log_n = 0;
    g_arena_double_free = g_arena_foreign_free = g_arena_exhausted = 0;
}
struct ArenaAllocator : TestMemoryAllocator {
    ArenaAllocator(const char* n, const char* a, const char* f) : TestMemoryAllocator(n, a, f) {}
    char* alloc_memory(size_t size, const char*, size_t) override { return arena_alloc(size); }
    void free_memory(char* memory, size_t, const char*, size_t) override { arena_free(memory); }
};
ArenaAllocator g_new_alloc("Standard New Allocator", "new", "delete");
ArenaAllocator g_arr_alloc("Standard New [] Allocator", "new []", "delete []");
ArenaAllocator g_mal_alloc("Standard Malloc Allocator", "malloc", "free");

// ------------------------------------------------------------------ modelled mutex behind the platform seam
sched::Mutex* g_detector_mutex = nullptr;
PlatformSpecificMutex mtx_create() { sched::Mutex* m = (sched::Mutex*)::malloc(sizeof(sched::Mutex)); m->owner = -1; m->acquisitions = 0; g_detector_mutex = m; return m; }
bool g_tolerate_self_deadlock = false; int g_self_deadlocks = 0;
void mtx_lock(PlatformSpecificMutex m) {
    sched::Mutex* mm = (sched::Mutex*)m;
    if (g_tolerate_self_deadlock && !sched::S.active && mm->owner == sched::self()) { g_self_deadlocks++; return; }   // a real mutex hangs here
    sched::lock(mm);
}
void mtx_unlock(PlatformSpecificMutex m) { sched::unlock((sched::Mutex*)m); }
void mtx_destroy(PlatformSpecificMutex m) { if (g_detector_mutex == m) g_detector_mutex = nullptr; ::free(m); }

// ------------------------------------------------------------------ H1 hook: lockset + scheduling outside the lock
int g_lockset_violations; char g_lockset_tag[32]; long g_h1_points;
bool g_preempt_inside = false;       // sections "*in": also preempt INSIDE critical sections (catches unprotected shared state that has no observation point of its own)
void h1_point(const char* tag) {
    g_h1_points++;
    if (!sched::S.active || sched::t_tid < 0) return;
    bool owned = g_detector_mutex && g_detector_mutex->owner == sched::self();
    if (!owned) {
        if (sched::live_threads() > 1 && g_lockset_violations++ == 0) { strncpy(g_lockset_tag, tag, sizeof g_lockset_tag - 1); }
        sched::yield_point(tag);         // unprotected access: let the other threads in right here
    } else if (g_preempt_inside) sched::yield_point(tag);
}

// ------------------------------------------------------------------ recording reporter
struct Reporter : MemoryLeakFailure {
    int calls = 0; char first[160];
    void fail(char* s) override { if (calls++ == 0) { strncpy(first, s, sizeof first - 1); first[sizeof first - 1] = 0; for (char* c = first; *c; c++) if (*c == '\n') *c = ' '; } }
};

// ------------------------------------------------------------------ thread scripts
enum Op : char { N = 'N', D = 'D', A = 'A', a = 'a', M = 'M', R = 'R', r = 'r', F = 'F', X = 'X', n = 'n', b = 'b', d = 'd', e = 'e' };
// n / b = new(std::nothrow) / new[](std::nothrow); d / e = the (size, file, line) forms of new / new[] behind the `new` macro: every entry of the thread-safe table
// r = realloc(NULL, n): the "grow a buffer that starts as NULL" idiom; the block belongs to the malloc family
// X = misuse: free() of an address that was never allocated. The REAL global reporter fails the "current test" and
// leaves the wrapper through PlatformSpecificLongJmp (a per-thread seam here); the rest of that thread's script is skipped.
const char* SCRIPTS[] = { "ND", "Aa", "MF", "MRF", "rRF", "N", "NNDD", "AMaF", "MR", "NDND", "r", "nD", "ba", "dD", "ea" };
constexpr int NSCRIPTS_T = 15;
const char* XSCRIPTS[] = { "ND", "MF", "X", "MXF", "NXD", "MR", "rF" };
constexpr int NXSCRIPTS = 7;
const char* const* g_script_table = SCRIPTS;

struct Held { char* p; size_t size; char fam; unsigned char pat; };
struct ThreadCtx {
    const char* script; Held held[8]; int nheld; int content_errors; int null_allocs; int allocs; int misuses; bool aborted;
};
thread_local jmp_buf t_jmp; thread_local bool t_jmp_armed = false;
void thread_longjmp() { if (!t_jmp_armed) abort(); longjmp(t_jmp, 1); }
int g_console_misuse_reports, g_console_other_failures;
void console_capture(const char* s_, PlatformSpecificFile) { if (strstr(s_, "Deallocating non-allocated memory")) g_console_misuse_reports++; else if (strstr(s_, "error: Failure")) g_console_other_failures++; }
void console_flush() {}
ThreadCtx g_tc[sched::MAXT];

void fill(Held& h) { memset(h.p, h.pat, h.size); }
bool intact(const Held& h) { for (size_t i = 0; i < h.size; i++) if ((unsigned char)h.p[i] != h.pat) return false; return true; }

void run_script_body(int tid);
void run_script(int tid) {
    t_jmp_armed = true;
    if (setjmp(t_jmp) == 0) run_script_body(tid);
    else g_tc[tid].aborted = true;
    t_jmp_armed = false;
}
void run_script_body(int tid) {
    ThreadCtx& t = g_tc[tid];
    for (const char* s = t.script; *s; s++) {
        unsigned char pat = (unsigned char)(0x10 * (tid + 1) + (s - t.script));
        switch (*s) {
        case N: case A: case M: case r: case n: case b: case d: case e: {
            size_t size = *s == N ? 8 : *s == A ? 5 : *s == M ? 12 : *s == r ? 10 : *s == n ? 9 : *s == b ? 6 : *s == d ? 7 : 4;
            char* p = *s == N ? (char*)operator new(size) : *s == A ? (char*)operator new[](size) : *s == M ? (char*)cpputest_malloc_location(size, "script.c", 10 + tid)
                    : *s == r ? (char*)cpputest_realloc_location(nullptr, size, "script.c", 50 + tid)
                    : *s == n ? (char*)operator new(size, std::nothrow) : *s == b ? (char*)operator new[](size, std::nothrow)
                    : *s == d ? (char*)operator new(size, "script.cpp", (size_t)(60 + tid)) : (char*)operator new[](size, "script.cpp", (size_t)(70 + tid));
            t.allocs++;
            if (!p) { t.null_allocs++; break; }
            char fam = *s == r ? M : (*s == n || *s == d) ? N : (*s == b || *s == e) ? A : *s;
            Held h{p, size, fam, pat}; fill(h); t.held[t.nheld++] = h;
            break; }
        case D: case a: case F: {
            char fam = *s == D ? N : *s == a ? A : M;
            int k = -1; for (int i = t.nheld - 1; i >= 0; i--) if (t.held[i].fam == fam) { k = i; break; }
            if (k < 0) break;
            Held h = t.held[k];
            if (!intact(h)) t.content_errors++;
            for (int i = k; i + 1 < t.nheld; i++) t.held[i] = t.held[i + 1];
            t.nheld--;
            if (fam == N) operator delete(h.p); else if (fam == A) operator delete[](h.p); else cpputest_free_location(h.p, "script.c", 20 + tid);
            break; }
        case X: {
            static char never_allocated[64];
            t.misuses++;
            cpputest_free_location(never_allocated + 8 * (tid + 1), "script.c", 40 + tid);      // does not return: reported, then longjmp
            break; }
        case R: {
            int k = -1; for (int i = t.nheld - 1; i >= 0; i--) if (t.held[i].fam == M) { k = i; break; }
            if (k < 0) break;
            Held& h = t.held[k];
            if (!intact(h)) t.content_errors++;
            char* p = (char*)cpputest_realloc_location(h.p, 24, "script.c", 30 + tid);
            t.allocs++;
            if (!p) { t.null_allocs++; for (int i = k; i + 1 < t.nheld; i++) t.held[i] = t.held[i + 1]; t.nheld--; break; }
            for (size_t i = 0; i < h.size; i++) if ((unsigned char)p[i] != h.pat) { t.content_errors++; break; }
            h.p = p; h.size = 24; h.pat = pat; fill(h);
            break; }
        }
    }
}

// one execution: scripts chosen by the first choices, then every schedule
// mode-switching history before the threads start (sections "*m"): the thread-safe table must be in force however it was reached
bool g_mode_histories = false;
const char* PRELUDE[] = {"on", "on,save/restore bracket", "on,off,on", "on,on", "save/restore bracket,on"};
void scenario(Chooser& ch, int nthreads, int nscripts, int bound) {
    ch.c.reserve(256); ch.n.reserve(256);
    int prelude = g_mode_histories ? 1 + ch.choose(4) : 0;
    int sidx[sched::MAXT];
    for (int i = 0; i < nthreads; i++) sidx[i] = ch.choose(nscripts);
    arena_reset();
    // the threads report their misuses on the shell that stands for "outside a test run": a process-wide object whose
    // "has already failed" mark would otherwise leak from one execution into the next (and make a replay in a fresh
    // process differ from the execution it replays)
    UtestShell::getCurrent()->hasFailed_ = false;
    g_console_misuse_reports = g_console_other_failures = 0;
    g_lockset_violations = 0; g_lockset_tag[0] = 0; g_h1_points = 0;
    for (int i = 0; i < nthreads; i++) { g_tc[i] = ThreadCtx(); g_tc[i].script = g_script_table[sidx[i]]; sched::S.body[i] = [i]() { run_script(i); }; }

    MemoryLeakDetector* saved_det = MemoryLeakWarningPlugin::getGlobalDetector();
    MemoryLeakFailure* saved_rep = MemoryLeakWarningPlugin::getGlobalFailureReporter();
    // the REAL reporter of the plugin (fails the current test, releases the lock, leaves by PlatformSpecificLongJmp)
    MemoryLeakDetector* det = new MemoryLeakDetector(saved_rep);
    MemoryLeakWarningPlugin::setGlobalDetector(det, saved_rep);
    void (*saved_longjmp)() = PlatformSpecificLongJmp; PlatformSpecificLongJmp = thread_longjmp;
    void (*saved_fputs)(const char*, PlatformSpecificFile) = PlatformSpecificFPuts; PlatformSpecificFPuts = console_capture;
    void (*saved_flush)() = PlatformSpecificFlush; PlatformSpecificFlush = console_flush;
    det->enable();
    setCurrentNewAllocator(&g_new_alloc); setCurrentNewArrayAllocator(&g_arr_alloc); setCurrentMallocAllocator(&g_mal_alloc);
    void* (*saved_realloc)(void*, size_t) = PlatformSpecificRealloc;
    PlatformSpecificRealloc = arena_realloc;
    if (prelude == 4) { MemoryLeakWarningPlugin::saveAndDisableNewDeleteOverloads(); MemoryLeakWarningPlugin::restoreNewDeleteOverloads(); }
    MemoryLeakWarningPlugin::turnOnThreadSafeNewDeleteOverloads();
    if (prelude == 1) { MemoryLeakWarningPlugin::saveAndDisableNewDeleteOverloads(); MemoryLeakWarningPlugin::restoreNewDeleteOverloads(); }
    if (prelude == 2) { MemoryLeakWarningPlugin::turnOffNewDeleteOverloads(); MemoryLeakWarningPlugin::turnOnThreadSafeNewDeleteOverloads(); }
    if (prelude == 3) MemoryLeakWarningPlugin::turnOnThreadSafeNewDeleteOverloads();
    cpputest_verif_point = h1_point;
    // ---- no harness allocation through operator new from here ...
    bool finished = sched::run(ch, nthreads, bound);
    cpputest_verif_point = nullptr;
    MemoryLeakWarningPlugin::turnOffNewDeleteOverloads();
    // ---- ... to here
    PlatformSpecificRealloc = saved_realloc;
    if (!finished) { vf::fail("sched/deadlock", "threads blocked forever"); vf::abandon_case(); }

    std::string desc;
    for (int i = 0; i < nthreads; i++) { desc += (i ? " | " : ""); desc += g_tc[i].script; }
    desc += vf::fmt(" ; bound=%d preemptions=%d switches=%ld", bound, sched::S.preemptions, sched::S.switches);
    if (prelude) desc += vf::fmt(" ; mode history before the threads: %s", PRELUDE[prelude]);

    // (1) lockset
    if (g_lockset_violations) vf::fail("lockset/unprotected-access", desc + vf::fmt(": detector state touched at '%s' without owning the detector mutex while %d threads were live (%d such points)", g_lockset_tag, nthreads, g_lockset_violations));
    // (2) exactly the misuses of the scripts are reported (as test failures, through the real reporter), nothing else
    int misuses = 0; for (int i = 0; i < nthreads; i++) misuses += g_tc[i].misuses;
    if (g_console_misuse_reports > misuses || g_console_other_failures) vf::fail("report/spurious-misuse-report", desc + vf::fmt(": %d misuse reports and %d other failures printed, the scripts contain %d misuses", g_console_misuse_reports, g_console_other_failures, misuses));
    if (g_console_misuse_reports < misuses) vf::fail("report/misuse-not-reported", desc + vf::fmt(": %d misuse reports printed, the scripts contain %d misuses", g_console_misuse_reports, misuses));
    for (int i = 0; i < nthreads; i++) if (g_tc[i].misuses && !g_tc[i].aborted) vf::fail("report/script-continued-after-misuse", desc + vf::fmt(": thread %d went on after its misuse was reported", i));
    // (3) accounting == union of what the threads still hold
    size_t held = 0, allocs = 0; int content = 0, nulls = 0;
    for (int i = 0; i < nthreads; i++) { held += g_tc[i].nheld; content += g_tc[i].content_errors; nulls += g_tc[i].null_allocs; allocs += g_tc[i].allocs; }
    size_t total = det->totalMemoryLeaks(mem_leak_period_all);
    if (total != held) vf::fail("accounting/outstanding-count", desc + vf::fmt(": detector holds %zu blocks, threads hold %zu", total, held));
    for (int i = 0; i < nthreads; i++) for (int k = 0; k < g_tc[i].nheld; k++) {
        Held& h = g_tc[i].held[k];
        MemoryLeakDetectorNode* node = det->memoryTable_.retrieveNode(h.p);
        if (!node) { vf::fail("accounting/held-block-untracked", desc + vf::fmt(": block held by thread %d (family %c) is not in the detector's table", i, h.fam)); continue; }
        if (node->size_ != h.size) vf::fail("accounting/held-block-size", desc + vf::fmt(": tracked size %zu, actual %zu", node->size_, h.size));
        if (!intact(h)) content++;
    }
    if (content) vf::fail("memory/content-changed", desc + vf::fmt(": %d blocks lost their contents (aliasing or stray poison)", content));
    if (nulls) vf::fail("alloc/null", desc + vf::fmt(": %d allocations returned NULL", nulls));
    if (det->allocationSequenceNumber_ != 1 + allocs) vf::fail("accounting/allocation-numbers", desc + vf::fmt(": %zu allocations but sequence counter is %u", allocs, det->allocationSequenceNumber_));
    if (g_arena_double_free || g_arena_foreign_free) vf::fail("allocator/bad-free", desc + vf::fmt(": underlying allocator saw %d double and %d foreign frees", g_arena_double_free, g_arena_foreign_free));
    if (g_arena_exhausted) vf::harness_error("arena exhausted");
    // (4) lock state
    if (g_detector_mutex && g_detector_mutex->owner != -1) vf::fail("mutex/left-held", desc + ": detector mutex still owned after all threads finished");
    if (sched::g_unlock_not_owner) vf::fail("mutex/unlock-not-owner", desc + ": a thread unlocked a mutex it did not own");
    if (g_detector_mutex && g_detector_mutex->acquisitions == 0) vf::fail("mutex/never-taken", desc + ": thread-safe mode never took the detector mutex");

    // release what is still held (serial), then tear down
    MemoryLeakWarningPlugin::turnOnThreadSafeNewDeleteOverloads();
    for (int i = 0; i < nthreads; i++) for (int k = 0; k < g_tc[i].nheld; k++) {
        Held& h = g_tc[i].held[k];
        if (h.fam == N) operator delete(h.p); else if (h.fam == A) operator delete[](h.p); else cpputest_free_location(h.p, "cleanup.c", 1);
    }
    MemoryLeakWarningPlugin::turnOffNewDeleteOverloads();
    PlatformSpecificLongJmp = saved_longjmp; PlatformSpecificFPuts = saved_fputs; PlatformSpecificFlush = saved_flush;
    if (g_console_misuse_reports > misuses) vf::fail("report/misuse-report-on-cleanup", desc + ": releasing the held blocks after the run was reported as misuse");
    if (det->totalMemoryLeaks(mem_leak_period_all) != 0) vf::fail("accounting/not-empty-after-cleanup", desc + ": blocks remain after everything was released");
    setCurrentNewAllocatorToDefault(); setCurrentNewArrayAllocatorToDefault(); setCurrentMallocAllocatorToDefault();
    MemoryLeakWarningPlugin::setGlobalDetector(saved_det, saved_rep);
    delete det;

    std::string order; for (int i = 0; i < g_alloc_log_n; i++) order += (char)('0' + g_alloc_log[i]);
    vf::outcome(order);
    if (sched::S.preemptions > 0) vf::count("nontrivial");
    vf::count("preemptions", sched::S.preemptions);
    vf::count("sched_points", sched::S.points);
    vf::count("h1_points", g_h1_points);
    if (vf::want_sample()) vf::sample(desc + " alloc-order=" + order);
}

// ------------------------------------------------------------------ misuse while the lock is held (single thread)
struct MisuseBody : ExecFunction {
    int entry, kind; bool after = false;
    void exec() override {
        // entry: 0 delete, 1 delete[], 2 free, 3 realloc ; kind: 0 guard overrun, 1 foreign pointer, 2 family mismatch
        static char foreign_buf[64];
        char* p = nullptr;
        if (kind == 2) p = (entry == 0) ? (char*)operator new[](8) : (char*)operator new(8);     // wrong family for the release below
        else p = entry == 0 ? (char*)operator new(8) : entry == 1 ? (char*)operator new[](8) : (char*)cpputest_malloc_location(8, "m.c", 1);
        if (kind == 0) p[8] = 'X';
        char* victim = kind == 1 ? foreign_buf + 8 : p;
        switch (entry) {
        case 0: operator delete(victim); break;
        case 1: operator delete[](victim); break;
        case 2: cpputest_free_location(victim, "m.c", 2); break;
        case 3: { void* r = cpputest_realloc_location(victim, 16, "m.c", 3); (void)r; break; }
        }
        after = true;       // must not be reached: the report fails the test right there
    }
};
struct NextBody : ExecFunction { bool ran = false; void exec() override { ran = true; char* q = (char*)operator new[](4); q[0] = 0; operator delete[](q); } };

const char* ENTRY[] = {"delete", "delete[]", "free", "realloc"};
const char* KIND[] = {"guard-overrun", "foreign-pointer", "family-mismatch"};

// an output that allocates through the overloaded operators while it records a failure (the JUnit output keeps a copy of the
// failure made with new): if the report is recorded while the detector's lock is still held, that allocation locks it again
struct AllocatingOutput : StringBufferTestOutput {
    bool allocate = false;
    void printFailure(const TestFailure& f) override { if (allocate) { char* t = (char*)operator new[](6); t[0] = 0; operator delete[](t); }   /* explicit calls: a new-expression whose result is unused may be elided */ StringBufferTestOutput::printFailure(f); }
};
void misuse_case(long idx) {
    int entry = (int)(idx % 4), kind = (int)((idx / 4) % 3); bool sink_allocates = idx >= 12;
    std::string desc = vf::fmt("%s of a block with %s in thread-safe mode%s", ENTRY[entry], KIND[kind], sink_allocates ? ", failure output allocates while recording" : "");
    vf::ctx(ENTRY[entry]);
    MemoryLeakDetector* det = MemoryLeakWarningPlugin::getGlobalDetector();      // real global reporter: fails the current test
    det->enable();
    g_tolerate_self_deadlock = true; g_self_deadlocks = 0;
    size_t failures, runs; bool after, next_ran; int owner_after;
    {
        AllocatingOutput out; out.allocate = sink_allocates; TestResult result(out);
        TestRegistry reg;
        MisuseBody body; body.entry = entry; body.kind = kind;
        NextBody next;
        ExecFunctionTestShell first, second; first.testFunction_ = &body; second.testFunction_ = &next;
        reg.addTest(&second); reg.addTest(&first);
        MemoryLeakWarningPlugin::turnOnThreadSafeNewDeleteOverloads();
        reg.runAllTests(result);
        owner_after = g_detector_mutex ? g_detector_mutex->owner : -1;
        if (g_detector_mutex) g_detector_mutex->owner = -1;          // let the harness continue
        MemoryLeakWarningPlugin::turnOffNewDeleteOverloads();
        failures = result.getFailureCount(); runs = result.getRunCount(); after = body.after; next_ran = next.ran;
        det->clearAllAccounting(mem_leak_period_all);
    }
    g_tolerate_self_deadlock = false;
    if (failures != 1) vf::fail(vf::fmt("misuse/%s/failure-count", ENTRY[entry]), desc + vf::fmt(": %zu failures recorded, expected exactly 1", failures));
    if (after) vf::fail(vf::fmt("misuse/%s/test-continued", ENTRY[entry]), desc + ": the statement after the misuse was executed");
    if (!next_ran || runs != 2) vf::fail(vf::fmt("misuse/%s/run-did-not-continue", ENTRY[entry]), desc + ": the next test did not run");
    if (owner_after != -1 || g_self_deadlocks) vf::fail(vf::fmt("misuse-under-lock/%s/lock-left-held", ENTRY[entry]), desc + vf::fmt(": the detector mutex was still owned after the report left the wrapper (%d later lock attempts by the same thread would hang on a real mutex)", g_self_deadlocks));
    vf::outcome(vf::fmt("%s/%s failures=%zu held=%d", ENTRY[entry], KIND[kind], failures, owner_after != -1));
    vf::count("nontrivial");
    if (vf::want_sample()) vf::sample(desc);
}

} // namespace

int main(int argc, char** argv) {
    vf::init(argc, argv, "C10");
    MemoryLeakWarningPlugin::turnOffNewDeleteOverloads();
    // the platform mutex seam must be ours before the global detector (and its SimpleMutex) is created
    PlatformSpecificMutexCreate = mtx_create; PlatformSpecificMutexLock = mtx_lock; PlatformSpecificMutexUnlock = mtx_unlock; PlatformSpecificMutexDestroy = mtx_destroy;
    sched::on_fatal = []() { cpputest_verif_point = nullptr; MemoryLeakWarningPlugin::turnOffNewDeleteOverloads(); };
    sched::Mutex* global_mutex = nullptr;
    MemoryLeakWarningPlugin::getGlobalDetector();
    if (!g_detector_mutex) {       // a static initialiser created the global detector (with a real mutex) before main: rebuild it on our seam
        PlatformSpecificMutexDestroy = [](PlatformSpecificMutex) {};
        MemoryLeakWarningPlugin::destroyGlobalDetector();
        PlatformSpecificMutexDestroy = mtx_destroy;
        MemoryLeakWarningPlugin::getGlobalDetector();
    }
    global_mutex = g_detector_mutex;
    if (!global_mutex) vf::harness_error("global detector mutex is not the modelled one");
    { size_t b = (size_t)g_arena; b = (b + 63) & ~(size_t)63; while (b % HASH_PRIME) b += 64; g_base = (char*)b; }
    bool T = vf::thorough();
    vf::info("rule", "every schedule (choice of the next enabled thread at each modelled-mutex operation and at each unprotected detector access) of real threads running allocation scripts through the thread-safe wrappers, up to the preemption bound; all blocks forced into one hash bucket; non-trivial = schedule with >= 1 preemption");
    struct Cfg { const char* name; int threads, scripts, bound; bool inside; bool misuse; bool modes = false; };
    const Cfg quick[] = { {"sched2", 2, NSCRIPTS_T, 3, false, false}, {"sched3", 3, 5, 2, false, false}, {"sched2in", 2, 5, 2, true, false}, {"sched2x", 2, NXSCRIPTS, 2, true, true}, {"sched2m", 2, NSCRIPTS_T, 1, false, false, true} };
    const Cfg thor[]  = { {"sched2", 2, NSCRIPTS_T, 5, false, false}, {"sched3", 3, 6, 3, false, false}, {"sched4", 4, 3, 2, false, false}, {"sched2in", 2, NSCRIPTS_T, 3, true, false}, {"sched3in", 3, 3, 2, true, false},
                          {"sched2x", 2, NXSCRIPTS, 3, true, true}, {"sched3x", 3, 4, 1, true, true}, {"sched2m", 2, NSCRIPTS_T, 2, false, false, true} };
    const Cfg* cfgs = T ? thor : quick; int ncfg = T ? 8 : 5;
    for (int k = 0; k < ncfg; k++) {
        Cfg c = cfgs[k];
        vf::info(std::string(c.name) + ".bound", vf::fmt("%d threads, all %d^%d script tuples over {ND,Aa,MF,MRF,rRF,N,NNDD,AMaF,MR,NDND,r,nD,ba,dD,ea}[0..%d) (r = realloc(NULL,n); n,b = nothrow new/new[]; d,e = new/new[] with file and line), preemption bound %d%s%s", c.threads, c.scripts, c.threads, c.scripts, c.bound, c.inside ? ", scheduling points also at every detector observation point inside the critical section" : "", c.misuse ? "; script table {ND,MF,X,MXF,NXD,MR,rF} where X is a misuse (free of a never allocated address) reported through the real reporter" : "") + (c.modes ? "; x 4 mode-switching histories before the threads start {on + save/restore bracket, on/off/on, on twice, bracket then on}" : ""));
        vf::section_dfs(c.name, c.threads, false, [&](Chooser& ch) { g_detector_mutex = nullptr; g_preempt_inside = c.inside; g_script_table = c.misuse ? XSCRIPTS : SCRIPTS; g_mode_histories = c.modes; scenario(ch, c.threads, c.scripts, c.bound); g_preempt_inside = false; });
        vf::require_outcomes(c.name, 20);
    }
    {
        vf::info("misuse.bound", "4 releasing entry points (delete, delete[], free, realloc) x 3 misuse kinds x failure output {plain, allocating through the overloaded operators while recording}, single thread, thread-safe overloads on, real reporter, real test run");
        vf::section_index("misuse", 24, [&](long idx) { g_detector_mutex = global_mutex; misuse_case(idx); });
        vf::require_outcomes("misuse", 6);
    }
    return vf::finish();
}

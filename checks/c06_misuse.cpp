// C06 - memory misuse is reported exactly: overruns, foreign frees, mismatched families.
//
// Deciding step: complete sweeps of finite spaces on the real code, against a three-line reference model:
//   release of NULL                                   -> no report
//   release of an address that is not outstanding     -> 'Deallocating non-allocated memory'
//   release of an outstanding block                   -> 'Allocation/deallocation type mismatch' iff type checking is
//                                                        on and the releasing family differs from the allocating one,
//                                                        otherwise 'Memory corruption' iff one of the 3 bytes behind the
//                                                        user bytes differs from what was there after the allocation,
//                                                        otherwise no report
// Driver: a fresh private MemoryLeakDetector per case installed as THE global detector (setGlobalDetector) with a
// recording MemoryLeakFailure that stores the first line of the text and returns; the real global entry points
// (operator new/new[]/delete/delete[], cpputest_malloc/realloc/free_location) over the three DEFAULT family
// allocators, optionally wrapped (AccountingTestMemoryAllocator / SimpleStringCacheAllocator as current allocator,
// MemoryLeakAllocator as entry point); PlatformSpecificMalloc/Free/Realloc interposed by a harness arena that never
// reuses an address, puts every block into the same hash bucket of the detector, keeps everything outside the
// requested bytes ASan-poisoned, and inspects the user bytes at the moment a block is handed back.
#include <vector>
#include <string>
#include <memory>
#include <new>
#include <map>
#include <functional>
#include <cstring>
#include <sanitizer/asan_interface.h>
#define VF_MAIN
#include "vf.h"
#include "CppUTest/TestHarness.h"
#include "CppUTest/MemoryLeakDetector.h"
#include "CppUTest/MemoryLeakWarningPlugin.h"
#include "CppUTest/TestMemoryAllocator.h"
#include "CppUTest/TestOutput.h"
#include "CppUTest/TestResult.h"
#include "CppUTest/SimpleStringInternalCache.h"
#include "CppUTest/PlatformSpecificFunctions.h"
#include "CppUTest/MemoryLeakDetectorMallocMacros.h"
extern "C" { void cpputest_malloc_set_out_of_memory(void); void cpputest_malloc_set_not_out_of_memory(void); }
#undef new
#undef malloc
#undef free
#undef realloc
#undef calloc
#undef strdup
#undef strndup

namespace {

typedef unsigned char uchar;

// The engine keeps at most 20000 FAIL lines per worker; a defect that fails tens of thousands of cases under one signature
// would crowd out the signatures found later. Each worker therefore emits at most 100 witnesses per signature.
void cfail(const std::string& sig, const std::string& detail) {
    static std::unordered_map<std::string, long> emitted;
    if (vf::g_replaying || ++emitted[sig] <= 100) vf::fail(sig, detail);
    else vf::count("failures_not_emitted");
}

// ------------------------------------------------------------------ arena behind PlatformSpecificMalloc/Free/Realloc
constexpr size_t STRIDE = 73 * 64;           // every slot base hashes to the same detector bucket
constexpr int NSLOTS = 160;
constexpr size_t MAXREQ = STRIDE - 128;      // >= 128 poisoned bytes between two blocks
alignas(64) char g_raw[STRIDE * (NSLOTS + 2)];
char* g_base;
struct Slot { size_t req; char state; };      // 0 unused, 1 live, 2 returned
Slot g_slot[NSLOTS];
int g_next;
bool g_capture;                               // true only around calls into the code under test
int g_foreign_free, g_double_free, g_exhausted;
unsigned char g_fill = 0xA5;                  // what fresh arena memory contains
bool g_fail_realloc = false;                  // the platform realloc seam answers NULL (and leaves the old block alone)
bool g_poison_returned = true;                // returned blocks become inaccessible (use after return aborts)

// the block whose hand-back is being watched
struct Watch { char* p; size_t size; bool armed; int seen; long kept; long not_cd; } g_watch;
uchar g_user[8192];                           // what the user wrote into the watched block

bool in_arena(const void* q) { return (const char*)q >= g_base && (const char*)q < g_base + STRIDE * NSLOTS; }

char* arena_take(size_t size) {
    if (size > MAXREQ || g_next >= NSLOTS - 1) { g_exhausted++; return nullptr; }     // last slot is never handed out
    char* p = g_base + (size_t)g_next * STRIDE;
    g_slot[g_next].req = size; g_slot[g_next].state = 1; g_next++;
    ASAN_UNPOISON_MEMORY_REGION(p, size);
    memset(p, g_fill, size);
    return p;
}
void* arena_malloc(size_t size) {
    if (!g_capture) return ::malloc(size);
    return arena_take(size);
}
void arena_free(void* mem) {
    if (!mem) return;
    char* p = (char*)mem;
    if (!in_arena(p)) { ::free(mem); return; }
    size_t off = (size_t)(p - g_base);
    if (off % STRIDE) { g_foreign_free++; return; }
    int s = (int)(off / STRIDE);
    if (g_slot[s].state != 1) { g_double_free++; return; }
    if (g_watch.armed && p == g_watch.p) {
        g_watch.seen++;
        for (size_t i = 0; i < g_watch.size; i++) {
            if (g_user[i] == 0xCD) continue;                 // the user wrote the poison value himself: nothing to see
            if ((uchar)p[i] == g_user[i]) g_watch.kept++;
            if ((uchar)p[i] != 0xCD) g_watch.not_cd++;
        }
    }
    g_slot[s].state = 2;
    if (g_poison_returned) ASAN_POISON_MEMORY_REGION(p, STRIDE);
}
void* arena_realloc(void* mem, size_t size) {
    if (mem && !in_arena(mem)) return ::realloc(mem, size);
    if (!mem && !g_capture) return ::realloc(nullptr, size);
    if (g_fail_realloc) return nullptr;
    char* n = arena_take(size);
    if (!n) return nullptr;
    if (mem) {
        size_t off = (size_t)((char*)mem - g_base);
        if (off % STRIDE == 0 && g_slot[off / STRIDE].state == 1) {
            size_t old = g_slot[off / STRIDE].req;
            memcpy(n, mem, old < size ? old : size);
        }
        arena_free(mem);
    }
    return n;
}
void arena_reset() {
    for (int i = 0; i < g_next; i++) { ASAN_POISON_MEMORY_REGION(g_base + (size_t)i * STRIDE, STRIDE); g_slot[i].state = 0; }
    g_next = 0; g_foreign_free = g_double_free = g_exhausted = 0;
    g_watch = Watch(); g_fill = 0xA5; g_poison_returned = true; g_fail_realloc = false;
}
void arena_init() {
    size_t b = (size_t)g_raw; b = (b + 63) & ~(size_t)63; while (b % 73) b += 64;
    g_base = (char*)b;
    if (g_base + STRIDE * NSLOTS > g_raw + sizeof g_raw) vf::harness_error("arena too small");
    ASAN_POISON_MEMORY_REGION(g_base, STRIDE * NSLOTS);
}

void fputs_swallow(const char*, PlatformSpecificFile) {}
void flush_nop() {}

// calls into the code under test happen inside a window: arena capture on, real global operators on.
// No harness allocation inside a window.
bool g_threadsafe_overloads = false;          // which set of global overloads the window switches on
bool g_window_inert = false;                  // section routing: the table stays as the case's history left it
struct Window {
    Window() { if (g_window_inert) return; g_capture = true; if (g_threadsafe_overloads) MemoryLeakWarningPlugin::turnOnThreadSafeNewDeleteOverloads(); else MemoryLeakWarningPlugin::turnOnDefaultNotThreadSafeNewDeleteOverloads(); }
    ~Window() { if (g_window_inert) return; MemoryLeakWarningPlugin::turnOffNewDeleteOverloads(); g_capture = false; }
};

// ------------------------------------------------------------------ recording reporter
enum Cat { C_NONE, C_NONALLOC, C_MISMATCH, C_CORRUPT, C_OTHER };
const char* CAT[] = {"none", "non-allocated", "type-mismatch", "corruption", "other-text"};

struct Reporter : MemoryLeakFailure {
    int calls = 0; char first[100]; char second[100];
    Reporter() { first[0] = second[0] = 0; }
    void fail(char* s) override {
        char* dst = calls == 0 ? first : calls == 1 ? second : nullptr;
        calls++;
        if (!dst) return;
        size_t i = 0; for (; i < 99 && s[i] && s[i] != '\n'; i++) dst[i] = s[i];
        dst[i] = 0;
    }
    void reset() { calls = 0; first[0] = second[0] = 0; }
};
bool starts_ci(const char* s, const char* prefix) {
    for (; *prefix; s++, prefix++) { if (!*s) return false; char a = *s, b = *prefix; if (a >= 'A' && a <= 'Z') a = (char)(a + 32); if (a != b) return false; }
    return true;
}
Cat classify(const Reporter& r) {
    if (r.calls == 0) return C_NONE;
    if (starts_ci(r.first, "deallocating non-allocated memory")) return C_NONALLOC;
    if (starts_ci(r.first, "allocation/deallocation type mismatch")) return C_MISMATCH;
    if (starts_ci(r.first, "memory corruption")) return C_CORRUPT;
    return C_OTHER;
}

// ------------------------------------------------------------------ families, wrappers, channels
enum { NEW = 0, ARR = 1, MAL = 2 };
enum { W_NONE = 0, W_ACCT = 1, W_CACHE = 2, W_MLA = 3 };
enum { K_GLOBAL = 0, K_REALLOC = 1, K_MLA = 2 };
const char* ALLOC_NAME[] = {"new", "new[]", "malloc"};
const char* REL_NAME[] = {"delete", "delete[]", "free"};
// every releasing form the library overloads (sized forms: C++14 and later; nothrow forms: with the standard library)
enum { NRFORMS = 12 };
const int RFORM_FAM[NRFORMS] = {0, 1, 2, 2, 0, 1, 0, 1, 0, 1, 0, 1};
const char* RFORM_NAME[NRFORMS] = {"delete", "delete[]", "free", "realloc", "delete(nothrow)", "delete[](nothrow)", "delete(sized)", "delete[](sized)",
                                  "delete(file,int)", "delete[](file,int)", "delete(file,size_t)", "delete[](file,size_t)"};
// every allocating form of the global routing table
enum { NFORMS = 8 };
const int FORM_FAM[NFORMS] = {0, 1, 0, 1, 0, 1, 2, 2};
const char* FORM_NAME[NFORMS] = {"new", "new[]", "new(nothrow)", "new[](nothrow)", "new(file,line)", "new[](file,line)", "malloc", "realloc(NULL)"};
const char* WRAP_NAME[] = {"", "+accounting-allocator", "+string-cache-allocator", "+leak-allocator"};

TestMemoryAllocator* defalloc(int f) { return f == NEW ? defaultNewAllocator() : f == ARR ? defaultNewArrayAllocator() : defaultMallocAllocator(); }
void setcur(int f, TestMemoryAllocator* a) { if (f == NEW) setCurrentNewAllocator(a); else if (f == ARR) setCurrentNewArrayAllocator(a); else setCurrentMallocAllocator(a); }

uchar pat(size_t i) { return (uchar)(0x21 + (i * 7) % 89); }       // 0x21..0x79: never 0x00, 0xff, 0xCD

struct Blk { char* p; size_t size; int fam; uchar g0[3]; };
bool guard_changed(const Blk& b) { return memcmp(b.p + b.size, b.g0, 3) != 0; }

struct Env {
    Reporter rep;
    MemoryLeakDetector* det; MemoryLeakDetector* saved_det; MemoryLeakFailure* saved_rep;
    std::unique_ptr<MemoryAccountant> acct;
    std::unique_ptr<AccountingTestMemoryAllocator> acctW[3];
    std::unique_ptr<SimpleStringInternalCache> cache[3];
    std::unique_ptr<SimpleStringCacheAllocator> cacheW[3];
    MemoryLeakAllocator mla0, mla1, mla2;
    long failures = 0;
    bool route_only = false;          // true: never touch the process-wide current allocators, use whatever is installed
    const char* qual = nullptr;       // signature qualifier overriding "/wrapper"

    explicit Env(bool typecheck, bool threadsafe = false) : mla0(defaultNewAllocator()), mla1(defaultNewArrayAllocator()), mla2(defaultMallocAllocator()) {
        arena_reset();
        g_threadsafe_overloads = threadsafe;
        saved_det = MemoryLeakWarningPlugin::getGlobalDetector();
        saved_rep = MemoryLeakWarningPlugin::getGlobalFailureReporter();
        det = new MemoryLeakDetector(&rep);
        MemoryLeakWarningPlugin::setGlobalDetector(det, &rep);
        det->enable();
        set_typecheck(typecheck);
        for (int f = 0; f < 3; f++) setcur(f, defalloc(f));
    }
    ~Env() {
        setCurrentNewAllocatorToDefault(); setCurrentNewArrayAllocatorToDefault(); setCurrentMallocAllocatorToDefault();
        MemoryLeakWarningPlugin::setGlobalDetector(saved_det, saved_rep);
        for (int f = 0; f < 3; f++) { cacheW[f].reset(); cache[f].reset(); acctW[f].reset(); }
        acct.reset();
        delete det;
        if (g_exhausted) vf::harness_error("arena exhausted");
    }
    void set_typecheck(bool on) { if (on) det->enableAllocationTypeChecking(); else det->disableAllocationTypeChecking(); }
    MemoryLeakAllocator& mla(int f) { return f == NEW ? mla0 : f == ARR ? mla1 : mla2; }
    TestMemoryAllocator* current_for(int f, int w) {
        if (w == W_ACCT) {
            if (!acct) acct.reset(new MemoryAccountant);
            if (!acctW[f]) acctW[f].reset(new AccountingTestMemoryAllocator(*acct, defalloc(f)));
            return acctW[f].get();
        }
        if (w == W_CACHE) {
            if (!cache[f]) { cache[f].reset(new SimpleStringInternalCache); cacheW[f].reset(new SimpleStringCacheAllocator(*cache[f], defalloc(f))); }
            return cacheW[f].get();
        }
        return defalloc(f);
    }

    // allocation through channel (family f, wrapper w); user bytes filled with pat()
    Blk alloc(int f, int w, size_t size, bool via_realloc = false) {
        if (!route_only) setcur(f, current_for(f, w));
        char* p;
        vf::ctx(via_realloc ? "realloc(NULL)" : ALLOC_NAME[f]);
        {
            Window win;
            if (w == W_MLA) p = mla(f).alloc_memory(size, "alloc.c", 11);
            else if (f == NEW) p = (char*)operator new(size);
            else if (f == ARR) p = (char*)operator new[](size);
            else if (via_realloc) p = (char*)cpputest_realloc_location(nullptr, size, "alloc.c", 13);
            else p = (char*)cpputest_malloc_location(size, "alloc.c", 12);
        }
        if (!p) vf::harness_error("allocation returned NULL");
        if (rep.calls) vf::harness_error(std::string("report during an allocation: ") + rep.first);
        Blk b; b.p = p; b.size = size; b.fam = f;
        for (size_t i = 0; i < size; i++) p[i] = (char)pat(i);
        memcpy(b.g0, p + size, 3);          // the 3 bytes behind the user bytes as the allocation left them
        return b;
    }
    // allocation through one of the forms of the global routing table, with whatever allocator is current
    Blk alloc_form(int form, size_t size) {
        char* p = nullptr;
        vf::ctx(FORM_NAME[form]);
        {
            Window win;
            switch (form) {
            case 0: p = (char*)operator new(size); break;
            case 1: p = (char*)operator new[](size); break;
            case 2: p = (char*)operator new(size, std::nothrow); break;
            case 3: p = (char*)operator new[](size, std::nothrow); break;
            case 4: p = (char*)operator new(size, "alloc.c", (size_t)14); break;
            case 5: p = (char*)operator new[](size, "alloc.c", (size_t)15); break;
            case 6: p = (char*)cpputest_malloc_location(size, "alloc.c", 12); break;
            default: p = (char*)cpputest_realloc_location(nullptr, size, "alloc.c", 13); break;
            }
        }
        if (!p) vf::harness_error("allocation returned NULL");
        if (rep.calls) vf::harness_error(std::string("report during an allocation: ") + rep.first);
        Blk b; b.p = p; b.size = size; b.fam = FORM_FAM[form];
        for (size_t i = 0; i < size; i++) p[i] = (char)pat(i);
        memcpy(b.g0, p + size, 3);
        return b;
    }
    // release through channel (kind, family f, wrapper w) of an arbitrary address; returns realloc's result
    void* release(int kind, int f, int w, void* addr, size_t newsize = 0) {
        if (!route_only) setcur(f, current_for(f, w));
        rep.reset();
        det->outputBuffer_.clear();          // texts of earlier reports must not run into this one (see notes: not asserted)
        void* r = nullptr;
        vf::ctx(kind == K_REALLOC ? "realloc" : kind == K_MLA ? "leakallocator-free" : REL_NAME[f]);
        {
            Window win;
            if (kind == K_MLA) mla(f).free_memory((char*)addr, 0, "free.c", 21);
            else if (kind == K_REALLOC) r = cpputest_realloc_location(addr, newsize, "free.c", 23);
            else if (f == NEW) operator delete(addr);
            else if (f == ARR) operator delete[](addr);
            else cpputest_free_location(addr, "free.c", 22);
        }
        return r;
    }
    // cpputest_realloc of addr that cannot succeed: variant 0 - the platform realloc answers NULL; variant 1 - the requested
    // size plus the accounting information does not fit into a size_t. Reference: judged like a release through the
    // malloc family, but nothing is released and nothing changes.
    void* realloc_failing(void* addr, int variant, size_t cursize) {
        if (!route_only) setcur(MAL, defalloc(MAL));
        rep.reset();
        det->outputBuffer_.clear();
        void* r;
        vf::ctx(variant ? "realloc(size_t(-5))" : "realloc(platform-fails)");
        {
            Window win;
            g_fail_realloc = variant == 0;
            r = cpputest_realloc_location(addr, variant ? (size_t)-5 : cursize + 3, "free.c", 24);
            g_fail_realloc = false;
        }
        return r;
    }
    // release through one of the global release forms, with whatever allocator is current; returns realloc's result
    void* release_form(int rform, void* addr, size_t cursize) {
        rep.reset();
        det->outputBuffer_.clear();
        void* r = nullptr;
        vf::ctx(RFORM_NAME[rform]);
        {
            Window win;
            switch (rform) {
            case 0: operator delete(addr); break;
            case 1: operator delete[](addr); break;
            case 2: cpputest_free_location(addr, "free.c", 22); break;
            case 3: r = cpputest_realloc_location(addr, cursize + 4, "free.c", 23); break;
            case 4: operator delete(addr, std::nothrow); break;
            case 5: operator delete[](addr, std::nothrow); break;
            case 6: operator delete(addr, cursize); break;
            case 7: operator delete[](addr, cursize); break;
            case 8: operator delete(addr, "free.c", (int)25); break;
            case 9: operator delete[](addr, "free.c", (int)26); break;
            case 10: operator delete(addr, "free.c", (size_t)27); break;
            default: operator delete[](addr, "free.c", (size_t)28); break;
            }
        }
        return r;
    }
    void watch(const Blk& b) {
        g_watch = Watch(); g_watch.p = b.p; g_watch.size = b.size; g_watch.armed = true;
        for (size_t i = 0; i < b.size && i < sizeof g_user; i++) g_user[i] = (uchar)b.p[i];
    }
    // compares the observed report with the reference; returns true when a report was made
    bool judge(const char* chan, bool wrapped, Cat want, const std::function<std::string()>& desc) {
        Cat got = classify(rep);
        std::string c = std::string(chan) + (qual ? qual : wrapped ? "/wrapper" : "");
        if (got != want) {
            failures++;
            cfail(c + "/want-" + CAT[want] + "/got-" + CAT[got], desc() + vf::fmt(": expected report '%s', observed '%s'%s%s", CAT[want], CAT[got], rep.calls ? " text: " : "", rep.calls ? rep.first : ""));
        }
        if (rep.calls > 1) { failures++; cfail(c + "/more-than-one-callback", desc() + vf::fmt(": %d callbacks for one release: '%s' then '%s'", rep.calls, rep.first, rep.second)); }
        return got != C_NONE;
    }
    // the watched block was released through delete/delete[]/free: what did the platform free see?
    const char* poison_verdict(const char* chan, bool wrapped, const std::function<std::string()>& desc) {
        if (!g_watch.seen) return "not-returned";
        if (g_watch.kept) {
            failures++;
            cfail(std::string(chan) + (qual ? qual : wrapped ? "/wrapper" : "") + "/user-bytes-not-overwritten-before-return", desc() + vf::fmt(": %ld of %zu user bytes still held the user's value when the block was handed back", g_watch.kept, g_watch.size));
            return "kept";
        }
        return g_watch.not_cd ? "overwritten-other" : "overwritten-cd";
    }
    void anomalies() {
        if (g_foreign_free) vf::count("underlying_interior_free", g_foreign_free);
        if (g_double_free) vf::count("underlying_double_free", g_double_free);
    }
};

const char* chan_name(int kind, int f) { return kind == K_REALLOC ? "realloc" : kind == K_MLA ? "leakallocator-free" : REL_NAME[f]; }
Cat reference(bool outstanding, bool is_null, int alloc_fam, int rel_fam, bool typecheck, bool changed) {
    if (is_null) return C_NONE;
    if (!outstanding) return C_NONALLOC;
    if (typecheck && alloc_fam != rel_fam) return C_MISMATCH;
    return changed ? C_CORRUPT : C_NONE;
}

// matching allocate/release combinations of the sweeps over guard and interior bytes
struct Combo { int fam; int kind; const char* name; };
const Combo COMBO[4] = { {NEW, K_GLOBAL, "new/delete"}, {ARR, K_GLOBAL, "new[]/delete[]"}, {MAL, K_GLOBAL, "malloc/free"}, {MAL, K_REALLOC, "malloc/realloc"} };

std::vector<size_t> SIZES;

// ------------------------------------------------------------------ section guard: one guard byte, every value
void guard_case(long idx) {
    vf::Radix r(idx);
    int v = (int)r.take(256), g = (int)r.take(3), T = (int)r.take(2), c = (int)r.take(4); size_t size = SIZES[r.take((long)SIZES.size())];
    const Combo& co = COMBO[c];
    Env env(T != 0);
    Blk b = env.alloc(co.fam, W_NONE, size);
    b.p[size + g] = (char)v;
    bool changed = guard_changed(b);
    auto desc = [&]() { return vf::fmt("%s of a %zu byte block, type checking %s, byte 0x%02x written at guard position %d (was 0x%02x)", co.name, size, T ? "on" : "off", v, g, b.g0[g]); };
    env.watch(b);
    void* q = env.release(co.kind, co.fam, W_NONE, b.p, size + 5);
    Cat want = reference(true, false, co.fam, co.fam, T != 0, changed);
    bool reported = env.judge(chan_name(co.kind, co.fam), false, want, desc);
    const char* pv = co.kind == K_GLOBAL ? env.poison_verdict(chan_name(co.kind, co.fam), false, desc) : "n/a";
    if (!reported && co.kind == K_REALLOC && q) {           // the block realloc handed out is an ordinary malloc block
        Blk nb; nb.p = (char*)q; nb.size = size + 5; nb.fam = MAL; memcpy(nb.g0, nb.p + nb.size, 3);
        env.release(K_GLOBAL, MAL, W_NONE, nb.p);
        env.judge("free", false, C_NONE, [&]() { return desc() + "; then free of the block realloc returned"; });
    }
    env.anomalies();
    vf::outcome(vf::fmt("%s %s %s", co.name, CAT[want], pv));
    if (changed) vf::count("nontrivial");
    vf::count("transitions", 2);
    if (vf::want_sample()) vf::sample(desc());
}

// ------------------------------------------------------------------ section guardsets: all three guard bytes at once
const int NGV = 5;
uchar gvalue(uchar orig, int k) { return k == 0 ? orig : k == 1 ? (uchar)(orig ^ 0x01) : k == 2 ? 0x00 : k == 3 ? 0xff : (uchar)(orig ^ 0x80); }
void guardset_case(long idx) {
    vf::Radix r(idx);
    int k0 = (int)r.take(NGV), k1 = (int)r.take(NGV), k2 = (int)r.take(NGV), T = (int)r.take(2), c = (int)r.take(4); size_t size = SIZES[r.take((long)SIZES.size())];
    const Combo& co = COMBO[c];
    Env env(T != 0);
    Blk b = env.alloc(co.fam, W_NONE, size);
    uchar w0 = gvalue(b.g0[0], k0), w1 = gvalue(b.g0[1], k1), w2 = gvalue(b.g0[2], k2);
    b.p[size] = (char)w0; b.p[size + 1] = (char)w1; b.p[size + 2] = (char)w2;
    bool changed = guard_changed(b);
    auto desc = [&]() { return vf::fmt("%s of a %zu byte block, type checking %s, guard bytes %02x %02x %02x overwritten with %02x %02x %02x", co.name, size, T ? "on" : "off", b.g0[0], b.g0[1], b.g0[2], w0, w1, w2); };
    env.watch(b);
    env.release(co.kind, co.fam, W_NONE, b.p, size + 1);
    Cat want = reference(true, false, co.fam, co.fam, T != 0, changed);
    env.judge(chan_name(co.kind, co.fam), false, want, desc);
    const char* pv = co.kind == K_GLOBAL ? env.poison_verdict(chan_name(co.kind, co.fam), false, desc) : "n/a";
    env.anomalies();
    vf::outcome(vf::fmt("%s %s %s", co.name, CAT[want], pv));
    if (changed) vf::count("nontrivial");
    vf::count("transitions", 2);
    if (vf::want_sample()) vf::sample(desc());
}

// ------------------------------------------------------------------ section interior: writes inside the user bytes
struct Pos { size_t size; size_t pos; };       // pos == size: every user byte
std::vector<Pos> POSITIONS;
const uchar IVAL[4] = {0x00, 0xff, 'S', 0xCD};
void interior_case(long idx) {
    vf::Radix r(idx);
    int vi = (int)r.take(4), T = (int)r.take(2), c = (int)r.take(4); Pos ps = POSITIONS[r.take((long)POSITIONS.size())];
    const Combo& co = COMBO[c];
    uchar v = IVAL[vi];
    Env env(T != 0);
    Blk b = env.alloc(co.fam, W_NONE, ps.size);
    if (ps.pos == ps.size) memset(b.p, v, ps.size); else b.p[ps.pos] = (char)v;
    auto desc = [&]() { return vf::fmt("%s of a %zu byte block, type checking %s, 0x%02x written %s", co.name, ps.size, T ? "on" : "off", v, ps.pos == ps.size ? "to every user byte" : vf::fmt("at user byte %zu", ps.pos).c_str()); };
    env.watch(b);
    void* q = env.release(co.kind, co.fam, W_NONE, b.p, ps.size + 3);
    bool reported = env.judge(chan_name(co.kind, co.fam), false, C_NONE, desc);
    const char* pv = co.kind == K_GLOBAL ? env.poison_verdict(chan_name(co.kind, co.fam), false, desc) : "n/a";
    if (!reported && co.kind == K_REALLOC && q) {
        env.release(K_GLOBAL, MAL, W_NONE, q);
        env.judge("free", false, C_NONE, [&]() { return desc() + "; then free of the block realloc returned"; });
    }
    env.anomalies();
    vf::outcome(vf::fmt("%s %s last=%d all=%d", co.name, pv, ps.size && ps.pos == ps.size - 1, ps.pos == ps.size));
    if (ps.size && (ps.pos + 1 >= ps.size)) vf::count("nontrivial");       // the byte next to the guard, or all bytes
    vf::count("transitions", 2);
    if (vf::want_sample()) vf::sample(desc());
}

// ------------------------------------------------------------------ section pairs: families x wrappers x type checking x guard
struct AChan { int fam, wrap; bool via_realloc; };
struct RChan { int kind, fam, wrap; };
std::vector<AChan> ACH; std::vector<RChan> RCH;
std::vector<size_t> PAIR_SIZES;
std::vector<int> PAIR_GUARD;                  // 0 intact, else 1 + position*3 + {+1, 0x00, 0xff}
std::string achan_str(const AChan& a) { return std::string(a.via_realloc ? "realloc(NULL)" : ALLOC_NAME[a.fam]) + WRAP_NAME[a.wrap]; }
std::string rchan_str(const RChan& c) { return c.kind == K_MLA ? std::string("leak-allocator(") + REL_NAME[c.fam] + ").free_memory" : std::string(c.kind == K_REALLOC ? "realloc" : REL_NAME[c.fam]) + WRAP_NAME[c.wrap]; }
void pair_case(long idx) {
    vf::Radix r(idx);
    int gs = PAIR_GUARD[r.take((long)PAIR_GUARD.size())], T = (int)r.take(2), ts = (int)r.take(2), fre = (int)r.take(3); RChan rc = RCH[r.take((long)RCH.size())]; AChan ac = ACH[r.take((long)ACH.size())]; size_t size = PAIR_SIZES[r.take((long)PAIR_SIZES.size())];
    Env env(T != 0, ts != 0);
    // The string cache prints a buffer it does not know with "%s" in its one-time warning (by design, see C18). Under a
    // detector every release reaches it with the user size instead of the allocated size, so the warning always fires;
    // fresh memory is zero-filled in these cases so that the print ends inside the block (padding behind the guard).
    // For the same reason returned blocks stay readable in these cases: realloc of a block with an embedded record through
    // an entry point that expects a separate one hands the cache a pointer into the block realloc has just returned
    // (the "interior free" of the notes; after a report that returned, or with type checking off - not C06's subject).
    if (rc.wrap == W_CACHE) { g_fill = 0x00; g_poison_returned = false; }
    Blk b = env.alloc(ac.fam, ac.wrap, size, ac.via_realloc);
    int gpos = gs ? (gs - 1) / 3 : -1, gval = gs ? (gs - 1) % 3 : 0;
    if (gs) b.p[size + gpos] = (char)(gval == 0 ? b.g0[gpos] + 1 : gval == 1 ? 0x00 : 0xff);
    bool changed = guard_changed(b);
    bool wrapped = ac.wrap != W_NONE || rc.wrap != W_NONE || rc.kind == K_MLA;
    auto desc = [&]() { return vf::fmt("%zu byte block from %s%s released through %s, type checking %s, %s overloads, guard %s", size, achan_str(ac).c_str(), fre == 0 ? "" : fre == 1 ? ", then a realloc that the platform fails," : ", then a realloc to size_t(-5),", rchan_str(rc).c_str(), T ? "on" : "off", ts ? "thread-safe" : "default", gs ? vf::fmt("byte %d changed", gpos).c_str() : "intact"); };
    if (fre) {          // a reallocation that fails: a release through the malloc family as far as reports go, otherwise a no-op
        void* q = env.realloc_failing(b.p, fre - 1, size);
        Cat wantf = reference(true, false, ac.fam, MAL, T != 0, changed);
        const char* saved_qual = env.qual; env.qual = "/failed";
        bool reported = env.judge("realloc", false, wantf, desc);
        if (q) cfail("realloc/failed/returned-a-block", desc() + ": the reallocation cannot succeed but did not return NULL");
        env.qual = saved_qual;
        if (reported || wantf != C_NONE || q) {
            vf::outcome(vf::fmt("failed-realloc<-%s %s", ALLOC_NAME[ac.fam], CAT[wantf]));
            vf::count("nontrivial"); vf::count("transitions", 2);
            if (vf::want_sample()) vf::sample(desc());
            return;
        }
        for (size_t i = 0; i < size; i++) if ((uchar)b.p[i] != pat(i)) { cfail("realloc/failed/user-bytes-changed", desc() + ": the failed reallocation modified the block"); break; }
    }
    env.watch(b);
    env.release(rc.kind, rc.fam, rc.wrap, b.p, size + 2);
    Cat want = reference(true, false, ac.fam, rc.fam, T != 0, changed);
    const char* chan = chan_name(rc.kind, rc.fam);
    env.judge(chan, wrapped, want, desc);
    const char* pv = rc.kind == K_GLOBAL ? env.poison_verdict(chan, wrapped, desc) : "n/a";
    env.anomalies();
    vf::outcome(vf::fmt("%s<-%s %s %s%s%s", chan, ALLOC_NAME[ac.fam], CAT[want], pv, ts ? " ts" : "", fre ? " after-failed-realloc" : ""));
    if (want != C_NONE || fre) vf::count("nontrivial");
    vf::count("transitions", fre ? 3 : 2);
    if (vf::want_sample()) vf::sample(desc());
}

// ------------------------------------------------------------------ section pairs2: wrapper stacks of depth <= 2
// The detector under test (D1) is driven through its API exactly as the global overloads drive it (allocMemory /
// invalidateMemory + deallocMemory / reallocMemory, separate records for the malloc family), with a wrapper STACK as the
// allocator argument. The GLOBAL detector is a second private one (D2): a MemoryLeakAllocator inside a stack tracks its
// memory there, so that D1's reporter sees exactly the releases of the outer level (each level is a release of its own).
struct Stack { int fam; int outer; int inner; };     // W_NONE/W_ACCT/W_CACHE/W_MLA; inner is the one next to the family
std::vector<Stack> STACKS;
std::vector<size_t> P2_SIZES;
std::string stack_str(const Stack& st) {
    const char* n[] = {"", "accounting", "string-cache", "leak-allocator"};
    std::string o;
    if (st.outer) o += std::string(n[st.outer]) + "(";
    if (st.inner) o += std::string(n[st.inner]) + "(";
    o += ALLOC_NAME[st.fam];
    if (st.inner) o += ")";
    if (st.outer) o += ")";
    return o;
}
struct Env2 {
    Reporter rep1, rep2;
    MemoryLeakDetector* d1; MemoryLeakDetector* d2; MemoryLeakDetector* saved_det; MemoryLeakFailure* saved_rep;
    std::unique_ptr<MemoryAccountant> acct;
    std::vector<std::function<void()>> destroy;          // run in reverse order of creation
    std::map<int, TestMemoryAllocator*> built;
    explicit Env2(bool typecheck) {
        arena_reset();
        g_threadsafe_overloads = false;
        g_fill = 0x00;       // a string cache in a stack prints unknown buffers with %s (see pair_case)
        // incoherent stacks (allocated through a MemoryLeakAllocator, released past it) leave records of the inner level
        // inside returned blocks, and the cache print may be handed a pointer into a returned block: keep them readable
        g_poison_returned = false;
        saved_det = MemoryLeakWarningPlugin::getGlobalDetector();
        saved_rep = MemoryLeakWarningPlugin::getGlobalFailureReporter();
        d1 = new MemoryLeakDetector(&rep1); d2 = new MemoryLeakDetector(&rep2);
        MemoryLeakWarningPlugin::setGlobalDetector(d2, &rep2);
        d1->enable(); d2->enable();
        if (!typecheck) d1->disableAllocationTypeChecking();
        acct.reset(new MemoryAccountant);
    }
    ~Env2() {
        for (size_t i = destroy.size(); i-- > 0;) destroy[i]();
        acct.reset();
        MemoryLeakWarningPlugin::setGlobalDetector(saved_det, saved_rep);
        delete d1; delete d2;
        if (g_exhausted) vf::harness_error("arena exhausted");
    }
    TestMemoryAllocator* wrap(int kind, TestMemoryAllocator* orig) {
        if (kind == W_ACCT) { auto* a = new AccountingTestMemoryAllocator(*acct, orig); destroy.push_back([a]() { delete a; }); return a; }
        if (kind == W_CACHE) {
            auto* c = new SimpleStringInternalCache; destroy.push_back([c]() { delete c; });
            auto* a = new SimpleStringCacheAllocator(*c, orig); destroy.push_back([a]() { delete a; });
            return a;
        }
        if (kind == W_MLA) { auto* a = new MemoryLeakAllocator(orig); destroy.push_back([a]() { delete a; }); return a; }
        return orig;
    }
    // the same (family, outer, inner) always yields the same objects: "both sides" means the very same stack
    TestMemoryAllocator* stack(const Stack& st) {
        int key = st.fam * 16 + st.outer * 4 + st.inner;
        auto it = built.find(key);
        if (it != built.end()) return it->second;
        TestMemoryAllocator* a = wrap(st.outer, wrap(st.inner, defalloc(st.fam)));
        built[key] = a;
        return a;
    }
};
void pair2_case(long idx) {
    vf::Radix r(idx);
    int gs = (int)r.take(4), T = (int)r.take(2);
    long rn = (long)STACKS.size() + (long)STACKS.size() / 3;       // every stack through delete/delete[]/free, the malloc stacks also through realloc
    long ri = r.take(rn); Stack as = STACKS[r.take((long)STACKS.size())]; size_t size = P2_SIZES[r.take((long)P2_SIZES.size())];
    bool via_realloc = ri >= (long)STACKS.size();
    Stack rs = via_realloc ? Stack() : STACKS[ri];
    if (via_realloc) { int k = 0; for (const Stack& s : STACKS) if (s.fam == MAL && k++ == ri - (long)STACKS.size()) rs = s; }
    Env2 env(T != 0);
    TestMemoryAllocator* aa = env.stack(as);
    TestMemoryAllocator* ra = env.stack(rs);
    char* p;
    vf::ctx("alloc-through-stack");
    { Window win; p = as.fam == MAL ? env.d1->allocMemory(aa, size, "alloc.c", 12, true) : env.d1->allocMemory(aa, size); }
    if (!p) vf::harness_error("allocation through a wrapper stack returned NULL");
    if (env.rep1.calls) vf::harness_error(std::string("report during an allocation: ") + env.rep1.first);
    Blk b; b.p = p; b.size = size; b.fam = as.fam;
    for (size_t i = 0; i < size; i++) p[i] = (char)pat(i);
    memcpy(b.g0, p + size, 3);
    if (gs) p[size + gs - 1] = (char)(b.g0[gs - 1] ^ 0x04);
    bool changed = guard_changed(b);
    const char* chan = via_realloc ? "realloc" : REL_NAME[rs.fam];
    auto desc = [&]() { return vf::fmt("%zu byte block allocated through %s, released by %s through %s, type checking %s, guard %s", size, stack_str(as).c_str(), chan, stack_str(rs).c_str(), T ? "on" : "off", gs ? vf::fmt("byte %d changed", gs - 1).c_str() : "intact"); };
    env.rep1.reset();
    vf::ctx(chan);
    {
        Window win;
        if (via_realloc) env.d1->reallocMemory(ra, p, size + 2, "free.c", 23, true);
        else { env.d1->invalidateMemory(p); if (rs.fam == MAL) env.d1->deallocMemory(ra, p, "free.c", 22, true); else env.d1->deallocMemory(ra, p); }
    }
    Cat want = reference(true, false, as.fam, rs.fam, T != 0, changed);
    Cat got = classify(env.rep1);
    std::string c = std::string(chan) + "/wrapper-stack";
    if (got != want) cfail(c + "/want-" + CAT[want] + "/got-" + CAT[got], desc() + vf::fmt(": expected report '%s', observed '%s'%s%s", CAT[want], CAT[got], env.rep1.calls ? " text: " : "", env.rep1.calls ? env.rep1.first : ""));
    if (env.rep1.calls > 1) cfail(c + "/more-than-one-callback", desc() + vf::fmt(": %d callbacks for one release: '%s' then '%s'", env.rep1.calls, env.rep1.first, env.rep1.second));
    if (env.rep2.calls) vf::count("inner_level_reports");       // releases of the inner level (MemoryLeakAllocator): not judged
    if (g_foreign_free) vf::count("underlying_interior_free", g_foreign_free);
    if (g_double_free) vf::count("underlying_double_free", g_double_free);
    int depth_a = (as.outer != 0) + (as.inner != 0), depth_r = (rs.outer != 0) + (rs.inner != 0);
    vf::outcome(vf::fmt("%s<-%s %s depth %d/%d", chan, ALLOC_NAME[as.fam], CAT[want], depth_a, depth_r));
    if (want != C_NONE) vf::count("nontrivial");
    vf::count("transitions", 2);
    if (vf::want_sample()) vf::sample(desc());
}

// ------------------------------------------------------------------ section addresses: NULL, stale, foreign, interior
enum { A_NULL, A_STALE, A_STACK, A_STATIC, A_ARENA_UNUSED, A_OTHER_DETECTOR, A_HEAP, A_OFFSET };
struct AddrKind { size_t size; int kind; long off; };
std::vector<AddrKind> ADDRS;
const RChan ADDR_CH[7] = { {K_GLOBAL, NEW, W_NONE}, {K_GLOBAL, ARR, W_NONE}, {K_GLOBAL, MAL, W_NONE}, {K_REALLOC, MAL, W_NONE}, {K_MLA, NEW, W_NONE}, {K_MLA, ARR, W_NONE}, {K_MLA, MAL, W_NONE} };
char g_static_buf[64];
std::string addr_str(const AddrKind& a) {
    switch (a.kind) {
    case A_NULL: return "NULL";
    case A_STALE: return "an address released before";
    case A_STACK: return "a stack address";
    case A_STATIC: return "the address of a static object";
    case A_ARENA_UNUSED: return "an address the underlying allocator never handed out";
    case A_OTHER_DETECTOR: return "an outstanding block of another detector";
    case A_HEAP: return "a heap block that never went through the detector";
    default: return vf::fmt("p%+ld of an outstanding %zu byte block p", a.off, a.size);
    }
}
void addr_case(long idx) {
    vf::Radix r(idx);
    int T = (int)r.take(2); RChan rc = ADDR_CH[r.take(7)]; int fam = (int)r.take(3); AddrKind ak = ADDRS[r.take((long)ADDRS.size())];
    Env env(T != 0);
    char stackbuf[64]; memset(stackbuf, 0x5a, sizeof stackbuf);
    Blk b = env.alloc(fam, W_NONE, ak.size);                       // the bystander: must stay outstanding and releasable
    void* addr = nullptr; void* heap = nullptr;
    Reporter rep2; std::unique_ptr<MemoryLeakDetector> det2; char* other = nullptr;
    switch (ak.kind) {
    case A_NULL: break;
    case A_STALE: {
        Blk s = env.alloc(rc.fam, W_NONE, 4);
        env.release(K_GLOBAL, rc.fam, W_NONE, s.p);
        if (env.judge(REL_NAME[rc.fam], false, C_NONE, [&]() { return std::string("preparing a stale address: paired release of a fresh block"); })) return;
        addr = s.p; break; }
    case A_STACK: addr = stackbuf + 16; break;
    case A_STATIC: addr = g_static_buf + 16; break;
    case A_ARENA_UNUSED: addr = g_base + (size_t)(NSLOTS - 1) * STRIDE; break;
    case A_OTHER_DETECTOR: {
        det2.reset(new MemoryLeakDetector(&rep2)); det2->enable();
        { Window win; other = det2->allocMemory(defalloc(rc.fam), 8, "other.c", 31, rc.fam == MAL); }
        addr = other; break; }
    case A_HEAP: heap = ::malloc(24); memset(heap, 0x5b, 24); addr = heap; break;
    default: addr = b.p + ak.off; break;
    }
    auto desc = [&]() { return vf::fmt("%s of %s (bystander: %zu byte %s block), type checking %s", rchan_str(rc).c_str(), addr_str(ak).c_str(), ak.size, ALLOC_NAME[fam], T ? "on" : "off"); };
    void* q = env.release(rc.kind, rc.fam, rc.wrap, addr, 6);
    Cat want = reference(false, ak.kind == A_NULL, 0, 0, T != 0, false);
    const char* chan = chan_name(rc.kind, rc.fam);
    env.judge(chan, false, want, desc);
    if (rc.kind == K_REALLOC && ak.kind == A_NULL) {                  // realloc(NULL, n) is an allocation
        if (!q) { env.failures++; cfail("realloc/null-address-not-an-allocation", desc() + ": realloc(NULL, 6) returned NULL"); }
        else { env.release(K_GLOBAL, MAL, W_NONE, q); env.judge("free", false, C_NONE, [&]() { return desc() + "; then free of the returned block"; }); }
    }
    const char* rr = rc.kind != K_REALLOC ? "" : q ? " realloc->block" : " realloc->NULL";
    // the detector's own records must be unaffected: the bystander is still released without a report and poisoned
    env.watch(b);
    env.release(K_GLOBAL, fam, W_NONE, b.p);
    auto desc2 = [&]() { return desc() + "; then paired release of the bystander"; };
    env.judge(REL_NAME[fam], false, C_NONE, desc2);
    const char* pv = env.poison_verdict(REL_NAME[fam], false, desc2);
    if (det2) {
        { Window win; det2->deallocMemory(defalloc(rc.fam), other, "other.c", 32, rc.fam == MAL); }
        if (rep2.calls) { env.failures++; cfail("other-detector/report-after-foreign-release-elsewhere", desc() + ": the owning detector reported '" + rep2.first + "' when its block was released properly afterwards"); }
    }
    if (heap) {
        for (size_t i = 0; i < 24; i++) if (((uchar*)heap)[i] != 0x5b) { env.failures++; cfail(std::string(chan) + "/foreign-memory-written", desc() + ": the foreign heap block was modified"); break; }
        ::free(heap);
    }
    for (size_t i = 0; i < sizeof stackbuf; i++) if (stackbuf[i] != 0x5a) { env.failures++; cfail(std::string(chan) + "/foreign-memory-written", desc() + ": the stack buffer was modified"); break; }
    env.anomalies();
    const char* kind_name[] = {"null", "stale", "stack", "static", "unused", "other-detector", "heap", "offset"};
    vf::outcome(vf::fmt("%s %s %s%s %s", chan, kind_name[ak.kind], CAT[want], rr, pv));
    if (ak.kind != A_NULL) vf::count("nontrivial");
    vf::count("transitions", 3);
    if (vf::want_sample()) vf::sample(desc());
}

// ------------------------------------------------------------------ section routing: the process-wide routing state
// Allocation and release go through the global routing only: every allocating form of the routing table (operator new,
// new[], their nothrow and file/line forms, cpputest_malloc, cpputest_realloc(NULL)) and operator delete / delete[] /
// cpputest_free / cpputest_realloc. The harness names no allocator and does NOT rewrite the overload table around each
// call: the table is switched on once when the case starts and from then on only the enumerated manipulations touch
// it. Before the allocation and between allocation and release every history of manipulations up to a depth is
// executed: GlobalMemoryAllocatorStash save / restore, setCurrentXAllocator(custom of family X) / ...ToDefault for each
// family, GlobalMemoryAccountant start / stop, saveAndDisableNewDeleteOverloads+restoreNewDeleteOverloads,
// turnOffNewDeleteOverloads+turnOnDefaultNotThreadSafeNewDeleteOverloads, turnOnThreadSafeNewDeleteOverloads.
// Oracle as everywhere (family of the allocating FORM against the releasing entry point's family); in addition a slot
// model of the three current allocators is compared with getCurrentXAllocator() after every manipulation.
// While the table is on the harness performs no heap allocation (fixed buffers, failures recorded and emitted afterwards).
TestMemoryAllocator g_custom_new("Standard New Allocator", "new", "delete");            // custom allocators OF the family:
TestMemoryAllocator g_custom_arr("Standard New [] Allocator", "new []", "delete []");   // the library's own notion of
TestMemoryAllocator g_custom_mal("Standard Malloc Allocator", "malloc", "free");        // "equal type" is the name
TestMemoryAllocator* custom(int f) { return f == NEW ? &g_custom_new : f == ARR ? &g_custom_arr : &g_custom_mal; }
TestMemoryAllocator* current(int f) { return f == NEW ? getCurrentNewAllocator() : f == ARR ? getCurrentNewArrayAllocator() : getCurrentMallocAllocator(); }
enum { S_DEF = 0, S_CUSTOM = 1, S_ACCT = 2, S_NULL = 3, S_SIM = 4 };     // S_NULL: NullUnknownAllocator installed explicitly (a family of its own,
                                                                         // "Null Allocator"); S_SIM: the out-of-memory simulation's stand-in
enum { O_SAVE, O_RESTORE, O_SETC0, O_SETC1, O_SETC2, O_SETD0, O_SETD1, O_SETD2, O_START, O_STOP, O_OVL_SAVEREST, O_OVL_OFFON, O_OVL_TS, O_OOM_ON, O_OOM_OFF, O_SETN0, O_SETN1, O_SETN2, O_COUNT };
const char* OP_NAME[] = {"stash.save", "stash.restore", "setCurrentNewAllocator(custom)", "setCurrentNewArrayAllocator(custom)", "setCurrentMallocAllocator(custom)",
                         "setCurrentNewAllocatorToDefault", "setCurrentNewArrayAllocatorToDefault", "setCurrentMallocAllocatorToDefault", "accountant.start", "accountant.stop",
                         "saveAndDisableNewDeleteOverloads+restoreNewDeleteOverloads", "turnOffNewDeleteOverloads+turnOnDefaultNotThreadSafeNewDeleteOverloads", "turnOnThreadSafeNewDeleteOverloads",
                         "cpputest_malloc_set_out_of_memory", "cpputest_malloc_set_not_out_of_memory", "setCurrentNewAllocator(null allocator)", "setCurrentNewArrayAllocator(null allocator)", "setCurrentMallocAllocator(null allocator)"};
alignas(16) char g_ga_storage[sizeof(GlobalMemoryAccountant)];
struct Routing {
    int slot[3] = {S_DEF, S_DEF, S_DEF};
    bool saved = false; int saved_slot[3] = {0, 0, 0};
    bool started = false, stopped = false, diverged = false; int orig[3] = {0, 0, 0};
    bool threadsafe_table = false;
    bool null_used = false, oom_has = false; int oom_orig = S_DEF;      // the out-of-memory simulation remembers the malloc allocator it replaced
    GlobalMemoryAllocatorStash stash;
    GlobalMemoryAccountant* ga = nullptr;
    bool enabled(int op) const {
        if ((op == O_START || op == O_STOP) && diverged) return false;
        // an accounting allocator around the null allocator dereferences the NULL it gets for its own record (not C06's subject):
        // the null allocator and the accountant are never combined in one case
        if (op >= O_OOM_ON && op <= O_SETN2) return !started;
        if (op == O_START && null_used) return false;
        if (op == O_START) return !started;                                   // a second start() is a documented usage error (FAIL)
        if (op == O_STOP) return started && !stopped && slot[0] == S_ACCT && slot[1] == S_ACCT && slot[2] == S_ACCT;   // likewise
        return true;
    }
    void apply(int op) {
        switch (op) {
        case O_SAVE: stash.save(); saved = true; for (int i = 0; i < 3; i++) saved_slot[i] = slot[i]; break;
        case O_RESTORE: stash.restore(); if (saved) for (int i = 0; i < 3; i++) slot[i] = saved_slot[i]; break;
        case O_SETC0: case O_SETC1: case O_SETC2: setcur(op - O_SETC0, custom(op - O_SETC0)); slot[op - O_SETC0] = S_CUSTOM; break;
        case O_SETD0: setCurrentNewAllocatorToDefault(); slot[0] = S_DEF; break;
        case O_SETD1: setCurrentNewArrayAllocatorToDefault(); slot[1] = S_DEF; break;
        case O_SETD2: setCurrentMallocAllocatorToDefault(); slot[2] = S_DEF; break;
        case O_START: ga = new (g_ga_storage) GlobalMemoryAccountant; ga->start(); started = true; for (int i = 0; i < 3; i++) { orig[i] = slot[i]; slot[i] = S_ACCT; } break;
        case O_STOP: ga->stop(); stopped = true; for (int i = 0; i < 3; i++) slot[i] = orig[i]; break;
        case O_OVL_SAVEREST: MemoryLeakWarningPlugin::saveAndDisableNewDeleteOverloads(); MemoryLeakWarningPlugin::restoreNewDeleteOverloads(); break;
        case O_OVL_OFFON: MemoryLeakWarningPlugin::turnOffNewDeleteOverloads(); MemoryLeakWarningPlugin::turnOnDefaultNotThreadSafeNewDeleteOverloads(); threadsafe_table = false; break;
        case O_OVL_TS: MemoryLeakWarningPlugin::turnOnThreadSafeNewDeleteOverloads(); threadsafe_table = true; break;
        case O_OOM_ON: cpputest_malloc_set_out_of_memory(); null_used = true; if (!oom_has) { oom_has = true; oom_orig = slot[MAL]; } slot[MAL] = S_SIM; break;
        case O_OOM_OFF: cpputest_malloc_set_not_out_of_memory(); slot[MAL] = oom_has ? oom_orig : S_DEF; oom_has = false; break;
        case O_SETN0: case O_SETN1: case O_SETN2: setcur(op - O_SETN0, NullUnknownAllocator::defaultAllocator()); null_used = true; slot[op - O_SETN0] = S_NULL; break;
        }
    }
    TestMemoryAllocator* expected(int f) const {
        if (slot[f] == S_DEF) return defalloc(f);
        if (slot[f] == S_CUSTOM) return custom(f);
        if (slot[f] == S_NULL) return NullUnknownAllocator::defaultAllocator();
        return f == NEW ? ga->getNewAllocator() : f == ARR ? ga->getNewArrayAllocator() : ga->getMallocAllocator();
    }
};
struct Pending { char sig[96]; char detail[1700]; };
void routing_case(vf::Chooser& ch, int depth_before, int depth_between, int depth_total) {
    ch.c.reserve(256); ch.n.reserve(256);
    cpputest_malloc_set_not_out_of_memory();          // the simulation keeps static state: every case starts with it off
    int T = ch.choose(2), gs = ch.choose(2), form = ch.choose(NFORMS), rc = ch.choose(NRFORMS);
    int fa = FORM_FAM[form], fr = RFORM_FAM[rc], kind = rc == 3 ? K_REALLOC : K_GLOBAL;
    const char* rname = RFORM_NAME[rc];
    Env env(T != 0);
    env.route_only = true; env.qual = "/routed";
    Routing ro;
    static char trace[1500]; size_t tl = 0; trace[0] = 0;
    static Pending pend[3]; int npend = 0;
    auto say = [&](const char* f, const char* a = "") { int n = snprintf(trace + tl, sizeof trace - tl, f, a); if (n > 0) tl += (size_t)n; if (tl >= sizeof trace) tl = sizeof trace - 1; };
    auto pending = [&](const char* sig, const char* what, const char* arg) {
        for (int i = 0; i < npend; i++) if (strcmp(pend[i].sig, sig) == 0) return;
        if (npend >= 3) return;
        snprintf(pend[npend].sig, sizeof pend[npend].sig, "%s", sig); snprintf(pend[npend].detail, sizeof pend[npend].detail, "%s: ", trace);
        size_t l = strlen(pend[npend].detail); snprintf(pend[npend].detail + l, sizeof pend[npend].detail - l, what, arg); npend++;
    };
    int nops = 0; bool bad_slot = false, ended = false; Blk b = Blk(); Cat ended_want = C_NONE;
    auto check_state = [&]() {
        for (int f = 0; f < 3; f++) {
            TestMemoryAllocator* c = current(f);
            if (ro.slot[f] == S_SIM) continue;          // the stand-in of the simulation: neither its identity nor its names are asserted
            if (ro.slot[f] != S_NULL && strcmp(c->actualAllocator()->name(), defalloc(f)->name()) != 0) { bad_slot = true; pending("routing/current-allocator-of-another-family", f == NEW ? "the current new allocator is now '%s'" : f == ARR ? "the current new[] allocator is now '%s'" : "the current malloc allocator is now '%s'", c->actualAllocator()->name()); }
            else if (c != ro.expected(f)) { bad_slot = true; pending(ro.slot[f] == S_DEF ? "routing/default-allocator-not-current" : "routing/current-allocator-not-the-installed-one", "the current %s allocator is not the one the history installed", ALLOC_NAME[f]); }
        }
        if (!MemoryLeakWarningPlugin::areNewDeleteOverloaded()) pending("routing/overloads-not-active", "areNewDeleteOverloaded() is false although the overloads were %s", "switched on");
    };
    auto history = [&](int depth, bool have_block) {
        int used = 0;
        for (int i = 0; i < depth; i++) {
            int en[O_COUNT + 2], n = 0;
            for (int op = 0; op < O_COUNT; op++) if (ro.enabled(op)) en[n++] = op;
            if (have_block && ro.slot[MAL] != S_NULL && ro.slot[MAL] != S_SIM) { en[n++] = O_COUNT; en[n++] = O_COUNT + 1; }      // a reallocation of the block that fails
                                                                 // (with the null allocator current realloc gives up before it looks at the block: not judged)
            int c = ch.choose(n + 1);
            if (c == 0) break;
            int op = en[c - 1];
            if (op >= O_COUNT) {
                int v = op - O_COUNT;
                say("%s; ", v ? "realloc(p, size_t(-5)) fails" : "realloc(p, 8) fails in the platform");
                nops++; used++;
                void* q = env.realloc_failing(b.p, v, b.size);
                Cat wantf = reference(true, false, fa, MAL, T != 0, guard_changed(b)), got = classify(env.rep);
                if (got != wantf) { char sg[96]; snprintf(sg, sizeof sg, "realloc/routed/failed/want-%s/got-%s", CAT[wantf], CAT[got]); pending(sg, "the failing reallocation was reported as '%s'", CAT[got]); }
                if (q) pending("realloc/failed/returned-a-block", "the reallocation cannot succeed but did not return %s", "NULL");
                if (got != C_NONE || wantf != C_NONE || q) { ended = true; ended_want = wantf; break; }
                continue;
            }
            vf::ctx(OP_NAME[op]);
            ro.apply(op);
            say("%s; ", OP_NAME[op]); nops++; used++;
            check_state();
            if (bad_slot) ro.diverged = true;  // the slot model no longer describes the library: accountant start/stop (whose
                                               // usage rules are decided on the model) are not issued any more; the verdict is still judged
        }
        return used;
    };
    // ---- the routing table is live from here; no harness heap allocation until it is switched off again
    g_window_inert = true; g_capture = true;
    MemoryLeakWarningPlugin::turnOnDefaultNotThreadSafeNewDeleteOverloads();
    int used = history(depth_before, false);
    if (ro.slot[fa] == S_NULL || ro.slot[fa] == S_SIM) {        // the allocating family is out of memory: the allocation yields nothing to release
        MemoryLeakWarningPlugin::turnOffNewDeleteOverloads(); g_capture = false; g_window_inert = false;
        cpputest_malloc_set_not_out_of_memory();
        for (int i = 0; i < npend; i++) cfail(pend[i].sig, pend[i].detail);
        vf::outcome(vf::fmt("no-block<-%s", FORM_NAME[form])); vf::count("ops", nops);
        return;
    }
    b = env.alloc_form(form, 5);
    say("p = %s(5); ", FORM_NAME[form]);
    if (gs) { b.p[b.size + 1] = (char)(b.g0[1] ^ 0x10); say("p[6] overwritten; "); }
    history(depth_total - used < depth_between ? depth_total - used : depth_between, true);
    bool changed = guard_changed(b);
    // the releasing family's current allocator at the release:
    //   stand-in of a running simulation  -> the release is one through the family of the allocator the simulation replaced
    //   NullUnknownAllocator (installed explicitly, or the allocator the simulation replaced) -> the family "Null Allocator":
    //                                        a mismatch against every block there is (none can come from it)
    //   a stand-in left behind by stash.restore after the simulation ended, realloc in any of these states -> not judged
    int rstate = ro.slot[fr];
    bool sim_release = rstate == S_SIM && ro.oom_has && ro.oom_orig != S_SIM;
    bool stale_sim = rstate == S_SIM && !sim_release;
    bool nullfam = rstate == S_NULL || (sim_release && ro.oom_orig == S_NULL);
    if (!ended) {
        say("%s(p)", rname);
        env.watch(b);
        env.release_form(rc, b.p, b.size);
    }
    Reporter seen = env.rep;                       // what the judged release produced
    Watch w = g_watch; g_watch.armed = false;
    if (ro.ga) { ro.ga->~GlobalMemoryAccountant(); ro.ga = nullptr; }      // its allocators were obtained through the live table
    MemoryLeakWarningPlugin::turnOffNewDeleteOverloads();
    g_capture = false; g_window_inert = false;
    cpputest_malloc_set_not_out_of_memory();
    // ---- table off
    env.rep = seen; g_watch = w;
    for (int i = 0; i < npend; i++) cfail(pend[i].sig, pend[i].detail);
    auto desc = [&]() { return std::string(trace) + vf::fmt(" (type checking %s)", T ? "on" : "off"); };
    if (ended) {        // the history ended at a failing reallocation for which a report was due (or made)
        vf::outcome(vf::fmt("failed-realloc<-%s %s", FORM_NAME[form], CAT[ended_want]));
        vf::count("nontrivial"); vf::count("ops", nops + 1);
        if (vf::want_sample()) vf::sample(desc());
        return;
    }
    Cat want = nullfam ? (T ? C_MISMATCH : changed ? C_CORRUPT : C_NONE) : reference(true, false, fa, fr, T != 0, changed);
    if (stale_sim || ((rstate == S_SIM || rstate == S_NULL) && kind == K_REALLOC)) {       // realloc with an allocator that hands out nothing cannot obtain its record and gives up
        vf::outcome(vf::fmt("%s<-%s not-judged(%s) got-%s", rname, FORM_NAME[form], stale_sim ? "stand-in without simulation" : "no-memory allocator current", CAT[classify(env.rep)]));   // before looking at the block
        vf::count("ops", nops + 2);
        return;
    }
    if (nullfam) { env.qual = "/null-allocator-installed"; rname = REL_NAME[fr]; }      // one signature per family, not per release form
    else if (sim_release) { env.qual = "/null-allocator-current"; rname = REL_NAME[fr]; }
    env.judge(rname, false, want, desc);
    const char* pv = kind == K_GLOBAL ? env.poison_verdict(rname, false, desc) : "n/a";
    env.anomalies();
    vf::outcome(vf::fmt("%s<-%s %s %s slots %d%d%d ts=%d", rname, FORM_NAME[form], CAT[want], pv, ro.slot[0], ro.slot[1], ro.slot[2], ro.threadsafe_table));
    if (nops && want != C_NONE) vf::count("nontrivial");
    vf::count("ops", nops + 2);
    if (vf::want_sample()) vf::sample(desc());
}

// ------------------------------------------------------------------ section typeflag: the type checking switch in histories
// The switch is part of an enumerated history instead of being set right before the release: {enable,disable}
// AllocationTypeChecking interleaved with the detector's period operations (startChecking, stopChecking, enable, disable,
// clearAllAccounting(all), markCheckingPeriodLeaksAsNonCheckingPeriod) and with a MemoryLeakWarningPlugin's pre/post
// test actions on the same detector, before the allocation and between allocation and release. Reference: the flag in
// force at the release is the last explicit setting (default on) - nothing else changes it; clearAllAccounting(all)
// between allocation and release makes the block "not outstanding".
enum { F_TC_ON, F_TC_OFF, F_START, F_STOP, F_ENABLE, F_DISABLE, F_CLEAR, F_MARK, F_PRE, F_POST, F_COUNT };
const char* FOP_NAME[] = {"enableAllocationTypeChecking", "disableAllocationTypeChecking", "startChecking", "stopChecking", "enable", "disable",
                          "clearAllAccounting(all)", "markCheckingPeriodLeaksAsNonCheckingPeriod", "plugin.preTestAction", "plugin.postTestAction"};
void typeflag_case(vf::Chooser& ch, int depth_total) {
    int gs = ch.choose(2), fa = ch.choose(3), rc = ch.choose(4);
    int fr = rc == 3 ? MAL : rc, kind = rc == 3 ? K_REALLOC : K_GLOBAL;
    Env env(true);
    env.qual = "/flag-history";
    MemoryLeakWarningPlugin plugin("c06-local", env.det);          // a plugin working on the detector under test
    StringBufferTestOutput out; TestResult result(out); UtestShell shell("g", "n", "f.cpp", 1);
    bool T = true, outstanding = false, allocated = false;
    std::string trace; int nops = 0, left = depth_total; bool flag_op = false, period_after_flag = false;
    auto history = [&]() {
        while (left > 0) {
            int c = ch.choose(F_COUNT + 1);
            if (c == 0) break;
            int op = c - 1; left--; nops++;
            vf::ctx(FOP_NAME[op]);
            switch (op) {
            case F_TC_ON: env.det->enableAllocationTypeChecking(); T = true; break;
            case F_TC_OFF: env.det->disableAllocationTypeChecking(); T = false; break;
            case F_START: env.det->startChecking(); break;
            case F_STOP: env.det->stopChecking(); break;
            case F_ENABLE: env.det->enable(); break;
            case F_DISABLE: env.det->disable(); break;
            case F_CLEAR: env.det->clearAllAccounting(mem_leak_period_all); if (allocated) outstanding = false; break;
            case F_MARK: env.det->markCheckingPeriodLeaksAsNonCheckingPeriod(); break;
            case F_PRE: plugin.preTestAction(shell, result); break;
            case F_POST: plugin.postTestAction(shell, result); break;
            }
            if (op <= F_TC_OFF) flag_op = true; else if (flag_op) period_after_flag = true;
            trace += std::string(FOP_NAME[op]) + "; ";
        }
    };
    history();
    Blk b = env.alloc(fa, W_NONE, 6);
    allocated = outstanding = true;
    trace += vf::fmt("p = %s(6); ", ALLOC_NAME[fa]);
    if (gs) { b.p[b.size + 2] = (char)(b.g0[2] ^ 0x02); trace += "p[8] overwritten; "; }
    history();
    bool changed = guard_changed(b);
    trace += vf::fmt("%s(p)", chan_name(kind, fr));
    auto desc = [&]() { return trace + vf::fmt(" (last explicit setting of type checking: %s)", T ? "on" : "off"); };
    env.watch(b);
    // (Env::release would overwrite nothing of the flag: it only resets the reporter and the text buffer)
    env.release(kind, fr, W_NONE, b.p, 9);
    Cat want = reference(outstanding, false, fa, fr, T, changed);
    env.judge(chan_name(kind, fr), false, want, desc);
    if (outstanding && kind == K_GLOBAL) env.poison_verdict(chan_name(kind, fr), false, desc);
    env.anomalies();
    vf::outcome(vf::fmt("%s<-%s %s tc=%d flagop=%d then-period-op=%d", chan_name(kind, fr), ALLOC_NAME[fa], CAT[want], T, flag_op, period_after_flag));
    if (period_after_flag && fa != fr) vf::count("nontrivial");       // the switch was set and a period operation followed before a cross-family release
    vf::count("ops", nops + 2);
    if (vf::want_sample()) vf::sample(desc());
}

// ------------------------------------------------------------------ section failrealloc: reallocations that fail, both record layouts
// Detector API as the overloads use it, so that every family can be combined with both layouts of the accounting record
// (inside the block / separately allocated): allocMemory, k reallocMemory calls that cannot succeed (platform realloc
// answers NULL, or size_t(-5)), then invalidateMemory+deallocMemory through one of the three families or a reallocMemory
// that succeeds. Reference: a failing reallocation through the block's own family is reported as corruption iff the guard
// is changed at that moment and otherwise changes nothing: the later release is judged exactly as without it.
const size_t FR_SIZES[4] = {0, 1, 8, 17};
void failrealloc_case(long idx) {
    vf::Radix r(idx);
    int gsel = (int)r.take(7), T = (int)r.take(2), rel = (int)r.take(4), k = 1 + (int)r.take(2), variant = (int)r.take(2), sep = (int)r.take(2), fam = (int)r.take(3); size_t size = FR_SIZES[r.take(4)];
    Env env(T != 0);
    TestMemoryAllocator* a = defalloc(fam);
    char* p;
    vf::ctx("allocMemory");
    { Window win; p = env.det->allocMemory(a, size, "alloc.c", 12, sep != 0); }
    if (!p) vf::harness_error("allocMemory returned NULL");
    Blk b; b.p = p; b.size = size; b.fam = fam;
    for (size_t i = 0; i < size; i++) p[i] = (char)pat(i);
    memcpy(b.g0, p + size, 3);
    int gpos = gsel ? (gsel - 1) % 3 : 0; bool before = gsel >= 1 && gsel <= 3, after = gsel >= 4;
    if (before) p[size + gpos] = (char)(b.g0[gpos] ^ 0x40);
    auto desc = [&]() { return vf::fmt("%zu byte %s block with %s accounting record, %d reallocation(s) that fail (%s), then %s; type checking %s, guard %s", size, ALLOC_NAME[fam], sep ? "a separately allocated" : "an in-block", k, variant ? "size_t(-5)" : "platform realloc answers NULL", rel == 3 ? "a reallocation that succeeds" : REL_NAME[rel], T ? "on" : "off", gsel == 0 ? "intact" : vf::fmt("byte %d changed %s the failing reallocation", gpos, before ? "before" : "after").c_str()); };
    for (int i = 0; i < k; i++) {
        bool changed = guard_changed(b);
        env.rep.reset(); env.det->outputBuffer_.clear();
        char* q;
        vf::ctx(variant ? "reallocMemory(size_t(-5))" : "reallocMemory(platform-fails)");
        { Window win; g_fail_realloc = variant == 0; q = env.det->reallocMemory(a, p, variant ? (size_t)-5 : size + 3, "free.c", 24, sep != 0); g_fail_realloc = false; }
        Cat wantf = changed ? C_CORRUPT : C_NONE;
        env.qual = "/failed";
        bool reported = env.judge("realloc", false, wantf, desc);
        if (q) cfail("realloc/failed/returned-a-block", desc() + ": the reallocation cannot succeed but did not return NULL");
        env.qual = nullptr;
        if (reported || wantf != C_NONE || q) {
            vf::outcome(vf::fmt("failed-realloc %s sep=%d %s", ALLOC_NAME[fam], sep, CAT[wantf]));
            vf::count("nontrivial"); vf::count("transitions", 1 + i + 1);
            if (vf::want_sample()) vf::sample(desc());
            return;
        }
        for (size_t j = 0; j < size; j++) if ((uchar)p[j] != pat(j)) { cfail("realloc/failed/user-bytes-changed", desc() + ": the failed reallocation modified the block"); break; }
        if (memcmp(p + size, b.g0, 3) != 0) cfail("realloc/failed/guard-bytes-changed", desc() + ": the failed reallocation modified the guard bytes");
    }
    if (after) p[size + gpos] = (char)(b.g0[gpos] ^ 0x40);
    bool changed = guard_changed(b);
    int fr = rel == 3 ? fam : rel;
    const char* chan = rel == 3 ? "realloc" : REL_NAME[rel];
    env.watch(b);
    env.rep.reset(); env.det->outputBuffer_.clear();
    vf::ctx(chan);
    {
        Window win;
        if (rel == 3) env.det->reallocMemory(a, p, size + 2, "free.c", 23, sep != 0);
        else { env.det->invalidateMemory(p); env.det->deallocMemory(defalloc(fr), p, "free.c", 22, sep != 0); }
    }
    Cat want = reference(true, false, fam, fr, T != 0, changed);
    env.qual = "/after-failed-realloc";
    env.judge(chan, false, want, desc);
    const char* pv = rel == 3 ? "n/a" : env.poison_verdict(chan, false, desc);
    env.anomalies();
    vf::outcome(vf::fmt("%s<-%s sep=%d %s %s", chan, ALLOC_NAME[fam], sep, CAT[want], pv));
    vf::count("nontrivial");
    vf::count("transitions", 2 + k);
    if (vf::want_sample()) vf::sample(desc());
}

// ------------------------------------------------------------------ section names: user-defined allocator families
// A family is identified by the allocator's name(): TestMemoryAllocator::isOfEqualType compares the complete name strings
// (SimpleString::StrCmp, case sensitive) and the allocator keeps the caller's pointer (so the harness keeps every name
// buffer alive and unchanged for the whole run). Two user-defined allocators A and B, the block allocated through A and
// released through B; reference: type mismatch iff type checking is on and the two complete names differ.
struct NamePair { std::string a, b; const char* what; bool same_buffer; };
std::vector<NamePair> NAMES;
void build_names() {
    auto filler = [](size_t n) { std::string s; const char* w = "Fixed Block Pool Allocator for family "; while (s.size() < n) s += w[s.size() % 38]; s.resize(n); return s; };
    NAMES.push_back({"Pool A", "Pool B", "short distinct names", false});
    NAMES.push_back({"", "x", "an empty name and a one-letter name", false});
    for (size_t k : {15, 31, 32, 63, 64, 127, 255}) {
        std::string pre = filler(k);
        NAMES.push_back({pre + "x", pre + "y", "names equal in the first k characters, different in the next (last) one", false});
        NAMES.push_back({pre + "x common tail", pre + "y common tail", "names equal in the first k characters, different in the next one, equal again afterwards", false});
    }
    for (size_t k : {8, 31, 32, 64}) { std::string pre = filler(k); NAMES.push_back({pre, pre + " []", "one name is a proper prefix of the other", false}); }
    NAMES.push_back({"Pool Allocator", "pool allocator", "names equal except for letter case", false});
    NAMES.push_back({filler(40), filler(39) + "Y", "names equal except for the case of the last letter", false});
    for (size_t k : {0, 6, 31, 32, 40, 300}) { std::string n = filler(k); NAMES.push_back({n, n, "the same text in two different buffers", false}); }
    NAMES.push_back({"Shared name buffer", "Shared name buffer", "both allocators were given the same buffer", true});
}
void names_case(long idx) {
    vf::Radix r(idx);
    int gs = (int)r.take(2), T = (int)r.take(2), wa = (int)r.take(2), wr = (int)r.take(2), route = (int)r.take(11), order = (int)r.take(2); const NamePair& np = NAMES[r.take((long)NAMES.size())];
    const std::string& na = order ? np.b : np.a; const std::string& nb = order ? np.a : np.b;
    bool same = na == nb;                                            // complete strings
    Env env(T != 0);
    env.route_only = true; env.qual = "/named-family";
    TestMemoryAllocator A(na.c_str(), "alloc", "free");
    TestMemoryAllocator B(np.same_buffer ? na.c_str() : nb.c_str(), "alloc", "free");
    MemoryAccountant acct;
    AccountingTestMemoryAllocator WA(acct, &A), WB(acct, &B);
    TestMemoryAllocator* aa = wa ? (TestMemoryAllocator*)&WA : &A; TestMemoryAllocator* rb = wr ? (TestMemoryAllocator*)&WB : &B;
    bool api = route >= 9; int sa = api ? (route == 9 ? NEW : MAL) : route / 3, sr = api ? sa : route % 3;
    Blk b;
    if (!api) { setcur(sa, aa); b = env.alloc(sa, W_NONE, 7); setcur(sa, defalloc(sa)); }
    else {
        vf::ctx("allocMemory");
        { Window win; b.p = env.det->allocMemory(aa, 7, "alloc.c", 12, sa == MAL); }
        if (!b.p) vf::harness_error("allocMemory returned NULL");
        b.size = 7; b.fam = sa; for (size_t i = 0; i < 7; i++) b.p[i] = (char)pat(i); memcpy(b.g0, b.p + 7, 3);
    }
    if (gs) b.p[b.size] = (char)(b.g0[0] ^ 0x08);
    bool changed = guard_changed(b);
    auto shown = [](const std::string& n) { return n.size() <= 48 ? "'" + n + "'" : "'" + n.substr(0, 20) + "...' (" + std::to_string(n.size()) + " characters, last: '" + n.substr(n.size() - 14) + "')"; };
    auto desc = [&]() { return vf::fmt("allocated through %sallocator named %s by %s, released through %sallocator named %s by %s (%s), type checking %s, guard %s", wa ? "an accounting allocator around an " : "an ", shown(na).c_str(), api ? "allocMemory" : ALLOC_NAME[sa], wr ? "an accounting allocator around an " : "an ", shown(nb).c_str(), api ? "invalidateMemory+deallocMemory" : REL_NAME[sr], np.what, T ? "on" : "off", gs ? "byte 0 changed" : "intact"); };
    env.watch(b);
    if (!api) { setcur(sr, rb); env.release(K_GLOBAL, sr, W_NONE, b.p); setcur(sr, defalloc(sr)); }
    else {
        env.rep.reset(); env.det->outputBuffer_.clear();
        vf::ctx("deallocMemory");
        { Window win; env.det->invalidateMemory(b.p); env.det->deallocMemory(rb, b.p, "free.c", 22, sa == MAL); }
    }
    Cat want = (T && !same) ? C_MISMATCH : changed ? C_CORRUPT : C_NONE;
    const char* chan = api ? (sa == MAL ? "free" : "delete") : REL_NAME[sr];
    env.judge(chan, false, want, desc);
    const char* pv = env.poison_verdict(chan, false, desc);
    env.anomalies();
    size_t common = 0; while (common < na.size() && common < nb.size() && na[common] == nb[common]) common++;
    vf::outcome(vf::fmt("%s %s common-prefix %zu of %zu/%zu %s", api ? "api" : "routed", CAT[want], common, na.size(), nb.size(), pv));
    if (!same && common >= 8) vf::count("nontrivial");           // different families with a long common beginning
    vf::count("transitions", 2);
    if (vf::want_sample()) vf::sample(desc());
}

// ------------------------------------------------------------------ section hist: histories up to the first report
void hist_case(vf::Chooser& ch, int depth, int maxlive) {
    Env env(true);
    bool T = true;
    std::vector<Blk> live; Blk stale; bool has_stale = false;
    std::string trace; int nalloc = 0; Cat last = C_NONE; bool stopped = false; int tampers = 0, failed_reallocs = 0;
    auto name = [&](const Blk& b) { return vf::fmt("%s-block(%zu)", ALLOC_NAME[b.fam], b.size); };
    for (int step = 0; step < depth && !stopped; step++) {
        int n_alloc = (int)live.size() < maxlive ? 3 : 0;
        int n_live = (int)live.size() * 7;
        int n_stale = has_stale ? 2 : 0;
        int op = ch.choose(n_alloc + n_live + n_stale + 1);
        if (op < n_alloc) {
            Blk b = env.alloc(op, W_NONE, (size_t)(1 + nalloc++));
            live.push_back(b);
            trace += vf::fmt("%s(%zu) ", ALLOC_NAME[op], b.size);
        } else if (op < n_alloc + n_live) {
            int k = (op - n_alloc) / 7, a = (op - n_alloc) % 7;
            Blk b = live[k];
            if (a >= 5) {       // a reallocation that fails (platform answers NULL / size does not fit): judged like a release through the
                                // malloc family; if no report is due nothing has happened
                bool changed = guard_changed(b);
                trace += vf::fmt("%s:%s ", a == 5 ? "realloc-platform-fails" : "realloc-size_t(-5)", name(b).c_str());
                void* q = env.realloc_failing(b.p, a - 5, b.size);
                Cat want = reference(true, false, b.fam, MAL, T, changed);
                auto desc = [&]() { return trace + vf::fmt("(type checking %s, guard %s)", T ? "on" : "off", changed ? "changed" : "intact"); };
                env.qual = "/failed";
                bool reported = env.judge("realloc", false, want, desc);
                if (q) cfail("realloc/failed/returned-a-block", desc() + ": the reallocation cannot succeed but did not return NULL");
                env.qual = nullptr;
                if (reported || want != C_NONE || q) { last = want; stopped = true; break; }
                failed_reallocs++;
            } else if (a == 4) {           // flip one guard byte (flipping it again restores it)
                b.p[b.size + b.size % 3] ^= 0x20; tampers++;
                trace += "tamper-guard:" + name(b) + " ";
            } else {
                int kind = a == 3 ? K_REALLOC : K_GLOBAL, f = a == 3 ? MAL : a;
                bool changed = guard_changed(b);
                trace += vf::fmt("%s:%s ", chan_name(kind, f), name(b).c_str());
                env.watch(b);
                void* q = env.release(kind, f, W_NONE, b.p, b.size + 2);
                Cat want = reference(true, false, b.fam, f, T, changed);
                last = want;
                auto desc = [&]() { return trace + vf::fmt("(type checking %s, guard %s)", T ? "on" : "off", changed ? "changed" : "intact"); };
                bool reported = env.judge(chan_name(kind, f), false, want, desc);
                if (kind == K_GLOBAL) env.poison_verdict(chan_name(kind, f), false, desc);
                live.erase(live.begin() + k);
                if (reported || want != C_NONE) { stopped = true; break; }
                if (kind == K_REALLOC) {
                    if (!q) { cfail("realloc/returned-null", desc() + ": realloc of an outstanding block returned NULL"); stopped = true; break; }
                    Blk nb; nb.p = (char*)q; nb.size = b.size + 2; nb.fam = MAL;
                    for (size_t i = 0; i < nb.size; i++) nb.p[i] = (char)pat(i);
                    memcpy(nb.g0, nb.p + nb.size, 3);
                    live.insert(live.begin() + k, nb);
                } else { stale = b; has_stale = true; }
            }
        } else if (op < n_alloc + n_live + n_stale) {
            int f = (op - n_alloc - n_live) == 0 ? stale.fam : (stale.fam == MAL ? NEW : MAL);
            trace += vf::fmt("%s:released-%s ", REL_NAME[f], name(stale).c_str());
            env.release(K_GLOBAL, f, W_NONE, stale.p);
            last = C_NONALLOC;
            env.judge(REL_NAME[f], false, C_NONALLOC, [&]() { return trace + vf::fmt("(type checking %s)", T ? "on" : "off"); });
            stopped = true;
        } else {
            T = !T; env.set_typecheck(T);
            trace += T ? "typecheck-on " : "typecheck-off ";
        }
        vf::count("ops");
    }
    // whatever is still outstanding is released through its own family
    size_t left = live.size();
    while (!stopped && !live.empty()) {
        Blk b = live.back(); live.pop_back();
        bool changed = guard_changed(b);
        trace += vf::fmt("%s:%s ", REL_NAME[b.fam], name(b).c_str());
        env.watch(b);
        env.release(K_GLOBAL, b.fam, W_NONE, b.p);
        Cat want = reference(true, false, b.fam, b.fam, T, changed);
        last = want;
        auto desc = [&]() { return trace + vf::fmt("(final releases; type checking %s, guard %s)", T ? "on" : "off", changed ? "changed" : "intact"); };
        bool reported = env.judge(REL_NAME[b.fam], false, want, desc);
        env.poison_verdict(REL_NAME[b.fam], false, desc);
        if (reported || want != C_NONE) stopped = true;
        vf::count("ops");
    }
    env.anomalies();
    vf::outcome(vf::fmt("end=%s left=%zu tc=%d tampers=%d failed-reallocs=%d", CAT[last], left, T, tampers > 2 ? 2 : tampers, failed_reallocs > 2 ? 2 : failed_reallocs));
    if (last != C_NONE) vf::count("nontrivial");
    if (vf::want_sample()) vf::sample(trace);
}

} // namespace

int main(int argc, char** argv) {
    vf::init(argc, argv, "C06");
    MemoryLeakWarningPlugin::turnOffNewDeleteOverloads();
    arena_init();
    PlatformSpecificFPuts = fputs_swallow; PlatformSpecificFlush = flush_nop;
    // everything the library creates lazily is created now, outside any case (must not live in the arena)
    MemoryLeakWarningPlugin::getGlobalDetector();
    defaultNewAllocator(); defaultNewArrayAllocator(); defaultMallocAllocator(); NullUnknownAllocator::defaultAllocator();
    UtestShell::getCurrent()->print("warm-up", "c06", 1);
    static MemoryLeakWarningPlugin first_plugin("c06-first");      // MemoryLeakWarningPlugin::firstPlugin_ must not point into a case
    MemoryLeakWarningPlugin::getGlobalDetector()->disable();
    PlatformSpecificMalloc = arena_malloc; PlatformSpecificFree = arena_free; PlatformSpecificRealloc = arena_realloc;

    bool TH = vf::thorough();
    if (!TH) { for (size_t s = 0; s <= 17; s++) SIZES.push_back(s); SIZES.push_back(4096); }
    else { for (size_t s = 0; s <= 64; s++) SIZES.push_back(s); for (size_t s : {127, 128, 129, 255, 256, 257, 1023, 1024, 1025, 4095, 4096, 4097}) SIZES.push_back(s); }
    for (size_t s : SIZES) for (size_t p = 0; p <= s; p++) POSITIONS.push_back({s, p});
    for (int f = 0; f < 3; f++) for (int w = 0; w < 4; w++) ACH.push_back({f, w, false});
    ACH.push_back({MAL, W_NONE, true});
    for (int f = 0; f < 3; f++) for (int w = 0; w < 3; w++) RCH.push_back({K_GLOBAL, f, w});
    for (int f = 0; f < 3; f++) RCH.push_back({K_MLA, f, W_NONE});
    for (int w = 0; w < 3; w++) RCH.push_back({K_REALLOC, MAL, w});
    {
        std::vector<size_t> as = {0, 1, 2, 8, 17};
        if (TH) { as.push_back(100); as.push_back(4096); }
        for (size_t s : as) {
            for (int k = A_NULL; k < A_OFFSET; k++) ADDRS.push_back({s, k, 0});
            for (long o = -16; o <= (long)s + 16; o++) if (o) ADDRS.push_back({s, A_OFFSET, o});
        }
    }

    vf::info("rule", "one allocation (or a short history of allocations), one tampering write or one bogus address, one release, on a fresh private global detector; every combination of the stated alphabets is executed; the reference is: NULL -> no report, not outstanding -> non-allocated, outstanding -> mismatch iff type checking on and families differ, else corruption iff one of the 3 bytes behind the user bytes changed, else nothing; non-trivial = a case in which a report is due (interior section: the write touches the last user byte or all of them)");
    std::string sz = TH ? "0..64,127..129,255..257,1023..1025,4095..4097" : "0..17,4096";
    long NS = (long)SIZES.size();

    vf::info("guard.bound", "sizes {" + sz + "} x {new/delete, new[]/delete[], malloc/free, malloc/realloc} x type checking on/off x guard position 0..2 x every byte value 0..255 written there");
    vf::section_index("guard", NS * 4 * 2 * 3 * 256, guard_case);
    vf::require_outcomes("guard", 6);

    vf::info("guardsets.bound", "sizes {" + sz + "} x 4 matching pairs x type checking on/off x {unchanged, ^0x01, 0x00, 0xff, ^0x80}^3 written to the three guard bytes together");
    vf::section_index("guardsets", NS * 4 * 2 * NGV * NGV * NGV, guardset_case);
    vf::require_outcomes("guardsets", 6);

    vf::info("interior.bound", "sizes {" + sz + "} x 4 matching pairs x type checking on/off x every single user byte position (and: all user bytes) x value {0x00, 0xff, 'S', 0xCD}");
    vf::section_index("interior", (long)POSITIONS.size() * 4 * 2 * 4, interior_case);
    vf::require_outcomes("interior", 6);

    if (!TH) { PAIR_SIZES = {0, 1, 7, 8, 9, 16, 17}; PAIR_GUARD = {0, 1, 4, 7}; }
    else { for (size_t s = 0; s <= 17; s++) PAIR_SIZES.push_back(s); PAIR_SIZES.push_back(4096); for (int g = 0; g < 10; g++) PAIR_GUARD.push_back(g); }
    vf::info("pairs.bound", std::string("13 allocating channels (new, new[], malloc each plain / under an AccountingTestMemoryAllocator / under a SimpleStringCacheAllocator as current allocator / through a MemoryLeakAllocator; realloc(NULL)) x 15 releasing channels (delete, delete[], free each plain / accounting / string cache; MemoryLeakAllocator::free_memory x 3 families; realloc plain / accounting / string cache) x type checking on/off x {default, thread-safe} global overloads x {nothing, a cpputest_realloc that the platform fails, a cpputest_realloc to size_t(-5)} between allocation and release x ") + (TH ? "guard {intact, byte 0/1/2 set to +1/0x00/0xff} x sizes {0..17,4096}" : "guard {intact, byte 0, 1, 2 changed} x sizes {0,1,7,8,9,16,17}"));
    vf::section_index("pairs", (long)PAIR_SIZES.size() * (long)ACH.size() * (long)RCH.size() * 2 * 2 * 3 * (long)PAIR_GUARD.size(), pair_case);
    vf::require_outcomes("pairs", 40);

    for (int f = 0; f < 3; f++) {
        STACKS.push_back({f, W_NONE, W_NONE});
        for (int i = 1; i < 4; i++) STACKS.push_back({f, W_NONE, i});
        for (int o = 1; o < 4; o++) for (int i = 1; i < 4; i++) STACKS.push_back({f, o, i});
    }
    if (!TH) P2_SIZES = {0, 1, 8, 17}; else P2_SIZES = {0, 1, 7, 8, 9, 16, 17, 4096};
    vf::info("pairs2.bound", std::string("allocator stacks {family, W(family), W1(W2(family))} with W, W1, W2 over {AccountingTestMemoryAllocator, SimpleStringCacheAllocator, MemoryLeakAllocator} and family over {new, new[], malloc} = 39 stacks on the allocating side x (39 stacks through delete/delete[]/free + the 13 malloc stacks through realloc) on the releasing side (equal stacks are the same objects) x type checking on/off x guard {intact, byte 0, 1, 2 changed} x sizes ") + (TH ? "{0,1,7,8,9,16,17,4096}" : "{0,1,8,17}") + "; detector driven through allocMemory / invalidateMemory+deallocMemory / reallocMemory as the global overloads do; a second private detector is the global one");
    vf::section_index("pairs2", (long)P2_SIZES.size() * (long)STACKS.size() * ((long)STACKS.size() + (long)STACKS.size() / 3) * 2 * 4, pair2_case);
    vf::require_outcomes("pairs2", 40);

    build_names();
    vf::info("names.bound", vf::fmt("%zu pairs of family names {short distinct; empty / one letter; equal in the first k characters and different in the next one, with and without a common tail, k in {15,31,32,63,64,127,255}; proper prefix (8,31,32,64 characters); equal except for letter case; the same text in two buffers (0,6,31,32,40,300 characters); the same buffer} x both orders x {allocating slot x releasing slot of the global routing via setCurrentXAllocator (3x3), detector API with in-block / separate record} x accounting wrapper on the allocating / releasing side x type checking on/off x guard {intact, changed}; reference: same family iff the complete names are equal", NAMES.size()));
    vf::section_index("names", (long)NAMES.size() * 2 * 11 * 2 * 2 * 2 * 2, names_case);
    vf::require_outcomes("names", 20);

    vf::info("failrealloc.bound", "family {new, new[], malloc} x accounting record {in the block, separately allocated} (detector API, as the overloads call it) x sizes {0,1,8,17} x 1 or 2 reallocations that cannot succeed {platform realloc answers NULL, size_t(-5)} through the block's own family x guard {intact, byte 0/1/2 changed before the failing reallocation, byte 0/1/2 changed after it} x type checking on/off x release through {delete, delete[], free (invalidateMemory+deallocMemory), a reallocation that succeeds}");
    vf::section_index("failrealloc", 7L * 2 * 4 * 2 * 2 * 2 * 3 * 4, failrealloc_case);
    vf::require_outcomes("failrealloc", 20);

    vf::info("addresses.bound", std::string("bystander block of family {new,new[],malloc} and size {0,1,2,8,17") + (TH ? ",100,4096" : "") + "} x address {NULL, released before, stack, static, never handed out, block of another detector, untracked heap block, p-16..p-1, p+1..p+size+16} x releasing channel {delete, delete[], free, realloc, MemoryLeakAllocator::free_memory x 3} x type checking on/off; afterwards the bystander is released through its own family");
    vf::section_index("addresses", (long)ADDRS.size() * 3 * 7 * 2, addr_case);
    vf::require_outcomes("addresses", 20);

    int depth = TH ? 7 : 6, maxlive = TH ? 4 : 3;
    vf::info("hist.bound", vf::fmt("every history of <= %d operations over {new, new[], malloc (<= %d outstanding, distinct sizes); per outstanding block: delete, delete[], free, realloc, a realloc the platform fails, a realloc to size_t(-5), flip one guard byte; per most recently released block: release again through its own and through another family; toggle type checking}, ended by the first due report; all blocks in one hash bucket; remaining blocks released through their own family at the end", depth, maxlive));
    vf::section_dfs("hist", 3, false, [&](vf::Chooser& ch) { hist_case(ch, depth, maxlive); });
    vf::require_outcomes("hist", 20);

    int rb = 2, rbt = 2, rtot = TH ? 4 : 3;
    vf::info("routing.bound", vf::fmt("8 allocating forms of the routing table (new, new[], new(nothrow), new[](nothrow), new(size,file,line), new[](size,file,line), malloc, realloc(NULL)) x 12 releasing forms (delete, delete[], their nothrow, sized, (file,int line) and (file,size_t line) forms, free, realloc) through the global routing only x type checking on/off x guard {intact, one byte changed} x every history of <= %d manipulations before the allocation x every history of <= %d between allocation and release (together <= %d), over {GlobalMemoryAllocatorStash save, restore; setCurrent{New,NewArray,Malloc}Allocator(custom allocator of that family); setCurrent{New,NewArray,Malloc}AllocatorToDefault; GlobalMemoryAccountant start, stop (only where the documented usage allows them); saveAndDisableNewDeleteOverloads+restoreNewDeleteOverloads; turnOffNewDeleteOverloads+turnOnDefaultNotThreadSafeNewDeleteOverloads; turnOnThreadSafeNewDeleteOverloads; cpputest_malloc_set_out_of_memory, cpputest_malloc_set_not_out_of_memory; setCurrent{New,NewArray,Malloc}Allocator(NullUnknownAllocator) (never together with the accountant; an allocation while its family is out of memory yields no block and ends the case); between allocation and release also: a cpputest_realloc of the block that the platform fails, a cpputest_realloc to size_t(-5)}; the overload table is switched on once per case and afterwards touched by these manipulations only; after every manipulation the three current allocators are compared with a slot model", rb, rbt, rtot));
    vf::section_dfs("routing", 4, false, [&](vf::Chooser& ch) { routing_case(ch, rb, rbt, rtot); });
    vf::require_outcomes("routing", 40);

    int fdepth = TH ? 4 : 3;
    vf::info("typeflag.bound", vf::fmt("3 allocating operators x 4 releasing entry points x guard {intact, one byte changed} x every way of placing <= %d operations before the allocation and between allocation and release, over {enableAllocationTypeChecking, disableAllocationTypeChecking, startChecking, stopChecking, enable, disable, clearAllAccounting(all), markCheckingPeriodLeaksAsNonCheckingPeriod, MemoryLeakWarningPlugin::preTestAction, ::postTestAction of a plugin on the same detector}; the switch in force at the release is the last explicit setting (default on)", fdepth));
    vf::section_dfs("typeflag", 3, false, [&](vf::Chooser& ch) { typeflag_case(ch, fdepth); });
    vf::require_outcomes("typeflag", 40);
    return vf::finish();
}

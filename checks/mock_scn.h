// mock_scn.h - mock scenarios shared by C08 (verdict exact) and C19 (C interface == C++ interface):
// scenario representation, exhaustive generator (mixed radix over option tables with a symmetry
// filter), unambiguity test, and the multiset reference model written from the property statement.
#pragma once
#include <vector>
#include <string>
#include <cstring>
#include "vf.h"

namespace scn {

enum Diag { PASS = 0, UNEXPECTED_CALL, ADDITIONAL, PARAM_NAME, PARAM_VALUE, PARAM_MISSING, OBJ_UNEXPECTED, OBJ_MISSING,
            NOT_FULFILLED, OUT_OF_ORDER, OUT_NAME, OUT_TYPE, OTHER_FAILURE, NDIAG };
inline const char* diag_name(int d) {
    static const char* n[] = {"PASS", "UNEXPECTED_CALL", "ADDITIONAL_CALL", "PARAM_NAME", "PARAM_VALUE", "PARAM_MISSING",
                              "OBJ_UNEXPECTED", "OBJ_MISSING", "NOT_FULFILLED", "OUT_OF_ORDER", "UNEXPECTED_OUTPUT_NAME", "UNEXPECTED_OUTPUT_TYPE", "OTHER_FAILURE"};
    return n[d];
}

struct Exp {
    int fn = 0;            // 0 "f", 1 "g"
    int count = 1;         // expected calls 0..2
    int np = 0;            // declared parameters, in declaration order
    int pname[2] = {0, 0}; // 0 "p", 1 "q"
    int pval[2] = {0, 0};  // 1 or 2
    bool ignoreOther = false;
    int obj = 0;           // 0 none, 1 o1, 2 o2
    bool declares(int name) const { for (int i = 0; i < np; i++) if (pname[i] == name) return true; return false; }
    int value(int name) const { for (int i = 0; i < np; i++) if (pname[i] == name) return pval[i]; return 0; }
};
struct Act {
    int fn = 0;
    int np = 0;
    int pname[2] = {0, 0};
    int pval[2] = {0, 0};
    int obj = 0;
    bool passes(int name) const { for (int i = 0; i < np; i++) if (pname[i] == name) return true; return false; }
};
struct Scenario {
    bool strict = false, ignoreOtherCalls = false, readReturn = false, outParam = false;
    bool nullObject = false; // object o2 is the NULL pointer (a legal object to bind an expectation to): objects are then not interchangeable
    int extraOut = 0;      // 1 / 2: every actual call also passes an output parameter "x" no expectation names, before / after "o"
                           // 3 / 4: (no "o") every actual call passes, after its input parameters, an output parameter named "x" (a name
                           //        nothing declares) / named "p" (which expectations may declare as an INPUT parameter): nothing
                           //        expects an output of that name, so only ignoreOtherParameters can accept it
    int scoped = 0;        // 1: function index 1 is "f" in the mock scope "s" (instead of the global function "g");
                           // 2: function 0 is "f" in scope "s" and function 1 is "f" in scope "t" (two named scopes, global mock unused)
    std::vector<Exp> exps;
    std::vector<Act> acts;
};

inline const char* FN[] = {"f", "g"};
inline const char* PN[] = {"p", "q"};

inline const char* fn_name(const Scenario& s, int fn) { return s.scoped == 2 ? (fn ? "t::f" : "s::f") : s.scoped ? (fn ? "s::f" : "f") : FN[fn]; }
inline std::string render(const Scenario& s) {
    std::string o;
    if (s.strict) o += "strictOrder; ";
    for (auto& e : s.exps) {
        o += vf::fmt("expect%d %s(", e.count, fn_name(s, e.fn));
        for (int i = 0; i < e.np; i++) o += vf::fmt("%s%s=%d", i ? "," : "", PN[e.pname[i]], e.pval[i]);
        o += ")";
        if (e.obj) o += vf::fmt(".onObject(o%d)", e.obj);
        if (e.ignoreOther) o += ".ignoreOtherParameters";
        o += "; ";
    }
    if (s.ignoreOtherCalls) o += "ignoreOtherCalls; ";
    for (auto& a : s.acts) {
        o += vf::fmt("call %s", fn_name(s, a.fn));
        if (a.obj) o += vf::fmt(".onObject(o%d)", a.obj);
        o += "(";
        for (int i = 0; i < a.np; i++) o += vf::fmt("%s%s=%d", i ? "," : "", PN[a.pname[i]], a.pval[i]);
        o += "); ";
    }
    if (s.readReturn) o += "[return values read] ";
    if (s.outParam) o += "[output parameter o] ";
    if (s.nullObject) o += "[o2 is the NULL pointer] ";
    if (s.extraOut >= 3) o += s.extraOut == 3 ? "[unexpected output parameter x passed last] " : "[output parameter named p passed last] ";
    else if (s.extraOut) o += s.extraOut == 1 ? "[unnamed output parameter x passed before o] " : "[unnamed output parameter x passed after o] ";
    return o;
}

// ---------------------------------------------------------------- option tables
struct Alphabet {
    std::vector<Exp> eo;
    std::vector<Act> ao;
};
// params: none | one of {p,q} x {1,2} | both, every value pair, (actual calls: both orders)
inline Alphabet make_alphabet(bool with_ignore, bool with_obj, int nfn = 2) {
    Alphabet A;
    struct P { int np; int n[2]; int v[2]; };
    std::vector<P> ep, ap;
    ep.push_back({0, {0, 0}, {0, 0}}); ap.push_back({0, {0, 0}, {0, 0}});
    for (int n = 0; n < 2; n++) for (int v = 1; v <= 2; v++) { ep.push_back({1, {n, 0}, {v, 0}}); ap.push_back({1, {n, 0}, {v, 0}}); }
    for (int v0 = 1; v0 <= 2; v0++) for (int v1 = 1; v1 <= 2; v1++) {
        ep.push_back({2, {0, 1}, {v0, v1}});
        ap.push_back({2, {0, 1}, {v0, v1}});
        ap.push_back({2, {1, 0}, {v1, v0}});
    }
    for (int fn = 0; fn < nfn; fn++) for (int cnt = 0; cnt <= 2; cnt++) for (auto& p : ep)
        for (int ig = 0; ig <= (with_ignore ? 1 : 0); ig++) for (int ob = 0; ob <= (with_obj ? 2 : 0); ob++) {
            Exp e; e.fn = fn; e.count = cnt; e.np = p.np; e.pname[0] = p.n[0]; e.pname[1] = p.n[1]; e.pval[0] = p.v[0]; e.pval[1] = p.v[1];
            e.ignoreOther = ig; e.obj = ob; A.eo.push_back(e);
        }
    for (int fn = 0; fn < nfn; fn++) for (auto& p : ap) for (int ob = 0; ob <= (with_obj ? 2 : 0); ob++) {
        Act a; a.fn = fn; a.np = p.np; a.pname[0] = p.n[0]; a.pname[1] = p.n[1]; a.pval[0] = p.v[0]; a.pval[1] = p.v[1]; a.obj = ob; A.ao.push_back(a);
    }
    return A;
}

// number of tuples of length 0..maxlen over n options
inline long tuples_upto(long n, int maxlen) { long t = 0, p = 1; for (int l = 0; l <= maxlen; l++) { t += p; p *= n; } return t; }
inline void decode_tuple(long idx, long n, std::vector<int>& out) {
    out.clear(); long p = 1; int len = 0;
    while (idx >= p) { idx -= p; p *= n; len++; }
    for (int i = 0; i < len; i++) { out.push_back((int)(idx % n)); idx /= n; }
}

// symmetry filter: functions, parameter names, values per name and objects can be renamed; keep only the
// scenario in which each of them appears in first-use order
inline bool canonical(const Scenario& s) {
    int fn_seen = 0, pn_seen = 0, val_seen[2] = {0, 0}, obj_seen = 0;
    auto see_fn = [&](int fn) { if (fn == fn_seen) fn_seen++; else if (fn > fn_seen) return false; return true; };
    auto see_obj = [&](int o) { if (!o || s.nullObject) return true; if (o == obj_seen + 1) obj_seen++; else if (o > obj_seen + 1) return false; return true; };
    auto see_p = [&](int n, int v) {
        if (n == pn_seen) pn_seen++; else if (n > pn_seen) return false;
        if (v == val_seen[n] + 1) val_seen[n]++; else if (v > val_seen[n] + 1) return false;
        return true;
    };
    bool fnsym = !s.scoped;     // a scoped function and a global one are not interchangeable
    for (auto& e : s.exps) { if ((fnsym && !see_fn(e.fn)) || !see_obj(e.obj)) return false; for (int i = 0; i < e.np; i++) if (!see_p(e.pname[i], e.pval[i])) return false; }
    for (auto& a : s.acts) { if ((fnsym && !see_fn(a.fn)) || !see_obj(a.obj)) return false; for (int i = 0; i < a.np; i++) if (!see_p(a.pname[i], a.pval[i])) return false; }
    return true;
}

// ---------------------------------------------------------------- unambiguous class (the property's precondition)
inline bool same_class(const Exp& a, const Exp& b) {
    if (a.fn != b.fn || a.np != b.np || a.obj != b.obj || a.ignoreOther != b.ignoreOther) return false;
    for (int n = 0; n < 2; n++) if (a.declares(n) != b.declares(n) || a.value(n) != b.value(n)) return false;
    return true;
}
inline bool unambiguous(const Scenario& s) {
    for (size_t i = 0; i < s.exps.size(); i++) for (size_t j = i + 1; j < s.exps.size(); j++) {
        const Exp& a = s.exps[i]; const Exp& b = s.exps[j];
        if (a.fn != b.fn) continue;
        for (int n = 0; n < 2; n++) if (a.declares(n) != b.declares(n)) return false;
        if (a.ignoreOther != b.ignoreOther) return false;
        if ((a.obj != 0) != (b.obj != 0)) return false;
        // now either identical or differing in at least one value/object: always true for equal shapes
    }
    return true;
}

// ---------------------------------------------------------------- the wider unambiguous class (verdict only)
// Complete match of one actual call with one expectation, exactly as the property words it: same function, the
// object the expectation names (if it names one), every passed parameter accepted, every declared parameter passed.
inline bool call_matches(const Exp& e, const Act& a) {
    if (e.fn != a.fn) return false;
    if (e.obj && e.obj != a.obj) return false;
    for (int k = 0; k < a.np; k++) { if (e.declares(a.pname[k]) ? e.value(a.pname[k]) != a.pval[k] : !e.ignoreOther) return false; }
    for (int k = 0; k < e.np; k++) if (!a.passes(e.pname[k])) return false;
    return true;
}
// No call of the alphabet completely matches two expectations of different classes.
inline bool wide_unambiguous(const Scenario& s, const Alphabet& A) {
    for (size_t i = 0; i < s.exps.size(); i++) for (size_t j = i + 1; j < s.exps.size(); j++) {
        if (s.exps[i].fn != s.exps[j].fn || same_class(s.exps[i], s.exps[j])) continue;
        for (auto& a : A.ao) if (call_matches(s.exps[i], a) && call_matches(s.exps[j], a)) return false;
    }
    return true;
}
// The property's multiset statement, evaluated directly (no step-by-step matching): PASS or a failure.
inline bool multiset_verdict_pass(const Scenario& s) {
    size_t nE = s.exps.size();
    std::vector<int> cls(nE);                        // class representative = first expectation of the class
    for (size_t i = 0; i < nE; i++) { cls[i] = (int)i; for (size_t j = 0; j < i; j++) if (same_class(s.exps[j], s.exps[i])) { cls[i] = cls[j]; break; } }
    std::vector<int> want(nE, 0), got(nE, 0), seq;
    for (size_t i = 0; i < nE; i++) want[cls[i]] += s.exps[i].count;
    for (auto& a : s.acts) {
        int m = -1; bool named = false;
        for (size_t i = 0; i < nE; i++) { if (s.exps[i].fn == a.fn) named = true; if (m < 0 && call_matches(s.exps[i], a)) m = cls[i]; }
        if (m < 0) { if (s.ignoreOtherCalls && !named) continue; return false; }
        got[m]++; seq.push_back(m);
    }
    for (size_t i = 0; i < nE; i++) if (want[i] != got[i]) return false;
    if (s.strict) {
        std::vector<int> expanded; for (size_t i = 0; i < nE; i++) for (int k = 0; k < s.exps[i].count; k++) expanded.push_back(cls[i]);
        if (expanded != seq) return false;
    }
    return true;
}

// ---------------------------------------------------------------- reference model (multiset semantics)
struct Expected {
    int diag = PASS;
    int failing_call = -1;                 // index of the actual call the failure belongs to (or size() for checkExpectations)
    int raised_at = -1;                    // index of the call statement during which the failure is raised (size() = teardown)
    int additional_nth = 0;                // for ADDITIONAL: the ordinal named in the message
    std::vector<int> consumed;             // per actual call: expectation index consumed, -1 ignored call, -2 not reached
};
inline Expected reference(const Scenario& s) {
    Expected r;
    size_t nE = s.exps.size();
    std::vector<int> left(nE), done(nE, 0);
    for (size_t i = 0; i < nE; i++) left[i] = s.exps[i].count;
    r.consumed.assign(s.acts.size(), -2);
    std::vector<int> order;               // consumed expectation per non-ignored call
    // a call that matches no expectation completely (missing parameter / missing object) is only known to have
    // failed when its mock scope finalises it: at the next actual call in the same scope, when its return value
    // is read, or at checkExpectations. One pending call per scope (scope == function index when scoped).
    int pending_diag[2] = {PASS, PASS}, pending_call[2] = {-1, -1};
    auto fail = [&](int diag, int call, int raised) { r.diag = diag; r.failing_call = call; r.raised_at = raised; return r; };
    for (size_t c = 0; c < s.acts.size(); c++) {
        const Act& a = s.acts[c];
        int scope = s.scoped ? a.fn : 0;
        if (pending_diag[scope] != PASS) return fail(pending_diag[scope], pending_call[scope], (int)c);
        std::vector<int> named, R;
        for (size_t i = 0; i < nE; i++) if (s.exps[i].fn == a.fn) { named.push_back((int)i); if (left[i] > 0) R.push_back((int)i); }
        if (R.empty()) {
            if (s.ignoreOtherCalls && named.empty()) { r.consumed[c] = -1; continue; }
            int fulfilled = 0; for (int i : named) fulfilled += done[i];
            r.additional_nth = fulfilled + 1;
            return fail(fulfilled > 0 ? ADDITIONAL : UNEXPECTED_CALL, (int)c, (int)c);
        }
        if (a.obj) {
            std::vector<int> R2; for (int i : R) if (s.exps[i].obj == 0 || s.exps[i].obj == a.obj) R2.push_back(i);
            R = R2;
            if (R.empty()) return fail(OBJ_UNEXPECTED, (int)c, (int)c);
        }
        for (int k = 0; k < a.np; k++) {
            int name = a.pname[k], v = a.pval[k];
            std::vector<int> R2;
            for (int i : R) { const Exp& e = s.exps[i]; if (e.declares(name) ? e.value(name) == v : e.ignoreOther) R2.push_back(i); }
            R = R2;
            if (R.empty()) {
                bool declared_somewhere = false; for (int i : named) if (s.exps[i].declares(name)) declared_somewhere = true;
                return fail(declared_somewhere ? PARAM_VALUE : PARAM_NAME, (int)c, (int)c);
            }
        }
        if (s.extraOut >= 3) {
            std::vector<int> R2; for (int i : R) if (s.exps[i].ignoreOther) R2.push_back(i);
            R = R2;
            if (R.empty()) return fail(OUT_NAME, (int)c, (int)c);      // no expectation has an OUTPUT parameter of that name
        }
        int m = -1; bool missing_param = false;
        for (int i : R) {
            const Exp& e = s.exps[i];
            bool all = true; for (int k = 0; k < e.np; k++) if (!a.passes(e.pname[k])) all = false;
            if (!all) { missing_param = true; continue; }
            if (e.obj && !a.obj) continue;
            if (m < 0) m = i;
        }
        if (m < 0) {
            int d = missing_param ? PARAM_MISSING : OBJ_MISSING;
            if (s.readReturn) return fail(d, (int)c, (int)c);          // reading the return value finalises the call at once
            pending_diag[scope] = d; pending_call[scope] = (int)c; r.consumed[c] = -3;
            continue;
        }
        left[m]--; done[m]++; r.consumed[c] = m; order.push_back(m);
    }
    int end = (int)s.acts.size();
    // checkExpectations finalises the global mock's pending call first, then the named scopes in creation order
    int first = 0;
    if (s.scoped == 2) first = !s.exps.empty() ? s.exps[0].fn : !s.acts.empty() ? s.acts[0].fn : 0;
    for (int k = 0; k < 2; k++) { int scope = k ? 1 - first : first; if (pending_diag[scope] != PASS) return fail(pending_diag[scope], pending_call[scope], end); }
    for (size_t i = 0; i < nE; i++) if (left[i] > 0) return fail(NOT_FULFILLED, end, end);
    if (s.strict) {
        std::vector<int> expanded; for (size_t i = 0; i < nE; i++) for (int k = 0; k < s.exps[i].count; k++) expanded.push_back((int)i);
        bool same = expanded.size() == order.size();
        for (size_t k = 0; same && k < order.size(); k++) if (!same_class(s.exps[expanded[k]], s.exps[order[k]])) same = false;
        if (!same) return fail(OUT_OF_ORDER, end, end);
    }
    return r;
}

// diagnosis class from the failure text printed by the framework
inline int classify_message(const std::string& out) {
    if (out.find("Unexpected additional (") != std::string::npos) return ADDITIONAL;
    if (out.find("Mock Failure: Unexpected call to function") != std::string::npos) return UNEXPECTED_CALL;
    if (out.find("Unexpected output parameter name to function") != std::string::npos) return OUT_NAME;
    if (out.find("Unexpected parameter type") != std::string::npos && out.find("to output parameter") != std::string::npos) return OUT_TYPE;
    if (out.find("Unexpected parameter name to function") != std::string::npos) return PARAM_NAME;
    if (out.find("Unexpected parameter value to parameter") != std::string::npos) return PARAM_VALUE;
    if (out.find("Mock Failure: Expected parameter for function") != std::string::npos) return PARAM_MISSING;
    if (out.find("Function called on an unexpected object") != std::string::npos) return OBJ_UNEXPECTED;
    if (out.find("Expected call on object for function") != std::string::npos) return OBJ_MISSING;
    if (out.find("Expected call WAS NOT fulfilled") != std::string::npos) return NOT_FULFILLED;
    if (out.find("Out of order calls") != std::string::npos) return OUT_OF_ORDER;
    return OTHER_FAILURE;
}

} // namespace scn

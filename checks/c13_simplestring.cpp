// C13 - SimpleString operations equal their textbook meaning, are memory safe, and every internal
// buffer goes back to the string allocator exactly once with the size it was requested with.
//
// Deciding step: complete enumeration of finite operand spaces (all byte strings over a small
// alphabet up to a length bound x all positions / all pairs / all triples) and of all operation
// histories up to a depth bound on two string objects and a collection, every result compared
// with a std::string reference written from the textbook meaning. All operands live in exact-size
// heap blocks under ASan; the string allocator is a recording allocator (c13_common.h).
//
// This TU: sections unary, binary, replace, replace_empty, seq, seqdeep.  c13_prims.cpp: the rest.
#include <sanitizer/asan_interface.h>
#include <string>
#include <vector>
#include <map>
#include <set>
#define VF_MAIN
#include "c13_common.h"

namespace c13 {

RecAlloc* g_rec = nullptr;

static const size_t NPOS = SimpleString::npos;


static std::vector<size_t> positions(size_t len) {
    std::vector<size_t> p;
    for (size_t i = 0; i <= len + 2; i++) p.push_back(i);
    p.push_back(len + 100); p.push_back(NPOS - 1); p.push_back(NPOS);
    return p;
}
static std::string pos_s(size_t p) { return p == NPOS ? "npos" : p == NPOS - 1 ? "npos-1" : std::to_string(p); }

// ---------------------------------------------------------------- printable(): reference by walking
static int hexv(char c) { if (c >= '0' && c <= '9') return c - '0'; if (c >= 'A' && c <= 'F') return c - 'A' + 10; if (c >= 'a' && c <= 'f') return c - 'a' + 10; return -1; }
// returns "" when ok, else failure mode
static const char* check_printable(const str& in, const str& out) {
    static const char* shortc = "abtnvfr";   // 7..13
    size_t j = 0;
    for (size_t i = 0; i < in.size(); i++) {
        unsigned char c = (unsigned char)in[i];
        char want[8];
        if (c >= 7 && c <= 13) snprintf(want, sizeof want, "\\%c", shortc[c - 7]);
        else if (c < 0x20 || c == 0x7f) snprintf(want, sizeof want, "\\x%02X", c);
        else if (c >= 0x80) {
            // either reading of "printable" is accepted: the raw byte, or a hex escape of THIS byte
            if (j < out.size() && (unsigned char)out[j] == c) { j++; continue; }
            if (j + 4 <= out.size() && out[j] == '\\' && out[j + 1] == 'x' && hexv(out[j + 2]) >= 0 && hexv(out[j + 3]) >= 0 && hexv(out[j + 2]) * 16 + hexv(out[j + 3]) == c) { j += 4; continue; }
            return "printable/high-byte-rendered-as-other-byte";
        }
        else { want[0] = (char)c; want[1] = 0; }
        size_t wl = strlen(want);
        if (out.compare(j, wl, want) != 0) return "printable/wrong-result";
        j += wl;
    }
    return j == out.size() ? "" : "printable/wrong-result";
}

// ---------------------------------------------------------------- section unary
static const char UALPHA[] = "abA\n\x01\x7f\x80";
static std::vector<str> g_U;          // receivers of the unary section
static const char FCH[] = {'a', 'b', 'A', '\n', '\x01', '\x7f', '\x80', 'z'};   // characters searched for

static void unary_case(long idx) {
    vf::Radix r(idx);
    int group = (int)r.take(9);
    const str& s = g_U[(size_t)r.take((long)g_U.size())];
    const size_t len = s.size();
    Exact es(s);
    const std::string S = q(s);
    if (vf::want_sample()) vf::sample(vf::fmt("receiver %s (len %zu), operation group %d", S.c_str(), len, group));
    if (len >= 2 || group == 2 || group == 3) vf::count("nontrivial");
    switch (group) {
    case 0: {
        scoped("construct", S, [&] {
            SimpleString a(es);
            expect_eq("construct/wrong-value", val(a), s, "SimpleString(" + S + ")");
            expect_num("size/wrong", (long long)a.size(), (long long)len, S + ".size()");
            expect_num("isEmpty/wrong", a.isEmpty(), len == 0, S + ".isEmpty()");
            check_own("construct", a, S);
            vf::ctx("copy-construct");
            SimpleString b(a);
            expect_eq("copy-construct/wrong-value", val(b), s, "copy of " + S);
            check_own("copy-construct", b, S);
            vf::ctx("assign");
            SimpleString c("zzzz");
            c = a;
            expect_eq("assign/wrong-value", val(c), s, "c = " + S);
            check_own("assign", c, S);
            c = c;
            expect_eq("assign/self-assign-changes-value", val(c), s, "c = c with c = " + S);
            vf::ctx("operator==");
            expect_num("operator==/wrong", a == b, 1, S + " == copy");
            expect_num("operator!=/wrong", a != b, 0, S + " != copy");
        });
        for (size_t rep = 0; rep <= 3; rep++) scoped("construct-repeat", S, [&] {
            SimpleString a(es, rep);
            str want; for (size_t k = 0; k < rep; k++) want += s;
            expect_eq("construct-repeat/wrong-value", val(a), want, vf::fmt("SimpleString(%s, %zu)", S.c_str(), rep));
            check_own("construct-repeat", a, S);
        });
        scoped("StringFrom", S, [&] {
            expect_eq("StringFrom(const char*)/wrong", val(StringFrom((const char*)es)), s, "StringFrom(" + S + ")");
            expect_eq("StringFromOrNull/wrong", val(StringFromOrNull(es)), s, "StringFromOrNull(" + S + ")");
            expect_eq("StringFrom(std::string)/wrong", val(StringFrom(s)), s, "StringFrom(std::string " + S + ")");
            SimpleString a(es);
            expect_eq("StringFrom(SimpleString)/wrong", val(StringFrom(a)), s, "StringFrom(SimpleString " + S + ")");
        });
        scoped("StringFromOrNull(NULL)", S, [&] {
            expect_eq("StringFromOrNull/null", val(StringFromOrNull(NULLPTR)), "(null)", "StringFromOrNull(NULL)");
            expect_eq("PrintableStringFromOrNull/null", val(PrintableStringFromOrNull(NULLPTR)), "(null)", "PrintableStringFromOrNull(NULL)");
            SimpleString n((const char*)NULLPTR);
            expect_eq("construct/null", val(n), "", "SimpleString(NULL)");
        });
        vf::ctx("StrLen");
        expect_num("StrLen/wrong", (long long)SimpleString::StrLen(es), (long long)strlen(es), "StrLen(" + S + ")");
        vf::outcome(vf::fmt("g0 len=%zu", len > 6 ? 6 : len));
        break;
    }
    case 1: {
        scoped("find", S, [&] {
            SimpleString a(es);
            vf::ctx("at");
            for (size_t i = 0; i < len; i++) expect_num("at/wrong", (unsigned char)a.at(i), (unsigned char)s[i], vf::fmt("%s.at(%zu)", S.c_str(), i));
            int found = 0;
            for (char ch : FCH) {
                vf::ctx("find");
                size_t w = s.find(ch);
                if (w != str::npos) found++;
                expect_num("find/wrong", (long long)a.find(ch), (long long)(w == str::npos ? NPOS : w), vf::fmt("%s.find(0x%02x)", S.c_str(), (unsigned char)ch));
                vf::ctx("findFrom");
                for (size_t p : positions(len)) {
                    size_t w2 = p > len ? str::npos : s.find(ch, p);
                    expect_num("findFrom/wrong", (long long)a.findFrom(p, ch), (long long)(w2 == str::npos ? NPOS : w2), vf::fmt("%s.findFrom(%s, 0x%02x)", S.c_str(), pos_s(p).c_str(), (unsigned char)ch));
                }
            }
            vf::outcome(vf::fmt("g1 found=%d", found));
        });
        break;
    }
    case 2: {
        for (size_t p : positions(len)) scoped("subString(pos)", S, [&] {
            SimpleString a(es);
            SimpleString b = a.subString(p);
            expect_eq("subString(pos)/wrong-result", val(b), ref_substr(s, p, str::npos), vf::fmt("%s.subString(%s)", S.c_str(), pos_s(p).c_str()));
            check_own("subString(pos)", b, S);
            expect_eq("subString(pos)/receiver-changed", val(a), s, S);
        });
        vf::outcome(vf::fmt("g2 len=%zu", len > 6 ? 6 : len));
        break;
    }
    case 3: {
        for (size_t p : positions(len)) for (size_t am : positions(len)) scoped("subString(pos,amount)", S, [&] {
            SimpleString a(es);
            SimpleString b = a.subString(p, am);
            expect_eq("subString(pos,amount)/wrong-result", val(b), ref_substr(s, p, am), vf::fmt("%s.subString(%s, %s)", S.c_str(), pos_s(p).c_str(), pos_s(am).c_str()));
            check_own("subString(pos,amount)", b, S);
            SimpleString ap = a.subString(p, am); ap += "z";  // the (internally truncated) result must behave like any string with that text
            expect_eq("operator+=/wrong-after-in-place-shortening", val(ap), ref_substr(s, p, am) + "z", vf::fmt("%s.subString(%s, %s) then += \"z\"", S.c_str(), pos_s(p).c_str(), pos_s(am).c_str()));
            SimpleString c; c = b;          // the truncated result must copy to an exactly sized buffer
            expect_eq("subString(pos,amount)/copy-of-result-differs", val(c), val(b), S);
            check_own("subString(pos,amount)", c, S);
        });
        vf::outcome(vf::fmt("g3 len=%zu", len > 6 ? 6 : len));
        break;
    }
    case 4: {
        std::set<std::string> kinds;
        for (char c1 : FCH) for (char c2 : FCH) {
            if (c1 == c2) continue;     // not asserted: start == end has two reasonable readings (see notes)
            scoped("subStringFromTill", S, [&] {
                SimpleString a(es);
                SimpleString b = a.subStringFromTill(c1, c2);
                size_t bp = s.find(c1);
                str want;
                if (bp != str::npos) { size_t ep = s.find(c2, bp); want = ep == str::npos ? s.substr(bp) : s.substr(bp, ep - bp); }
                kinds.insert(bp == str::npos ? "nostart" : s.find(c2, bp) == str::npos ? "noend" : "both");
                expect_eq("subStringFromTill/wrong-result", val(b), want, vf::fmt("%s.subStringFromTill(0x%02x, 0x%02x)", S.c_str(), (unsigned char)c1, (unsigned char)c2));
            });
        }
        for (auto& k : kinds) vf::outcome("g4 " + k);
        // start == end: only safety and termination
        for (char c1 : FCH) scoped("subStringFromTill", S, [&] { SimpleString a(es); SimpleString b = a.subStringFromTill(c1, c1); vf::count("ops"); });
        break;
    }
    case 5: {
        scoped("lowerCase", S, [&] {
            SimpleString a(es);
            SimpleString b = a.lowerCase();
            expect_eq("lowerCase/wrong-result", val(b), ref_lower(s), S + ".lowerCase()");
            expect_eq("lowerCase/receiver-changed", val(a), s, S);
            check_own("lowerCase", b, S);
        });
        scoped("printable", S, [&] {
            SimpleString a(es);
            SimpleString b = a.printable();
            vf::count("ops");
            const char* bad = check_printable(s, val(b));
            if (*bad) vf::fail(bad, S + ".printable() = " + q(val(b)));
            check_own("printable", b, S);
            expect_eq("printable/receiver-changed", val(a), s, S);
            expect_eq("PrintableStringFromOrNull/differs-from-printable", val(PrintableStringFromOrNull(es)), val(b), S);
            vf::outcome(vf::fmt("g5 grow=%d", (int)std::min<size_t>(val(b).size() - len, 9)));
        });
        break;
    }
    case 6: {
        for (size_t n = 0; n <= len + 3; n++) scoped("copyToBuffer", S, [&] {
            SimpleString a(es);
            char* buf = (char*)malloc(n ? n : 1);
            memset(buf, '%', n ? n : 1);
            a.copyToBuffer(buf, n);
            vf::count("ops");
            std::string what = vf::fmt("%s.copyToBuffer(buf, %zu)", S.c_str(), n);
            if (n == 0) { if (buf[0] != '%') vf::fail("copyToBuffer/writes-with-size-0", what); }
            else {
                size_t k = std::min(n - 1, len);
                if (memcmp(buf, s.data(), k) != 0 || buf[k] != 0) vf::fail("copyToBuffer/wrong-content", what + ": got " + q(str(buf, strnlen(buf, n))));
            }
            free(buf);
        });
        scoped("copyToBuffer", S, [&] { SimpleString a(es); a.copyToBuffer(NULLPTR, 10); vf::count("ops"); });
        vf::outcome(vf::fmt("g6 len=%zu", len > 6 ? 6 : len));
        break;
    }
    case 7: {
        int changed = 0;
        for (char c1 : FCH) for (char c2 : FCH) scoped("replace(char,char)", S, [&] {
            SimpleString a(es);
            a.replace(c1, c2);
            str want = s; for (auto& c : want) if (c == c1) c = c2;
            if (want != s) changed++;
            expect_eq("replace(char,char)/wrong-result", val(a), want, vf::fmt("%s.replace(0x%02x, 0x%02x)", S.c_str(), (unsigned char)c1, (unsigned char)c2));
            check_own("replace(char,char)", a, S);
        });
        // replacement byte NUL: the string is shortened in place (text = up to the first replaced byte, the buffer
        // keeps its size); the object must then behave like any string with that text
        for (char c1 : FCH) {
            str cut = s.substr(0, s.find(c1));
            std::string what = vf::fmt("%s.replace(0x%02x, NUL)", S.c_str(), (unsigned char)c1);
            if (cut != s) changed++;
            scoped("replace(char,NUL)", what, [&] {
                SimpleString a(es);
                a.replace(c1, '\0');
                expect_eq("replace(char,NUL)/wrong-result", val(a), cut, what);
                expect_num("replace(char,NUL)/size-after-wrong", (long long)a.size(), (long long)cut.size(), what + " then size()");
                check_own("replace(char,NUL)", a, what);
                // d, e, g, h: shortened in place themselves (a copy would get an exactly sized buffer again)
                SimpleString b(a), c("zz"), d(es), e(es), f("q"), g(es);
                d.replace(c1, '\0'); e.replace(c1, '\0'); g.replace(c1, '\0');
                c = a;
                expect_eq("replace(char,NUL)/copy-after-wrong", val(b) + "|" + val(c), cut + "|" + cut, what + " then copy / assign");
                expect_num("replace(char,NUL)/compare-after-wrong", (a == b) && !(a != c) && a.equalsNoCase(b) && a.contains(b) && a.endsWith(b) && a.startsWith(b), 1, what + " then compare with its copy");
                vf::ctx("shorten-then-append");
                d += "xy";
                expect_eq("operator+=/wrong-after-in-place-shortening", val(d), cut + "xy", what + " then += \"xy\"");
                e += a;
                expect_eq("operator+=/wrong-after-in-place-shortening", val(e), cut + cut, what + " then += the shortened string");
                g += g;
                expect_eq("operator+=/wrong-after-in-place-shortening", val(g), cut + cut, what + " then self-append");
                expect_eq("operator+/wrong-after-in-place-shortening", val(a + f) + "|" + val(f + a), cut + "q|q" + cut, what + " then + \"q\" on either side");
                check_own("operator+=", d, what); check_own("operator+=", e, what); check_own("operator+=", g, what);
                vf::ctx("shorten-then-pad");
                SimpleString h(es), w("wwwww");
                h.replace(c1, '\0');
                SimpleString::padStringsToSameLength(h, w, ' ');
                size_t m = std::max<size_t>(cut.size(), 5);
                expect_eq("padStringsToSameLength/wrong-after-in-place-shortening", val(h) + "|" + val(w), str(m - cut.size(), ' ') + cut + "|" + str(m - 5, ' ') + "wwwww", what + " then pad against \"wwwww\"");
                vf::ctx("shorten-then-more");
                expect_eq("lowerCase/wrong-after-in-place-shortening", val(a.lowerCase()), ref_lower(cut), what + " then lowerCase()");
                expect_eq("subString(pos)/wrong-after-in-place-shortening", val(a.subString(1)), ref_substr(cut, 1, str::npos), what + " then subString(1)");
                SimpleString r(es); r.replace(c1, '\0'); r.replace("a", "bb");
                expect_eq("replace(to,with)/wrong-after-in-place-shortening", val(r), ref_replace(cut, "a", "bb"), what + " then replace(\"a\",\"bb\")");
                char buf[8]; memset(buf, '%', sizeof buf);
                a.copyToBuffer(buf, sizeof buf);
                expect_eq("copyToBuffer/wrong-after-in-place-shortening", str(buf, strnlen(buf, sizeof buf)), cut.substr(0, 7), what + " then copyToBuffer(8)");
            });
        }
        vf::outcome(vf::fmt("g7 changed=%d", changed > 9 ? 9 : changed));
        break;
    }
    case 8: {
        scoped("StringFromFormat", S, [&] {
            expect_eq("StringFromFormat/wrong-result", val(StringFromFormat("%s", (const char*)es)), s, "StringFromFormat(\"%s\", " + S + ")");
            expect_eq("StringFromFormat/wrong-result", val(StringFromFormat("[%s|%s]", (const char*)es, (const char*)es)), "[" + s + "|" + s + "]", "StringFromFormat(\"[%s|%s]\", " + S + " twice)");
        });
        vf::outcome(vf::fmt("g8 %s", 2 * len + 3 < 100 ? "fast" : "slow"));
        break;
    }
    }
}

void sections_objects(bool T) {
    // ---- unary
    {
        std::vector<str> extra;
        for (int c = 1; c < 256; c++) if (!strchr(UALPHA, c)) extra.push_back(str(1, (char)c));
        const str unit = "ab\nA\x80\x01";
        for (size_t n : {48, 49, 50, 98, 99, 100, 101, 300}) extra.push_back(pattern(n, unit));
        extra.push_back(pattern(300, "a"));
        // replay must decode a case id of either tier (the driver replays without --tier): the quick
        // universe is a prefix of the thorough one (short strings, extras, then the longer strings), and a replay
        // always builds the larger one
        int maxlen = T ? 5 : 3;
        g_U = universe(UALPHA, 3, extra);
        if (T || vf::g_replaying) for (auto& x : universe(UALPHA, 5)) if (x.size() > 3) g_U.push_back(x);
        vf::info("unary.bound", vf::fmt("%zu receivers: all byte strings over {a,b,A,\\n,0x01,0x7f,0x80} of length <= %d, every other single byte 1..255, patterned strings of 48/49/50/98..101/300 bytes; positions and amounts 0..len+2, len+100, npos-1, npos; searched/replaced characters: the alphabet plus an absent one; 9 operation groups per receiver (construct/copy/assign/repeat/StringFrom, at/find/findFrom, subString(pos), subString(pos,amount), subStringFromTill, lowerCase/printable, copyToBuffer into exact-size buffers, replace(char,char), StringFromFormat(%%s))", g_U.size(), maxlen));
        vf::section_index("unary", (long)g_U.size() * 9, unary_case);
        vf::require_outcomes("unary", 20);
    }
}

} // namespace c13

static void fputs_nop(const char*, PlatformSpecificFile) {}
static void flush_nop() {}

int main(int argc, char** argv) {
    vf::init(argc, argv, "C13");
    MemoryLeakWarningPlugin::turnOffNewDeleteOverloads();
    PlatformSpecificFPuts = fputs_nop;
    PlatformSpecificFlush = flush_nop;
    c13::g_rec = new c13::RecAlloc;
    bool T = vf::thorough();
    vf::info("rule", "operands are enumerated completely: every byte string over the section's alphabet up to its length bound, with every position/amount/size of the section's grid, every pair (binary operations) and every triple (replace); histories: every sequence of mutating operations up to the depth bound on two strings and one collection. Every result is compared with a std::string/libc reference; non-trivial = a receiver of length >= 2, a position-parametrised operation, two non-empty operands, or a history that changed a value");
    c13::sections_objects(T);
    c13::sections_pairs(T);
    c13::sections_seq(T);
    c13::sections_primitives(T);
    return vf::finish();
}

// C08 - mock verdict is exact. Every scenario of the bounded alphabet (expectation lists x actual call
// sequences x {strict order, ignoreOtherCalls, return values read, output parameter}) is executed as the
// body of a real test through the C++ mocking API and compared with the multiset reference model:
// verdict, diagnosis class of the first deviation, "fails exactly once", returned values, output bytes.
#include <vector>
#include <string>
#include <functional>
#define VF_MAIN
#include "vf.h"
#include "fixture.h"
#include "mock_scn.h"
#include "CppUTestExt/MockSupport.h"
#include "CppUTestExt/MockSupportPlugin.h"
#include "CppUTest/TestRegistry.h"
#include "CppUTest/TestOutput.h"
#include "CppUTest/TestTestingFixture.h"
#undef new

using namespace scn;

namespace {

char g_obj[3];                       // object identities o1, o2
struct Observed {
    size_t failures = 0; int diag = PASS; std::string text;
    int reached = 0;                 // actual calls whose statement completed
    int ret[8]; unsigned char outb[8]; unsigned char xb[8];
    bool checked = false;
    bool leftover = false;           // expectations still registered after the test ended
    bool disabled_has_value = false; int disabled_value = -9;
};

void run_cpp(const Scenario& s, Observed& ob, bool query_leftover) {
    static unsigned char outsrc[8];
    for (int i = 0; i < 8; i++) { ob.ret[i] = -7; ob.outb[i] = 0; ob.xb[i] = 0; outsrc[i] = (unsigned char)(50 + i); }
    vf::Fixture fx;
    fx.run(
        [&]() {
            auto M = [&](int fn) -> MockSupport& { return s.scoped == 2 ? mock(fn ? "t" : "s") : (s.scoped && fn) ? mock("s") : mock(); };
            auto name = [&](int fn) { return s.scoped ? "f" : FN[fn]; };
            if (s.strict) mock().strictOrder();
            for (size_t i = 0; i < s.exps.size(); i++) {
                const Exp& e = s.exps[i];
                if (e.count == 0 && e.np == 0 && !e.obj && !e.ignoreOther && !s.readReturn && !s.outParam) { M(e.fn).expectNoCall(name(e.fn)); continue; }
                MockExpectedCall& x = M(e.fn).expectNCalls((unsigned)e.count, name(e.fn));
                if (e.obj) x.onObject(s.nullObject && e.obj == 2 ? nullptr : (void*)&g_obj[e.obj]);
                for (int k = 0; k < e.np; k++) x.withParameter(PN[e.pname[k]], e.pval[k]);
                if (s.outParam) x.withOutputParameterReturning("o", &outsrc[i], 1);
                if (e.ignoreOther) x.ignoreOtherParameters();
                x.andReturnValue(100 + (int)i);
            }
            if (s.ignoreOtherCalls) mock().ignoreOtherCalls();
            for (size_t c = 0; c < s.acts.size(); c++) {
                const Act& a = s.acts[c];
                MockActualCall& call = M(a.fn).actualCall(name(a.fn));
                if (a.obj) call.onObject(s.nullObject && a.obj == 2 ? nullptr : (void*)&g_obj[a.obj]);
                for (int k = 0; k < a.np; k++) call.withParameter(PN[a.pname[k]], a.pval[k]);
                if (s.extraOut == 1) call.withOutputParameter("x", &ob.xb[c]);
                if (s.outParam) call.withOutputParameter("o", &ob.outb[c]);
                if (s.extraOut == 2) call.withOutputParameter("x", &ob.xb[c]);
                if (s.extraOut == 3) call.withOutputParameter("x", &ob.xb[c]);
                if (s.extraOut == 4) call.withOutputParameter("p", &ob.xb[c]);
                if (s.readReturn) ob.ret[c] = call.returnIntValueOrDefault(-1);
                ob.reached = (int)c + 1;
            }
            // a call made while mocking is disabled consumes no expectation: asked through the support, it has no return value
            // (whatever the call before it returned)
            if (s.readReturn && !s.scoped && !s.acts.empty()) {
                mock().disable();
                mock().actualCall(FN[0]);
                ob.disabled_has_value = mock().hasReturnValue();
                ob.disabled_value = mock().returnIntValueOrDefault(-9);
                mock().enable();
            }
        },
        nullptr,
        [&]() { mock().checkExpectations(); ob.checked = true; mock().clear(); });
    // whatever the verdict, the test leaves the mock empty: on a failure the framework clears it before the reporter ends
    // the test (the user's own clear() after checkExpectations is skipped then), otherwise the teardown's clear() ran
    // (asked only where no actual call can still be waiting for its verdict: the query finalises such a call, and a failure
    // raised by that outside a test would end the process)
    if (query_leftover) ob.leftover = mock().expectedCallsLeft();
    mock().clear();
    ob.failures = fx.failures();
    if (ob.failures) { ob.text = fx.output(); ob.diag = classify_message(ob.text); }
}

// ---- two consecutive tests under MockSupportPlugin (the recommended set-up: no checkExpectations()/clear() in the tests;
// the plugin checks a test that has not failed yet and empties the mock after EVERY test). Test 1 is the scenario, test 2 a
// fixed probe whose verdict is known: whatever test 1 did, it must not leak into test 2.
struct PairRecorder : StringBufferTestOutput {
    std::vector<std::string> failures_of[2]; int cur = -1;
    void printCurrentTestStarted(const UtestShell& t) override { cur++; StringBufferTestOutput::printCurrentTestStarted(t); }
    void printFailure(const TestFailure& f) override { if (cur >= 0 && cur < 2) failures_of[cur].push_back(f.getMessage().asCharString()); }
};
struct PairBody : ExecFunction { std::function<void()> f; void exec() override { f(); } };
void check_plugin_pair(const Scenario& s, int probe) {
    vf::ctx("plugin-pair");
    vf::count("executed");
    PairRecorder out; TestResult result(out);
    int reached = 0;
    {
        TestRegistry reg; MockSupportPlugin plugin; reg.installPlugin(&plugin);
        ExecFunctionTestShell t1, t2; PairBody b1, b2; t1.testFunction_ = &b1; t2.testFunction_ = &b2;
        b1.f = [&]() {
            if (s.strict) mock().strictOrder();
            for (size_t i = 0; i < s.exps.size(); i++) {
                const Exp& e = s.exps[i];
                MockExpectedCall& x = mock().expectNCalls((unsigned)e.count, FN[e.fn]);
                for (int k = 0; k < e.np; k++) x.withParameter(PN[e.pname[k]], e.pval[k]);
            }
            for (size_t c = 0; c < s.acts.size(); c++) {
                const Act& a = s.acts[c];
                MockActualCall& call = mock().actualCall(FN[a.fn]);
                for (int k = 0; k < a.np; k++) call.withParameter(PN[a.pname[k]], a.pval[k]);
                reached = (int)c + 1;
            }
        };
        b2.f = [&]() {
            if (probe == 0) { mock().expectOneCall("h"); mock().actualCall("h"); }      // must pass
            else mock().actualCall(FN[0]);                                              // nothing expected: must fail
        };
        reg.addTest(&t2); reg.addTest(&t1);
        reg.runAllTests(result);
    }
    mock().clear();
    std::string desc;
    auto d = [&]() { if (desc.empty()) desc = render(s) + (probe == 0 ? "| then test 2: expect h; call h" : "| then test 2: call f with nothing expected"); return desc; };
    // test 2: independent of test 1
    size_t f2 = out.failures_of[1].size();
    if (probe == 0 && f2 != 0) vf::fail("plugin/next-test-charged-with-leftovers", d() + ": the second test matches its own expectations exactly but failed: " + out.failures_of[1][0].substr(0, 200));
    if (probe == 1 && f2 != 1) vf::fail(f2 == 0 ? "plugin/next-test-unexpected-call-accepted" : "plugin/next-test-failed-more-than-once", d() + vf::fmt(": the second test makes a call nothing expects: %zu failures", f2));
    // test 1: same verdict as the reference (narrow class only)
    size_t f1 = out.failures_of[0].size();
    if (f1 > 1) vf::fail(vf::fmt("plugin/test-failed-%zu-times/%s-then-%s", f1, diag_name(classify_message(out.failures_of[0][0])), diag_name(classify_message(out.failures_of[0][1]))), d() + vf::fmt(": %zu failures recorded for test 1", f1));
    if (unambiguous(s)) {
        Expected ex = reference(s);
        int obs = f1 == 0 ? PASS : classify_message(out.failures_of[0][0]);
        if (obs != ex.diag) vf::fail(vf::fmt("plugin-verdict/expected=%s/observed=%s", diag_name(ex.diag), diag_name(obs)), d() + ": under MockSupportPlugin test 1 should end as " + diag_name(ex.diag));
        vf::outcome(vf::fmt("plugin/%s/probe%d", diag_name(ex.diag), probe));
        if (ex.diag != PASS) vf::count("nontrivial");
    } else vf::outcome("plugin/ambiguous");
    (void)reached;
    if (vf::want_sample()) vf::sample(d());
}

const char* ordinal(int n) { static const char* o[] = {"0th", "1st", "2nd", "3rd", "4th", "5th", "6th", "7th"}; return o[n < 8 ? n : 7]; }

void check(const Scenario& s, const Alphabet& A) {
    vf::ctx("scenario");
    if (getenv("VF_TRACE")) fprintf(stderr, "SCENARIO %s\n", render(s).c_str());
    bool unamb0 = unambiguous(s);
    Expected ex0; if (unamb0) ex0 = reference(s);
    Observed ob; run_cpp(s, ob, unamb0 && (ex0.diag == PASS || ex0.diag == NOT_FULFILLED || ex0.diag == OUT_OF_ORDER));
    vf::count("executed");
    bool unamb = unambiguous(s);
    std::string desc;
    auto d = [&]() { if (desc.empty()) desc = render(s); return desc; };
    // safety / at-most-once: for every scenario, ambiguous or not
    if (ob.disabled_has_value || ob.disabled_value != -9) vf::fail("return/disabled-call-has-a-return-value", d() + vf::fmt(": a call made while mocking was disabled reports hasReturnValue=%d value=%d (default asked: -9)", ob.disabled_has_value, ob.disabled_value));
    if (ob.failures > 1) vf::fail("verdict/failed-more-than-once", d() + vf::fmt(": %zu failures recorded", ob.failures));
    if (!unamb) {
        // outside the narrow class the step-by-step reference (diagnosis, abort point, values) is not trusted; where no
        // call can completely match two different expectations the property's multiset statement still decides the verdict
        if (!s.scoped && s.extraOut < 3 && wide_unambiguous(s, A)) {
            bool want_pass = multiset_verdict_pass(s);
            vf::count("wide_class");
            if (want_pass != (ob.failures == 0))
                vf::fail(vf::fmt("verdict-wide/expected=%s/observed=%s", want_pass ? "PASS" : "FAIL", ob.failures ? diag_name(ob.diag) : "PASS"), d() + ": the multiset of actual calls " + (want_pass ? "equals" : "differs from") + " the multiset of expected calls; framework: " + (ob.failures ? ob.text.substr(0, 250) : std::string("test passed")));
            vf::outcome(vf::fmt("wide/%s", want_pass ? "PASS" : "FAIL"));
            return;
        }
        vf::count("ambiguous"); vf::outcome(vf::fmt("ambiguous/%s", diag_name(ob.diag))); return;
    }
    Expected ex = reference(s);
    if (ex.diag != PASS) vf::count("nontrivial");
    vf::outcome(vf::fmt("%s%s%s", diag_name(ex.diag), s.strict ? "/strict" : "", s.ignoreOtherCalls ? "/ioc" : ""));
    if (vf::want_sample()) vf::sample(d() + " => " + diag_name(ex.diag));
    int obs = ob.failures == 0 ? PASS : ob.diag;
    if (obs != ex.diag) {
        vf::fail(vf::fmt("verdict/expected=%s/observed=%s", diag_name(ex.diag), diag_name(obs)),
                 d() + ": reference says " + diag_name(ex.diag) + vf::fmt(" at call %d", ex.failing_call) + "; framework: " + (ob.failures ? ob.text.substr(0, 300) : std::string("test passed")));
        return;
    }
    // When the end-of-test check itself fails the test (unfulfilled expectation, calls out of order) the user's own
    // clear() behind checkExpectations() is skipped, so the framework empties the mock before it ends the test; a passing
    // test is emptied by the teardown's clear(). (A failure raised by an actual call leaves the expectations in place by
    // design - the teardown still runs and clears; a deferred one finalised inside checkExpectations() is the one case in
    // which they survive on the unchanged code too: not asserted, see DESIGN.md 9.2 observations.)
    if (ob.leftover && (ex.diag == PASS || ex.diag == NOT_FULFILLED || ex.diag == OUT_OF_ORDER))
        vf::fail("state/expectations-survive-the-test", d() + vf::fmt(": after the test (%s) the mock still holds unfulfilled expectations: they would be charged to the next test", diag_name(ex.diag)));
    // the failure is raised where the reference says it becomes known; no later call statement completes
    if (ex.diag != PASS && ob.reached > ex.raised_at)
        vf::fail(vf::fmt("abort/statements-after-%s-executed", diag_name(ex.diag)), d() + vf::fmt(": %d call statements completed, the failure (call %d) is raised during statement %d", ob.reached, ex.failing_call, ex.raised_at));
    if (ex.diag == ADDITIONAL && ob.text.find(std::string("Unexpected additional (") + ordinal(ex.additional_nth) + ")") == std::string::npos)
        vf::fail("diagnosis/additional-call-ordinal", d() + vf::fmt(": expected ordinal %s in: ", ordinal(ex.additional_nth)) + ob.text.substr(0, 200));
    // values handed out belong to the consumed expectation class, each expectation's value at most `count` times
    int handed[8] = {0};
    for (size_t c = 0; c < s.acts.size() && (int)c < ob.reached; c++) {
        int m = ex.consumed[c];
        if (m == -2 || m == -3) continue;
        if (s.readReturn) {
            if (m == -1) { if (ob.ret[c] != -1) vf::fail("return/ignored-call-value", d() + vf::fmt(": ignored call %zu returned %d, expected the default", c, ob.ret[c])); }
            else {
                int j = ob.ret[c] - 100;
                if (j < 0 || j >= (int)s.exps.size() || !same_class(s.exps[j], s.exps[m])) vf::fail("return/value-of-wrong-expectation", d() + vf::fmt(": call %zu returned %d, consumed expectation %d", c, ob.ret[c], m));
                else if (++handed[j] > s.exps[j].count) vf::fail("return/value-handed-out-too-often", d() + vf::fmt(": value of expectation %d returned %d times", j, handed[j]));
            }
        }
        if (s.extraOut && ob.xb[c] != 0) vf::fail("output/ignored-output-parameter-written", d() + vf::fmt(": call %zu: the output parameter no expectation names received byte %d", c, ob.xb[c]));
        if (s.outParam && m >= 0) {
            int j = (int)ob.outb[c] - 50;
            if (j < 0 || j >= (int)s.exps.size() || !same_class(s.exps[j], s.exps[m])) vf::fail("output/bytes-of-wrong-expectation", d() + vf::fmt(": call %zu got output byte %d, consumed expectation %d", c, ob.outb[c], m));
        }
    }
}

struct Sweep { const char* name; bool ig, obj; int maxE, maxA; int flagbits; /* how many of strict,ioc,ret,out vary */ int nfn; int scoped = 0; bool xout = false; bool plugin = false; bool outname = false; bool nullobj = false; };

void run_sweep(const Sweep& sw) {
    Alphabet A = make_alphabet(sw.ig, sw.obj, sw.nfn);
    if (sw.xout) { std::vector<Exp> keep; for (auto& e : A.eo) if (e.ignoreOther) keep.push_back(e); A.eo = keep; }   // "x" is only legal where other parameters are ignored
    long nE = tuples_upto((long)A.eo.size(), sw.maxE), nA = tuples_upto((long)A.ao.size(), sw.maxA);
    int nflags = 1 << sw.flagbits;
    long N = nE * nA * nflags;
    vf::info(std::string(sw.name) + ".bound", vf::fmt("<=%d expectations over %zu options (%d functions; counts 0..2; parameters {p,q} in {1,2}%s%s) x <=%d actual calls over %zu options x %d flag combinations (strict order, ignoreOtherCalls%s); %ld index points before the symmetry filter",
             sw.maxE, A.eo.size(), sw.nfn, sw.ig ? "; ignoreOtherParameters" : "", sw.obj ? "; onObject o1/o2" : "", sw.maxA, A.ao.size(), nflags, sw.flagbits > 2 ? ", return values read, output parameter" : "", N));
    vf::section_index(sw.name, N, [&](long idx) {
        vf::Radix r(idx);
        int flags = (int)r.take(nflags);
        long ia = r.take(nA), ie = r.take(nE);
        static thread_local std::vector<int> te, ta;
        decode_tuple(ie, (long)A.eo.size(), te); decode_tuple(ia, (long)A.ao.size(), ta);
        Scenario s;
        s.strict = flags & 1; s.ignoreOtherCalls = flags & 2; s.readReturn = flags & 4; s.outParam = flags & 8;
        if (sw.nullobj) s.nullObject = true;
        if (sw.outname) { s.extraOut = 3 + (flags & 1); s.readReturn = flags & 2; s.outParam = false; s.strict = false; s.ignoreOtherCalls = false; }
        if (sw.xout) { s.extraOut = 1 + (flags & 1); s.readReturn = flags & 2; s.outParam = true; s.strict = false; s.ignoreOtherCalls = false; }
        if (sw.scoped) { s.scoped = sw.scoped; s.readReturn = flags & 1; s.outParam = flags & 2; s.strict = false; s.ignoreOtherCalls = false; }
        for (int i : te) s.exps.push_back(A.eo[i]);
        for (int i : ta) s.acts.push_back(A.ao[i]);
        if (!canonical(s)) { vf::count("skipped_symmetric"); return; }
        if (sw.plugin) { s.strict = flags & 2; s.ignoreOtherCalls = false; s.readReturn = false; s.outParam = false; check_plugin_pair(s, flags & 1); return; }
        check(s, A);
    });
    vf::require_outcomes(sw.name, sw.xout ? 5 : (sw.scoped || sw.plugin) ? 6 : 12);
}

} // namespace

int main(int argc, char** argv) {
    vf::init(argc, argv, "C08");
    MemoryLeakWarningPlugin::turnOffNewDeleteOverloads();
    bool T = vf::thorough();
    vf::info("rule", "mixed-radix enumeration of all scenarios over the option tables, one representative per renaming of functions/parameter names/values/objects; each executed as a real test; verdict compared only for scenarios in the unambiguous class; non-trivial = reference verdict is a failure");
    std::vector<Sweep> sweeps;
    bool sanitized = std::string(VF_FLAVOUR) != "plain";      // the sanitizer build is ~5x slower: smaller sweeps, memory safety is the point there
    if (sanitized) {
        if (!T) sweeps = { {"basic22", false, false, 2, 2, 2, 2}, {"ignore12", true, false, 1, 2, 4, 2}, {"object12", false, true, 1, 2, 4, 1}, {"outignore12", true, false, 1, 2, 2, 2, 0, true} };
        else    sweeps = { {"basic22", false, false, 2, 2, 4, 2}, {"ignore22", true, false, 2, 2, 2, 2}, {"object22", false, true, 2, 2, 2, 1}, {"scope22", false, false, 2, 2, 2, 2, 1}, {"twoscopes22", false, false, 2, 2, 2, 2, 2}, {"outignore22", true, false, 2, 2, 2, 2, 0, true} };
    } else if (!T) {
        sweeps = { {"basic22", false, false, 2, 2, 4, 2}, {"basic13", false, false, 1, 3, 3, 2}, {"ignore22", true, false, 2, 2, 2, 2}, {"object22", false, true, 2, 2, 2, 1}, {"scope22", false, false, 2, 2, 2, 2, 1}, {"scope13", false, false, 1, 3, 2, 2, 1}, {"twoscopes22", false, false, 2, 2, 2, 2, 2}, {"outignore22", true, false, 2, 2, 2, 2, 0, true}, {"plugin22", false, false, 2, 2, 2, 2, 0, false, true}, {"outname22", true, false, 2, 2, 2, 2, 0, false, false, true}, {"objnull22", false, true, 2, 2, 2, 1, 0, false, false, false, true} };
    } else {
        sweeps = { {"basic23", false, false, 2, 3, 4, 2}, {"ignore23", true, false, 2, 3, 2, 2}, {"object22", false, true, 2, 2, 4, 1}, {"object23", false, true, 2, 3, 2, 1}, {"basic32", false, false, 3, 2, 2, 2}, {"scope23", false, false, 2, 3, 2, 2, 1}, {"twoscopes23", false, false, 2, 3, 2, 2, 2}, {"outignore23", true, false, 2, 3, 2, 2, 0, true}, {"plugin23", false, false, 2, 3, 2, 2, 0, false, true}, {"outname23", true, false, 2, 3, 2, 2, 0, false, false, true}, {"objnull23", false, true, 2, 3, 2, 1, 0, false, false, false, true} };
    }
    for (auto& sw : sweeps) run_sweep(sw);
    return vf::finish();
}

// C04 - leak accounting is exact for every allocation history (MemoryLeakDetector).
//
// Deciding step: every history over the operation alphabet (alloc by new / new[] / malloc, free, realloc,
// period transitions, allocation-stage transitions and stage release, clearAllAccounting(period),
// markCheckingPeriodLeaksAsNonCheckingPeriod, releases of addresses that are not outstanding) up to a depth bound is
// executed on a fresh private MemoryLeakDetector whose three allocators hand out harness-arena addresses with a
// chosen hash bucket (addr % 73 in {0,16,72}); after every transition totalMemoryLeaks(p) and the parsed report(p)
// of the four periods are compared with a set model written from the property statement.
//   hist      unpruned histories, direct detector API, natural layouts (new/new[] inline record, malloc separate)
//   deep      pruned on the canonical model state incl. chain order, larger depth, stages 0..2, clear of every period
//   unk       releases / reallocs of addresses that are not outstanding (stale, foreign) mixed into histories
//   inl, sep  every kind with inline record / every kind with separately allocated record, three buckets
//   glob(full) histories through every allocating entry of the global routing table of MemoryLeakWarningPlugin.cpp (new,
//             new[], nothrow and file/line forms, cpputest_malloc family, realloc) onto the private detector, with the table
//             manipulations (saveAndDisable+restore, turnOff+turnOnDefault) as operations
//   chains(7) n blocks spread over the buckets in every bucket pattern, released in every order
//   rereport  report() as an explicit history operation (the other sections observe every report from an emptied
//             output buffer): repeated reports interleaved with alloc/free/startChecking/unknown release
//   resat     one outstanding block, report asked 60 times in a row
//   destroyed histories in which the destructor of an allocator object runs and its blocks are released / reallocated later
//   many      0..80,100,200,1000 outstanding blocks: reports that fill the 4 KB buffer keep an exact total line
#include <sanitizer/asan_interface.h>
#include <string>
#include <vector>
#include <algorithm>
#include <cstring>
#include <cstdio>
#include <cstdint>
#define VF_MAIN
#include "vf.h"
#include "CppUTest/TestHarness.h"
#include "CppUTest/MemoryLeakDetector.h"
#include "CppUTest/MemoryLeakWarningPlugin.h"
#include "CppUTest/TestMemoryAllocator.h"
#include "CppUTest/PlatformSpecificFunctions.h"
#include "CppUTest/MemoryLeakDetectorMallocMacros.h"
#include "CppUTest/TestHarness_c.h"
#undef new
#undef malloc
#undef free
#undef realloc
#undef calloc
#undef strdup
#undef strndup

namespace {

// ------------------------------------------------------------------ arena: the harness decides every address
// Slot k lives at base + k*73*16 with base % 73 == 0; a block is placed at slot + off, off in {0,16,72}, so its
// hash bucket (addr % 73) is exactly off. Slots are never reused inside a history; returned blocks and all slack
// are poisoned, so a stale record that is still followed by the detector is an ASan report.
constexpr size_t STRIDE = 73 * 16;
constexpr int NSLOTS = 1040;      // histories use a handful; section many keeps up to 1000 blocks outstanding
constexpr int NBUCK = 3;
const int BOFF[NBUCK] = {0, 16, 72};
alignas(64) char g_raw[STRIDE * (NSLOTS + 3)];
char* g_base;
struct Slot { unsigned char state; unsigned short off; unsigned asize; };   // state: 0 unused, 1 live, 2 returned
Slot g_slot[NSLOTS];
int g_nslot, g_next_boff;
int g_double_free, g_foreign_free, g_exhausted;
int g_fail_realloc, g_realloc_refused;       // seam: the next platform realloc returns NULL / count of refused reallocs

char* slot_addr(int s) { return g_base + (size_t)s * STRIDE + g_slot[s].off; }
int slot_of(const char* p) {
    if (p < g_base || p >= g_base + STRIDE * NSLOTS) return -1;
    return (int)((size_t)(p - g_base) / STRIDE);
}
char* arena_alloc(size_t size) {
    if (size > STRIDE / 2) return nullptr;                       // no such block exists: an honest out-of-memory answer
    if (g_nslot >= NSLOTS || (size_t)g_next_boff + size > STRIDE) { g_exhausted++; return nullptr; }
    int s = g_nslot++;
    g_slot[s].state = 1; g_slot[s].off = (unsigned short)g_next_boff; g_slot[s].asize = (unsigned)size;
    char* p = slot_addr(s);
    ASAN_UNPOISON_MEMORY_REGION(p, size);
    memset(p, 0x5a, size);
    return p;
}
void arena_free(char* p) {
    int s = slot_of(p);
    if (s < 0 || s >= g_nslot || p != slot_addr(s)) { g_foreign_free++; return; }
    if (g_slot[s].state != 1) { g_double_free++; return; }
    g_slot[s].state = 2;
    ASAN_POISON_MEMORY_REGION(p, g_slot[s].asize);
}
void* arena_realloc(void* mem, size_t size) {
    if (g_fail_realloc) { g_realloc_refused++; return nullptr; }   // the old block stays as it is
    char* n = arena_alloc(size);
    if (!n) { g_realloc_refused++; return nullptr; }
    if (mem) {
        int s = slot_of((char*)mem);
        size_t old = (s >= 0 && s < g_nslot) ? g_slot[s].asize : 0;
        memcpy(n, mem, old < size ? old : size);
        arena_free((char*)mem);
    }
    return n;
}
char* foreign_addr() { return g_base + STRIDE * NSLOTS; }       // bucket 0, never handed out, poisoned

// separately allocated records come from their own pool (addresses irrelevant for hashing)
constexpr int NNODES = 1048;
constexpr size_t NODE_CHUNK = 128;
alignas(64) char g_noderaw[NODE_CHUNK * NNODES];
unsigned char g_node_state[NNODES];
int g_nnode, g_node_bad_free, g_node_frees;
char* pool_alloc(size_t size) {
    if (g_nnode >= NNODES || size > NODE_CHUNK) { g_exhausted++; return nullptr; }
    int s = g_nnode++;
    g_node_state[s] = 1;
    char* p = g_noderaw + s * NODE_CHUNK;
    ASAN_UNPOISON_MEMORY_REGION(p, size);
    memset(p, 0x6b, size);
    return p;
}
void pool_free(char* p) {
    if (p < g_noderaw || p >= g_noderaw + sizeof g_noderaw || (size_t)(p - g_noderaw) % NODE_CHUNK) { g_node_bad_free++; return; }
    int s = (int)((p - g_noderaw) / NODE_CHUNK);
    if (s >= g_nnode || g_node_state[s] != 1) { g_node_bad_free++; return; }
    g_node_state[s] = 2; g_node_frees++;
    ASAN_POISON_MEMORY_REGION(p, NODE_CHUNK);
}
void arena_reset() {
    for (int s = 0; s < g_nslot; s++) if (g_slot[s].state == 1) ASAN_POISON_MEMORY_REGION(slot_addr(s), g_slot[s].asize);
    for (int s = 0; s < g_nnode; s++) if (g_node_state[s] == 1) ASAN_POISON_MEMORY_REGION(g_noderaw + s * NODE_CHUNK, NODE_CHUNK);
    g_nslot = 0; g_nnode = 0; g_next_boff = 0;
    g_double_free = g_foreign_free = g_exhausted = g_node_bad_free = g_node_frees = 0;
    g_fail_realloc = g_realloc_refused = 0;
}
void arena_init() {
    size_t b = ((size_t)g_raw + 15) & ~(size_t)15;
    while (b % 73) b += 16;
    g_base = (char*)b;
    if (g_base + STRIDE * (NSLOTS + 1) > g_raw + sizeof g_raw) vf::harness_error("arena too small");
    ASAN_POISON_MEMORY_REGION(g_base, STRIDE * (NSLOTS + 1));
    ASAN_POISON_MEMORY_REGION(g_noderaw, sizeof g_noderaw);
}

struct ArenaAllocator : TestMemoryAllocator {
    ArenaAllocator(const char* n, const char* a, const char* f) : TestMemoryAllocator(n, a, f) {}
    char* alloc_memory(size_t size, const char*, size_t) override { return arena_alloc(size); }
    void free_memory(char* memory, size_t, const char*, size_t) override { arena_free(memory); }
    char* allocMemoryLeakNode(size_t size) override { return pool_alloc(size); }
    void freeMemoryLeakNode(char* memory) override { pool_free(memory); }
};
enum Kind { K_NEW = 0, K_ARR = 1, K_MAL = 2 };
// The three allocator objects are placement-constructed in harness storage, so that a history can run the destructor of
// one of them (hasBeenDestroyed() then answers true, the object's memory stays valid - the static-destruction-order case the
// detector caters for) and the next history gets a fresh object.
alignas(ArenaAllocator) char g_alloc_store[3][sizeof(ArenaAllocator)];
ArenaAllocator* const g_alloc = reinterpret_cast<ArenaAllocator*>(g_alloc_store);
bool g_alloc_dead[3] = {true, true, true};
void allocators_fresh() {
    static const char* N[3][3] = {{"Standard New Allocator", "new", "delete"}, {"Standard New [] Allocator", "new []", "delete []"}, {"Standard Malloc Allocator", "malloc", "free"}};
    for (int k = 0; k < 3; k++) if (g_alloc_dead[k]) { ::new ((void*)&g_alloc[k]) ArenaAllocator(N[k][0], N[k][1], N[k][2]); g_alloc_dead[k] = false; }
}
void allocator_destroy(int k) {
    g_alloc[k].~ArenaAllocator(); g_alloc_dead[k] = true;
    // The library keeps using such an object by design (hasBeenDestroyed(), alloc_name() in reports). An uninstrumented build
    // leaves the TestMemoryAllocator base vptr behind; the UBSan build (-fsanitize=vptr) zeroes it at the end of the destructor
    // and would abort on the first such use. Put the base-class vptr back so that the sanitized build behaves like the product.
    static TestMemoryAllocator base_proto("proto", "proto", "proto");
    memcpy((void*)&g_alloc[k], (const void*)&base_proto, sizeof(void*));
    if (!g_alloc[k].hasBeenDestroyed()) vf::harness_error("destructor ran but hasBeenDestroyed() is false (store eliminated?)");
}
// After its destructor an allocator object dispatches to the TestMemoryAllocator base (malloc / PlatformSpecificFree): the
// free seam hands arena blocks and pool records back to where they came from and everything else to free().
void (*g_saved_free)(void*);
void seam_free(void* p) {
    char* c = (char*)p;
    if (c >= g_noderaw && c < g_noderaw + sizeof g_noderaw) { pool_free(c); return; }
    if (slot_of(c) >= 0) { arena_free(c); return; }
    g_saved_free(p);
}
const char* ANAME[3] = {"new", "new []", "malloc"};
const char* LOCFILE[3] = {"n.cpp", "a.cpp", "m.c"};
const char* PNAME[4] = {"all", "disabled", "enabled", "checking"};
const MemLeakPeriod PERIODS[4] = {mem_leak_period_all, mem_leak_period_disabled, mem_leak_period_enabled, mem_leak_period_checking};

struct Reporter : MemoryLeakFailure {
    int calls = 0; char first[200];
    Reporter() { first[0] = 0; }
    void fail(char* s) override {
        if (calls++ == 0) { strncpy(first, s, sizeof first - 1); first[sizeof first - 1] = 0; for (char* c = first; *c; c++) if (*c == '\n') *c = ' '; }
    }
};

// ------------------------------------------------------------------ routes onto the detector
// 0: detector API, new/new[] with inline record, malloc with separate record (what the global wrappers pass)
// 1: detector API, every kind inline      2: detector API, every kind separate
// 3: the global operators / cpputest_malloc family with the private detector installed as the global one
// Allocation forms of route 3 = the entries of the routing table in MemoryLeakWarningPlugin.cpp. Other routes only
// distinguish "with location" from "without".
enum Form { F_PLAIN = 0, F_NOTHROW = 1, F_LOC = 2, F_LOCINT = 3, F_CALLOC = 4 };
const char* FORMNAME[] = {"", ",nothrow", ",file,line", ",file,int-line", ",calloc,file,line"};
inline bool form_has_location(int form) { return form >= F_LOC; }
// The harness itself allocates between operations, so the leak-detecting overloads are on only around the single call.
// The state of the routing table the history prescribes is re-established in front of every call: freshly switched on,
// or switched on and then taken through one saveAndDisableNewDeleteOverloads()/restoreNewDeleteOverloads() cycle.
struct GlobalOn {
    explicit GlobalOn(bool cycled) {
        MemoryLeakWarningPlugin::turnOnDefaultNotThreadSafeNewDeleteOverloads();
        if (cycled) { MemoryLeakWarningPlugin::saveAndDisableNewDeleteOverloads(); MemoryLeakWarningPlugin::restoreNewDeleteOverloads(); }
    }
    ~GlobalOn() { MemoryLeakWarningPlugin::turnOffNewDeleteOverloads(); }
};
struct Drv {
    MemoryLeakDetector* det; int route; bool cycled = false;
    bool sep(int kind) const { return route == 2 || (route == 0 && kind == K_MAL); }
    char* alloc(int kind, size_t size, int form, const char* file, int line) {
        if (route != 3) {
            if (file) return det->allocMemory(&g_alloc[kind], size, file, (size_t)line, sep(kind));
            return det->allocMemory(&g_alloc[kind], size, sep(kind));
        }
        GlobalOn on(cycled);
        switch (kind) {
        case K_NEW:
            switch (form) {
            case F_NOTHROW: return (char*)operator new(size, std::nothrow);
            case F_LOC: return (char*)operator new(size, file, (size_t)line);
            case F_LOCINT: return (char*)operator new(size, file, (int)line);
            default: return (char*)operator new(size);
            }
        case K_ARR:
            switch (form) {
            case F_NOTHROW: return (char*)operator new[](size, std::nothrow);
            case F_LOC: return (char*)operator new[](size, file, (size_t)line);
            case F_LOCINT: return (char*)operator new[](size, file, (int)line);
            default: return (char*)operator new[](size);
            }
        default:
            switch (form) {
            case F_LOC: case F_LOCINT: return (char*)cpputest_malloc_location(size, file, (size_t)line);
            case F_CALLOC: return (char*)cpputest_calloc_location(1, size, file, (size_t)line);
            default: return (char*)cpputest_malloc(size);
            }
        }
    }
    void release(int kind, char* p, int form = F_PLAIN) {
        if (route != 3) { det->deallocMemory(&g_alloc[kind], p, "rel.cpp", 7, sep(kind)); return; }
        GlobalOn on(cycled);
        switch (kind) {          // the release form a compiler pairs with the allocating form
        case K_NEW:
            if (form == F_NOTHROW) operator delete(p, std::nothrow); else if (form == F_LOC) operator delete(p, "rel.cpp", (size_t)7); else if (form == F_LOCINT) operator delete(p, "rel.cpp", (int)7); else operator delete(p);
            break;
        case K_ARR:
            if (form == F_NOTHROW) operator delete[](p, std::nothrow); else if (form == F_LOC) operator delete[](p, "rel.cpp", (size_t)7); else if (form == F_LOCINT) operator delete[](p, "rel.cpp", (int)7); else operator delete[](p);
            break;
        default: if (form == F_PLAIN) cpputest_free(p); else cpputest_free_location(p, "rel.c", 7); break;
        }
    }
    char* realloc(char* p, size_t size, const char* file, int line) {
        if (route != 3) return det->reallocMemory(&g_alloc[K_MAL], p, size, file, (size_t)line, sep(K_MAL));
        GlobalOn on(cycled);
        return (char*)cpputest_realloc_location(p, size, file, (size_t)line);
    }
    // table manipulations as operations of their own (route 3): they must not change what any form records
    void table_cycle() { { GlobalOn on(cycled); MemoryLeakWarningPlugin::saveAndDisableNewDeleteOverloads(); MemoryLeakWarningPlugin::restoreNewDeleteOverloads(); } cycled = true; }
    void table_off_on() { { GlobalOn on(cycled); MemoryLeakWarningPlugin::turnOffNewDeleteOverloads(); MemoryLeakWarningPlugin::turnOnDefaultNotThreadSafeNewDeleteOverloads(); } cycled = false; }
};

// ------------------------------------------------------------------ reference model (from the property statement)
struct Rec {
    char* addr; int slot; size_t size; int kind; MemLeakPeriod period; int stage; unsigned number;
    const char* file; int line; int boff; int form;
};
bool visible(const Rec& r, MemLeakPeriod p) {
    switch (p) {
    case mem_leak_period_all: return true;
    case mem_leak_period_enabled: return r.period == mem_leak_period_enabled || r.period == mem_leak_period_checking;
    case mem_leak_period_checking: return r.period == mem_leak_period_checking;
    case mem_leak_period_disabled: return r.period == mem_leak_period_disabled;
    }
    return false;
}

// ------------------------------------------------------------------ report text -> entries
struct Entry {
    unsigned number; unsigned long size; char file[64]; int line; char type[32]; uintptr_t addr;
    bool operator<(const Entry& o) const { return number != o.number ? number < o.number : addr < o.addr; }
};
struct Parsed { bool noleaks = false, header = false, has_total = false, truncated = false; long total = -1; std::vector<Entry> e; std::string err; };
const char NOLEAKS[] = "No memory leaks were detected.";
const char HEADER[] = "Memory leak(s) found.\n";
Parsed parse_report(const char* text) {
    Parsed r;
    if (strcmp(text, NOLEAKS) == 0) { r.noleaks = true; return r; }
    if (strncmp(text, HEADER, sizeof HEADER - 1) != 0) { r.err = "neither the no-leaks sentence nor the leak header"; return r; }
    r.header = true;
    const char* p = text + sizeof HEADER - 1;
    bool want_mem = false;
    while (*p) {
        const char* nl = strchr(p, '\n');
        size_t len = nl ? (size_t)(nl - p) : strlen(p);
        char line[400];
        if (len >= sizeof line) { r.err = "line too long"; return r; }
        memcpy(line, p, len); line[len] = 0;
        p = nl ? nl + 1 : p + len;
        if (want_mem) {
            void* a = nullptr;
            if (sscanf(line, "\tMemory: <%p> Content:", &a) != 1) { r.err = std::string("expected the Memory line, got: ") + line; return r; }
            r.e.back().addr = (uintptr_t)a; want_mem = false;
            continue;
        }
        if (strncmp(line, "Alloc num (", 11) == 0) {
            if (r.has_total) { r.err = "entry after the total line"; return r; }
            Entry e; memset(&e, 0, sizeof e);
            if (sscanf(line, "Alloc num (%u) Leak size: %lu Allocated at: %63s and line: %d. Type: \"%31[^\"]\"", &e.number, &e.size, e.file, &e.line, e.type) != 5) { r.err = std::string("unparsable entry: ") + line; return r; }
            r.e.push_back(e); want_mem = true;
        } else if (strncmp(line, "    ", 4) == 0 && !r.e.empty() && !r.has_total) {
            // memory dump line of the last entry
        } else if (strncmp(line, "Total number of leaks: ", 23) == 0) {
            if (r.has_total) { r.err = "second total line"; return r; }
            char* end; r.total = strtol(line + 23, &end, 10);
            if (end == line + 23 || *end) { r.err = std::string("unparsable total line: ") + line; return r; }
            r.has_total = true;
        } else if (r.has_total && (strncmp(line, "NOTE:", 5) == 0 || line[0] == '\t')) {
            // malloc/free advice behind the total (not asserted)
        } else if (len == 0) {
        } else if (strncmp(line, "etc etc etc", 11) == 0) { r.truncated = true;
        } else { r.err = std::string("unexpected line: ") + line; return r; }
    }
    if (want_mem) r.err = "entry without its Memory line";
    else if (!r.has_total) r.err = "no total line";
    return r;
}

// compares one report text with the expected set; returns "" when they agree
std::string compare_report(const char* text, const std::vector<Rec>& recs, MemLeakPeriod p) {
    std::vector<Entry> want;
    for (auto& r : recs) if (visible(r, p)) {
        Entry e; memset(&e, 0, sizeof e);
        e.number = r.number; e.size = r.size; snprintf(e.file, sizeof e.file, "%s", r.file); e.line = r.line;
        snprintf(e.type, sizeof e.type, "%s", ANAME[r.kind]); e.addr = (uintptr_t)r.addr;
        want.push_back(e);
    }
    Parsed got = parse_report(text);
    if (!got.err.empty()) return "report text malformed (" + got.err + ")";
    if (want.empty()) {
        if (!got.noleaks) return vf::fmt("no block is outstanding for the period but the report lists %zu entries / total %ld instead of the no-leaks sentence", got.e.size(), got.total);
        return "";
    }
    if (got.noleaks) return vf::fmt("%zu blocks outstanding but the report says there are no leaks", want.size());
    if (got.truncated) return "report truncated";
    if (got.total != (long)want.size()) return vf::fmt("total line says %ld, %zu blocks outstanding", got.total, want.size());
    std::sort(want.begin(), want.end()); std::sort(got.e.begin(), got.e.end());
    if (got.e.size() != want.size()) return vf::fmt("%zu entries listed, %zu blocks outstanding", got.e.size(), want.size());
    for (size_t i = 0; i < want.size(); i++) {
        const Entry& a = want[i]; const Entry& b = got.e[i];
        if (a.addr != b.addr) return vf::fmt("entry for a block that is not outstanding for the period (alloc num %u listed, expected alloc num %u in slot %d)", b.number, a.number, slot_of((char*)a.addr));
        if (a.number != b.number || a.size != b.size || a.line != b.line || strcmp(a.file, b.file) || strcmp(a.type, b.type))
            return vf::fmt("entry fields wrong: listed num=%u size=%lu at %s:%d type '%s', expected num=%u size=%lu at %s:%d type '%s'", b.number, b.size, b.file, b.line, b.type, a.number, a.size, a.file, a.line, a.type);
    }
    return "";
}

// ------------------------------------------------------------------ table monitor
// The table must never reference a record whose memory went back to the allocator (arena / record pool poison it).
// Checked by walking the chains without touching poisoned memory, so that a stale record is an ordinary failure with
// a witness instead of one sanitizer abort per history.
std::string chain_check(MemoryLeakDetector& det) {
#if defined(__SANITIZE_ADDRESS__)
    for (int i = 0; i < MemoryLeakDetectorTable::hash_prime; i++) {
        MemoryLeakDetectorNode* n = det.memoryTable_.table_[i].head_; int len = 0;
        while (n) {
            if (__asan_region_is_poisoned(n, sizeof *n)) return vf::fmt("bucket %d: record %d of the chain lies in memory that was handed back to the allocator", i, len);
            if (++len > NSLOTS + 8) return vf::fmt("bucket %d: the chain does not end", i);
            n = n->next_;
        }
    }
#endif
    return "";
}

// ------------------------------------------------------------------ one history
struct AllocVar { int kind; size_t size; int b; bool loc; int form = -1;
    int eff_form() const { return form >= 0 ? form : loc ? F_LOC : F_PLAIN; } };
struct Cfg {
    const char* name; int depth, maxlive, route;
    std::vector<AllocVar> av; std::vector<size_t> rsizes; bool realloc_null;
    unsigned period_mask; int maxstage; bool release; unsigned clear_mask; bool mark; bool misuse; bool prune;
    int rfail = 0;      // failing realloc variants offered per malloc block: 1 = platform realloc answers NULL; 2 = + size SIZE_MAX/2; 3 = + size SIZE_MAX-2
    bool table_ops = false;   // route 3: save+restore cycle and off+on of the routing table as operations
    bool destroy = false;     // operation: run the destructor of the allocator object of one family (releases / reallocs through it stay allowed)
};
enum OpK { ALLOC, FREE, REALLOC, REALLOC_NULL, START, STOP, ENABLE, DISABLE, INC, DEC, RELEASE, CLEAR, MARK, FREE_STALE, FREE_FOREIGN, REALLOC_FOREIGN, REALLOC_FAIL, REALLOC_NULL_FAIL, TABLE_CYCLE, TABLE_OFFON, DESTROY };
const char* OPNAME[] = {"alloc", "free", "realloc", "realloc-null", "startChecking", "stopChecking", "enable", "disable", "increaseAllocationStage", "decreaseAllocationStage",
                        "releaseStage", "clearAllAccounting", "markCheckingPeriodLeaks", "free-unknown", "free-unknown", "realloc-unknown", "realloc-fail", "realloc-null-fail", "table-save-restore", "table-off-on", "destroy-allocator"};
struct Op { OpK k; int a, b; };

struct History {
    const Cfg& cfg; Reporter rep; MemoryLeakDetector det; Drv drv;
    std::vector<Rec> recs; MemLeakPeriod cur = mem_leak_period_disabled; int stage = 0; unsigned next_number = 1;
    unsigned char exp_slot[NSLOTS];
    char* stale = nullptr; int stale_kind = 0, stale_boff = 0;
    bool dead[3] = {false, false, false};   // allocator objects whose destructor has run in this history
    std::string trace; bool nontrivial = false; int removals = 0, callbacks = 0, failed_reallocs = 0;
    MemoryLeakDetector* saved_det = nullptr; MemoryLeakFailure* saved_rep = nullptr; void* (*saved_realloc)(void*, size_t);

    explicit History(const Cfg& c) : cfg(c), det(&rep) {
        arena_reset(); memset(exp_slot, 0, sizeof exp_slot);
        drv.det = &det; drv.route = c.route;
        allocators_fresh();
        saved_realloc = PlatformSpecificRealloc; PlatformSpecificRealloc = arena_realloc;
        g_saved_free = PlatformSpecificFree; PlatformSpecificFree = seam_free;
        if (c.route == 3) {
            saved_det = MemoryLeakWarningPlugin::getGlobalDetector(); saved_rep = MemoryLeakWarningPlugin::getGlobalFailureReporter();
            MemoryLeakWarningPlugin::setGlobalDetector(&det, &rep);
            setCurrentNewAllocator(&g_alloc[K_NEW]); setCurrentNewArrayAllocator(&g_alloc[K_ARR]); setCurrentMallocAllocator(&g_alloc[K_MAL]);
        }
    }
    ~History() {
        PlatformSpecificRealloc = saved_realloc; PlatformSpecificFree = g_saved_free;
        if (cfg.route == 3) {
            setCurrentNewAllocatorToDefault(); setCurrentNewArrayAllocatorToDefault(); setCurrentMallocAllocatorToDefault();
            MemoryLeakWarningPlugin::setGlobalDetector(saved_det, saved_rep);
        }
    }

    int chain_len(int boff) const { int n = 0; for (auto& r : recs) if (r.boff == boff) n++; return n; }
    void note_removal(const Rec& r) { removals++; if (chain_len(r.boff) >= 2) nontrivial = true; stale = r.addr; stale_kind = r.kind; stale_boff = r.boff; }
    void add_rec(char* p, size_t size, int kind, const char* file, int line, int boff, int form = F_PLAIN) {
        Rec r; r.addr = p; r.slot = slot_of(p); r.size = size; r.kind = kind; r.period = cur; r.stage = stage; r.number = next_number++;
        r.file = file ? file : "<unknown>"; r.line = file ? line : 0; r.boff = boff; r.form = form;
        if (r.slot >= 0) exp_slot[r.slot] = 1;
        recs.push_back(r);
    }

    // returns the operations enabled in the current model state, simplest first
    int enabled(Op* ops) const {
        int n = 0;
        if ((int)recs.size() < cfg.maxlive) {
            for (size_t i = 0; i < cfg.av.size(); i++) if (!dead[cfg.av[i].kind]) ops[n++] = {ALLOC, (int)i, 0};
            if (cfg.realloc_null && !dead[K_MAL]) ops[n++] = {REALLOC_NULL, 0, 0};
        }
        for (size_t i = 0; i < recs.size(); i++) ops[n++] = {FREE, (int)i, 0};
        for (size_t i = 0; i < recs.size(); i++) if (recs[i].kind == K_MAL) for (size_t s = 0; s < cfg.rsizes.size(); s++) ops[n++] = {REALLOC, (int)i, (int)s};
        for (size_t i = 0; i < recs.size(); i++) if (recs[i].kind == K_MAL) for (int v = 0; v < cfg.rfail; v++) ops[n++] = {REALLOC_FAIL, (int)i, v};
        if (cfg.rfail && cfg.realloc_null) ops[n++] = {REALLOC_NULL_FAIL, 0, 0};
        if (cfg.period_mask & 1) ops[n++] = {START, 0, 0};
        if (cfg.period_mask & 2) ops[n++] = {STOP, 0, 0};
        if (cfg.period_mask & 4) ops[n++] = {ENABLE, 0, 0};
        if (cfg.period_mask & 8) ops[n++] = {DISABLE, 0, 0};
        if (stage < cfg.maxstage) ops[n++] = {INC, 0, 0};
        if (cfg.maxstage > 0 && stage > 0) ops[n++] = {DEC, 0, 0};
        if (cfg.release) ops[n++] = {RELEASE, 0, 0};
        for (int p = 0; p < 4; p++) if (cfg.clear_mask & (1u << p)) ops[n++] = {CLEAR, p, 0};
        if (cfg.mark) ops[n++] = {MARK, 0, 0};
        if (cfg.destroy) for (int k = 0; k < 3; k++) if (!dead[k]) ops[n++] = {DESTROY, k, 0};
        if (cfg.table_ops && cfg.route == 3) { ops[n++] = {TABLE_CYCLE, 0, 0}; ops[n++] = {TABLE_OFFON, 0, 0}; }
        if (cfg.misuse) {
            if (stale) ops[n++] = {FREE_STALE, 0, 0};
            ops[n++] = {FREE_FOREIGN, 0, 0};
            ops[n++] = {REALLOC_FOREIGN, 0, 0};
        }
        return n;
    }

    bool failed(const char* op, const char* mode, const std::string& detail) {
        vf::fail(std::string(op) + "/" + mode, trace + ": " + detail);
        return false;
    }

    // executes one operation on the detector and on the model; false = a failure was recorded, stop the history
    bool apply(const Op& op, int step, bool observe_it) {
        const char* name = OPNAME[op.k];
        int calls_before = rep.calls;
        bool expect_unknown = false;
        vf::ctx(name);
        switch (op.k) {
        case ALLOC: {
            const AllocVar& v = cfg.av[op.a];
            int form = v.eff_form();
            const char* file = form_has_location(form) ? LOCFILE[v.kind] : nullptr; int line = 100 + step;
            if (cfg.route == 3) trace += vf::fmt("%s(%zu%s,b%d) ", v.kind == K_MAL ? (form == F_CALLOC ? "calloc" : "malloc") : ANAME[v.kind], v.size, form == F_CALLOC ? ",file,line" : FORMNAME[form], BOFF[v.b]);
            else trace += vf::fmt("%s(%zu,b%d%s) ", ANAME[v.kind], v.size, BOFF[v.b], file ? "" : ",noloc");
            g_next_boff = BOFF[v.b];
            char* p = drv.alloc(v.kind, v.size, form, file, line);
            if (!p) return failed(name, "returned-null", "allocation returned NULL");
            memset(p, 'a' + (step % 26), v.size);
            add_rec(p, v.size, v.kind, file, line, BOFF[v.b], form);
            break; }
        case REALLOC_NULL: {
            trace += "realloc(NULL,8,b0) ";
            g_next_boff = BOFF[0];
            char* p = drv.realloc(nullptr, 8, LOCFILE[K_MAL], 100 + step);
            if (!p) return failed(name, "returned-null", "realloc(NULL, 8) returned NULL");
            memset(p, 'a' + (step % 26), 8);
            add_rec(p, 8, K_MAL, LOCFILE[K_MAL], 100 + step, BOFF[0], F_LOC);
            break; }
        case FREE: {
            Rec r = recs[op.a];
            trace += vf::fmt("free(#%u) ", r.number);
            note_removal(r);
            recs.erase(recs.begin() + op.a);
            if (r.slot >= 0) exp_slot[r.slot] = dead[r.kind] ? 0xff : 2;      // destroyed allocator: whether the memory goes back is not asserted
            drv.release(r.kind, r.addr, r.form);
            break; }
        case REALLOC: {
            Rec r = recs[op.a];
            size_t size = cfg.rsizes[op.b];
            // size 1 keeps the bucket, the larger size moves the block to another bucket
            int nb = op.b == 0 ? r.boff : (r.boff == BOFF[0] ? BOFF[1] : BOFF[0]);
            trace += vf::fmt("realloc(#%u,%zu,b%d) ", r.number, size, nb);
            note_removal(r);
            recs.erase(recs.begin() + op.a);
            if (r.slot >= 0) exp_slot[r.slot] = dead[r.kind] ? 0xff : 2;
            g_next_boff = nb;
            char* p = drv.realloc(r.addr, size, "re.c", 100 + step);
            if (!p) return failed(name, "returned-null", "realloc of an outstanding block returned NULL");
            memset(p, 'a' + (step % 26), size);
            add_rec(p, size, K_MAL, "re.c", 100 + step, nb, F_LOC);
            if (dead[K_MAL] && recs.back().slot >= 0) exp_slot[recs.back().slot] = 0xff;
            break; }
        case START: trace += "startChecking "; det.startChecking(); cur = mem_leak_period_checking; break;
        case STOP: trace += "stopChecking "; det.stopChecking(); cur = mem_leak_period_enabled; break;
        case ENABLE: trace += "enable "; det.enable(); cur = mem_leak_period_enabled; break;
        case DISABLE: trace += "disable "; det.disable(); cur = mem_leak_period_disabled; break;
        case INC: trace += "stage++ "; det.increaseAllocationStage(); stage++; break;
        case DEC: trace += "stage-- "; det.decreaseAllocationStage(); stage--; break;
        case RELEASE: {
            trace += "releaseStage ";
            for (size_t i = 0; i < recs.size();) {
                if (recs[i].stage == stage) { note_removal(recs[i]); if (recs[i].slot >= 0) exp_slot[recs[i].slot] = dead[recs[i].kind] ? 0xff : 2; recs.erase(recs.begin() + i); }
                else i++;
            }
            det.deallocAllMemoryInCurrentAllocationStage();
            break; }
        case CLEAR: {
            MemLeakPeriod p = PERIODS[op.a];
            trace += vf::fmt("clear(%s) ", PNAME[op.a]);
            for (size_t i = 0; i < recs.size();) {
                if (visible(recs[i], p)) { note_removal(recs[i]); recs.erase(recs.begin() + i); }     // the memory stays with its owner
                else i++;
            }
            det.clearAllAccounting(p);
            break; }
        case MARK:
            trace += "mark ";
            for (auto& r : recs) if (r.period == mem_leak_period_checking) r.period = mem_leak_period_enabled;
            det.markCheckingPeriodLeaksAsNonCheckingPeriod();
            break;
        case FREE_STALE:
            trace += vf::fmt("free(stale,b%d) ", stale_boff);
            expect_unknown = true;
            drv.release(stale_kind, stale);
            break;
        case FREE_FOREIGN:
            trace += "free(foreign,b0) ";
            expect_unknown = true;
            drv.release(K_NEW, foreign_addr());
            break;
        case REALLOC_FAIL: case REALLOC_NULL_FAIL: {
            // A realloc that cannot be satisfied: the platform realloc answers NULL (v0), or the size is one no allocator can
            // serve (v1: SIZE_MAX/2, v2: SIZE_MAX-2 where size + accounting information wraps). Reference: NULL comes back and
            // nothing changes - same outstanding set, the block keeps size / number / location / kind / period / stage, the
            // sequence counter does not move (the unchanged code never stamps a record on this path), no callback, no memory
            // handed back; the block stays releasable (free / realloc of it remain in the alphabet).
            char* old = op.k == REALLOC_FAIL ? recs[op.a].addr : nullptr;
            size_t size = op.b == 0 ? 24 : op.b == 1 ? (size_t)-1 / 2 : (size_t)-1 - 2;
            if (op.k == REALLOC_FAIL) trace += vf::fmt("realloc-fail(#%u,%s) ", recs[op.a].number, op.b == 0 ? "24:platform-NULL" : op.b == 1 ? "SIZE_MAX/2" : "SIZE_MAX-2");
            else trace += "realloc-fail(NULL,8:platform-NULL) ";
            if (op.k == REALLOC_NULL_FAIL) size = 8;
            g_next_boff = BOFF[0];
            if (op.b == 0) g_fail_realloc = 1;
            char* p = drv.realloc(old, size, "refail.c", 100 + step);
            g_fail_realloc = 0;
            failed_reallocs++;
            if (p) return failed(name, "returned-non-null", "a realloc that could not be satisfied returned a pointer");
            break; }
        case DESTROY:
            // Reference: nothing changes; afterwards the family's outstanding blocks are released / reallocated like any other as
            // far as the accounting goes (set, totals, report, no-leaks answer, no callback)
            trace += vf::fmt("~allocator(%s) ", ANAME[op.a]); allocator_destroy(op.a); dead[op.a] = true; break;
        case TABLE_CYCLE: trace += "table:save+restore "; drv.table_cycle(); break;
        case TABLE_OFFON: trace += "table:off+on "; drv.table_off_on(); break;
        case REALLOC_FOREIGN: {
            trace += "realloc(foreign,8) ";
            expect_unknown = true;
            g_next_boff = BOFF[0];
            char* p = drv.realloc(foreign_addr(), 8, "re.c", 100 + step);
            (void)p;
            break; }
        }
        vf::ctx("observe");
        if (g_exhausted) vf::harness_error("arena exhausted");
        if (!observe_it) { callbacks += rep.calls - calls_before; return true; }
        vf::count("ops");
        // failure callback
        if (!expect_unknown && rep.calls != calls_before)
            return failed(name, "spurious-failure-callback", vf::fmt("well-formed operation raised the failure callback %d time(s): %s", rep.calls - calls_before, rep.first));
        if (expect_unknown) {
            if (rep.calls != calls_before + 1) return failed(name, "nonallocated-failure-not-raised", vf::fmt("releasing an address that is not outstanding raised the failure callback %d times", rep.calls - calls_before));
            if (calls_before == 0 && !strstr(rep.first, "Deallocating non-allocated memory")) return failed(name, "nonallocated-failure-not-raised", std::string("callback text is not the non-allocated failure: ") + rep.first);
            callbacks++;
        }
        // memory handed back exactly for the released blocks
        if (g_double_free || g_foreign_free || g_node_bad_free)
            return failed(name, "allocator-bad-free", vf::fmt("underlying allocator saw %d double / %d foreign block releases and %d bad record releases", g_double_free, g_foreign_free, g_node_bad_free));
        for (int s = 0; s < g_nslot; s++) if (exp_slot[s] != 0xff && g_slot[s].state != exp_slot[s])
            return failed(name, "block-memory-state", vf::fmt("slot %d is %s, expected %s", s, g_slot[s].state == 1 ? "still held" : "returned to the allocator", exp_slot[s] == 1 ? "still held" : exp_slot[s] == 2 ? "returned" : "never handed out"));
        { std::string d = chain_check(det); if (!d.empty()) return failed(name, "table-references-released-record", d); }
        return observe(name);
    }

    bool observe(const char* name) {
        for (int i = 0; i < 4; i++) {
            size_t want = 0; for (auto& r : recs) if (visible(r, PERIODS[i])) want++;
            size_t got = det.totalMemoryLeaks(PERIODS[i]);
            if (got != want) return failed(name, "total-wrong", vf::fmt("totalMemoryLeaks(%s) = %zu, %zu blocks outstanding for that period", PNAME[i], got, want));
        }
        for (int i = 0; i < 4; i++) {
            det.outputBuffer_.clear();                 // every observing report starts from an empty buffer (see section rereport)
            const char* text = det.report(PERIODS[i]);
            std::string d = compare_report(text, recs, PERIODS[i]);
            if (!d.empty()) return failed(name, "report-wrong", vf::fmt("report(%s): ", PNAME[i]) + d);
        }
        det.outputBuffer_.clear();
        return true;
    }

    // canonical state: current period and stage, per bucket the chain in the table's own order (a failed realloc moves a
    // record to the head of its chain without changing anything else, so the order is read from the table - it was
    // validated by chain_check in this execution) of the model's (kind,size,period,stage), bucket of the stale address
    std::string key() {
        std::string k;
        k += (char)('0' + (int)cur); k += (char)('0' + stage); k += drv.cycled ? 'c' : 'f'; if (cfg.destroy) k += (char)('0' + (dead[0] ? 1 : 0) + (dead[1] ? 2 : 0) + (dead[2] ? 4 : 0));
        for (int i = 0; i < MemoryLeakDetectorTable::hash_prime; i++) {
            MemoryLeakDetectorNode* n = det.memoryTable_.table_[i].head_;
            if (!n) continue;
            k += '|'; k += (char)('A' + i);
            for (; n; n = n->next_) {
                const Rec* r = nullptr; for (auto& x : recs) if (x.addr == n->memory_) r = &x;
                if (!r) vf::harness_error("pruning key: a record passed the observation but has no model counterpart");
                k += (char)('0' + r->kind); k += (char)('a' + (r->size > 25 ? 25 : r->size)); k += (char)('0' + (int)r->period); k += (char)('0' + r->stage);
                if (cfg.route == 3) k += (char)('0' + r->form);
            }
        }
        k += '!'; if (stale && cfg.misuse) k += (char)('A' + stale_boff);
        return k;
    }

    void run(vf::Chooser& ch) {
        Op ops[96];
        for (int step = 0; step < cfg.depth; step++) {
            int n = enabled(ops);
            int c = ch.choose(n);
            bool obs = ch.pos() >= ch.prefix.size();      // earlier positions were observed by the execution that first took them
            if (!apply(ops[c], step, obs)) return;
            if (cfg.prune && obs && ch.prune(vf::hash_str(key()), cfg.depth - step - 1)) break;
        }
        size_t t[4]; for (int i = 0; i < 4; i++) { t[i] = 0; for (auto& r : recs) if (visible(r, PERIODS[i])) t[i]++; }
        vf::outcome(vf::fmt("all=%zu dis=%zu en=%zu chk=%zu cur=%s stage=%d removed=%d unknown=%d refail=%d", t[0], t[1], t[2], t[3], PNAME[(int)cur], stage, removals > 3 ? 3 : removals, callbacks > 2 ? 2 : callbacks, failed_reallocs > 2 ? 2 : failed_reallocs));
        if (nontrivial) vf::count("nontrivial");
        if (vf::want_sample()) vf::sample(trace);
    }
};

// ------------------------------------------------------------------ chains: n blocks, every bucket pattern, every release order
long factorial(int n) { long f = 1; for (int i = 2; i <= n; i++) f *= i; return f; }
long ipow(long b, int e) { long r = 1; while (e-- > 0) r *= b; return r; }
void chains_case(int n, int nbuck, long idx) {
    static Cfg cfg{"chains", 0, 0, 0, {}, {}, false, 0, 0, false, 0, false, false, false};
    vf::Radix rx(idx);
    long perm = rx.take(factorial(n));
    int pat[8]; for (int i = 0; i < n; i++) pat[i] = (int)rx.take(nbuck);
    int order[8]; { std::vector<int> pool; for (int i = 0; i < n; i++) pool.push_back(i); for (int i = 0; i < n; i++) { long f = factorial(n - 1 - i); int k = (int)(perm / f); perm %= f; order[i] = pool[k]; pool.erase(pool.begin() + k); } }
    History h(cfg);
    std::string oc;
    for (int i = 0; i < n; i++) {
        int kind = i % 3;
        switch (i % 3) { case 0: h.det.startChecking(); h.cur = mem_leak_period_checking; break; case 1: h.det.stopChecking(); h.cur = mem_leak_period_enabled; break; default: h.det.disable(); h.cur = mem_leak_period_disabled; }
        h.trace += vf::fmt("[%s] %s(1,b%d) ", PNAME[(int)h.cur], ANAME[kind], BOFF[pat[i]]);
        vf::ctx("alloc");
        g_next_boff = BOFF[pat[i]];
        char* p = h.drv.alloc(kind, 1, F_LOC, LOCFILE[kind], 100 + i);
        if (!p) { h.failed("alloc", "returned-null", "allocation returned NULL"); return; }
        p[0] = (char)('a' + i);
        h.add_rec(p, 1, kind, LOCFILE[kind], 100 + i, BOFF[pat[i]]);
    }
    vf::ctx("observe");
    if (!h.observe("alloc")) return;
    for (int i = 0; i < n; i++) {
        size_t k = 0; for (; k < h.recs.size(); k++) if (h.recs[k].number == (unsigned)order[i] + 1) break;
        Rec r = h.recs[k];
        int pos = 0, len = 0; for (auto& o : h.recs) if (o.boff == r.boff) { len++; if (o.number > r.number) pos++; }
        oc += vf::fmt("%d/%d ", pos, len);
        if (!h.apply(Op{FREE, (int)k, 0}, n + i, true)) return;
    }
    if (g_exhausted) vf::harness_error("arena exhausted");
    vf::outcome(oc);
    vf::count("nontrivial");
    if (vf::want_sample()) vf::sample(h.trace);
}

// ------------------------------------------------------------------ rereport / resat: report() as a history operation
// Nothing empties the detector's output buffer here except the detector itself.
std::string classify_rereport(const char* text, const std::string& before, const std::vector<Rec>& recs, MemLeakPeriod p, std::string& sig) {
    std::string d = compare_report(text, recs, p);
    if (d.empty()) return d;
    sig = "report/report-wrong";
    size_t tl = strlen(text);
    if (!before.empty() && tl >= before.size() && memcmp(text, before.data(), before.size()) == 0) {
        std::string tail = compare_report(text + before.size(), recs, p);
        if (tail.empty()) { sig = "report/earlier-text-not-discarded"; return "the returned text still starts with " + std::to_string(before.size()) + " characters produced by earlier reports or failure messages; only the part behind them describes the outstanding set"; }
        if (tl >= SimpleStringBuffer::SIMPLE_STRING_BUFFER_LEN - 600) { sig = "report/earlier-text-crowds-out-current-leaks"; return "the output buffer is full of earlier report text; the current outstanding set is cut off or missing (" + tail + ")"; }
    }
    return d;
}
void rereport_scenario(vf::Chooser& ch, int depth) {
    static Cfg cfg{"rereport", 0, 2, 0, {}, {}, false, 0, 0, false, 0, false, false, false};
    History h(cfg);
    int reports = 0, stale_prefix = 0;
    for (int step = 0; step < depth; step++) {
        int n_alloc = h.recs.size() < 2 ? 1 : 0, n_free = (int)h.recs.size();
        int c = ch.choose(n_alloc + n_free + 4);
        if (c < n_alloc) {
            h.trace += "new(1,b0) "; vf::ctx("alloc"); g_next_boff = 0;
            char* p = h.drv.alloc(K_NEW, 1, F_LOC, LOCFILE[K_NEW], 100 + step);
            if (!p) { h.failed("alloc", "returned-null", "NULL"); return; }
            p[0] = 'x'; h.add_rec(p, 1, K_NEW, LOCFILE[K_NEW], 100 + step, 0);
        } else if (c < n_alloc + n_free) {
            Rec r = h.recs[c - n_alloc]; h.trace += vf::fmt("free(#%u) ", r.number); vf::ctx("free");
            h.recs.erase(h.recs.begin() + (c - n_alloc)); h.drv.release(r.kind, r.addr);
            { std::string d = chain_check(h.det); if (!d.empty()) { h.failed("free", "table-references-released-record", d); return; } }
        } else {
            int o = c - n_alloc - n_free;
            if (o < 2) {
                MemLeakPeriod p = o == 0 ? mem_leak_period_all : mem_leak_period_checking;
                h.trace += vf::fmt("report(%s) ", o == 0 ? "all" : "checking");
                vf::ctx("report");
                std::string before = h.det.outputBuffer_.toString();
                const char* text = h.det.report(p);
                reports++;
                if (!before.empty()) stale_prefix++;
                std::string sig, d = classify_rereport(text, before, h.recs, p, sig);
                if (!d.empty()) { vf::fail(sig, h.trace + ": " + d); return; }
                for (int i = 0; i < 4; i++) { size_t want = 0; for (auto& r : h.recs) if (visible(r, PERIODS[i])) want++; if (h.det.totalMemoryLeaks(PERIODS[i]) != want) { h.failed("report", "total-wrong", "total changed by a report"); return; } }
            } else if (o == 2) { h.trace += "startChecking "; vf::ctx("startChecking"); h.det.startChecking(); h.cur = mem_leak_period_checking; }
            else { h.trace += "free(foreign) "; vf::ctx("free-unknown"); h.drv.release(K_NEW, foreign_addr()); }
        }
    }
    vf::outcome(vf::fmt("reports=%d after-nonempty-buffer=%d live=%zu unknown=%d", reports, stale_prefix > 2 ? 2 : stale_prefix, h.recs.size(), h.rep.calls > 2 ? 2 : h.rep.calls));
    if (reports >= 2) vf::count("nontrivial");
    if (vf::want_sample()) vf::sample(h.trace);
}
// ------------------------------------------------------------------ many: reports that fill the 4 KB buffer
// n outstanding blocks (0..80, 100, 200, 1000) of one size, split over the disabled / enabled / checking periods,
// optionally thinned by freeing every second one. Every report must state the exact number of outstanding blocks of
// its period in the total line, list only blocks of that set (each at most once, with their own fields) and say
// "no leaks" iff the set is empty. The entry list may be cut only by the "Too many memory leaks" marker of a full buffer.
const char TOO_MUCH[] = "\netc etc etc etc. !!!! Too many memory leaks to report. Bailing out\n";
const int MANY_N[] = {0,1,2,3,4,5,6,7,8,9,10,11,12,13,14,15,16,17,18,19,20,21,22,23,24,25,26,27,28,29,30,31,32,33,34,35,36,37,38,39,40,
                      41,42,43,44,45,46,47,48,49,50,51,52,53,54,55,56,57,58,59,60,61,62,63,64,65,66,67,68,69,70,71,72,73,74,75,76,77,78,79,80,100,200,1000};
constexpr int MANY_NN = sizeof MANY_N / sizeof *MANY_N;
const size_t MANY_SIZE[3] = {1, 17, 100};
const char* FAMNAME[4] = {"new", "new []", "malloc", "mixed"};

// returns "" or (mode, detail) through sig/detail
bool many_compare(const char* text, const std::vector<Rec>& recs, MemLeakPeriod p, std::string& mode, std::string& detail, bool& cut, size_t& listed) {
    cut = false; listed = 0;
    const char* m = strstr(text, TOO_MUCH);
    if (!m) {       // nothing cut: the strict comparison of the other sections applies
        detail = compare_report(text, recs, p);
        if (detail.empty()) { for (auto& r : recs) if (visible(r, p)) listed++; return true; }
        mode = detail.find("total line") != std::string::npos ? "report-total-wrong" : detail.find("no leaks") != std::string::npos || detail.find("no-leaks") != std::string::npos ? "report-no-leaks-sentence-wrong" : "report-entry-wrong";
        return false;
    }
    cut = true;
    std::vector<const Rec*> want; for (auto& r : recs) if (visible(r, p)) want.push_back(&r);
    if (want.empty()) { mode = "report-no-leaks-sentence-wrong"; detail = "no block is outstanding for the period but the report is a (cut) leak list"; return false; }
    // the line in which the buffer ran full is incomplete by design: drop it (and an entry whose Memory line it was)
    std::string body(text, m - text);
    size_t nl = body.rfind('\n');
    body.resize(nl == std::string::npos ? 0 : nl + 1);
    if (body.size() >= sizeof HEADER - 1) {
        size_t prev = body.size() >= 2 ? body.rfind('\n', body.size() - 2) : std::string::npos;
        size_t start = prev == std::string::npos ? 0 : prev + 1;
        if (body.compare(start, 11, "Alloc num (") == 0) body.resize(start);
    }
    std::string cleaned = body + (m + sizeof TOO_MUCH - 1);
    Parsed got = parse_report(cleaned.c_str());
    if (!got.err.empty()) { mode = "report-malformed"; detail = "cut report malformed (" + got.err + ")"; return false; }
    if (got.noleaks || !got.has_total) { mode = "report-malformed"; detail = "cut report without a total line"; return false; }
    listed = got.e.size();
    if (got.total != (long)want.size()) { mode = "report-total-wrong"; detail = vf::fmt("total line says %ld, %zu blocks outstanding for the period (%zu entries fit into the report before it was cut)", got.total, want.size(), got.e.size()); return false; }
    std::sort(got.e.begin(), got.e.end());
    for (size_t i = 0; i < got.e.size(); i++) {
        const Entry& b = got.e[i];
        if (i && got.e[i - 1].number == b.number) { mode = "report-entry-wrong"; detail = vf::fmt("alloc num %u listed twice", b.number); return false; }
        const Rec* a = nullptr; for (auto* r : want) if (r->number == b.number) a = r;
        if (!a) { mode = "report-entry-wrong"; detail = vf::fmt("alloc num %u listed but not outstanding for the period", b.number); return false; }
        if ((uintptr_t)a->addr != b.addr || a->size != b.size || a->line != b.line || strcmp(a->file, b.file) || strcmp(ANAME[a->kind], b.type)) {
            mode = "report-entry-wrong"; detail = vf::fmt("entry fields wrong: listed num=%u size=%lu at %s:%d type '%s', expected size=%zu at %s:%d type '%s'", b.number, b.size, b.file, b.line, b.type, a->size, a->file, a->line, ANAME[a->kind]); return false;
        }
    }
    if (strlen(text) < 3000) { mode = "report-cut-without-need"; detail = vf::fmt("the leak list is cut after %zu of %zu entries although the text has only %zu characters", got.e.size(), want.size(), strlen(text)); return false; }
    return true;
}

void many_case(long idx) {
    static Cfg cfg{"many", 0, 0, 0, {}, {}, false, 0, 0, false, 0, false, false, false};
    vf::Radix rx(idx);
    int n = MANY_N[rx.take(MANY_NN)]; size_t size = MANY_SIZE[rx.take(3)]; int fam = (int)rx.take(4); int route = (int)rx.take(3); int split = (int)rx.take(4); int thin = (int)rx.take(2);
    Cfg c = cfg; c.route = route;
    History h(c);
    int d = split == 3 ? n / 4 : 0;                                    // allocated while disabled
    int k = split == 0 ? 0 : split == 2 ? n - d : (n - d) / 2;          // then k while enabled, the rest while checking
    h.trace = vf::fmt("n=%d size=%zu family=%s layout=%s: %d blocks while disabled, enable, %d blocks, startChecking, %d blocks%s", n, size, FAMNAME[fam],
                      route == 0 ? "natural" : route == 1 ? "inline" : "separate", d, k, n - d - k, thin ? ", every second block freed" : "");
    vf::ctx("alloc");
    for (int i = 0; i < n; i++) {
        if (i == d) { h.det.enable(); h.cur = mem_leak_period_enabled; }
        if (i == d + k) { h.det.startChecking(); h.cur = mem_leak_period_checking; }
        int kind = fam == 3 ? i % 3 : fam;
        g_next_boff = BOFF[i % 3];
        char* p = h.drv.alloc(kind, size, F_LOC, LOCFILE[kind], 100 + i);
        if (!p) { h.failed("many", "returned-null", "allocation returned NULL"); return; }
        memset(p, 'a' + i % 26, size);
        h.add_rec(p, size, kind, LOCFILE[kind], 100 + i, BOFF[i % 3]);
    }
    if (g_exhausted) vf::harness_error("arena exhausted");
    if (thin) {
        vf::ctx("free");
        for (int i = n - 1; i >= 0; i--) if (i % 2 == 1) { Rec r = h.recs[i]; h.recs.erase(h.recs.begin() + i); h.drv.release(r.kind, r.addr); }
    }
    vf::ctx("observe");
    if (h.rep.calls) { h.failed("many", "spurious-failure-callback", h.rep.first); return; }
    { std::string dd = chain_check(h.det); if (!dd.empty()) { h.failed("many", "table-references-released-record", dd); return; } }
    bool any_cut = false; std::string oc;
    for (int i = 0; i < 4; i++) {
        size_t want = 0; for (auto& r : h.recs) if (visible(r, PERIODS[i])) want++;
        size_t got = h.det.totalMemoryLeaks(PERIODS[i]);
        if (got != want) { h.failed("many", "total-wrong", vf::fmt("totalMemoryLeaks(%s) = %zu, %zu blocks outstanding for that period", PNAME[i], got, want)); return; }
        vf::ctx("report");
        h.det.outputBuffer_.clear();
        const char* text = h.det.report(PERIODS[i]);
        std::string mode, detail; bool cut; size_t listed;
        if (!many_compare(text, h.recs, PERIODS[i], mode, detail, cut, listed)) { h.failed("many", mode.c_str(), vf::fmt("report(%s): ", PNAME[i]) + detail); return; }
        any_cut |= cut;
        if (i == 0) oc = vf::fmt("%s size=%zu outstanding=%zu listed=%zu", cut ? "cut" : "full", size, want > 90 ? 99 : want, listed);
        vf::count("ops");
    }
    vf::outcome(oc);
    if (any_cut) vf::count("nontrivial");
    if (vf::want_sample()) vf::sample(h.trace);
}

void resat_case(long idx) {
    static Cfg cfg{"resat", 0, 2, 0, {}, {}, false, 0, 0, false, 0, false, false, false};
    History h(cfg);
    MemLeakPeriod p = PERIODS[idx % 4]; int kind = (int)(idx / 4);
    if (p == mem_leak_period_checking) { h.det.startChecking(); h.cur = p; } else if (p == mem_leak_period_enabled) { h.det.enable(); h.cur = p; }
    vf::ctx("alloc"); g_next_boff = 0;
    char* m = h.drv.alloc(kind, 8, F_LOC, LOCFILE[kind], 42);
    if (!m) { h.failed("alloc", "returned-null", "NULL"); return; }
    memset(m, 'x', 8); h.add_rec(m, 8, kind, LOCFILE[kind], 42, 0);
    h.trace = vf::fmt("%s(8) in period %s, then report(%s) x 60", ANAME[kind], PNAME[idx % 4], PNAME[idx % 4]);
    vf::ctx("report");
    int k = 0;
    for (; k < 60; k++) {
        std::string before = h.det.outputBuffer_.toString();
        const char* text = h.det.report(p);
        std::string sig, d = classify_rereport(text, before, h.recs, p, sig);
        if (!d.empty()) { vf::fail(sig, h.trace + vf::fmt(": report number %d: ", k + 1) + d); break; }
    }
    // the same question once the buffer can take no more (keeps asking after the first disagreement)
    for (; k < 60; k++) {
        std::string before = h.det.outputBuffer_.toString();
        const char* text = h.det.report(p);
        std::string sig, d = classify_rereport(text, before, h.recs, p, sig);
        if (sig == "report/earlier-text-crowds-out-current-leaks") { vf::fail(sig, h.trace + vf::fmt(": report number %d: ", k + 1) + d); break; }
    }
    vf::outcome(vf::fmt("%s/%s", ANAME[kind], PNAME[idx % 4]));
    vf::count("nontrivial");
    if (vf::want_sample()) vf::sample(h.trace);
}

} // namespace

int main(int argc, char** argv) {
    vf::init(argc, argv, "C04");
    MemoryLeakWarningPlugin::turnOffNewDeleteOverloads();
    arena_init();
    allocators_fresh();
    bool T = vf::thorough();
    bool NG = strcmp(VF_FLAVOUR, "noguard") == 0;
    vf::info("rule", "every history over the section's operation alphabet up to its depth, each replayed on a fresh private detector whose allocators place every block in a chosen hash bucket (0, 16 or 72); after every transition the four totals and four parsed reports are compared with the set model; non-trivial = some block was removed (free, realloc, stage release, clear) from a bucket chain holding at least two records");

    const std::vector<AllocVar> AV_SMALL = {{K_NEW, 1, 0, true}, {K_MAL, 8, 0, true}, {K_ARR, 8, 1, true}, {K_MAL, 1, 2, false}};
    const std::vector<AllocVar> AV_MED = {{K_NEW, 1, 0, true}, {K_MAL, 8, 0, true}, {K_ARR, 8, 1, true}, {K_NEW, 8, 2, false}, {K_MAL, 1, 1, true}, {K_ARR, 1, 0, false}};
    std::vector<AllocVar> AV_FULL;
    for (int b = 0; b < NBUCK; b++) for (int s = 0; s < 2; s++) for (int k = 0; k < 3; k++) AV_FULL.push_back({k, s ? (size_t)8 : (size_t)1, b, (k + s + b) % 3 != 2});
    auto describe = [](const Cfg& c) {
        std::string a;
        for (auto& v : c.av) {
            if (c.route == 3) a += vf::fmt("%s(%zu%s)/b%d ", v.kind == K_MAL ? (v.eff_form() == F_CALLOC ? "calloc" : "malloc") : ANAME[v.kind], v.size, v.eff_form() == F_CALLOC ? ",file,line" : FORMNAME[v.eff_form()], BOFF[v.b]);
            else a += vf::fmt("%s/%zu/b%d%s ", ANAME[v.kind], v.size, BOFF[v.b], v.loc ? "" : "/noloc");
        }
        std::string cl; for (int p = 0; p < 4; p++) if (c.clear_mask & (1u << p)) cl += std::string(PNAME[p]) + " ";
        return vf::fmt("depth %d, live<=%d, route %s, alloc {%s}%s, free(h), realloc(malloc block, sizes {", c.depth, c.maxlive,
                       c.route == 0 ? "detector API natural layouts" : c.route == 1 ? "detector API all inline" : c.route == 2 ? "detector API all separate" : "global operators and cpputest_malloc family",
                       a.c_str(), c.realloc_null ? "+ realloc(NULL,8)" : "")
             + [&] { std::string s; for (auto z : c.rsizes) s += std::to_string(z) + " "; return s; }()
             + vf::fmt("}), %sstages 0..%d%s, clear {%s}%s%s; %s", c.period_mask == 15 ? "start/stopChecking, enable, disable, " : c.period_mask == 9 ? "startChecking, disable, " : "", c.maxstage, c.release ? " + stage release" : "", cl.c_str(),
                       c.mark ? ", mark" : "", (std::string(c.destroy ? ", destructor of the new / new[] / malloc allocator object (its blocks stay releasable and reallocatable)" : "") + std::string(c.table_ops ? ", routing table: saveAndDisable+restore cycle, turnOff+turnOnDefault" : "") + std::string(c.misuse ? ", free(stale), free(foreign), realloc(foreign)" : "") + (c.rfail ? vf::fmt(", failing realloc of a malloc block (%s)%s", c.rfail == 1 ? "platform realloc answers NULL" : c.rfail == 2 ? "platform NULL; size SIZE_MAX/2" : "platform NULL; size SIZE_MAX/2; size SIZE_MAX-2", c.realloc_null ? " and of NULL" : "") : "")).c_str(), c.prune ? "pruned on canonical model state (chains in order, period, stage)" : "unpruned");
    };
    auto run_dfs = [&](const Cfg& c, int min_outcomes) {
        vf::info(std::string(c.name) + ".bound", describe(c));
        vf::section_dfs(c.name, 2, c.prune, [&](vf::Chooser& ch) { History h(c); h.run(ch); });
        vf::require_outcomes(c.name, min_outcomes);
    };
    const std::vector<AllocVar> AV_3 = {{K_NEW, 1, 0, true}, {K_MAL, 8, 0, true}, {K_ARR, 8, 1, false}};
    // noguard (-DCPPUTEST_DISABLE_MEM_CORRUPTION_CHECK) forces the separate-record layout and drops the guard bytes; the period /
    // stage / clear logic is the same code, so that flavour runs the layout-sensitive sections and smaller bounds of the others
    //            name   depth                 live       route av     realloc  r(NULL) period stage rel  clear      mark  misuse prune
    run_dfs(Cfg{"hist", T && !NG ? 6 : 5,      T && !NG ? 4 : 3, 0, AV_SMALL, {24},    false, 15, 1, true, 0x8 | 0x4, true,  false, false, 1}, 30);
    run_dfs(Cfg{"deep", (T ? 8 : 7) - (NG ? 1 : 0), 4,    0, AV_SMALL, {24},    false, 15, 2, true, 0xf,       true,  false, true, 2}, 60);
    run_dfs(Cfg{"unk",  T ? 10 : 8,            4,         0, AV_3,     {24},    false, 0,  0, true, 0x1,       false, true,  true}, 10);
    if (!NG) run_dfs(Cfg{"inl", T ? 7 : 6,     4,         1, AV_MED,   {1, 24}, false, 9,  1, true, 0x8,       false, false, true, 3}, 10);
    run_dfs(Cfg{"sep",  T ? 7 : 6,             4,         2, AV_MED,   {1, 24}, false, 9,  1, true, 0x8,       false, false, true, 3}, 10);
    run_dfs(Cfg{"destroyed", T ? 8 : 7,        4,         0, AV_3,     {24},    false, 9,  1, true, 0x8,       false, false, true, 1, false, true}, 10);
    // route 3: every allocating entry of the routing table, each with its reference kind and location
    const std::vector<AllocVar> AV_GLOB = {{K_NEW, 1, 0, false, F_PLAIN}, {K_ARR, 8, 1, false, F_PLAIN}, {K_NEW, 8, 2, false, F_NOTHROW}, {K_ARR, 1, 0, false, F_NOTHROW},
                                           {K_NEW, 1, 1, true, F_LOC}, {K_ARR, 8, 0, true, F_LOC}, {K_MAL, 8, 0, true, F_LOC}, {K_MAL, 1, 1, false, F_PLAIN}};
    std::vector<AllocVar> AV_GLOBFULL;     // + the int-line forms and calloc, every form in the first and in the last bucket
    {
        const int forms[11][2] = {{K_NEW, F_PLAIN}, {K_ARR, F_PLAIN}, {K_NEW, F_NOTHROW}, {K_ARR, F_NOTHROW}, {K_NEW, F_LOC}, {K_ARR, F_LOC}, {K_NEW, F_LOCINT}, {K_ARR, F_LOCINT},
                                  {K_MAL, F_PLAIN}, {K_MAL, F_LOC}, {K_MAL, F_CALLOC}};
        for (int b = 0; b < 2; b++) for (int f = 0; f < 11; f++) AV_GLOBFULL.push_back({forms[f][0], (f + b) % 2 ? (size_t)8 : (size_t)1, b ? 2 : 0, form_has_location(forms[f][1]), forms[f][1]});
    }
    run_dfs(Cfg{"glob", T && !NG ? 7 : 6,           4,         3, AV_GLOB,  {24},    true,  9,  1, true, 0x8,       false, false, true, 1, true}, 10);
    if (T && !NG) run_dfs(Cfg{"globfull", 5,   4,         3, AV_GLOBFULL, {1, 24}, true, 9, 1, true, 0x8,      false, false, true, 3, true}, 10);
    {
        int n = T && !NG ? 6 : 5;
        long N = factorial(n) * ipow(3, n);
        vf::info("chains.bound", vf::fmt("%d blocks (kinds new,new[],malloc and periods checking,enabled,disabled in rotation), every assignment to the three buckets, every release order; observed after every release", n));
        vf::section_index("chains", N, [&](long idx) { chains_case(n, 3, idx); });
        vf::require_outcomes("chains", 50);
        if (T && !NG) {
            long N7 = factorial(7) * ipow(2, 7);
            vf::info("chains7.bound", "7 blocks, every assignment to two buckets, every release order");
            vf::section_index("chains7", N7, [&](long idx) { chains_case(7, 2, idx); });
            vf::require_outcomes("chains7", 50);
        }
    }
    {
        int d = T ? 6 : 5;
        vf::info("rereport.bound", vf::fmt("depth %d over {new(1), free(h), report(all), report(checking), startChecking, free(foreign)}, live<=2, unpruned; the output buffer is never emptied by the harness", d));
        vf::section_dfs("rereport", 2, false, [&](vf::Chooser& ch) { rereport_scenario(ch, d); });
        vf::require_outcomes("rereport", 6);
        long NM = (long)MANY_NN * 3 * 4 * 3 * 4 * 2;
        vf::info("many.bound", "n outstanding blocks for n in 0..80,100,200,1000 x size {1,17,100} x family {new,new[],malloc,mixed} x layout {natural,all inline,all separate} x split over periods {all checking; half enabled/half checking; all enabled; quarter disabled + rest halved} x {as allocated, every second block freed}; report of each of the four periods from an emptied buffer; non-trivial = some report filled the 4 KB buffer and was cut");
        vf::section_index("many", NM, many_case);
        vf::require_outcomes("many", 40);
        vf::info("resat.bound", "3 kinds x 4 periods: one outstanding block, report(period) asked 60 times in a row");
        vf::section_index("resat", 12, resat_case);
        vf::require_outcomes("resat", 12);
    }
    return vf::finish();
}

/* c19_prog.h - check C19: a mocking scenario as a plain-C "program" that two interpreters execute:
 *   c19_run_c   (c19_capi.c, compiled as C)   through mock_c() / mock_scope_c() and the C function tables
 *   c19_run_cpp (c19_cmock.cpp)               through mock() / MockExpectedCall / MockActualCall
 * Both record one observation per operation. The harness compares the two records (differential oracle). */
#ifndef C19_PROG_H
#define C19_PROG_H
#include <stddef.h>

#ifdef __cplusplus
extern "C" {
#endif

/* value kinds (parameters, return values, getters, data store) */
enum {
    C19_BOOL, C19_INT, C19_UINT, C19_LONG, C19_ULONG, C19_LL, C19_ULL, C19_DOUBLE, C19_STRING, C19_PTR, C19_CPTR, C19_FPTR,
    C19_NGETTERS,                      /* the 12 kinds above can be returned and read */
    C19_DOUBLE_TOL = C19_NGETTERS,     /* expectation only: double with tolerance */
    C19_MEMBUF, C19_OBJ, C19_COBJ,     /* memory buffer; custom type (name in op.type); const object (data store) */
    C19_NKINDS
};

typedef void (*c19_fn)(void);

typedef struct c19_val {
    int kind;
    long long i;             /* BOOL (any int: the C interface takes an int), INT, LONG, LL */
    unsigned long long u;    /* UINT, ULONG, ULL */
    double d, tol;           /* DOUBLE, DOUBLE_TOL */
    const char* s;           /* STRING */
    void* p;                 /* PTR, CPTR, OBJ, COBJ, MEMBUF (bytes) */
    c19_fn fp;               /* FPTR */
    size_t size;             /* MEMBUF */
} c19_val;

enum {
    /* operations on a mock support object; op.scope == NULL: mock_c() / mock(), else mock_scope_c(scope) / mock(scope) */
    C19_STRICT, C19_EXPECT_ONE, C19_EXPECT_N, C19_EXPECT_NONE, C19_ACTUAL,
    C19_S_HAS, C19_S_RETVAL, C19_S_GET, C19_S_GETDEF,
    C19_SETDATA, C19_GETDATA,
    C19_DISABLE, C19_ENABLE, C19_IOC, C19_CHECK, C19_LEFT, C19_CLEAR, C19_CRASHONFAIL,
    C19_INSTALL_CMP, C19_INSTALL_CPY, C19_REMOVE_ALL,
    C19_SELECT,              /* obtain a support handle once: H = mock_c() / mock_scope_c(scope); ops with scope == C19_KEPT use H */
    /* operations on the handle returned by the last expectOneCall / expectNCalls */
    C19_E_PARAM, C19_E_OUT, C19_E_OUT_TYPED, C19_E_UNMOD, C19_E_IGNORE, C19_E_RET,
    /* operations on the handle returned by the last actualCall */
    C19_A_PARAM, C19_A_OUT, C19_A_OUT_TYPED, C19_A_HAS, C19_A_RETVAL, C19_A_GET, C19_A_GETDEF,
    C19_NOPS
};

typedef struct c19_op {
    int code;
    const char* scope;
    const char* name;        /* function, parameter or data name */
    const char* type;        /* custom type name */
    unsigned n;              /* EXPECT_N: count; CRASHONFAIL: flag; INSTALL_*: which function set (0: T, 1: U, 2: re-entrant R) */
    int kind;                /* getter kind for *_GET / *_GETDEF */
    int slot;                /* A_OUT*: destination slot */
    c19_val v;               /* parameter / return value / default / data; E_OUT: p = source bytes, size */
} c19_op;

/* scope value of a support-level operation that goes through the handle obtained by the last C19_SELECT, without
 * selecting a scope again (C: the kept MockSupport_c*, C++: the kept MockSupport&) */
#define C19_KEPT ((const char*)1)

#define C19_TAG_NONE (-1)
typedef struct c19_obs {
    int done;                /* the operation returned (was not aborted by a test failure) */
    int tag;                 /* RETVAL / GETDATA: MockValueType_c numbering; getters: C19_TAG_NONE */
    long long i;
    unsigned long long u;
    unsigned long long dbits;  /* bit pattern of a double */
    const void* p;           /* pointers, including the address of a returned string */
    c19_fn fp;
    int has_s;               /* a non-NULL string was returned; s = its first bytes */
    char s[24];
} c19_obs;

#define C19_NSLOTS 4
#define C19_SLOTSIZE 16
#define C19_MAXOPS 40

/* custom types used by the scenarios: real C functions, installed through the C table by the C back end and through
 * adaptor objects (the C++ way of installing a comparator/copier) by the C++ back end */
typedef struct c19_T { int key; int other; } c19_T;
int c19_T_equal(const void* a, const void* b);              /* compares key */
const char* c19_T_tostring(const void* a);
void c19_T_copy(void* dst, const void* src);                 /* copies the whole struct */
int c19_U_equal(const void* a, const void* b);              /* compares other */
const char* c19_U_tostring(const void* a);
void c19_U_copy(void* dst, const void* src);                 /* copies only 'other' */

/* re-entrant custom type R (function set 2): like T, but each callback may make a complete nested mocked call
 * mock(scope "n").actualCall("h").withParameter("x", 1).returnIntValueOrDefault(-5) through the interface of the back end
 * that installed it: the C functions below through mock_scope_c(), the C++ objects of the harness through mock(). */
typedef struct c19_nest_cfg { int in_equal, in_tostring, in_copy; } c19_nest_cfg;
extern c19_nest_cfg c19_nest;            /* which callbacks nest (set by the harness per program) */
extern int c19_nest_calls;               /* log: number of nested calls made, */
extern long long c19_nest_sum;           /*      sum over (position * value returned to the nested call) */
void c19_nest_log(long long returned);
int c19_R_equal(const void* a, const void* b);
const char* c19_R_tostring(const void* a);
void c19_R_copy(void* dst, const void* src);

/* C back end */
void c19_run_c(const c19_op* ops, int from, int to, c19_obs* obs, unsigned char (*out)[C19_SLOTSIZE]);
void c19_c_reset(int normalise_current_calls);
                             /* leaves the C layer in a defined state: comparator list empty, crashOnFailure off and, if asked,
                                'current' actual/expected call = the library's static "ignored call" objects (otherwise the
                                two static pointers behind the tables keep whatever the process did before) */

#ifdef __cplusplus
}
#endif
#endif

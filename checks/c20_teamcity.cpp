// C20 - TeamCity output is a balanced, correctly escaped service-message stream.
//
// Programs of scripted tests (groups, names, files, pass / fail / fail in helper / fail in another file / two
// failures / ignored / filtered / throws) are run through the real TestRegistry::runAllTests with the real
// TeamCityTestOutput (and through the real CommandLineTestRunner with -oteamcity). The bytes that reach
// PlatformSpecificFPuts are decoded by a service-message decoder written here from the TeamCity rules
// (independent of the library's printEscaped), then judged by (1) the grammar, (2) a pairing automaton that
// knows nothing about the program, (3) the event sequence and the original texts of the program.
#include <string>
#include <vector>
#include <map>
#include <set>
#include <memory>
#include <stdexcept>
#include <cstring>
#include <cctype>
#include <new>
#define VF_MAIN
#include "vf.h"
#include "CppUTest/TestHarness.h"
#include "CppUTest/TestRegistry.h"
#include "CppUTest/TestOutput.h"
#include "CppUTest/TestFailure.h"
#include "CppUTest/TeamCityTestOutput.h"
#include "CppUTest/CommandLineTestRunner.h"
#include "CppUTest/PlatformSpecificFunctions.h"
#undef new

namespace {

// =============================================================== capture seams
std::string g_stream;
void fputs_capture(const char* s, PlatformSpecificFile) { g_stream += s; }
void flush_nop() {}
unsigned long g_clock;
unsigned long fake_time() { g_clock += 3; return g_clock; }
const char* timestr_fixed() { return "1970-01-01T00:00:00"; }

// =============================================================== program
enum ActType { A_NONE = 0, A_FAIL, A_STRCMP, A_CHECKTEXT, A_THROW };
struct Act { int type = A_NONE; std::string file; size_t line = 0; std::string a, b; bool cstyle = false; /* leave the test by longjmp (C-style check) instead of an exception */ };
struct TSpec {
    std::string group, name, file; size_t line = 10; bool ignored = false;
    Act body, teardown; const char* label = "";
    bool filtered() const { return name.compare(0, 6, "skipme") == 0; }
};
struct Program {
    std::vector<TSpec> tests; bool run_ignored = false; int verbosity = 0; int repeat = 1; bool via_runner = false;
};
const Program* g_prog;

void perform(const Act& a) {
    UtestShell* cur = UtestShell::getCurrent();
    switch (a.type) {
    case A_FAIL:
        if (a.cstyle) cur->fail(a.a.c_str(), a.file.c_str(), a.line, TestTerminatorWithoutExceptions());
        else cur->fail(a.a.c_str(), a.file.c_str(), a.line);
        break;
    case A_STRCMP: cur->assertCstrEqual(a.a.c_str(), a.b.c_str(), NULLPTR, a.file.c_str(), a.line); break;
    case A_CHECKTEXT: cur->assertTrue(false, "CHECK", "cond", a.a.c_str(), a.file.c_str(), a.line); break;
#if CPPUTEST_HAVE_EXCEPTIONS
    case A_THROW: throw std::runtime_error(a.a);
#endif
    default: break;
    }
}
struct ScriptTest : Utest {
    int idx;
    explicit ScriptTest(int i) : idx(i) {}
    void testBody() override { perform(g_prog->tests[idx].body); }
    void teardown() override { perform(g_prog->tests[idx].teardown); }
};
template <class Base> struct ScriptShellT : Base {
    int idx;
    ScriptShellT(int i, const TSpec& t) : Base(t.group.c_str(), t.name.c_str(), t.file.c_str(), t.line), idx(i) {}
    Utest* createTest() override { return new ScriptTest(idx); }
};

// the real TeamCityTestOutput; only remembers what the failure objects said (ground truth for library-composed messages)
struct RecFailure { std::string name, file, tfile, message; size_t line, tline; };
struct RecTC : TeamCityTestOutput {
    std::vector<RecFailure>* rec;
    explicit RecTC(std::vector<RecFailure>* r) : rec(r) {}
    void printFailure(const TestFailure& f) override {
        rec->push_back(RecFailure{f.getTestNameOnly().asCharString(), f.getFileName().asCharString(), f.getTestFileName().asCharString(),
                                  f.getMessage().asCharString(), f.getFailureLineNumber(), f.getTestLineNumber()});
        TeamCityTestOutput::printFailure(f);
    }
};
struct RecRunner : CommandLineTestRunner {
    std::vector<RecFailure>* rec;
    RecRunner(int ac, const char* const* av, TestRegistry* reg, std::vector<RecFailure>* r) : CommandLineTestRunner(ac, av, reg), rec(r) {}
    TestOutput* createTeamCityOutput() override { return new RecTC(rec); }
};

// =============================================================== independent decoder (TeamCity service messages)
//   ##teamcity[<name> <key>='<value>' ...]     inside a value: |' -> '  || -> |  |[ -> [  |] -> ]  |n -> LF  |r -> CR
//   a raw ' ends the value; raw [ ] LF CR inside a value are not allowed (they must carry a | by the rules)
struct Attr { std::string key, value; };
struct Msg { std::string type; std::vector<Attr> attrs; size_t pos; bool line_start;
    const std::string* get(const char* k) const { for (auto& a : attrs) if (a.key == k) return &a.value; return nullptr; } };
struct PErr { std::string type, attr, what; size_t pos; };
// attribute names in signatures: the four the writer uses, anything else (it came out of a broken value) is "unknown-attribute"
std::string attr_sig(const std::string& k) { return (k == "name" || k == "message" || k == "details" || k == "duration") ? k : "unknown-attribute"; }
bool ident(char c) { return isalnum((unsigned char)c) || c == '_' || c == '-' || c == '.'; }

void decode_stream(const std::string& s, std::vector<Msg>& msgs, std::vector<PErr>& errs) {
    static const std::string M = "##teamcity[";
    size_t from = 0;
    for (;;) {
        size_t p = s.find(M, from);
        if (p == std::string::npos) break;
        size_t i = p + M.size();
        Msg m; m.pos = p; m.line_start = (p == 0 || s[p - 1] == '\n');
        std::string cur_attr; const char* bad = nullptr;
        while (i < s.size() && ident(s[i])) m.type += s[i++];
        if (m.type.empty()) bad = "no message name";
        while (!bad) {
            size_t sp = 0; while (i < s.size() && s[i] == ' ') { i++; sp++; }
            if (i >= s.size()) { bad = "stream ends inside the message"; break; }
            if (s[i] == ']') { i++; break; }
            if (sp == 0) { bad = "text directly behind a closed value (the value ended early)"; break; }
            std::string key; while (i < s.size() && ident(s[i])) key += s[i++];
            if (key.empty()) { bad = "attribute name expected"; break; }
            if (i >= s.size() || s[i] != '=') { bad = "'=' expected behind the attribute name"; break; }
            i++;
            if (i >= s.size() || s[i] != '\'') { bad = "opening quote expected"; break; }
            i++;
            cur_attr = key;
            std::string v;
            for (;;) {
                if (i >= s.size()) { bad = "stream ends inside a value"; break; }
                char c = s[i];
                if (c == '\'') { i++; break; }
                if (c == '|') {
                    char e = i + 1 < s.size() ? s[i + 1] : 0;
                    if (e == '\'' || e == '|' || e == '[' || e == ']') v += e;
                    else if (e == 'n') v += '\n';
                    else if (e == 'r') v += '\r';
                    else { bad = "| followed by a character that is not an escape"; break; }
                    i += 2; continue;
                }
                if (c == '[' || c == ']') { bad = "raw bracket inside a value"; break; }
                if (c == '\n' || c == '\r') { bad = "raw line break inside a value"; break; }
                v += c; i++;
            }
            if (bad) break;
            m.attrs.push_back(Attr{key, v});
        }
        if (!bad && i < s.size() && s[i] != '\n') { bad = "text behind the closing bracket on the same line"; if (!m.attrs.empty()) cur_attr = m.attrs.back().key; }
        if (bad) { errs.push_back(PErr{m.type, cur_attr, bad, p}); from = p + M.size(); continue; }
        msgs.push_back(m);
        from = i;
    }
}

// =============================================================== reference
enum { SUITE_START = 0, SUITE_END, T_START, T_IGN, T_FAIL, T_END, NTYPES };
const char* TYPE_NAME[] = {"testSuiteStarted", "testSuiteFinished", "testStarted", "testIgnored", "testFailed", "testFinished"};
int type_of(const std::string& t) { for (int i = 0; i < NTYPES; i++) if (t == TYPE_NAME[i]) return i; return -1; }

struct Exp { int type; std::string name; std::string file, tfile; size_t line = 0, tline = 0; std::string details; bool composed = false; };

std::vector<Exp> expected_events(const Program& p) {
    std::vector<Exp> ev;
    size_t n = p.tests.size();
    for (int rep = 0; rep < p.repeat; rep++) {
        size_t i = 0;
        while (i < n) {
            size_t j = i; while (j + 1 < n && p.tests[j + 1].group == p.tests[i].group) j++;
            Exp s; s.type = SUITE_START; s.name = p.tests[i].group; ev.push_back(s);
            for (size_t t = i; t <= j; t++) {
                const TSpec& ts = p.tests[t];
                if (ts.filtered()) continue;
                Exp e; e.type = T_START; e.name = ts.name; ev.push_back(e);
                if (ts.ignored && !p.run_ignored) { e.type = T_IGN; ev.push_back(e); }
                else {
                    const Act* acts[2] = {&ts.body, &ts.teardown};
                    for (const Act* a : acts) {
                        if (a->type == A_NONE) continue;
                        Exp f; f.type = T_FAIL; f.name = ts.name; f.tfile = ts.file; f.tline = ts.line;
                        if (a->type == A_THROW) { f.file = ts.file; f.line = ts.line; f.composed = true; }
                        else { f.file = a->file; f.line = a->line; f.composed = a->type != A_FAIL; f.details = a->a; }
                        ev.push_back(f);
                    }
                }
                e.type = T_END; ev.push_back(e);
            }
            s.type = SUITE_END; ev.push_back(s);
            i = j + 1;
        }
    }
    return ev;
}

std::string show(const std::string& raw);
std::string render(const Program& p) {
    std::string o;
    for (auto& t : p.tests) {
        o += "{group=\"" + show(t.group) + "\" test=\"" + show(t.name) + "\" at \"" + show(t.file) + "\":" + std::to_string(t.line) + " " + t.label;
        const Act* acts[2] = {&t.body, &t.teardown};
        for (int k = 0; k < 2; k++) if (acts[k]->type != A_NONE) {
            const Act& a = *acts[k];
            o += k ? " teardown:" : " body:";
            if (a.type == A_THROW) o += "throw(\"" + show(a.a) + "\")";
            else o += std::string(a.type == A_FAIL ? "FAIL" : a.type == A_STRCMP ? "STRCMP_EQUAL" : "CHECK_TEXT") + "(\"" + show(a.a) + "\"" + (a.type == A_STRCMP ? ",\"" + show(a.b) + "\"" : "") + ") at \"" + show(a.file) + "\":" + std::to_string(a.line);
        }
        o += "} ";
    }
    if (p.run_ignored) o += "run-ignored ";
    if (p.verbosity) o += p.verbosity == 1 ? "-v " : "-vv ";
    if (p.repeat > 1) o += "x" + std::to_string(p.repeat) + " ";
    o += p.via_runner ? "via runner" : "via registry";
    return o;
}
// printable rendering with long runs of one character folded: aaaaaaaaaaaa -> a{12}
std::string show(const std::string& raw) {
    std::string e = vf::esc(raw), o;
    for (size_t i = 0; i < e.size();) {
        size_t j = i; while (j < e.size() && e[j] == e[i]) j++;
        if (j - i >= 8 && e[i] != '\\') { o += e[i]; o += "{" + std::to_string(j - i) + "}"; }
        else o.append(e, i, j - i);
        i = j;
    }
    return o;
}
std::string clip(const std::string& s, size_t n = 420) { return s.size() <= n ? s : s.substr(0, n) + "..."; }

// one failure per signature and case
struct Reporter {
    std::set<std::string> seen; const std::string& desc; const std::string& stream;
    void fail(const std::string& sig, const std::string& what) {
        if (!seen.insert(sig).second) return;
        vf::fail(sig, what + " | program: " + clip(desc, 600) + " | stream: " + clip(show(stream), 700));
    }
};

void drop_empty_suites(std::vector<std::pair<int, std::string>>& v) {
    std::vector<std::pair<int, std::string>> o;
    for (size_t i = 0; i < v.size(); i++) {
        if (v[i].first == SUITE_START && i + 1 < v.size() && v[i + 1].first == SUITE_END && v[i + 1].second == v[i].second) { i++; continue; }
        o.push_back(v[i]);
    }
    v.swap(o);
}

// returns the number of decoded messages
size_t judge(const Program& p, const std::string& stream, const std::vector<RecFailure>& rec, const std::string& desc) {
    Reporter R{{}, desc, stream};
    std::vector<Msg> msgs; std::vector<PErr> errs;
    decode_stream(stream, msgs, errs);
    // ---- 1. grammar
    for (auto& e : errs) {
        int t = type_of(e.type);
        std::string sig = t < 0 ? "stream/malformed-message" : e.attr.empty() ? std::string(TYPE_NAME[t]) + "/malformed" : std::string(TYPE_NAME[t]) + "." + attr_sig(e.attr) + "/breaks-message";
        R.fail(sig, vf::fmt("service message at offset %zu does not parse: %s", e.pos, e.what.c_str()));
    }
    if (!errs.empty()) return msgs.size();
    for (auto& m : msgs) {
        int t = type_of(m.type);
        if (t < 0) { R.fail("stream/unknown-message-type", "message type '" + vf::esc(m.type) + "' is none of the six the writer produces"); return msgs.size(); }
        // a required attribute is absent: the message was closed behind the last attribute it does have
        const char* missing = !m.get("name") ? "name" : (t == T_FAIL && !m.get("message")) ? "message" : (t == T_FAIL && !m.get("details")) ? "details" : nullptr;
        if (missing) {
            if (m.attrs.empty()) R.fail(std::string(TYPE_NAME[t]) + "/attribute-missing", vf::fmt("message at offset %zu has no attributes", m.pos));
            else R.fail(std::string(TYPE_NAME[t]) + "." + attr_sig(m.attrs.back().key) + "/breaks-message", vf::fmt("message at offset %zu is closed behind attribute '%s'; the required attribute '%s' is missing (the value terminated the message early)", m.pos, m.attrs.back().key.c_str(), missing));
            return msgs.size();
        }
        if (!m.line_start) vf::count("messages_not_at_line_start");
    }
    // ---- 2. pairing automaton (knows only the stream)
    {
        bool suite_open = false, test_open = false; std::string suite, test;
        for (auto& m : msgs) {
            int t = type_of(m.type); const std::string& nm = *m.get("name");
            switch (t) {
            case SUITE_START:
                if (test_open) R.fail("pairing/suite-started-inside-test", "testSuiteStarted '" + vf::esc(nm) + "' while test '" + vf::esc(test) + "' is open");
                else if (suite_open) R.fail("pairing/suite-started-inside-suite", "testSuiteStarted '" + vf::esc(nm) + "' while suite '" + vf::esc(suite) + "' is open");
                suite_open = true; suite = nm; break;
            case SUITE_END:
                if (test_open) R.fail("pairing/suite-finished-with-open-test", "testSuiteFinished '" + vf::esc(nm) + "' while test '" + vf::esc(test) + "' is open");
                if (!suite_open || suite != nm) R.fail("pairing/suite-finished-without-matching-start", "testSuiteFinished '" + vf::esc(nm) + "', open suite: " + (suite_open ? "'" + vf::esc(suite) + "'" : "none"));
                suite_open = false; test_open = false; break;
            case T_START:
                if (!suite_open) R.fail("pairing/test-started-outside-suite", "testStarted '" + vf::esc(nm) + "' with no open suite");
                if (test_open) R.fail("pairing/test-started-inside-test", "testStarted '" + vf::esc(nm) + "' while test '" + vf::esc(test) + "' is open");
                test_open = true; test = nm; break;
            case T_END:
                if (!test_open || test != nm) R.fail("pairing/test-finished-without-matching-start", "testFinished '" + vf::esc(nm) + "', open test: " + (test_open ? "'" + vf::esc(test) + "'" : "none"));
                test_open = false; break;
            case T_IGN:
                if (!test_open || test != nm) R.fail("pairing/test-ignored-outside-its-test", "testIgnored '" + vf::esc(nm) + "', open test: " + (test_open ? "'" + vf::esc(test) + "'" : "none"));
                break;
            case T_FAIL:
                if (!test_open || test != nm) R.fail("pairing/test-failed-outside-its-test", "testFailed '" + vf::esc(nm) + "', open test: " + (test_open ? "'" + vf::esc(test) + "'" : "none"));
                break;
            }
        }
        if (test_open) R.fail("pairing/stream-ends-with-open-test", "no testFinished for '" + vf::esc(test) + "'");
        if (suite_open) R.fail("pairing/stream-ends-with-open-suite", "no testSuiteFinished for '" + vf::esc(suite) + "'");
    }
    // ---- 3. the events of this program, in order, with the original texts
    std::vector<Exp> exp = expected_events(p);
    {   // library-composed messages: ground truth is what the k-th TestFailure object carried
        size_t k = 0;
        for (auto& e : exp) if (e.type == T_FAIL) { if (e.composed && k < rec.size()) e.details = rec[k].message; else if (e.composed) e.details = "<no failure object recorded>"; k++; }
    }
    std::vector<std::pair<int, std::string>> want, got; std::vector<size_t> want_ix, got_ix;
    for (auto& e : exp) want.push_back({e.type, e.name});
    for (auto& m : msgs) got.push_back({type_of(m.type), *m.get("name")});
    // type sequence first (suites without any reported test are accepted present or absent)
    {
        auto w = want, g = got; drop_empty_suites(w); drop_empty_suites(g);
        bool same_types = w.size() == g.size();
        for (size_t i = 0; same_types && i < w.size(); i++) if (w[i].first != g[i].first) same_types = false;
        if (!same_types) {
            long cw[NTYPES] = {0}, cg[NTYPES] = {0};
            for (auto& x : w) cw[x.first]++; for (auto& x : g) cg[x.first]++;
            bool reported = false;
            for (int t = 0; t < NTYPES; t++) if (cw[t] != cg[t]) {
                reported = true;
                R.fail(std::string(cg[t] < cw[t] ? "sequence/missing-" : "sequence/extra-") + TYPE_NAME[t], vf::fmt("%ld %s messages in the stream, the run has %ld", cg[t], TYPE_NAME[t], cw[t]));
            }
            if (!reported) R.fail("sequence/order", "same messages as the run, in another order");
            return msgs.size();
        }
        for (size_t i = 0; i < w.size(); i++) if (w[i].second != g[i].second) {
            R.fail(std::string(TYPE_NAME[w[i].first]) + ".name/decodes-to-other-text", vf::fmt("message %zu: name decodes to '", i) + show(g[i].second) + "', original '" + show(w[i].second) + "'" + vf::fmt(" (%zu bytes decoded, %zu original)", g[i].second.size(), w[i].second.size()));
        }
    }
    // failure attributes (k-th testFailed of the stream against the k-th failure of the run)
    {
        std::vector<const Msg*> fm; for (auto& m : msgs) if (type_of(m.type) == T_FAIL) fm.push_back(&m);
        size_t k = 0;
        for (auto& e : exp) if (e.type == T_FAIL) {
            if (k >= fm.size()) break;
            const Msg& m = *fm[k++];
            std::string loc = e.file + ":" + std::to_string(e.line);
            std::string with_test = "TEST failed (" + e.tfile + ":" + std::to_string(e.tline) + "): " + loc;
            const std::string& msg = *m.get("message");
            if (msg != loc && msg != with_test)
                R.fail("testFailed.message/decodes-to-other-text", "message decodes to '" + show(msg) + "', original '" + show(loc) + "' or '" + show(with_test) + "'");
            const std::string& det = *m.get("details");
            if (det != e.details)
                R.fail("testFailed.details/decodes-to-other-text", "details decode to '" + show(det) + "', original '" + show(e.details) + "'" + vf::fmt(" (%zu bytes decoded, %zu original)", det.size(), e.details.size()));
        }
    }
    return msgs.size();
}

// =============================================================== running a program
void run_program(const Program& p) {
    std::string desc = render(p);
    if (vf::want_sample()) vf::sample(desc);
    g_prog = &p; g_stream.clear(); g_clock = 0;
    std::vector<RecFailure> rec;
    {
        std::vector<std::unique_ptr<UtestShell>> shells;
        TestRegistry reg;
        for (size_t t = 0; t < p.tests.size(); t++) {
            if (p.tests[t].ignored) shells.emplace_back(new ScriptShellT<IgnoredUtestShell>((int)t, p.tests[t]));
            else shells.emplace_back(new ScriptShellT<UtestShell>((int)t, p.tests[t]));
        }
        for (size_t t = p.tests.size(); t-- > 0;) reg.addTest(shells[t].get());   // addTest prepends
        if (!p.via_runner) {
            vf::ctx("registry");
            TestFilter f("skipme"); f.invertMatching(); reg.setNameFilters(&f);
            if (p.run_ignored) reg.setRunIgnored();
            RecTC out(&rec);
            if (p.verbosity == 1) out.verbose(TestOutput::level_verbose);
            if (p.verbosity == 2) out.verbose(TestOutput::level_veryVerbose);
            for (int r = 0; r < p.repeat; r++) { TestResult result(out); reg.runAllTests(result); }
            reg.setNameFilters(nullptr);
        } else {
            vf::ctx("runner");
            std::vector<const char*> av = {"prog", "-oteamcity", "-e", "-xn", "skipme"};
            if (p.verbosity == 1) av.push_back("-v");
            if (p.verbosity == 2) av.push_back("-vv");
            if (p.run_ignored) av.push_back("-ri");
            std::string rarg = "-r" + std::to_string(p.repeat); if (p.repeat > 1) av.push_back(rarg.c_str());
            { RecRunner runner((int)av.size(), av.data(), &reg, &rec); runner.runAllTestsMain(); }
            UtestShell::setRethrowExceptions(false);
            reg.setNameFilters(nullptr); reg.setGroupFilters(nullptr);
        }
    }
    vf::ctx("judge");
    size_t n = judge(p, g_stream, rec, desc);
    vf::count("ops", (long)n);
    vf::count("executed");
}

// =============================================================== alphabets
// structure programs
enum Kind { K_PASS = 0, K_FAIL, K_HELPER, K_OUTSIDE, K_TWICE, K_IGN, K_IGN_FAIL, K_FILTERED,
#if CPPUTEST_HAVE_EXCEPTIONS
            K_THROWS,
#endif
            NK };
const char* KNAME[] = {"passes", "fails", "fails-in-helper", "fails-in-other-file", "fails-in-body-and-teardown", "IGNORED", "IGNORED(failing body)", "FILTERED-OUT", "throws"};
const char* GROUPS[] = {"G", "H|'x", "[I]\n"};
const char* NAMES[] = {"t0", "t'1", "t[2]", "t|3", "t4\n", "t5|n"};

TSpec make_test(int pos, int label, int kind) {
    TSpec t; t.group = GROUPS[label]; t.name = kind == K_FILTERED ? "skipme" + std::to_string(pos) : NAMES[pos % 6];
    t.file = "script.cpp"; t.line = 100 * (size_t)(pos + 1); t.label = KNAME[kind];
    auto fail_at = [&](Act& a, const char* file, size_t line, const char* msg) { a.type = A_FAIL; a.file = file; a.line = line; a.a = std::string(msg) + " in " + t.name; a.cstyle = kind != K_FAIL && kind != K_IGN_FAIL; };
    switch (kind) {
    case K_FAIL: fail_at(t.body, "script.cpp", t.line + 5, "it's [bad]"); break;
    case K_HELPER: fail_at(t.body, "script.cpp", 3, "helper said |no|\r\n"); break;
    case K_OUTSIDE: fail_at(t.body, "helper.cpp", t.line + 5, "elsewhere"); break;
    case K_TWICE: fail_at(t.body, "script.cpp", t.line + 5, "first"); fail_at(t.teardown, "script.cpp", t.line + 7, "second ']"); break;
    case K_IGN: t.ignored = true; break;
    case K_IGN_FAIL: t.ignored = true; fail_at(t.body, "script.cpp", t.line + 5, "ignored body ran"); break;
#if CPPUTEST_HAVE_EXCEPTIONS
    case K_THROWS: t.body.type = A_THROW; t.body.a = "it's thrown [" + t.name + "]"; break;
#endif
    default: break;
    }
    return t;
}
// choose a sequence of at most maxlen tests; group labels in restricted-growth form (a new group name is always the next unused one)
void choose_sequence(vf::Chooser& ch, Program& p, int maxlen, int maxlabels = 3) {
    int used = 0;
    for (int pos = 0; pos < maxlen; pos++) {
        int labels = used < maxlabels ? used + 1 : maxlabels;
        int c = ch.choose(1 + labels * NK);
        if (c == 0) break;
        int label = (c - 1) / NK, kind = (c - 1) % NK;
        if (label == used) used++;
        p.tests.push_back(make_test(pos, label, kind));
    }
}
void structure_outcome(const Program& p) {
    std::vector<Exp> ev = expected_events(p);
    int c[NTYPES] = {0}; for (auto& e : ev) c[e.type]++;
    auto cap = [](int v) { return v > 2 ? 2 : v; };
    vf::outcome(vf::fmt("suites=%d tests=%d ignored=%d failed=%d", cap(c[SUITE_START]), cap(c[T_START]), cap(c[T_IGN]), cap(c[T_FAIL])));
    if (c[T_FAIL] || c[T_IGN] || c[SUITE_START] > p.repeat) vf::count("nontrivial");
}

// text programs: one group with a failing test and an ignored test of the same name
const char* ATOMS[] = {"a", "'", "|n", "]", "\n", "' x='", "|", "[", "\r", "||", "']", "|'", "a|", "\r\n", "']\n##teamcity[testFinished name='x']\n", "\\\" \t%s"};
const int NATOMS = (int)(sizeof ATOMS / sizeof *ATOMS);
const char SIGMA[] = {'a', 'n', '\'', '|', '[', ']', '\n', '\r'};
const int NSIGMA = 8;
enum { F_GROUP = 0, F_NAME, F_TFILE, F_FFILE, F_MSG, NFIELDS };
const char* FIELD_NAME[] = {"group", "test", "test-file", "failure-file", "message"};
const char* FIELD_DEFAULT[] = {"Grp", "tst", "dir/test.cpp", "dir/other.cpp", "failure message"};
const char* LOCKIND[] = {"fails", "fails-in-helper", "fails-in-other-file"};

Program text_program(const std::string f[NFIELDS], int lockind) {
    Program p;
    TSpec t; t.group = f[F_GROUP]; t.name = f[F_NAME]; t.file = f[F_TFILE]; t.line = 10; t.label = LOCKIND[lockind];
    t.body.type = A_FAIL; t.body.a = f[F_MSG]; t.body.cstyle = true;
    t.body.file = lockind == 2 ? f[F_FFILE] : f[F_TFILE];
    t.body.line = lockind == 1 ? 5 : 20;
    p.tests.push_back(t);
    TSpec ig; ig.group = f[F_GROUP]; ig.name = f[F_NAME]; ig.file = f[F_TFILE]; ig.line = 30; ig.ignored = true; ig.label = "IGNORED";
    p.tests.push_back(ig);
    return p;
}
bool needs_escape(const std::string& s) { return s.find_first_of("'|[]\n\r") != std::string::npos; }
void text_outcome(bool special) {
    // which escapes the stream carries
    const char* E[] = {"|'", "||", "|[", "|]", "|n", "|r"};
    std::string o;
    for (auto e : E) o += g_stream.find(e) != std::string::npos ? '1' : '0';
    vf::outcome("escapes(' | [ ] n r)=" + o);
    if (special) vf::count("nontrivial");
}
// the idx-th non-empty string over SIGMA in length-lexicographic order (idx 0 = "a"); -1 = empty string
std::string sigma_string(long idx) {
    if (idx < 0) return "";
    int len = 1; long block = NSIGMA;
    while (idx >= block) { idx -= block; block *= NSIGMA; len++; }
    std::string s((size_t)len, 'a');
    for (int i = len - 1; i >= 0; i--) { s[(size_t)i] = SIGMA[idx % NSIGMA]; idx /= NSIGMA; }
    return s;
}
long sigma_count(int maxlen) { long n = 0, b = 1; for (int i = 0; i < maxlen; i++) { b *= NSIGMA; n += b; } return n; }

} // namespace

int main(int argc, char** argv) {
    vf::init(argc, argv, "C20");
    MemoryLeakWarningPlugin::turnOffNewDeleteOverloads();
    PlatformSpecificFPuts = fputs_capture; PlatformSpecificFlush = flush_nop;
    GetPlatformSpecificTimeInMillis = fake_time; GetPlatformSpecificTimeString = timestr_fixed;
    bool T = vf::thorough();
    vf::info("rule", "scripted test programs run through the real registry / command line runner with the real TeamCityTestOutput; the bytes reaching the console seam are decoded by an independent service-message decoder and judged by grammar, a program-blind pairing automaton, and the program's own event sequence and original texts. Non-trivial: structure case = has a failure, an ignored test or more than one suite; text case = a swept field contains a character that needs escaping");

    {
        int L = 4;
        vf::info("runs.bound", vf::fmt("every sequence of 0..%d tests; per test: group name in restricted-growth form over 3 names (special characters included) x %d kinds (pass, fail, fail in helper above the test, fail in another file, fail in body and teardown, ignored, ignored with failing body, filtered out, throws std::runtime_error); distinct test names with special characters; registry, quiet, once", L, (int)NK));
        vf::section_dfs("runs", 2, false, [&](vf::Chooser& ch) {
            Program p; choose_sequence(ch, p, L);
            run_program(p); structure_outcome(p);
        });
        vf::require_outcomes("runs", 12);
    }
    if (T) {
        vf::info("runs5.bound", "every sequence of exactly 5 tests, group names in restricted-growth form over 2 names, same 9 kinds; registry, quiet, once");
        vf::section_dfs("runs5", 2, false, [&](vf::Chooser& ch) {
            Program p; choose_sequence(ch, p, 5, 2);
            if (p.tests.size() < 5) { vf::count("skipped_shorter_covered_by_runs"); return; }
            run_program(p); structure_outcome(p);
        });
        vf::require_outcomes("runs5", 12);
    }
    {
        int L = T ? 3 : 2;
        vf::info("modes.bound", vf::fmt("every sequence of 0..%d tests (same alphabet as runs) x run-ignored {off,on} x verbosity {quiet,-v,-vv} x repetitions {1,2} x {registry, CommandLineTestRunner -oteamcity}", L));
        vf::section_dfs("modes", 3, false, [&](vf::Chooser& ch) {
            Program p;
            p.via_runner = ch.choose(2); p.run_ignored = ch.choose(2); p.verbosity = ch.choose(3); p.repeat = 1 + ch.choose(2);
            choose_sequence(ch, p, L);
            run_program(p); structure_outcome(p);
        });
        vf::require_outcomes("modes", 8);
    }
    {
        int L = T ? 5 : 4;
        long per = sigma_count(L) + 1;    // + empty string
        vf::info("singles.bound", vf::fmt("one field of {group, test name, test file, failure file, message} = every string of length 0..%d over {a n ' | [ ] LF CR} (%ld strings; the empty group name is excluded), the other fields plain, x failure location {in the test, in a helper above the test, in another file}; program = failing test + ignored test of the same name in one group", L, per));
        vf::section_index("singles", per * NFIELDS * 3, [&](long idx) {
            vf::Radix r(idx); long si = r.take(per) - 1; int field = (int)r.take(NFIELDS); int lk = (int)r.take(3);
            if (field == F_FFILE && lk != 2) { vf::count("skipped_field_unused"); return; }
            if (field == F_GROUP && si < 0) { vf::count("skipped_empty_group"); return; }
            std::string f[NFIELDS]; for (int i = 0; i < NFIELDS; i++) f[i] = FIELD_DEFAULT[i];
            f[field] = sigma_string(si);
            Program p = text_program(f, lk);
            run_program(p); text_outcome(needs_escape(f[field]));
        });
        vf::require_outcomes("singles", 20);
    }
    {
        long A2 = (long)NATOMS * NATOMS;
        vf::info("pairs.bound", vf::fmt("every pair of the five fields x every ordered pair of %d atoms (a ' |n ] LF \"' x='\" | [ CR || '] |' a| CRLF, a complete injected message, backslash-quote-tab-%%s), other fields plain, x 3 failure locations", NATOMS));
        vf::section_index("pairs", 10 * A2 * 3, [&](long idx) {
            vf::Radix r(idx); int a = (int)r.take(NATOMS), b = (int)r.take(NATOMS); int pr = (int)r.take(10); int lk = (int)r.take(3);
            int f1 = 0, f2 = 1; { int k = 0; for (int i = 0; i < NFIELDS; i++) for (int j = i + 1; j < NFIELDS; j++) { if (k == pr) { f1 = i; f2 = j; } k++; } }
            std::string f[NFIELDS]; for (int i = 0; i < NFIELDS; i++) f[i] = FIELD_DEFAULT[i];
            f[f1] = ATOMS[a]; f[f2] = ATOMS[b];
            Program p = text_program(f, lk);
            run_program(p); text_outcome(needs_escape(f[f1]) || needs_escape(f[f2]));
        });
        vf::require_outcomes("pairs", 20);
    }
    {
        int NA = T ? 10 : 6;
        long N = 1; for (int i = 0; i < NFIELDS; i++) N *= NA;
        vf::info("all5.bound", vf::fmt("all five fields at once: every 5-tuple over the first %d atoms x 3 failure locations", NA));
        vf::section_index("all5", N * 3, [&](long idx) {
            vf::Radix r(idx); std::string f[NFIELDS]; bool sp = false;
            for (int i = 0; i < NFIELDS; i++) { f[i] = ATOMS[r.take(NA)]; sp = sp || needs_escape(f[i]); }
            int lk = (int)r.take(3);
            Program p = text_program(f, lk);
            run_program(p); text_outcome(sp);
        });
        vf::require_outcomes("all5", 8);
    }
    {
        // long values: a writer that buffers or chunks its output has positions where an escape pair does not fit
        const int LEN = 270, OFFS = 261;
        static const char SPECIAL[6] = {'\'', '|', '[', ']', '\n', '\r'};
        // (field, failure location) combinations in which the field is written through the escaping path
        static const int COMBO[7][2] = {{F_GROUP, 0}, {F_NAME, 0}, {F_MSG, 0}, {F_TFILE, 0}, {F_TFILE, 1}, {F_TFILE, 2}, {F_FFILE, 2}};
        const long NA = 7L * 6 * OFFS, NB = 7L * 36 * (OFFS - 1), NCC = 7L * 36 * (OFFS - 1);
        vf::info("long.bound", vf::fmt("values of %d bytes ('a' filler) in each of the five fields (test file with all 3 failure locations, failure file in another file): family A = one special of {' | [ ] LF CR} at EVERY offset 0..%d; family B = one special (all 6) at offset 0 plus one special (all 6) at every offset 1..%d; family C = two adjacent specials (all 36 ordered pairs) at every offset pair (i,i+1), i = 0..%d; %ld programs, complete", LEN, OFFS - 1, OFFS - 1, OFFS - 2, NA + NB + NCC));
        vf::section_index("long", NA + NB + NCC, [&](long idx) {
            int fam; if (idx < NA) fam = 0; else if (idx < NA + NB) { fam = 1; idx -= NA; } else { fam = 2; idx -= NA + NB; }
            vf::Radix r(idx);
            int combo = (int)r.take(7); int s1 = (int)r.take(6); int s2 = fam == 0 ? 0 : (int)r.take(6);
            int off = (int)r.take(fam == 0 ? OFFS : OFFS - 1);
            std::string v((size_t)LEN, 'a');
            if (fam == 0) v[(size_t)off] = SPECIAL[s1];
            else if (fam == 1) { v[0] = SPECIAL[s2]; v[(size_t)off + 1] = SPECIAL[s1]; }
            else { v[(size_t)off] = SPECIAL[s1]; v[(size_t)off + 1] = SPECIAL[s2]; }
            std::string f[NFIELDS]; for (int i = 0; i < NFIELDS; i++) f[i] = FIELD_DEFAULT[i];
            f[COMBO[combo][0]] = v;
            Program p = text_program(f, COMBO[combo][1]);
            run_program(p);
            vf::outcome(vf::fmt("family %c field %s", 'A' + fam, FIELD_NAME[COMBO[combo][0]]));
            text_outcome(true);
        });
        vf::require_outcomes("long", 15);
    }
    {
        const int NC = CPPUTEST_HAVE_EXCEPTIONS ? 3 : 2;
        vf::info("composed.bound", vf::fmt("messages composed by the library: STRCMP_EQUAL(exp+a, act+b), CHECK_TEXT(user text a; test name b)%s; every ordered pair of the %d atoms x 3 failure locations; ground truth for details = the text carried by the TestFailure object", NC == 3 ? ", std::runtime_error(a) thrown (test name b)" : "", NATOMS));
        vf::section_index("composed", (long)NC * NATOMS * NATOMS * 3, [&](long idx) {
            vf::Radix r(idx); int a = (int)r.take(NATOMS), b = (int)r.take(NATOMS); int c = (int)r.take(NC); int lk = (int)r.take(3);
            std::string f[NFIELDS]; for (int i = 0; i < NFIELDS; i++) f[i] = FIELD_DEFAULT[i];
            if (c != 0) f[F_NAME] = ATOMS[b];
            Program p = text_program(f, lk);
            Act& act = p.tests[0].body;
            if (c == 0) { act.type = A_STRCMP; act.a = std::string("exp") + ATOMS[a]; act.b = std::string("act") + ATOMS[b]; }
            else if (c == 1) { act.type = A_CHECKTEXT; act.a = ATOMS[a]; }
            else { act.type = A_THROW; act.a = ATOMS[a]; }
            run_program(p); text_outcome(true);
        });
        vf::require_outcomes("composed", 8);
    }
    return vf::finish();
}

// c19_state.cpp - check C19: histories. 'modes' enumerates every sequence of mock operations up to a depth (strict
// order, expectations in two scopes, actual calls, reads through the call handle and the support object, ignoreOtherCalls,
// disable/enable, checkExpectations, expectedCallsLeft, clear, data store, crashOnFailure). 'stale' and 'cmpscope'
// execute scenarios in which the C layer's static state (current actual call, list of comparator adaptors) is what the
// scenario is about; they run each case in a forked child so that a crash of the C back end is an observation.
#include <vector>
#include <string>
#include "vf.h"
#include "fixture.h"
#include "c19_sections.h"

namespace c19 {

namespace {

// ---------------------------------------------------------------- forked differential execution
struct Shared { Result cpp, c; volatile int stage; };

struct ForkOutcome { bool crashed = false; int stage = 0; std::string mode, first_line; };

ForkOutcome run_forked(const Program& p, Shared* sh) {
    ForkOutcome fo;
    memset(sh, 0, sizeof *sh);
    std::string ef = vf::tmpdir() + vf::fmt("/c19-child-%d.err", (int)getpid());
    fflush(stdout); fflush(stderr);
    pid_t pid = fork();
    if (pid < 0) vf::harness_error("fork failed");
    if (pid == 0) {
        int efd = open(ef.c_str(), O_WRONLY | O_CREAT | O_TRUNC, 0644);
        if (efd >= 0) { dup2(efd, 2); close(efd); }
        execute(p, false, sh->cpp); sh->stage = 1;
        execute(p, true, sh->c); sh->stage = 2;
        _exit(0);
    }
    int st = 0; double t0 = vf::now_s(); bool killed = false;
    for (;;) {
        pid_t r = waitpid(pid, &st, WNOHANG);
        if (r == pid) break;
        if (r < 0 && errno != EINTR) vf::harness_error("waitpid failed");
        if (vf::now_s() - t0 > 60) { kill(pid, SIGKILL); waitpid(pid, &st, 0); killed = true; break; }
        usleep(200);
    }
    fo.stage = sh->stage;
    if (killed) { fo.crashed = true; fo.mode = "hang"; }
    else if (!(WIFEXITED(st) && WEXITSTATUS(st) == 0)) {
        if (WIFEXITED(st) && WEXITSTATUS(st) == 2) vf::harness_error("harness error in forked case: " + vf::read_file(ef).substr(0, 300));
        fo.crashed = true;
        std::string err = vf::read_file(ef);
        fo.mode = vf::classify_stderr(err);
        if (fo.mode.empty()) fo.mode = WIFSIGNALED(st) ? vf::fmt("signal:%d", WTERMSIG(st)) : vf::fmt("exit:%d", WEXITSTATUS(st));
        size_t e = err.find("ERROR"); if (e == std::string::npos) e = err.find("runtime error"); if (e == std::string::npos) e = 0;
        fo.first_line = err.substr(e, err.find('\n', e) - e);
        if (fo.first_line.size() > 200) fo.first_line.resize(200);
        // keep the address out of the witness text
        size_t a = fo.first_line.find(" on address "); if (a != std::string::npos) fo.first_line.resize(a);
    }
    unlink(ef.c_str());
    return fo;
}

Shared* shared_block() {
    static Shared* sh = nullptr;
    if (!sh) { sh = (Shared*)mmap(nullptr, sizeof(Shared), PROT_READ | PROT_WRITE, MAP_SHARED | MAP_ANONYMOUS, -1, 0); if (sh == MAP_FAILED) vf::harness_error("mmap"); }
    return sh;
}

// sigbase replaces the per-operation signature when it is not empty (one root cause, few signatures)
void forked_differential(const Program& p, const std::string& outcome_prefix, const std::string& sigbase) {
    Shared* sh = shared_block();
    vf::ctx("forked-case");
    ForkOutcome fo = run_forked(p, sh);
    vf::count("executed"); vf::count("forked_children");
    vf::count("ops", (long)p.ops.size() * 2);
    if (fo.crashed && fo.stage == 0) { vf::fail("harness/c++-backend-crashed/" + fo.mode, render(p) + " :: " + fo.first_line); return; }
    if (nontrivial(p, sh->cpp)) vf::count("nontrivial");
    std::string oc;
    if (fo.crashed) {
        int k = 0; while (k < (int)p.ops.size() && sh->c.obs[k].done) k++;
        std::string at = k < (int)p.ops.size() ? vf::fmt("op %d '", k) + render_op(p.ops[k]) + "'" : std::string("after the last operation");
        report(sigbase.empty() ? std::string(k < (int)p.ops.size() ? family(p.ops[k]) : "whole-test") + "/C-backend-crashes/" + fo.mode : sigbase,
                 render(p) + " :: the C back end died at " + at + " (" + fo.mode + ": " + fo.first_line + "); C++ back end: " + (sh->cpp.failures ? "test failed: " + std::string(sh->cpp.text).substr(0, 300) : "test passed, " + (k < (int)p.ops.size() ? render_obs(p.ops[k], sh->cpp.obs[k]) : std::string())));
        vf::count("c_backend_crashes");
        oc = "C-crash";
    } else {
        Diff d = compare(p, sh->cpp, sh->c);
        if (d.any) { report(sigbase.empty() ? d.sig : sigbase, "[" + d.sig + "] " + d.detail); oc = "differs"; }
        else oc = "same";
    }
    vf::outcome(outcome_prefix + "/" + failure_head(sh->cpp) + "/" + oc);
    if (vf::want_sample()) vf::sample(render(p) + " => C++ " + failure_head(sh->cpp) + ", C " + oc);
}

// ---------------------------------------------------------------- modes: operation histories
struct Hist { bool handle = false; int hscope = 0; };
const int NSTEPS = 29;
const char* S = "s";

bool step_enabled(int s, const Hist& h) { return (s >= 12 && s <= 14) ? h.handle : true; }

void apply_step(int s, Program& p, Hist& h) {
    switch (s) {
    case 0: p.strict(); break;
    case 1: p.expect_one("f"); p.e_ret(vint(5)); break;
    case 2: p.expect_one("g"); p.e_param("p", vint(1)); p.e_ret(vstr(s_r)); break;
    case 3: p.expect_n(2, "f"); break;
    case 4: p.expect_none("g"); break;
    case 5: p.expect_one("f", S); p.e_ret(vint(6)); break;
    case 6: p.actual("f"); h.handle = true; h.hscope = 0; break;
    case 7: p.actual("g"); p.a_param("p", vint(1)); h.handle = true; h.hscope = 0; break;
    case 8: p.actual("g"); p.a_param("p", vint(2)); h.handle = true; h.hscope = 0; break;
    case 9: p.actual("f", S); h.handle = true; h.hscope = 1; break;
    case 10: p.actual("f"); p.getter_def(C19_S_GETDEF, vint(-1)); h.handle = true; h.hscope = 0; break;
    case 11: p.actual("g"); p.a_param("p", vint(1)); p.getter(C19_S_GET, C19_STRING); h.handle = true; h.hscope = 0; break;
    case 12: p.getter_def(C19_A_GETDEF, vint(-1)); break;
    case 13: p.simple(C19_A_HAS); break;
    case 14: p.simple(C19_A_RETVAL); break;
    case 15: p.simple(C19_S_HAS); break;
    case 16: p.simple(C19_S_HAS, S); break;
    case 17: p.simple(C19_IOC); break;
    case 18: p.simple(C19_DISABLE); break;
    case 19: p.simple(C19_ENABLE); break;
    case 20: p.simple(C19_CHECK); break;
    case 21: p.simple(C19_LEFT); break;
    case 22: p.simple(C19_LEFT, S); break;
    case 23: p.simple(C19_CLEAR); h.handle = false; break;
    case 24: p.simple(C19_CLEAR, S); if (h.hscope == 1) h.handle = false; break;
    case 25: p.set_data("k", vint(3), nullptr, S); break;
    case 26: p.get_data("k"); break;
    case 27: p.crash_on_fail(1); break;
    case 28: p.simple(C19_DISABLE, S); break;
    }
}

const char* STEP_TEXT = "strictOrder; expectOneCall f returning int; expectOneCall g with parameter returning string; expectNCalls(2) f; expectNoCall g; expectOneCall f in scope s; actualCall f / g(p matching) / g(p not matching) / f in scope s; actualCall followed by a support-level OrDefault read or a support-level string read; returnIntValueOrDefault / hasReturnValue / returnValue on the handle of the latest actual call (offered while that handle is valid in C++: no clear of its scope since); hasReturnValue on both scopes; ignoreOtherCalls; disable; enable; checkExpectations; expectedCallsLeft on both scopes; clear of either scope; setData in scope s; getData; crashOnFailure(1); disable on scope s";

void modes_section(const char* name, int depth, const std::vector<int>& steps) {
    vf::info(std::string(name) + ".bound", vf::fmt("every history of exactly %d steps over %zu of the 29 steps [", depth, steps.size()) + STEP_TEXT + "]" + (steps.size() < (size_t)NSTEPS ? " - left out here: strictOrder, expectNCalls(2), expectNoCall, the non-matching actual call, returnValue on the handle, expectedCallsLeft on scope s, getData, crashOnFailure, disable on scope s" : "") + "; teardown checkExpectations, expectedCallsLeft, clear. Shorter histories are contained as histories padded with steps without effect.");
    vf::section_dfs(name, 2, false, [depth, &steps](vf::Chooser& ch) {
        Program p; Hist h;
        for (int d = 0; d < depth; d++) {
            int en[NSTEPS], n = 0;
            for (int s : steps) if (step_enabled(s, h)) en[n++] = s;
            apply_step(en[ch.choose(n)], p, h);
        }
        p.end_body(); p.simple(C19_CHECK); p.simple(C19_LEFT); p.simple(C19_CLEAR);
        differential(p, "m");
    });
    vf::require_outcomes(name, 6);
}

// ---------------------------------------------------------------- stale: support-level reads when the 'current actual call' of the
// C layer is not the last actual call of the mock support that is asked
struct Prefix { const char* name; const char* sig; bool asan_only; };
const Prefix PREFIXES[] = {
    {"no actual call yet in this process", "no-actual-call-yet", false},
    {"the last actual call was ignored (mocking disabled)", "after-ignored-call", false},
    {"the last actual call was ignored (ignoreOtherCalls)", "after-ignored-call", false},
    {"clear() after the last actual call", "after-clear", true},
    {"the last actual call was made in another scope", "other-scope", false},
    {"a later actual call was made in another scope", "other-scope", false},
};
const int NPREFIX = 6;

void build_prefix(int k, Program& p) {
    switch (k) {
    case 0: break;
    case 1: p.simple(C19_DISABLE); p.actual("f"); p.simple(C19_ENABLE); break;
    case 2: p.simple(C19_IOC); p.actual("f"); break;
    case 3: p.expect_one("f"); p.e_ret(vint(5)); p.actual("f"); p.simple(C19_CLEAR); break;
    case 4: p.expect_one("f", S); p.e_ret(vint(6)); p.actual("f", S); break;
    case 5: p.expect_one("f"); p.e_ret(vint(5)); p.expect_one("f", S); p.e_ret(vint(6)); p.actual("f"); p.actual("f", S); break;
    }
}

} // namespace

std::vector<c19_val> stale_defaults() {
    return {vbool(1), vint(-1), vuint(7), vlong(-1), vulong(7), vll(-1), vull(7), vdbl(2.5), vstr(s_dflt), vptr(&g_obj[2]), vcptr(&g_obj[2]), vfptr(c19_fn2)};
}

void run_state_sections() {
    bool T = vf::thorough();
    std::vector<int> all, reduced = {1, 2, 5, 6, 7, 9, 10, 11, 12, 13, 15, 16, 17, 18, 19, 20, 21, 23, 24, 25};
    for (int s = 0; s < NSTEPS; s++) all.push_back(s);
    modes_section("modes", sanitized() ? (T ? 4 : 3) : 4, all);
    if (T && !sanitized()) modes_section("modes5", 5, reduced);

    // ---- stale
    {
        static std::vector<c19_val> defs = stale_defaults();
        const int NASK = 2 + 2 * C19_NGETTERS;
        vf::info("stale.bound", "6 situations in which the C layer has no valid 'current actual call' for the support object that is asked (no actual call yet in the process; last call ignored by disable / by ignoreOtherCalls; clear() after the last call [sanitizer build only: the C layer then holds a dangling pointer]; last call made in another scope; a later call made in another scope) x 26 support-level questions (hasReturnValue, returnValue, 12 typed getters, 12 OrDefault getters); each case in a forked child that has never executed a mock operation before");
        vf::section_index("stale", (long)NPREFIX * NASK, [&](long idx) {
            int k = (int)(idx / NASK), q = (int)(idx % NASK);
            if (PREFIXES[k].asan_only && !sanitized()) { vf::count("skipped_needs_sanitizer"); return; }
            Program p;
            build_prefix(k, p);
            if (q == 0) p.simple(C19_S_HAS); else if (q == 1) p.simple(C19_S_RETVAL);
            else if (q < 2 + C19_NGETTERS) p.getter(C19_S_GET, q - 2);
            else p.getter_def(C19_S_GETDEF, defs[q - 2 - C19_NGETTERS]);
            p.usual_teardown();
            g_keep_c_statics = true;
            forked_differential(p, PREFIXES[k].sig, std::string("support-level-read/") + PREFIXES[k].sig);
            g_keep_c_statics = false;
        });
        vf::require_outcomes("stale", 4);
    }
    // ---- reentry: comparator / copier callbacks that themselves make a mocked call
    {
        vf::info("reentry.bound", "custom type R whose callbacks make a complete nested mocked call in scope n (actualCall h with an int parameter, returnIntValueOrDefault) through the same interface as the outer scenario (C functions -> mock_scope_c, C++ objects -> mock): every non-empty subset of {isEqual, valueToString, copy} nests (7) x nested expectation prepared for 0/1/2/3 calls x with/without a return value x 6 outer shapes in the global scope, each continuing after the callback with an int parameter, returnIntValueOrDefault on the handle and on the support object: R parameter equal / different (failure text renders R values), R output parameter, R parameter and R output parameter, int parameter mismatch after the R parameter, expectation with an R parameter never called (checkExpectations renders it in the teardown); the nested calls made (count, returned values) are compared as well");
        vf::section_index("reentry", 7 * 4 * 2 * 6, [&](long idx) {
            vf::Radix r(idx);
            int mask = (int)r.take(7) + 1, nprep = (int)r.take(4), nret = (int)r.take(2), shape = (int)r.take(6);
            const char* Nn = "n";
            Program p;
            p.nest.in_equal = mask & 1; p.nest.in_tostring = (mask >> 1) & 1; p.nest.in_copy = (mask >> 2) & 1;
            p.install_cmp("R", 2); p.install_cpy("R", 2);
            if (nprep) { p.expect_n((unsigned)nprep, "h", Nn); p.e_param("x", vint(1)); if (nret) p.e_ret(vint(9)); }
            p.expect_one("f");
            bool par = shape != 2, outp = shape == 2 || shape == 3;
            if (par) p.e_param("p", vobj(&g_t[0]), "R");
            if (outp) p.e_out_typed("R", "o", &g_t[3]);
            p.e_param("q", vint(1)); p.e_ret(vint(7));
            if (shape != 5) {
                p.actual("f");
                if (par) p.a_param("p", vobj(shape == 1 ? &g_t[1] : &g_t[2]), "R");
                if (outp) p.a_out_typed("R", "o", 0);
                p.a_param("q", vint(shape == 4 ? 2 : 1));
                p.getter_def(C19_A_GETDEF, vint(-1));
                p.simple(C19_A_HAS);
                p.getter_def(C19_S_GETDEF, vint(-2));
            }
            p.end_body(); p.simple(C19_CHECK); p.simple(C19_LEFT); p.simple(C19_CLEAR); p.simple(C19_REMOVE_ALL);
            differential(p, vf::fmt("%d/%d/%d/%d", mask, nprep, nret, shape));
        });
        vf::require_outcomes("reentry", 30);
    }
    // ---- kept: one support handle obtained once and used for a whole sequence, no re-selection
    {
        const int NK = 18;
        int depth = T && !sanitized() ? 4 : 3;
        long N = 2; for (int d = 0; d < depth; d++) N *= NK;
        vf::info("kept.bound", vf::fmt("H = mock_c() or H = mock_scope_c(\"net\") obtained ONCE (C++: one MockSupport& reference), then every sequence of %d steps through H without selecting again, over 18 steps: clear; checkExpectations; expectOneCall(send) returning 7; actualCall(send) + returnIntValueOrDefault; expectNoCall(recv); setIntData(port,80); getData(port); strictOrder; ignoreOtherCalls; enable; disable; installComparator(T); removeAllComparatorsAndCopiers; crashOnFailure(0); hasReturnValue; expectedCallsLeft; actualCall(other); expectOneCall(cmp) with a T parameter + matching actualCall(cmp). Then observable steps through H (expectOneCall(probe), getData(port), expectedCallsLeft), then through fresh selections of the global scope and of net (expectedCallsLeft, getData(port), hasReturnValue), teardown checkExpectations (its text names where 'probe' and 'send' were recorded), clear, removeAll on mock_c(). (tracing is not exposed by the C table.)", depth));
        vf::section_index("kept", N, [&](long idx) {
            vf::Radix r(idx);
            const char* NET = "net";
            const char* K = C19_KEPT;
            Program p;
            bool on_net = r.take(2) != 0;
            p.simple(C19_SELECT, on_net ? NET : nullptr);
            int steps[8]; bool typed_expectation_alive = false;
            for (int d = 0; d < depth; d++) {
                steps[d] = (int)r.take(NK);
                if (steps[d] == 17) typed_expectation_alive = true;
                if (steps[d] == 0) typed_expectation_alive = false;
                // an expectation that captured a comparator adaptor must not outlive the removal of the adaptors: in C the removal
                // is the end of the adaptor's life, in C++ the comparator object belongs to the user (notes: Not asserted)
                if (steps[d] == 12 && typed_expectation_alive) { vf::count("skipped_adaptor_lifetime"); return; }
            }
            for (int d = 0; d < depth; d++) {
                switch (steps[d]) {
                case 0: p.simple(C19_CLEAR, K); break;
                case 1: p.simple(C19_CHECK, K); break;
                case 2: p.expect_one("send", K); p.e_ret(vint(7)); break;
                case 3: p.actual("send", K); p.getter_def(C19_A_GETDEF, vint(-1)); break;
                case 4: p.expect_none("recv", K); break;
                case 5: p.set_data("port", vint(80), nullptr, K); break;
                case 6: p.get_data("port", K); break;
                case 7: p.strict(K); break;
                case 8: p.simple(C19_IOC, K); break;
                case 9: p.simple(C19_ENABLE, K); break;
                case 10: p.simple(C19_DISABLE, K); break;
                case 11: p.install_cmp("T", 0, K); break;
                case 12: p.simple(C19_REMOVE_ALL, K); break;
                case 13: p.crash_on_fail(0, K); break;
                case 14: p.simple(C19_S_HAS, K); break;
                case 15: p.simple(C19_LEFT, K); break;
                case 16: p.actual("other", K); break;
                case 17: p.expect_one("cmp", K); p.e_param("p", vobj(&g_t[0]), "T"); p.actual("cmp", K); p.a_param("p", vobj(&g_t[2]), "T"); break;
                }
            }
            p.expect_one("probe", K); p.get_data("port", K); p.simple(C19_LEFT, K);
            p.simple(C19_LEFT); p.get_data("port"); p.simple(C19_S_HAS);
            p.simple(C19_LEFT, NET); p.get_data("port", NET); p.simple(C19_S_HAS, NET);
            p.end_body(); p.simple(C19_CHECK); p.simple(C19_CLEAR); p.simple(C19_REMOVE_ALL);
            differential(p, on_net ? "H=net" : "H=global");
        });
        vf::require_outcomes("kept", 6);
    }
    // ---- cmpscope
    if (sanitized()) {
        vf::info("cmpscope.bound", "comparators and copiers x scopes (sanitizer build only: a wrong lifetime shows as a use after free): scope s created before or after the installation x installed on {global, s} x kind {comparator used by a parameter of type T, copier used by an output parameter of type T} x removeAllComparatorsAndCopiers on {nobody, global, s} x used in {global, s}; each case in a forked child");
        vf::section_index("cmpscope", 2 * 2 * 2 * 3 * 2, [&](long idx) {
            vf::Radix r(idx);
            int pre = (int)r.take(2), inst = (int)r.take(2), kind = (int)r.take(2), rem = (int)r.take(3), use = (int)r.take(2);
            const char* X = inst ? S : nullptr; const char* W = use ? S : nullptr;
            Program p;
            if (pre) p.set_data("k", vint(1), nullptr, S);
            if (kind == 0) p.install_cmp("T", 0, X); else p.install_cpy("T", 0, X);
            if (rem) p.simple(C19_REMOVE_ALL, rem == 2 ? S : nullptr);
            p.expect_one("f", W);
            if (kind == 0) p.e_param("p", vobj(&g_t[0]), "T"); else p.e_out_typed("T", "o", &g_t[3]);
            p.actual("f", W);
            if (kind == 0) p.a_param("p", vobj(&g_t[2]), "T"); else p.a_out_typed("T", "o", 0);
            p.end_body(); p.simple(C19_CHECK); p.simple(C19_CLEAR); p.simple(C19_REMOVE_ALL);
            forked_differential(p, vf::fmt("%d%d%d%d%d", pre, inst, kind, rem, use), "");
        });
        vf::require_outcomes("cmpscope", 3);
    }
}

} // namespace c19

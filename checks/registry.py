# Collects checks/cNN.meta.json (one file per property check; single source for driver and manifest).
import json, os, glob
_D = os.path.dirname(os.path.abspath(__file__))
CHECKS = {}
for _f in sorted(glob.glob(os.path.join(_D, "c[0-9][0-9].meta.json"))):
    CHECKS[os.path.basename(_f)[:3].upper()] = json.load(open(_f))
# commits in /repo that add guarded hooks (CPPUTEST_VERIF_HOOKS)
HOOK_COMMITS = ["9383ef6", "4650e66"]
_na = os.path.join(_D, "not_applicable.json")
NOT_APPLICABLE = json.load(open(_na)) if os.path.exists(_na) else {}

# One entry per property: which harness binary, which library flavours, which evidence level.
HOOK_COMMITS = []
NOT_APPLICABLE = {}

CHECKS = {
    "C18": {
        "bin": "c18", "flavours": ["asan"], "level": "model_checking",
        "deadline": {"quick": 150, "thorough": 1500},
        "technique": "explicit-state bounded model checking on the implementation: every alloc/release/clear history up to the depth bound replayed on a fresh real cache (stateless DFS, canonical-state pruning), oracle = property-level invariants over a recording allocator under ASan",
        "level_text": "Every operation history over a boundary-size alphabet up to depth 4 unpruned and depth 6 (quick) / 8 (thorough) with state pruning is executed on the real SimpleStringInternalCache; aliasing, capacity, class-local reuse, exactly-once return and the one-time warning are checked after every step. Exhaustive within the bound, nothing sampled.",
        "level_note": "Trusted: harness recording allocator, ASan manual poisoning, the list model used only as pruning key (guarded by pointer-prediction agreement). Outside: deeper histories, sizes outside the alphabet, a non-default allocator that fails.",
        "assumptions": [
            "underlying allocator = harness recording allocator (exact-size blocks, poisoned on return, never reused within a history)",
            "pruning key comes from a LIFO list model that is trusted only while every pointer the cache hands out equals the model's prediction; diverged executions are explored unpruned",
            "sizes beyond the alphabet {0,1,31..33,64,65,96,97,128,129,256,257,1024} and histories deeper than the bound are outside the check",
        ],
    },
}

// C17 - UT_PTR_SET restore and plugin chain nesting.
//
// Part A (sections seq, seqplain, pairs, limit, runner): programs of scripted tests whose phases perform
// UT_PTR_SET sequences (and plain assignments) on typed targets and then pass / fail C++-style / fail C-style /
// throw are run through the real TestRegistry::runAllTests with a real SetPointerPlugin (section runner: through the
// real CommandLineTestRunner, which installs and removes its own SetPointerPlugin). After every test's post
// actions every target must hold the value it had before the test's first redirection; a redirection beyond the
// documented limit (32) must fail the test, write nothing (ASan guards the table) and end the phase; every program
// ends with a probe test that redirects exactly 32 pointers and must pass (table empty after every test).
//
// Part B (sections chain, midrun, closure): every history of install / removePluginByName / enable / disable /
// resetPlugins on a private registry over recording plugins (one of them a real SetPointerPlugin); after every
// operation the chain (getFirstPlugin/getNext walk, countPlugins, getPluginByName, isEnabled) must equal a list
// model and a run of three tests (pass, failing, throwing) must log pre actions head-first over enabled plugins
// and post actions in the exact reverse. chain: all histories up to a depth, unpruned. closure: the complete set of
// reachable chain states for 4 (thorough: 5) plugins, every operation applied to every state.
// midrun: a run of four tests with one or two chain operations executed from inside the run (test phases, plugin
// actions); every later test must see exactly the chain as it stands when that test starts.
#include <vector>
#include <string>
#include <memory>
#include <stdexcept>
#include <cstring>
#include <algorithm>
#define VF_MAIN
#include "vf.h"
#include "CppUTest/TestHarness.h"
#include "CppUTest/TestRegistry.h"
#include "CppUTest/TestOutput.h"
#include "CppUTest/TestPlugin.h"
#include "CppUTest/CommandLineTestRunner.h"
#include "CppUTest/PlatformSpecificFunctions.h"
#undef new

namespace {

// ------------------------------------------------------------------ targets
const int NT = 40;          // targets p0..p39 (p0: function pointer, p1: pointer to double, others: pointer to int)
const int NV = 4;           // value indices: 0,1 = values before a test (alternating), 1,2 = redirection values, 3 = plain assignment
const int LIMIT = 32;       // the documented limit (SetPointerPlugin::MAX_SET in the unchanged tree); fixed here on purpose

int f0(int x) { return x; }
int f1(int x) { return x + 1; }
int f2(int x) { return x + 2; }
int f3(int x) { return x + 3; }
typedef int (*Fn)(int);
Fn const FN[NV] = {f0, f1, f2, f3};
Fn g_fp;
double g_dcell[NV]; double* g_dp;
int g_cell[NT][NV]; int* g_tgt[NT];

void raw_set(int t, int v) {
    if (t == 0) g_fp = FN[v]; else if (t == 1) g_dp = &g_dcell[v]; else g_tgt[t] = &g_cell[t][v];
}
int value_of(int t) {
    if (t == 0) { for (int v = 0; v < NV; v++) if (g_fp == FN[v]) return v; return -1; }
    if (t == 1) { for (int v = 0; v < NV; v++) if (g_dp == &g_dcell[v]) return v; return -1; }
    for (int v = 0; v < NV; v++) if (g_tgt[t] == &g_cell[t][v]) return v;
    return -1;
}
void redirect(int t, int v) {      // the facility under test
    if (t == 0) UT_PTR_SET(g_fp, FN[v]);
    else if (t == 1) UT_PTR_SET(g_dp, &g_dcell[v]);
    else UT_PTR_SET(g_tgt[t], &g_cell[t][v]);
}

// ------------------------------------------------------------------ scripts
enum Outcome { OK_ = 0, CPPF, CF,
#if CPPUTEST_HAVE_EXCEPTIONS
               THROW_STD, THROW_INT,
#endif
               NK };
const char* ONAME[] = {"ok", "cppfail", "cfail", "throw-std", "throw-int"};
struct Op { unsigned char plain, t, v; };
struct Script { std::vector<Op> ops[3]; int out[3] = {0, 0, 0}; };
const char* PHNAME[3] = {"setup", "body", "teardown"};

std::string render(const Script& s) {
    std::string o = "[";
    for (int ph = 0; ph < 3; ph++) {
        if (s.ops[ph].empty() && s.out[ph] == OK_) continue;
        o += PHNAME[ph]; o += ":";
        // runs of equal-kind ops on consecutive targets are printed compactly
        for (size_t i = 0; i < s.ops[ph].size(); i++) { const Op& op = s.ops[ph][i]; o += vf::fmt(" %s(p%d,v%d)", op.plain ? "ASSIGN" : "SET", op.t, op.v); }
        if (s.out[ph] != OK_) { o += " then "; o += ONAME[s.out[ph]]; }
        o += "; ";
    }
    o += "]";
    return o;
}

const int MAXRUN = 16;               // tests executed in one case (tests x repetitions)
std::vector<Script> g_prog;          // the tests of the current program
int g_ntests;                        // tests per repetition
int g_k;                             // tests started so far in this case
int g_cur_k;                         // index of the running test (over repetitions)
int g_sets_done[MAXRUN];
struct Observed { int final[NT]; long fails; bool ended; };
Observed g_obs[MAXRUN];
int base_value(int k) { return k % 2; }

// log of plugin actions / test markers
struct LogE { signed char who; signed char kind; };     // kind 0 pre, 1 post, 2 test marker (who = test index in run)
std::vector<LogE> g_log;

void on_test_begin(int k) { g_cur_k = k; if (k < MAXRUN) g_sets_done[k] = 0; for (int t = 0; t < NT; t++) raw_set(t, base_value(k)); }
void on_test_end(int k) { if (k >= MAXRUN) return; for (int t = 0; t < NT; t++) g_obs[k].final[t] = value_of(t); g_obs[k].ended = true; }

struct PTest : Utest {
    int idx;
    explicit PTest(int i) : idx(i) {}
    void phase(int ph);
    void setup() override { phase(0); }
    void testBody() override { phase(1); }
    void teardown() override { phase(2); }
};
void PTest::phase(int ph) {
    const Script* s = &g_prog[idx];
    size_t n = s->ops[ph].size();
    for (size_t i = 0; i < n; i++) {
        const Op* op = &s->ops[ph][i];
        if (op->plain) raw_set(op->t, op->v);
        else { redirect(op->t, op->v); if (g_cur_k < MAXRUN) g_sets_done[g_cur_k]++; }
    }
    int o = s->out[ph];
    UtestShell* cur = UtestShell::getCurrent();
    if (o == CPPF) cur->assertTrue(false, "CHECK", "scripted", NULLPTR, "c17script.cpp", (size_t)(100 * (idx + 1) + ph));
    if (o == CF) cur->assertTrue(false, "CHECK_C", "scripted", NULLPTR, "c17script.cpp", (size_t)(100 * (idx + 1) + ph), TestTerminatorWithoutExceptions());
#if CPPUTEST_HAVE_EXCEPTIONS
    if (o == THROW_STD) throw std::runtime_error("scripted std exception");
    if (o == THROW_INT) throw 42;
#endif
}

// section midrun: chain operations executed from inside a running test (defined further down)
bool g_midrun;
enum MidLoc { L_PRE_HEAD = 0, L_PRE_TAIL, L_SETUP, L_BODY, L_TEARDOWN, L_POST_TAIL, L_POST_HEAD, NLOC };
void midrun_exec(int loc, int actor);        // executes the operations scheduled for (running test, place)
void midrun_test_started(int k);
Utest* midrun_make_test(int idx);

bool g_runner_mode;     // observation points: false = output hooks (before pre / after post actions), true = createTest of the next test
const char* TNAME[8] = {"t0", "t1", "t2", "t3", "t4", "t5", "t6", "t7"};
struct PShell : UtestShell {
    int idx;
    explicit PShell(int i) : UtestShell("G", TNAME[i & 7], "c17script.cpp", (size_t)(100 * (i + 1))), idx(i) {}
    Utest* createTest() override {
        if (g_runner_mode) { if (g_k > 0) on_test_end(g_k - 1); on_test_begin(g_k); g_k++; }
        g_log.push_back(LogE{(signed char)idx, 2});
        if (g_midrun) return midrun_make_test(idx);
        return new PTest(idx);
    }
};

struct WatchOutput : TestOutput {
    long fails_before = 0;
    void printBuffer(const char*) override {}
    void flush() override {}
    void printCurrentTestStarted(const UtestShell&) override { on_test_begin(g_k); if (g_midrun) midrun_test_started(g_k); g_k++; }
    void printCurrentTestEnded(const TestResult& r) override {
        int k = g_k - 1;
        on_test_end(k);
        if (k < MAXRUN) g_obs[k].fails = (long)r.getFailureCount() - fails_before;
        fails_before = (long)r.getFailureCount();
    }
};

void fputs_nop(const char*, PlatformSpecificFile) {}
void flush_nop() {}
unsigned long time_zero() { return 0; }
const char* timestr_fixed() { return "1970-01-01T00:00:00"; }

// ------------------------------------------------------------------ reference for one test
struct TestRef { int final[NT]; int nredir[NT]; int fails; int sets; bool overflow; };
TestRef reference(const Script& s, int base) {
    TestRef r; int cur[NT], saved[NT]; int n = 0;
    for (int t = 0; t < NT; t++) { cur[t] = base; saved[t] = -1; r.nredir[t] = 0; }
    r.fails = 0; r.sets = 0; r.overflow = false;
    auto phase = [&](int ph) -> bool {
        for (const Op& op : s.ops[ph]) {
            if (op.plain) { cur[op.t] = op.v; continue; }
            if (n == LIMIT) { r.fails++; r.overflow = true; return false; }     // fails the test, nothing recorded, nothing written
            if (r.nredir[op.t] == 0) saved[op.t] = cur[op.t];
            r.nredir[op.t]++; n++; r.sets++; cur[op.t] = op.v;
        }
        if (s.out[ph] != OK_) { r.fails++; return false; }
        return true;
    };
    if (phase(0)) phase(1);
    phase(2);
    for (int t = 0; t < NT; t++) r.final[t] = r.nredir[t] ? saved[t] : cur[t];
    return r;
}

Script probe_script() {     // exactly LIMIT redirections of distinct targets, then passes
    Script s; for (int i = 0; i < LIMIT; i++) s.ops[1].push_back(Op{0, (unsigned char)(3 + i), 2});
    return s;
}

struct RecPlugin : TestPlugin {
    int id;
    RecPlugin(const char* n, int i) : TestPlugin(n), id(i) {}
    void preTestAction(UtestShell&, TestResult&) override { g_log.push_back(LogE{(signed char)id, 0}); if (g_midrun) midrun_exec(-1, id); }
    void postTestAction(UtestShell&, TestResult&) override { g_log.push_back(LogE{(signed char)id, 1}); if (g_midrun) midrun_exec(-2, id); }
};
struct RecSetPlugin : SetPointerPlugin {       // the real pointer plugin, recording as well
    int id;
    RecSetPlugin(const char* n, int i) : SetPointerPlugin(n), id(i) {}
    void preTestAction(UtestShell&, TestResult&) override { g_log.push_back(LogE{(signed char)id, 0}); if (g_midrun) midrun_exec(-1, id); }
    void postTestAction(UtestShell& t, TestResult& r) override { SetPointerPlugin::postTestAction(t, r); g_log.push_back(LogE{(signed char)id, 1}); if (g_midrun) midrun_exec(-2, id); }
};

void reset_case_globals() {
    g_k = 0; g_cur_k = 0; g_log.clear(); g_midrun = false;
    for (int k = 0; k < MAXRUN; k++) { g_obs[k].ended = false; g_obs[k].fails = 0; g_sets_done[k] = 0; for (int t = 0; t < NT; t++) g_obs[k].final[t] = -2; }
    UtestShell::setRethrowExceptions(false);
}

// compares the observations of test k (script index j) with the reference; returns false on mismatch
typedef std::function<std::string()> Desc;
bool check_test(int k, int j, bool is_probe, bool have_fail_counts, const Desc& desc, long* expected_fail_sum) {
    const Script& s = g_prog[j];
    TestRef ref = reference(s, base_value(k));
    if (expected_fail_sum) *expected_fail_sum += ref.fails;
    bool good = true;
    struct Where { const Desc& d; int k; bool probe; const Script& s;
        std::string operator+(const std::string& tail) const { return d() + vf::fmt(" | test #%d%s ", k, probe ? " (probe)" : "") + render(s) + tail; } } where{desc, k, is_probe, s};
    if (!g_obs[k].ended) { vf::fail("run/test-not-executed", where + std::string(": the test was never finished")); return false; }
    for (int t = 0; t < NT; t++) {
        if (g_obs[k].final[t] == ref.final[t]) continue;
        good = false;
        const char* kind = ref.nredir[t] == 0 ? "untouched-target-changed" : ref.nredir[t] == 1 ? "single-redirect-not-restored" : "repeated-redirect-not-restored";
        const char* res = ref.fails ? "failing-test" : "passing-test";
        vf::fail(vf::fmt("restore/%s/%s", kind, res), where + vf::fmt(": after the post actions p%d holds v%d, expected v%d (value before the first redirection); redirected %d times", t, g_obs[k].final[t], ref.final[t], ref.nredir[t]));
        break;
    }
    if (g_sets_done[k] != ref.sets) {
        good = false;
        if (ref.overflow && g_sets_done[k] > ref.sets) vf::fail("limit/phase-continued-after-overflow", where + vf::fmt(": %d redirections completed, reference %d (the one beyond the limit must end the phase)", g_sets_done[k], ref.sets));
        else vf::fail("run/redirections-executed", where + vf::fmt(": %d redirections completed, reference %d", g_sets_done[k], ref.sets));
    }
    if (have_fail_counts && g_obs[k].fails != ref.fails) {
        good = false;
        if (ref.overflow && g_obs[k].fails == 0) vf::fail("limit/overflow-did-not-fail-test", where + std::string(": more redirections than the limit, but the test did not fail"));
        else if (!ref.overflow && ref.fails == 0 && is_probe) vf::fail("table/not-empty-after-test", where + vf::fmt(": a test redirecting exactly %d pointers failed (%ld failures): entries of an earlier test are still in the table", LIMIT, g_obs[k].fails));
        else if (!ref.overflow && ref.fails == 0) vf::fail("limit/failure-below-limit", where + vf::fmt(": %ld failures in a test that stays within the limit and has no scripted failure", g_obs[k].fails));
        else vf::fail("failures/count", where + vf::fmt(": %ld failures, reference %d", g_obs[k].fails, ref.fails));
    }
    return good;
}

struct ProgStats { int fails = 0, overflow = 0, repeated = 0, redirected = 0; };
ProgStats stats_of(int ntests_scripted) {
    ProgStats st;
    for (int j = 0; j < ntests_scripted; j++) {
        TestRef r = reference(g_prog[j], base_value(j));
        st.fails += r.fails ? 1 : 0; st.overflow += r.overflow ? 1 : 0;
        for (int t = 0; t < NT; t++) { if (r.nredir[t] > 1) st.repeated++; if (r.nredir[t]) st.redirected++; }
    }
    return st;
}

// runs g_prog (plus a probe test) through a private registry with a fresh SetPointerPlugin
void run_registry_program(const std::string& tag, int nscripted) {
    Desc desc = [&]() { return tag; };
    g_prog.push_back(probe_script());
    int n = (int)g_prog.size();
    reset_case_globals(); g_runner_mode = false; g_ntests = n;
    vf::ctx("construct-plugin");
    SetPointerPlugin sp("SetPointerPlugin");           // resets the table index: no leak from the previous case
    TestRegistry reg;
    std::vector<std::unique_ptr<PShell>> shells;
    for (int j = 0; j < n; j++) shells.emplace_back(new PShell(j));
    for (int j = n - 1; j >= 0; j--) reg.addTest(shells[j].get());
    reg.installPlugin(&sp);
    WatchOutput out; TestResult result(out);
    vf::ctx("runAllTests");
    reg.runAllTests(result);
    vf::ctx("compare");
    for (int k = 0; k < n; k++) if (!check_test(k, k, k == n - 1, true, desc, nullptr)) break;
    ProgStats st = stats_of(nscripted);
    vf::outcome(vf::fmt("failing=%d overflow=%d repeated=%d redirected=%d", st.fails, st.overflow, st.repeated > 2 ? 2 : st.repeated, st.redirected > 3 ? 3 : st.redirected));
    if (st.repeated || st.overflow || (st.fails && st.redirected)) vf::count("nontrivial");
    vf::count("tests_run", n); vf::count("redirections", [&] { long c = 0; for (int k = 0; k < n && k < MAXRUN; k++) c += g_sets_done[k]; return c; }());
    if (vf::want_sample()) { std::string sm = tag; for (int j = 0; j < nscripted; j++) sm += " " + render(g_prog[j]); vf::sample(sm + " + probe"); }
    for (int t = 0; t < NT; t++) raw_set(t, 0);
}

// ------------------------------------------------------------------ script generators (choice vectors)
// alphabet: SET(p0..p2, v1|v2) [+ ASSIGN(p0..p2, v3)]; a phase ends with choice 0; then its outcome
Script gen_script(vf::Chooser& ch, int lmax, bool plain, int& failbudget, bool body_only = false) {
    Script s; int len = 0; bool setup_failed = false;
    int A = plain ? 9 : 6;
    for (int ph = 0; ph < 3; ph++) {
        if (body_only && ph != 1) continue;
        if (ph == 1 && setup_failed) continue;
        while (len < lmax) {
            int c = ch.choose(1 + A);
            if (c == 0) break;
            c--;
            if (c < 6) s.ops[ph].push_back(Op{0, (unsigned char)(c / 2), (unsigned char)(1 + c % 2)});
            else s.ops[ph].push_back(Op{1, (unsigned char)(c - 6), 3});
            len++;
        }
        int o = failbudget > 0 ? ch.choose(NK) : 0;
        if (o) { failbudget--; if (ph == 0) setup_failed = true; }
        s.out[ph] = o;
    }
    return s;
}

// ------------------------------------------------------------------ section limit
void limit_scenario(vf::Chooser& ch, bool T) {
    g_prog.clear();
    // test A: what happened before
    int a = ch.choose(4);
    Script A;
    if (a == 1) A.ops[1].push_back(Op{0, 0, 1});
    if (a == 2) { A.ops[1].push_back(Op{0, 0, 1}); A.ops[1].push_back(Op{0, 0, 2}); A.out[1] = CPPF; }
    if (a == 3) for (int i = 0; i < LIMIT + 1; i++) A.ops[1].push_back(Op{0, (unsigned char)(i % NT), 1});
    // test B
    int nlo = T ? 28 : 30, nhi = T ? 40 : 35;
    int N = nlo + ch.choose(nhi - nlo + 1);
    int pattern = ch.choose(5);
    int valpat = ch.choose(2);
    static const int SETUP_N[6] = {0, 1, 16, 31, 32, 33};
    int nsetup = SETUP_N[ch.choose(6)]; if (nsetup > N) nsetup = N;
    int tdsel = ch.choose(4);
    int rest = N - nsetup;
    int ntd = tdsel == 0 ? 0 : tdsel == 1 ? 1 : tdsel == 2 ? 2 : rest; if (ntd > rest) ntd = rest;
    int nbody = rest - ntd;
    int oc = ch.choose(NK + 1);      // 0 ok; 1..NK-1 body outcome; NK: teardown C++ failure
    Script B;
    for (int i = 0; i < N; i++) {
        int t;
        switch (pattern) {
            case 0: t = i % NT; break;                     // distinct targets
            case 1: t = 2; break;                          // one target over and over
            case 2: t = i % 3; break;                      // three targets in turn
            case 3: t = i % 16; break;                     // sixteen distinct, then the same again
            default: t = (i / 2) % NT; break;              // every target twice in a row
        }
        int v = valpat ? 1 + i % 2 : 1;
        int ph = i < nsetup ? 0 : i < nsetup + nbody ? 1 : 2;
        B.ops[ph].push_back(Op{0, (unsigned char)t, (unsigned char)v});
    }
    if (oc > 0 && oc < NK) B.out[1] = oc;
    if (oc == NK) B.out[2] = CPPF;
    g_prog.push_back(A); g_prog.push_back(B);
    run_registry_program(vf::fmt("limit: before=%d N=%d pattern=%d values=%d setup=%d body=%d teardown=%d", a, N, pattern, valpat, nsetup, nbody, ntd), 2);
}

// ------------------------------------------------------------------ section runner
struct ChainCmp { bool same; std::string text; };
std::string chain_text(const std::vector<int>& c) { std::string o = "["; for (size_t i = 0; i < c.size(); i++) { if (i) o += ","; o += c[i] < 0 ? std::string("?") : vf::fmt("P%d", c[i]); } return o + "]"; }
// walk getFirstPlugin/getNext; ids by object identity, -1 = foreign object, stops after 12 hops or at a null link (-2)
std::vector<int> walk_chain(TestRegistry& reg, TestPlugin* const* P, int np) {
    std::vector<int> o; TestPlugin* p = reg.getFirstPlugin();
    for (int hops = 0; hops < 12; hops++) {
        if (p == NullTestPlugin::instance()) return o;
        if (!p) { o.push_back(-2); return o; }
        int id = -1; for (int i = 0; i < np; i++) if (P[i] == p) id = i;
        o.push_back(id);
        p = p->getNext();
    }
    o.push_back(-3);
    return o;
}
std::string log_text(const std::vector<LogE>& l) {
    std::string o; for (auto& e : l) { if (e.kind == 2) o += vf::fmt("<test%d> ", e.who); else o += vf::fmt("%s(P%d) ", e.kind ? "post" : "pre", e.who); } return o;
}
// expected log: per test pre head-first over enabled, marker, post in the exact reverse
std::vector<LogE> expected_log(const std::vector<int>& chain, const bool* en, int ntests, int reps) {
    std::vector<LogE> e;
    for (int r = 0; r < reps; r++) for (int j = 0; j < ntests; j++) {
        for (size_t i = 0; i < chain.size(); i++) if (en[chain[i]]) e.push_back(LogE{(signed char)chain[i], 0});
        e.push_back(LogE{(signed char)j, 2});
        for (size_t i = chain.size(); i-- > 0;) if (en[chain[i]]) e.push_back(LogE{(signed char)chain[i], 1});
    }
    return e;
}
bool check_log(const std::vector<int>& chain, const bool* en, int ntests, int reps, const Desc& desc) {
    std::vector<LogE> exp = expected_log(chain, en, ntests, reps);
    bool same = exp.size() == g_log.size();
    for (size_t i = 0; same && i < exp.size(); i++) if (exp[i].who != g_log[i].who || exp[i].kind != g_log[i].kind) same = false;
    if (same) return true;
    std::string what;
    for (auto& e : g_log) if (e.kind != 2) {
        bool inchain = std::find(chain.begin(), chain.end(), (int)e.who) != chain.end();
        if (!inchain) { what = "uninstalled-plugin-acted"; break; }
        if (!en[(int)e.who]) { what = "disabled-plugin-acted"; break; }
    }
    if (what.empty()) {
        // same multiset?
        auto keyv = [](std::vector<LogE> v) { std::vector<int> k; for (auto& e : v) k.push_back(e.kind == 2 ? -1 : e.who * 2 + e.kind); std::sort(k.begin(), k.end()); return k; };
        if (keyv(exp) != keyv(g_log)) what = exp.size() > g_log.size() ? "action-missing" : "action-count";
        else {
            size_t i = 0; while (i < exp.size() && exp[i].who == g_log[i].who && exp[i].kind == g_log[i].kind) i++;
            what = exp[i].kind == 0 ? "pre-order" : exp[i].kind == 1 ? "post-order" : "test-position";
        }
    }
    vf::fail("order/" + what, desc() + ": log " + log_text(g_log) + " expected " + log_text(exp));
    return false;
}

void runner_scenario(vf::Chooser& ch, bool T) {
    g_prog.clear();
    int budget = 1; g_prog.push_back(gen_script(ch, 1, false, budget));
    budget = 1; g_prog.push_back(gen_script(ch, 1, false, budget, !T));
    int reps = 1 + ch.choose(2);
    int cfg = ch.choose(4);      // user plugins installed before the runner: none | R0 | R0, R1(disabled) | R0, R1, R2
    g_prog.push_back(probe_script());
    int n = (int)g_prog.size();
    reset_case_globals(); g_runner_mode = true; g_ntests = n;
    RecPlugin r0("R0", 0), r1("R1", 1), r2("R2", 2);
    TestPlugin* R[3] = {&r0, &r1, &r2};
    bool en[3] = {true, true, true};
    std::vector<int> chain;
    TestRegistry reg;
    std::vector<std::unique_ptr<PShell>> shells;
    for (int j = 0; j < n; j++) shells.emplace_back(new PShell(j));
    for (int j = n - 1; j >= 0; j--) reg.addTest(shells[j].get());
    int nuser = cfg == 0 ? 0 : cfg == 1 ? 1 : cfg == 2 ? 2 : 3;
    for (int i = 0; i < nuser; i++) { reg.installPlugin(R[i]); chain.insert(chain.begin(), i); }
    if (cfg == 2) { r1.disable(); en[1] = false; }
    Desc mkdesc = [&]() { std::string d = vf::fmt("runner: -r%d user-plugins=%s%s", reps, chain_text(chain).c_str(), cfg == 2 ? " (P1 disabled)" : "");
        for (int j = 0; j < 2; j++) d += " " + render(g_prog[j]); return d; };
    std::string rarg = vf::fmt("-r%d", reps);
    const char* av[4] = {"prog", "-e", rarg.c_str(), nullptr};
    int rv;
    vf::ctx("runAllTestsMain");
    { CommandLineTestRunner runner(3, av, &reg); rv = runner.runAllTestsMain(); }
    UtestShell::setRethrowExceptions(false);
    if (g_k > 0) on_test_end(g_k - 1);
    vf::ctx("compare");
    if (g_k != n * reps) vf::fail("runner/tests-executed", mkdesc() + vf::fmt(": %d tests created, expected %d", g_k, n * reps));
    else {
        long expfails = 0; bool good = true;
        for (int k = 0; k < n * reps && good; k++) good = check_test(k, k % n, k % n == n - 1, false, mkdesc, &expfails);
        if (good && rv != expfails) {
            if (expfails == 0) vf::fail("table/not-empty-after-test", mkdesc() + vf::fmt(": runner returned %d although no test should fail (a test within the limit failed)", rv));
            else vf::fail("runner/return-value", mkdesc() + vf::fmt(": runner returned %d, reference %ld failures", rv, expfails));
        }
        if (good) check_log(chain, en, n, reps, mkdesc);
    }
    vf::ctx("chain-after-run");
    std::vector<int> after = walk_chain(reg, R, 3);
    if (after != chain) vf::fail("runner/plugin-chain-changed", mkdesc() + ": chain after the run " + chain_text(after) + ", before " + chain_text(chain));
    else if (reg.countPlugins() != (int)chain.size()) vf::fail("countPlugins/mismatch", mkdesc() + vf::fmt(": countPlugins()=%d, expected %zu", reg.countPlugins(), chain.size()));
    ProgStats st = stats_of(2);
    vf::outcome(vf::fmt("failing=%d redirected=%d reps=%d plugins=%d", st.fails, st.redirected, reps, cfg));
    if (st.redirected) vf::count("nontrivial");
    vf::count("tests_run", n * reps);
    if (vf::want_sample()) vf::sample(mkdesc());
    for (int t = 0; t < NT; t++) raw_set(t, 0);
}

// ------------------------------------------------------------------ sections chain / closure
enum OpKind { INSTALL, REMOVE, TOGGLE, ENABLE, DISABLE, RESET };
struct ChainOp { int kind, arg; };
const char* PNAME[5] = {"P0", "P1", "P2", "P3", "P4"};

// the real objects of one history plus the list model that is the oracle
struct ChainWorld {
    RecSetPlugin p0;                                      // constructing it empties the pointer table
    RecPlugin p1, p2, p3, p4;
    TestPlugin* P[5];
    TestRegistry reg;
    PShell s0, s1, s2;
    WatchOutput out;
    int np;
    std::vector<int> chain; bool en[5];                  // model: head first; enabled flags of all plugins
    std::string trace;
    const char* opname = ""; bool was_installed = false; ChainOp last{RESET, 0}; bool discovery = false;
    explicit ChainWorld(int np_) : p0(PNAME[0], 0), p1(PNAME[1], 1), p2(PNAME[2], 2), p3(PNAME[3], 3), p4(PNAME[4], 4), s0(0), s1(1), s2(2), np(np_) {
        P[0] = &p0; P[1] = &p1; P[2] = &p2; P[3] = &p3; P[4] = &p4;
        reg.addTest(&s2); reg.addTest(&s1); reg.addTest(&s0);
        for (int i = 0; i < 5; i++) en[i] = true;
    }
    bool installed(int i) const { return std::find(chain.begin(), chain.end(), i) != chain.end(); }
    std::vector<ChainOp> enabled_ops(bool idempotent) const {
        std::vector<ChainOp> ops;
        for (int i = 0; i < np; i++) if (!installed(i)) ops.push_back({INSTALL, i});     // installing an installed plugin is outside the property (it ties the chain into a loop)
        for (int i = 0; i < np; i++) ops.push_back({REMOVE, i});
        ops.push_back({REMOVE, -1});
        for (int i = 0; i < np; i++) { if (idempotent) { ops.push_back({DISABLE, i}); ops.push_back({ENABLE, i}); } else ops.push_back({TOGGLE, i}); }
        ops.push_back({RESET, 0});
        return ops;
    }
    void apply(ChainOp op) {        // on the real objects and on the model
        last = op; was_installed = false;
        switch (op.kind) {
            case INSTALL: vf::ctx("installPlugin"); opname = "installPlugin"; trace += vf::fmt("install(P%d) ", op.arg);
                reg.installPlugin(P[op.arg]); chain.insert(chain.begin(), op.arg); break;
            case REMOVE: vf::ctx("removePluginByName"); opname = "removePluginByName";
                if (op.arg < 0) { trace += "remove(nosuch) "; reg.removePluginByName("nosuch"); }
                else {
                    trace += vf::fmt("remove(P%d) ", op.arg);
                    reg.removePluginByName(PNAME[op.arg]);
                    auto it = std::find(chain.begin(), chain.end(), op.arg);
                    if (it != chain.end()) { was_installed = true; chain.erase(it); }
                }
                break;
            case TOGGLE: case ENABLE: case DISABLE: {
                bool to = op.kind == TOGGLE ? !en[op.arg] : op.kind == ENABLE;
                vf::ctx(to ? "enable" : "disable"); opname = to ? "enable" : "disable"; trace += vf::fmt("%s(P%d) ", opname, op.arg);
                if (to) P[op.arg]->enable(); else P[op.arg]->disable();
                en[op.arg] = to; break; }
            default: vf::ctx("resetPlugins"); opname = "resetPlugins"; trace += "reset "; reg.resetPlugins(); chain.clear(); break;
        }
        if (!discovery) vf::count("ops");
        if (discovery) trace.clear();
    }
    // exact key of everything the library reads: head pointer, every plugin's link (stale links of removed plugins
    // included) and flag. ids: 0..4 plugin, 5 null plugin, 6 nullptr, 7 foreign
    int idof(TestPlugin* p) const { if (!p) return 6; if (p == NullTestPlugin::instance()) return 5; for (int i = 0; i < 5; i++) if (p == P[i]) return i; return 7; }
    unsigned key() { unsigned k = (unsigned)idof(reg.firstPlugin_); for (int i = 0; i < np; i++) { k = k * 8 + (unsigned)idof(P[i]->next_); k = k * 2 + (P[i]->enabled_ ? 1u : 0u); } return k; }
    TestPlugin* ptr_of(int id) { return id < 5 ? P[id] : id == 5 ? NullTestPlugin::instance() : nullptr; }
    void poke(unsigned k) {          // discovery only: put the objects into a recorded state
        for (int i = np - 1; i >= 0; i--) { P[i]->enabled_ = (k & 1u) != 0; k /= 2; P[i]->next_ = ptr_of((int)(k % 8)); k /= 8; }
        reg.firstPlugin_ = ptr_of((int)(k % 8));
    }
    bool silent_same() { std::vector<int> real = walk_chain(reg, P, 5); if (real != chain) return false; for (int i = 0; i < np; i++) if (P[i]->enabled_ != en[i]) return false; return true; }
    // compares chain walk, countPlugins, getPluginByName, isEnabled with the model; reports and returns false on mismatch
    bool check_structure() {
        vf::ctx("walk-chain");
        std::vector<int> real = walk_chain(reg, P, 5);
        if (real != chain) {
            std::string what = "chain-mismatch";
            if (last.kind == REMOVE && last.arg >= 0 && was_installed && std::find(real.begin(), real.end(), last.arg) != real.end()) what = "not-removed";
            else if (last.kind == REMOVE && real.size() < chain.size()) what = "removed-another-plugin";
            vf::fail(std::string(opname) + "/" + what, trace + ": chain is " + chain_text(real) + ", reference " + chain_text(chain));
            return false;
        }
        vf::ctx("countPlugins");
        if (reg.countPlugins() != (int)chain.size()) { vf::fail("countPlugins/mismatch", trace + vf::fmt(": countPlugins()=%d, reference %zu", reg.countPlugins(), chain.size())); return false; }
        for (int i = 0; i < np; i++) {
            vf::ctx("getPluginByName");
            TestPlugin* got = reg.getPluginByName(PNAME[i]);
            bool inst = installed(i);
            if (got != (inst ? P[i] : nullptr)) { vf::fail("getPluginByName/mismatch", trace + vf::fmt(": getPluginByName(P%d) returned %s, reference %s", i, got == P[i] ? "the plugin" : got ? "another object" : "null", inst ? "the plugin" : "null")); return false; }
            if (P[i]->isEnabled() != en[i]) { vf::fail(std::string(opname) + "/enabled-flag", trace + vf::fmt(": P%d isEnabled()=%d, reference %d", i, P[i]->isEnabled(), en[i])); return false; }
        }
        if (reg.getPluginByName("nosuch") != nullptr) { vf::fail("getPluginByName/mismatch", trace + ": getPluginByName(nosuch) is not null"); return false; }
        return true;
    }
    // behaviour: a run of three tests (passes / C++-style failure / throws or C-style failure); they redirect
    // pointers only while the pointer plugin P0 takes part
    bool observe() {
        const int n = 3; g_ntests = n;
        bool ptr_active = en[0] && installed(0);
        g_prog.clear(); g_prog.resize(3);
        if (ptr_active) {
            g_prog[0].ops[1].push_back(Op{0, 0, 1});
            g_prog[1].ops[0].push_back(Op{0, 1, 2}); g_prog[1].ops[1].push_back(Op{0, 1, 1}); g_prog[1].ops[1].push_back(Op{0, 2, 2});
            g_prog[2].ops[1].push_back(Op{0, 2, 1}); g_prog[2].ops[2].push_back(Op{0, 2, 2});
        }
        g_prog[1].out[1] = CPPF;
#if CPPUTEST_HAVE_EXCEPTIONS
        g_prog[2].out[1] = THROW_STD;
#else
        g_prog[2].out[1] = CF;
#endif
        g_k = 0; g_log.clear(); out.fails_before = 0;
        for (int k = 0; k < n; k++) g_obs[k].ended = false;
        vf::ctx("runAllTests");
        { TestResult result(out); reg.runAllTests(result); }
        vf::ctx("compare");
        Desc desc = [&]() { return trace + "then run"; };
        if (!check_log(chain, en, n, 1, desc)) return false;
        for (int k = 0; k < n; k++) if (!check_test(k, k, false, true, desc, nullptr)) return false;
        vf::count("observation_runs");
        return true;
    }
    bool any_disabled_in_chain() const { for (int i : chain) if (!en[i]) return true; return false; }
};

void chain_scenario(vf::Chooser& ch, int np, int depth) {
    reset_case_globals(); g_runner_mode = false;
    ChainWorld w(np);
    int maxlen = 0, removed_installed = 0, runs_with_disabled = 0;
    for (int step = 0; step < depth; step++) {
        std::vector<ChainOp> ops = w.enabled_ops(false);
        ChainOp op = ops[ch.choose((int)ops.size())];
        bool fresh = ch.in_new_territory();          // the replayed prefix was checked by the case that first executed it
        size_t before = w.chain.size();
        w.apply(op);
        if (w.was_installed && before >= 3) removed_installed++;
        if ((int)w.chain.size() > maxlen) maxlen = (int)w.chain.size();
        if (fresh) {
            if (!w.check_structure()) return;
            if (!w.observe()) return;
            if (w.any_disabled_in_chain() && w.chain.size() >= 2) runs_with_disabled++;
        }
    }
    if (removed_installed > 0 || runs_with_disabled > 0) vf::count("nontrivial");
    int ndis = 0; for (int i : w.chain) if (!w.en[i]) ndis++;
    vf::outcome(vf::fmt("final-len=%zu disabled-in-chain=%d maxlen=%d", w.chain.size(), ndis, maxlen));
    if (vf::want_sample()) vf::sample(w.trace);
    for (int t = 0; t < NT; t++) raw_set(t, 0);
}

// ---- closure: all reachable states of the chain for np plugins, every operation from every state.
// Discovery (parent process, before the workers fork): breadth-first over exact state keys; a state is entered by
// writing the recorded links/flags into the objects, then the operation is applied through the public interface.
// This only yields the list of states with a shortest operation path each. Checking (section cases, one per state):
// the path is executed on fresh objects through the public interface only, the state is observed by a test run, and
// every operation is applied to it (path executed again each time) and compared with the model.
struct Closure {
    int np = 0;
    std::vector<unsigned> keys; std::vector<int> parent; std::vector<ChainOp> via;
    std::unordered_map<unsigned, int> index;
    long malformed = 0, transitions = 0;
};
Closure g_closure;
void discover_closure(int np) {
    Closure& c = g_closure; c = Closure(); c.np = np;
    ChainWorld w(np); w.discovery = true;
    c.keys.push_back(w.key()); c.parent.push_back(-1); c.via.push_back({RESET, 0}); c.index[w.key()] = 0;
    for (size_t i = 0; i < c.keys.size(); i++) {
        w.poke(c.keys[i]);
        std::vector<int> real = walk_chain(w.reg, w.P, 5);
        bool ok = true; std::vector<int> seen;
        for (int id : real) { if (id < 0 || std::find(seen.begin(), seen.end(), id) != seen.end()) ok = false; seen.push_back(id); }
        if (!ok) { c.malformed++; continue; }          // broken chain: reported by the case of its predecessor, never expanded
        w.chain = real;                                 // operations offered = those the model offers in a conforming state
        std::vector<ChainOp> ops = w.enabled_ops(true);
        for (ChainOp op : ops) {
            w.poke(c.keys[i]); w.chain = real;
            w.apply(op); c.transitions++;
            unsigned k = w.key();
            if (c.index.find(k) == c.index.end()) { c.index[k] = (int)c.keys.size(); c.keys.push_back(k); c.parent.push_back((int)i); c.via.push_back(op); }
        }
    }
}
void closure_case(long idx) {
    Closure& c = g_closure;
    std::vector<ChainOp> path; for (int i = (int)idx; c.parent[i] >= 0; i = c.parent[i]) path.push_back(c.via[i]);
    std::reverse(path.begin(), path.end());
    reset_case_globals(); g_runner_mode = false;
    size_t nops = 0;
    {
        ChainWorld w(c.np);
        for (ChainOp op : path) { if (op.kind == INSTALL && w.installed(op.arg)) { vf::count("skipped_path_leaves_the_model"); return; } w.apply(op); }
        if (!w.silent_same()) { vf::count("skipped_diverged_on_path"); return; }       // the step that diverged is reported by the case of the state before it
        if (w.key() != c.keys[idx]) vf::harness_error("closure: the operation path does not lead to the recorded state");
        if (!w.observe()) return;
        if (w.chain.size() >= 3 || (w.any_disabled_in_chain() && w.chain.size() >= 2)) vf::count("nontrivial");
        int ndis = 0; for (int i : w.chain) if (!w.en[i]) ndis++;
        vf::outcome(vf::fmt("len=%zu disabled-in-chain=%d path=%zu", w.chain.size(), ndis, path.size() > 6 ? 6 : path.size()));
        if (vf::want_sample()) vf::sample(w.trace + "(then every operation)");
        nops = w.enabled_ops(true).size();
    }
    for (size_t o = 0; o < nops; o++) {
        ChainWorld w(c.np);
        for (ChainOp op : path) w.apply(op);
        ChainOp op = w.enabled_ops(true)[o];
        w.apply(op);
        vf::count("transitions_checked");
        if (!w.check_structure()) continue;
        if (c.index.find(w.key()) == c.index.end()) vf::harness_error("closure: successor state outside the discovered set");
    }
    for (int t = 0; t < NT; t++) raw_set(t, 0);
}


// ------------------------------------------------------------------ section midrun
// One run of four tests; one or two chain operations are executed from inside the run: in a test's setup, body or
// teardown, or in the pre / post action of the plugin that was head / tail of the chain when the run started.
// Plugins: R0..R2 (ids 0..2) and N0, N1 (3, 4; installed only by operations) record; S (id 5) is a real
// SetPointerPlugin that records. The harness keeps a live list model that is updated when an operation executes; the
// chain and flags as they stand when a test starts (before its pre actions) are the reference for that test.
enum MidKind { K_INSTALL_NEW = 0, K_REMOVE_HEAD, K_REMOVE_MIDDLE, K_REMOVE_TAIL, K_TOGGLE_HEAD, K_TOGGLE_TAIL, K_SETPTR, NMIDKIND };
const char* MIDKIND_NAME[] = {"install-new-plugin", "remove-head-by-name", "remove-middle-by-name", "remove-tail-by-name", "toggle-head", "toggle-tail", "install-or-remove-SetPointerPlugin"};
const char* MIDLOC_NAME[] = {"pre-action-of-initial-head", "pre-action-of-initial-tail", "setup", "body", "teardown", "post-action-of-initial-tail", "post-action-of-initial-head"};
const char* MPNAME[6] = {"R0", "R1", "R2", "N0", "N1", "S"};
const int MID_S = 5, MID_TESTS = 4;
struct MidOp { int test, loc, kind; };
struct MidExec { int opidx; int log_pos; int touched; std::string text; };   // an operation that really executed
struct MidSnap { std::vector<int> chain; bool en[6]; };
struct MidState {
    TestRegistry* reg = nullptr; TestPlugin* P[6];
    std::vector<int> live; bool en[6];
    int head_actor = -1, tail_actor = -1;
    MidOp ops[2]; int nops = 0; bool done[2];
    std::vector<MidExec> executed;
    MidSnap snap[MID_TESTS];
    bool redirect[MID_TESTS];
} g_mid;
bool mid_in(const std::vector<int>& c, int id) { return std::find(c.begin(), c.end(), id) != c.end(); }
std::string mid_chain_text(const std::vector<int>& c, const bool* en) { std::string o = "["; for (size_t i = 0; i < c.size(); i++) { if (i) o += ","; o += c[i] < 0 || c[i] > 5 ? "?" : MPNAME[c[i]]; if (c[i] >= 0 && c[i] <= 5 && en && !en[c[i]]) o += "(off)"; } return o + "]"; }

void midrun_perform(int opidx) {
    MidState& m = g_mid; MidOp& op = m.ops[opidx];
    int touched = -1; std::string text;
    switch (op.kind) {
        case K_INSTALL_NEW: {
            int id = !mid_in(m.live, 3) ? 3 : !mid_in(m.live, 4) ? 4 : -1;
            if (id < 0) { vf::count("midrun_ops_inapplicable"); return; }
            vf::ctx("midrun-installPlugin"); m.reg->installPlugin(m.P[id]); m.live.insert(m.live.begin(), id); touched = id; text = vf::fmt("install(%s)", MPNAME[id]); break; }
        case K_REMOVE_HEAD: case K_REMOVE_MIDDLE: case K_REMOVE_TAIL: {
            int id = -1;
            if (op.kind == K_REMOVE_HEAD && m.live.size() >= 1) id = m.live.front();
            if (op.kind == K_REMOVE_TAIL && m.live.size() >= 2) id = m.live.back();
            if (op.kind == K_REMOVE_MIDDLE && m.live.size() >= 3) id = m.live[1];
            if (id < 0) { vf::count("midrun_ops_inapplicable"); return; }
            vf::ctx("midrun-removePluginByName"); m.reg->removePluginByName(MPNAME[id]); m.live.erase(std::find(m.live.begin(), m.live.end(), id)); touched = id; text = vf::fmt("removeByName(%s)", MPNAME[id]); break; }
        case K_TOGGLE_HEAD: case K_TOGGLE_TAIL: {
            if (m.live.empty() || (op.kind == K_TOGGLE_TAIL && m.live.size() < 2)) { vf::count("midrun_ops_inapplicable"); return; }
            int id = op.kind == K_TOGGLE_HEAD ? m.live.front() : m.live.back();
            vf::ctx("midrun-enable-disable");
            if (m.en[id]) m.P[id]->disable(); else m.P[id]->enable();
            m.en[id] = !m.en[id]; touched = id; text = vf::fmt("%s(%s)", m.en[id] ? "enable" : "disable", MPNAME[id]); break; }
        default: {
            if (!mid_in(m.live, MID_S)) { vf::ctx("midrun-installPlugin"); m.reg->installPlugin(m.P[MID_S]); m.live.insert(m.live.begin(), MID_S); text = "install(S)"; }
            else { vf::ctx("midrun-removePluginByName"); m.reg->removePluginByName(MPNAME[MID_S]); m.live.erase(std::find(m.live.begin(), m.live.end(), MID_S)); text = "removeByName(S)"; }
            touched = MID_S; break; }
    }
    vf::ctx("runAllTests");
    m.executed.push_back(MidExec{opidx, (int)g_log.size(), touched, text});
    g_log.push_back(LogE{(signed char)(m.executed.size() - 1), 3});
}
// loc >= 0: a test phase; -1 / -2: pre / post action of plugin `actor`
void midrun_exec(int loc, int actor) {
    MidState& m = g_mid;
    for (int i = 0; i < m.nops; i++) {
        if (m.done[i] || m.ops[i].test != g_cur_k) continue;
        int l = m.ops[i].loc; bool here;
        if (loc >= 0) here = l == loc;
        else if (loc == -1) here = (l == L_PRE_HEAD && actor == m.head_actor) || (l == L_PRE_TAIL && actor == m.tail_actor);
        else here = (l == L_POST_HEAD && actor == m.head_actor) || (l == L_POST_TAIL && actor == m.tail_actor);
        if (!here) continue;
        m.done[i] = true;
        midrun_perform(i);
    }
}
void midrun_test_started(int k) {
    MidState& m = g_mid;
    g_log.push_back(LogE{(signed char)k, 4});
    if (k >= MID_TESTS) return;
    m.snap[k].chain = m.live; for (int i = 0; i < 6; i++) m.snap[k].en[i] = m.en[i];
    // the test redirects pointers only if S takes part at its start and no operation scheduled in it can concern S
    bool r = mid_in(m.live, MID_S) && m.en[MID_S];
    for (int i = 0; i < m.nops; i++) if (m.ops[i].test == k && m.ops[i].kind != K_INSTALL_NEW) r = false;
    m.redirect[k] = r;
}
struct MTest : Utest {
    int idx;
    explicit MTest(int i) : idx(i) {}
    void setup() override { midrun_exec(L_SETUP, -1); if (g_mid.redirect[idx]) { redirect(0, 1); g_sets_done[idx]++; } }
    void testBody() override {
        midrun_exec(L_BODY, -1);
        if (g_mid.redirect[idx]) { redirect(1, 2); redirect(0, 2); g_sets_done[idx] += 2; }
        UtestShell* cur = UtestShell::getCurrent();
        if (idx == 1) cur->assertTrue(false, "CHECK", "scripted", NULLPTR, "c17script.cpp", 777);
#if CPPUTEST_HAVE_EXCEPTIONS
        if (idx == 2) throw std::runtime_error("scripted std exception");
#else
        if (idx == 2) cur->assertTrue(false, "CHECK_C", "scripted", NULLPTR, "c17script.cpp", 778, TestTerminatorWithoutExceptions());
#endif
    }
    void teardown() override { midrun_exec(L_TEARDOWN, -1); if (g_mid.redirect[idx]) { redirect(2, 1); g_sets_done[idx]++; } }
};
Utest* midrun_make_test(int idx) { return new MTest(idx); }

void midrun_scenario(vf::Chooser& ch, bool T) {
    reset_case_globals(); g_runner_mode = false; g_ntests = MID_TESTS;
    MidState& m = g_mid;
    RecPlugin r0(MPNAME[0], 0), r1(MPNAME[1], 1), r2(MPNAME[2], 2), n0(MPNAME[3], 3), n1(MPNAME[4], 4);
    RecSetPlugin sp(MPNAME[5], MID_S);                     // constructing it empties the pointer table
    TestPlugin* P[6] = {&r0, &r1, &r2, &n0, &n1, &sp};
    TestRegistry reg;
    PShell s0(0), s1(1), s2(2), s3(3);
    reg.addTest(&s3); reg.addTest(&s2); reg.addTest(&s1); reg.addTest(&s0);
    m.reg = &reg; for (int i = 0; i < 6; i++) { m.P[i] = P[i]; m.en[i] = true; }
    m.live.clear(); m.executed.clear(); m.nops = 0; m.done[0] = m.done[1] = false;
    // initial chain: 0..3 recording plugins; S absent / installed first (tail) / installed last (head); T: one plugin disabled
    int nr = ch.choose(4);
    int spos = ch.choose(3);
    int dis = T ? ch.choose(3) : 0;                        // 0 none, 1 head disabled, 2 tail disabled
    if (spos == 1) { reg.installPlugin(P[MID_S]); m.live.insert(m.live.begin(), MID_S); }
    for (int i = 0; i < nr; i++) { reg.installPlugin(P[i]); m.live.insert(m.live.begin(), i); }
    if (spos == 2) { reg.installPlugin(P[MID_S]); m.live.insert(m.live.begin(), MID_S); }
    if (dis && !m.live.empty()) { int id = dis == 1 ? m.live.front() : m.live.back(); P[id]->disable(); m.en[id] = false; }
    m.head_actor = m.live.empty() ? -1 : m.live.front(); m.tail_actor = m.live.empty() ? -1 : m.live.back();
    std::vector<int> initial = m.live; bool initial_en[6]; for (int i = 0; i < 6; i++) initial_en[i] = m.en[i];
    // operations: one or two, in chronological order of their places
    static const int PHASE_LOCS[3] = {L_SETUP, L_BODY, L_TEARDOWN};
    int nloc = m.live.empty() ? 3 : NLOC;
    int nplaces = (MID_TESTS - 1) * nloc;                  // the last test only observes
    int nops = 1 + ch.choose(2);
    int from = 0;
    for (int i = 0; i < nops; i++) {
        int place = from + ch.choose(nplaces - from);
        from = place;
        int l = place % nloc;
        m.ops[i] = MidOp{place / nloc, m.live.empty() ? PHASE_LOCS[l] : l, ch.choose(NMIDKIND)};
    }
    m.nops = nops;
    auto describe = [&]() {
        std::string d = "midrun: chain at start " + mid_chain_text(initial, initial_en) + ";";
        for (int i = 0; i < m.nops; i++) d += vf::fmt(" in test %d %s: %s;", m.ops[i].test, MIDLOC_NAME[m.ops[i].loc], MIDKIND_NAME[m.ops[i].kind]);
        d += " executed:"; for (auto& e : m.executed) d += " " + e.text;
        return d;
    };
    g_midrun = true;
    WatchOutput out;
    vf::ctx("runAllTests");
    { TestResult result(out); reg.runAllTests(result); }
    g_midrun = false;
    vf::ctx("compare");
    auto log_str = [&](size_t a, size_t b) {
        std::string o; for (size_t i = a; i < b; i++) { const LogE& e = g_log[i];
            if (e.kind == 0 || e.kind == 1) o += vf::fmt("%s(%s) ", e.kind ? "post" : "pre", MPNAME[(int)e.who]);
            else if (e.kind == 2) o += "<test> "; else if (e.kind == 3) o += "{" + m.executed[(int)e.who].text + "} "; }
        return o; };
    // split the log into tests
    std::vector<size_t> starts; for (size_t i = 0; i < g_log.size(); i++) if (g_log[i].kind == 4) starts.push_back(i);
    bool good = true;
    if ((int)starts.size() != MID_TESTS) { vf::fail("midrun/tests-executed", describe() + vf::fmt(": %zu tests started, expected %d", starts.size(), MID_TESTS)); good = false; }
    bool chain_changed_for_later_test = false;
    for (int k = 0; good && k < MID_TESTS; k++) {
        size_t a = starts[k] + 1, b = k + 1 < MID_TESTS ? starts[k + 1] : g_log.size();
        const MidSnap& sn = m.snap[k];
        if (k > 0 && (sn.chain != m.snap[0].chain || memcmp(sn.en, m.snap[0].en, sizeof sn.en) != 0)) chain_changed_for_later_test = true;
        // plugins concerned by operations executed during this test: their actions in this test are not asserted
        bool touched_pre[6] = {}, touched[6] = {}; bool ops_here = false;
        size_t marker = b; for (size_t i = a; i < b; i++) if (g_log[i].kind == 2) { marker = i; break; }
        // an operation executed from a plugin action changes the chain while that very walk is in progress: nothing is
        // asserted about the actions of that walk (the property speaks of the tests that follow)
        bool walk_mutated[2] = {false, false};
        for (size_t i = a; i < b; i++) if (g_log[i].kind == 3) {
            const MidExec& e = m.executed[(int)g_log[i].who]; int t = e.touched; ops_here = true;
            int l = m.ops[e.opidx].loc;
            if (l == L_PRE_HEAD || l == L_PRE_TAIL) walk_mutated[0] = true;
            if (l == L_POST_HEAD || l == L_POST_TAIL) walk_mutated[1] = true;
            if (t >= 0) { touched[t] = true; if (i < marker) touched_pre[t] = true; }
        }
        std::vector<int> exp_pre, exp_post, obs_pre, obs_post; int npre[6] = {}, npost[6] = {};
        for (int id : sn.chain) if (sn.en[id] && !touched_pre[id]) exp_pre.push_back(id);
        for (size_t i = sn.chain.size(); i-- > 0;) { int id = sn.chain[i]; if (sn.en[id] && !touched[id]) exp_post.push_back(id); }
        for (size_t i = a; i < b; i++) {
            const LogE& e = g_log[i]; if (e.kind > 1) continue;
            bool before = i < marker;
            if (e.kind == 0) { npre[(int)e.who]++; if (!touched_pre[(int)e.who]) obs_pre.push_back(e.who); if (!before) { vf::fail("midrun/pre-action-after-test", describe() + vf::fmt(": test %d: ", k) + log_str(a, b)); good = false; break; } }
            else { npost[(int)e.who]++; if (!touched[(int)e.who]) obs_post.push_back(e.who); if (before) { vf::fail("midrun/post-action-before-test", describe() + vf::fmt(": test %d: ", k) + log_str(a, b)); good = false; break; } }
        }
        if (!good) break;
        if (marker == b) { vf::fail("midrun/tests-executed", describe() + vf::fmt(": test %d was never created", k)); good = false; break; }
        for (int id = 0; id < 6 && good; id++) if ((npre[id] > 1 && !walk_mutated[0]) || (npost[id] > 1 && !walk_mutated[1])) { vf::fail("midrun/action-repeated", describe() + vf::fmt(": test %d: %s acted more than once: ", k, MPNAME[id]) + log_str(a, b)); good = false; }
        if (!good) break;
        for (int phase = 0; phase < 2 && good; phase++) {
            const std::vector<int>& ex = phase ? exp_post : exp_pre; const std::vector<int>& ob = phase ? obs_post : obs_pre;
            if (ex == ob || walk_mutated[phase]) continue;
            good = false;
            std::string what;
            if (ops_here) what = "current-test/other-plugins-disturbed";
            else {
                what = "later-test/order";
                for (int id : ex) if (!mid_in(ob, id)) { what = "later-test/plugin-in-chain-got-no-action"; break; }
                for (int id : ob) if (!mid_in(ex, id)) { what = mid_in(sn.chain, id) ? "later-test/disabled-plugin-acted" : "later-test/removed-plugin-still-acted"; break; }
            }
            vf::fail(vf::fmt("midrun/%s", what.c_str()), describe() + vf::fmt(": test %d, chain when it started %s, %s actions: ", k, mid_chain_text(sn.chain, sn.en).c_str(), phase ? "post" : "pre") + log_str(a, b));
        }
        // pointers (also when the actions were wrong: a missing post action of the pointer plugin shows here) and failures
        if (!g_obs[k].ended) { vf::fail("midrun/tests-executed", describe() + vf::fmt(": test %d never ended", k)); good = false; break; }
        for (int t = 0; t < NT; t++) if (g_obs[k].final[t] != base_value(k)) {
            vf::fail("midrun/pointer-not-restored", describe() + vf::fmt(": test %d (chain when it started %s, SetPointerPlugin in it and enabled) redirected p%d; after its post actions it holds v%d, expected v%d", k, mid_chain_text(sn.chain, sn.en).c_str(), t, g_obs[k].final[t], base_value(k)));
            good = false; break;
        }
        if (!good) break;
        long expf = (k == 1 || k == 2) ? 1 : 0;
        if (good && g_obs[k].fails != expf) { vf::fail("failures/count", describe() + vf::fmt(": test %d: %ld failures, reference %ld", k, g_obs[k].fails, expf)); good = false; }
    }
    if (good) {
        vf::ctx("chain-after-run");
        std::vector<int> real = walk_chain(reg, P, 6);
        if (real != m.live) vf::fail("midrun/chain-after-run", describe() + ": chain after the run " + mid_chain_text(real, nullptr) + ", reference " + mid_chain_text(m.live, nullptr));
        else if (reg.countPlugins() != (int)m.live.size()) vf::fail("countPlugins/mismatch", describe() + vf::fmt(": countPlugins()=%d, reference %zu", reg.countPlugins(), m.live.size()));
        else for (int id = 0; id < 6; id++) {
            TestPlugin* got = reg.getPluginByName(MPNAME[id]);
            if (got != (mid_in(m.live, id) ? P[id] : nullptr)) { vf::fail("getPluginByName/mismatch", describe() + vf::fmt(": getPluginByName(%s) after the run", MPNAME[id])); break; }
            if (P[id]->isEnabled() != m.en[id]) { vf::fail("midrun/enabled-flag", describe() + vf::fmt(": %s isEnabled()=%d after the run", MPNAME[id], P[id]->isEnabled())); break; }
        }
    }
    int redirecting = 0; for (int k = 0; k < MID_TESTS; k++) if (m.redirect[k]) redirecting++;
    vf::count("midrun_ops_executed", (long)m.executed.size());
    vf::count("tests_run", MID_TESTS);
    if (chain_changed_for_later_test) vf::count("nontrivial");
    vf::outcome(vf::fmt("executed=%zu changed-for-later-test=%d final-len=%zu redirecting-tests=%d", m.executed.size(), chain_changed_for_later_test, m.live.size() > 3 ? 3 : m.live.size(), redirecting > 2 ? 2 : redirecting));
    if (vf::want_sample()) vf::sample(describe() + " | " + log_str(0, g_log.size()));
    m.reg = nullptr;
    for (int t = 0; t < NT; t++) raw_set(t, 0);
}

} // namespace

int main(int argc, char** argv) {
    vf::init(argc, argv, "C17");
    MemoryLeakWarningPlugin::turnOffNewDeleteOverloads();
    PlatformSpecificFPuts = fputs_nop; PlatformSpecificFlush = flush_nop;
    GetPlatformSpecificTimeInMillis = time_zero; GetPlatformSpecificTimeString = timestr_fixed;
    for (int t = 0; t < NT; t++) raw_set(t, 0);
    bool T = vf::thorough();
    vf::info("rule", vf::fmt("part A: programs of scripted tests (phases setup/body/teardown: UT_PTR_SET / plain assignment sequences, then outcome in %d kinds: ok, C++-style failure, C-style failure%s) + a probe test redirecting exactly 32 pointers, run through the real registry with a real SetPointerPlugin; values before a test alternate (v0, v1), targets: a function pointer, a double*, int* x 38; non-trivial = a target redirected more than once, or a failing test that redirected, or the limit exceeded. part B: operation histories on a private registry, state compared after every operation and observed by running three tests; non-trivial = a plugin removed from a chain of >= 3 or a run with a disabled plugin in a chain of >= 2", (int)NK, CPPUTEST_HAVE_EXCEPTIONS ? ", throws std::runtime_error, throws int" : "; no-exceptions build"));

    {
        int lmax = T ? 5 : 4;
        vf::info("seq.bound", vf::fmt("one test: every sequence of <= %d redirections over {p0,p1,p2} x {v1,v2}, every distribution over the three phases, at most one failing phase with every outcome kind (body is skipped after a failing setup)", lmax));
        vf::section_dfs("seq", 2, false, [&](vf::Chooser& ch) {
            g_prog.clear(); int budget = 1; g_prog.push_back(gen_script(ch, lmax, false, budget));
            run_registry_program("seq:", 1);
        });
        vf::require_outcomes("seq", 8);
    }
    {
        int lmax = T ? 4 : 3;
        vf::info("seqfail.bound", vf::fmt("one test: every sequence of <= %d redirections, every distribution over the phases, every combination of phase outcomes (several failing phases in one test)", lmax));
        vf::section_dfs("seqfail", 2, false, [&](vf::Chooser& ch) {
            g_prog.clear(); int budget = 3; g_prog.push_back(gen_script(ch, lmax, false, budget));
            run_registry_program("seqfail:", 1);
        });
        vf::require_outcomes("seqfail", 8);
    }
    {
        int lmax = T ? 4 : 3;
        vf::info("seqplain.bound", vf::fmt("one test: every sequence of <= %d operations over redirections {p0,p1,p2} x {v1,v2} and plain assignments {p0,p1,p2} := v3, every distribution over the phases, <= 1 failing phase", lmax));
        vf::section_dfs("seqplain", 2, false, [&](vf::Chooser& ch) {
            g_prog.clear(); int budget = 1; g_prog.push_back(gen_script(ch, lmax, true, budget));
            run_registry_program("seqplain:", 1);
        });
        vf::require_outcomes("seqplain", 6);
    }
    for (int variant = 0; variant < (T ? 2 : 1); variant++) {
        int l1 = variant ? 1 : 2, l2 = variant ? 2 : 1;
        std::string name = variant ? "pairs2" : "pairs";
        vf::info(name + ".bound", vf::fmt("two consecutive tests in one run: first with <= %d redirections, second with <= %d, every phase distribution, <= 1 failing phase each; values before the second test (v1) differ from those before the first (v0)", l1, l2));
        vf::section_dfs(name, 2, false, [&](vf::Chooser& ch) {
            g_prog.clear();
            int budget = 1; g_prog.push_back(gen_script(ch, l1, false, budget));
            budget = 1; g_prog.push_back(gen_script(ch, l2, false, budget));
            run_registry_program("pairs:", 2);
        });
        vf::require_outcomes(name, 8);
    }
    {
        vf::info("limit.bound", vf::fmt("two tests: before = {nothing, one redirection, two redirections then failure, 33 redirections}; then N = %s redirections, target pattern {distinct, one target, three in turn, sixteen twice, each twice in a row}, values {all v1, alternating}, setup share {0,1,16,31,32,33}, teardown share {0,1,2,rest}, outcome {ok, body failure kinds, teardown failure}", T ? "28..40" : "30..35"));
        vf::section_dfs("limit", 3, false, [&](vf::Chooser& ch) { limit_scenario(ch, T); });
        vf::require_outcomes("limit", 6);
    }
    {
        vf::info("runner.bound", vf::fmt("real CommandLineTestRunner::runAllTestsMain (-e, -r1/-r2) on a private registry: two tests with <= 1 redirection each (%s), + probe; user plugins installed before the run: none / one / two (one disabled) / three recording plugins; pointer values observed when the next test is created and after the runner returned", T ? "any phase" : "second test: body only"));
        vf::section_dfs("runner", 2, false, [&](vf::Chooser& ch) { runner_scenario(ch, T); });
        vf::require_outcomes("runner", 8);
    }
    {
        int depth = (T && CPPUTEST_HAVE_EXCEPTIONS) ? 6 : 5;      // the no-exceptions build repeats depth 5; all lengths are covered by section closure
        vf::info("chain.bound", vf::fmt("4 plugins (P0 = real SetPointerPlugin, recording), every history of depth %d over install(Pi) [only while Pi is not installed], removePluginByName(Pi | unknown name), toggle enable/disable(Pi), resetPlugins; unpruned; after every operation: chain walk, countPlugins, getPluginByName, isEnabled against the list model, then a run of three tests", depth));
        vf::section_dfs("chain", 2, false, [&](vf::Chooser& ch) { chain_scenario(ch, 4, depth); });
        vf::require_outcomes("chain", 8);
    }
    {
        vf::info("midrun.bound", vf::fmt("one run of 4 tests; chain at start: 0..3 recording plugins x SetPointerPlugin {absent, installed first, installed last}%s; 1 or 2 operations from {install a new plugin, remove head / middle / tail by name, toggle enable of head / tail, install-or-remove the SetPointerPlugin} executed inside test 0, 1 or 2 at one of {setup, body, teardown, pre / post action of the plugin that was head / tail at the start} (two operations: every chronologically ordered pair of places); tests redirect three pointers while the model says the SetPointerPlugin takes part; reference for each test = chain and flags when the test starts", T ? " x {all enabled, head disabled, tail disabled}" : ""));
        vf::section_dfs("midrun", 3, false, [&](vf::Chooser& ch) { midrun_scenario(ch, T); });
        vf::require_outcomes("midrun", 8);
    }
    if (vf::section_selected("closure")) {
        int np = T ? 5 : 4;
        discover_closure(np);
        vf::info("closure.bound", vf::fmt("%d plugins: all %zu states reachable by install / removePluginByName(Pi | unknown) / enable / disable / resetPlugins histories of any length (state = head pointer, every plugin's link incl. stale links of removed plugins, enabled flags; closed under all operations: %ld transitions explored in discovery, %ld malformed states); every state is reached through the public interface by a shortest path, observed by a run of three tests, and every operation is applied to it", np, g_closure.keys.size(), g_closure.transitions, g_closure.malformed));
        vf::section_index("closure", (long)g_closure.keys.size(), [&](long idx) { closure_case(idx); });
        vf::require_outcomes("closure", 8);
    }
    return vf::finish();
}

// C14 - diagnostics are safe to build, bounded, and say what happened.
//
// Part 1 (this file): the message of every failure class is built for every operand tuple of a
// finite lattice (operands live in exact-size heap buffers, so AddressSanitizer sees every read
// beyond an operand or beyond a rendering) and compared with an independent reading of the
// property: both operands are shown, the printed position is the first index at which the operands
// differ. The second half of section "strfail" builds the same messages through the real check macros
// inside a real test (vf::Fixture), which also shows that the inputs are reachable through the public API.
// Part 2 (c14_leakbuf.cpp): histories on the leak detector's fixed 4096-byte buffer.
#include <string>
#include <vector>
#include <set>
#include <cmath>
#include <climits>
#include <cfloat>
#include <stdexcept>
#define VF_MAIN
#include "vf.h"
#include "c14_common.h"
#include "fixture.h"
#include "CppUTest/TestHarness.h"
#include "CppUTest/TestFailure.h"
#include "CppUTest/SimpleString.h"
#include "CppUTest/MemoryLeakWarningPlugin.h"
#undef new

void c14_leak_sections();

// ---- a user type whose values differ while their printed forms are the same (CHECK_EQUAL prints through StringFrom)
struct C14Obj { int id; const char* text; };
inline bool operator!=(const C14Obj& x, const C14Obj& y) { return x.id != y.id; }
inline bool operator==(const C14Obj& x, const C14Obj& y) { return x.id == y.id; }
SimpleString StringFrom(const C14Obj& o) { return SimpleString(o.text); }

namespace {

struct Opnd {
    bool null = false;
    std::string s;
    char* buf = nullptr;      // exact-size copy: strlen+1 bytes
};
Opnd make_opnd(const std::string& s) { Opnd o; o.s = s; o.buf = (char*)malloc(s.size() + 1); memcpy(o.buf, s.c_str(), s.size() + 1); return o; }
Opnd null_opnd() { Opnd o; o.null = true; o.s = "(null)"; return o; }

UtestShell* g_shell;

// ------------------------------------------------------------------ reference renderings
enum Mode { ESC, RAW_OR_ESC, LITERAL };

bool needs_escape(unsigned char c) { return c < 0x20 || c == 0x7f; }
bool has_special(const std::string& s) { for (unsigned char c : s) if (needs_escape(c) || c >= 0x80) return true; return false; }

// canonical rendering used only for statistics ("printed forms coincide")
std::string canon(const std::string& s)
{
    static const char* shorts[] = {"\\a", "\\b", "\\t", "\\n", "\\v", "\\f", "\\r"};
    std::string o; char b[8];
    for (unsigned char c : s) {
        if (c >= 7 && c <= 13) o += shorts[c - 7];
        else if (needs_escape(c)) { snprintf(b, sizeof b, "\\x%02X", c); o += b; }
        else o += (char)c;
    }
    return o;
}

// every end position of an acceptable rendering of s that starts at msg[start]
std::vector<size_t> render_ends(const std::string& msg, size_t start, const std::string& s, Mode mode)
{
    static const char* shorts[] = {"\\a", "\\b", "\\t", "\\n", "\\v", "\\f", "\\r"};
    std::vector<size_t> cur{start}, next;
    for (unsigned char c : s) {
        std::vector<std::string> alts;
        bool ctrl = needs_escape(c), high = c >= 0x80;
        if (mode == LITERAL || (!ctrl && !high)) alts.push_back(std::string(1, (char)c));
        else {
            char b[8];
            snprintf(b, sizeof b, "\\x%02X", c); alts.push_back(b);
            snprintf(b, sizeof b, "\\x%02x", c); if (alts[0] != b) alts.push_back(b);
            if (c >= 7 && c <= 13) alts.push_back(shorts[c - 7]);
            if (high || mode == RAW_OR_ESC) alts.push_back(std::string(1, (char)c));   // bytes >= 0x80: escaped or as they are
        }
        next.clear();
        for (size_t p : cur) for (auto& t : alts) if (p + t.size() <= msg.size() && msg.compare(p, t.size(), t) == 0) next.push_back(p + t.size());
        std::sort(next.begin(), next.end()); next.erase(std::unique(next.begin(), next.end()), next.end());
        cur.swap(next);
        if (cur.empty()) break;
    }
    return cur;
}

// "<rendering of first>" somewhere, and behind it "<rendering of second>"
bool shown_in_order(const std::string& msg, const Opnd& first, const Opnd& second, Mode mode)
{
    for (size_t p = msg.find('<'); p != std::string::npos; p = msg.find('<', p + 1)) {
        for (size_t q : render_ends(msg, p + 1, first.s, first.null ? LITERAL : mode)) {
            if (q >= msg.size() || msg[q] != '>') continue;
            for (size_t p2 = msg.find('<', q + 1); p2 != std::string::npos; p2 = msg.find('<', p2 + 1))
                for (size_t q2 : render_ends(msg, p2 + 1, second.s, second.null ? LITERAL : mode))
                    if (q2 < msg.size() && msg[q2] == '>') return true;
        }
    }
    return false;
}
bool shows_both(const std::string& msg, const Opnd& e, const Opnd& a, Mode mode) { return shown_in_order(msg, e, a, mode) || shown_in_order(msg, a, e, mode); }
bool shows_one(const std::string& msg, const std::string& s, Mode mode)
{
    for (size_t p = 0; p <= msg.size(); p++) if (!render_ends(msg, p, s, mode).empty()) return true;
    return false;
}

bool parse_position(const std::string& msg, long& pos)
{
    const char* key = "difference starts at position ";
    size_t p = msg.find(key);
    if (p == std::string::npos) return false;
    const char* q = msg.c_str() + p + strlen(key); char* end = nullptr;
    pos = strtol(q, &end, 10);
    if (end == q) pos = -1;
    return true;
}

std::string lower(const std::string& s) { std::string o = s; for (auto& c : o) if (c >= 'A' && c <= 'Z') c = (char)(c - 'A' + 'a'); return o; }
long first_diff(const std::string& x, const std::string& y)   // index of the first differing byte, terminators included
{
    size_t i = 0;
    while (i < x.size() && i < y.size() && x[i] == y[i]) i++;
    return (long)i;
}

std::string show(const Opnd& o) { return o.null ? std::string("NULL") : "\"" + vf::esc(o.s.size() > 40 ? o.s.substr(0, 18) + "..." + o.s.substr(o.s.size() - 18) : o.s) + "\"" + (o.s.size() > 40 ? vf::fmt("(len %zu)", o.s.size()) : ""); }

const long POS_NONE = -1;      // nothing asserted about the position line

// the oracle shared by the directly constructed failures and the ones produced by the macros
void judge_text(const std::string& kind, const std::string& msg, const Opnd& e, const Opnd& a, Mode mode, long expect_pos, const std::string& what)
{
    if (!shows_both(msg, e, a, mode))
        vf::fail(kind + "/operand-not-shown", what + " :: message \"" + vf::esc(msg.substr(0, 300)) + "\" does not show both operands" + (mode == ESC ? " (printable, control bytes escaped)" : ""));
    if (expect_pos != POS_NONE) {
        long pos = -1;
        if (!parse_position(msg, pos)) vf::fail(kind + "/position-missing", what + vf::fmt(" :: operands first differ at index %ld; message \"", expect_pos) + vf::esc(msg.substr(0, 300)) + "\" has no position line");
        else if (pos != expect_pos) vf::fail(kind + "/position-wrong", what + vf::fmt(" :: operands first differ at index %ld, message says %ld", expect_pos, pos));
    }
}

// ------------------------------------------------------------------ section strfail
const char* SK_NAME[] = {"StringEqualFailure", "StringEqualNoCaseFailure", "CheckEqualFailure", "EqualsFailure-cstr", "EqualsFailure-str", "ContainsFailure"};

struct StrCase {
    int kind; const Opnd* e; const Opnd* a; std::string text;
    bool failing() const {
        bool anynull = e->null || a->null;
        switch (kind) {
        case 0: return anynull ? (e->null != a->null) : e->s != a->s;
        case 1: return anynull ? (e->null != a->null) : lower(e->s) != lower(a->s);
        case 2: return !anynull;                 // CHECK_EQUAL compares values with the user's operator and prints through StringFrom: any pair of renderings, equal ones included
        case 3: return true;
        case 4: return !anynull;
        case 5: return !anynull && a->s.find(e->s) == std::string::npos;
        }
        return false;
    }
    long expected_position() const {
        if (e->null || a->null) return POS_NONE;
        switch (kind) {
        case 0: return first_diff(e->s, a->s);
        case 1: return first_diff(lower(e->s), lower(a->s));
        case 2: return e->s == a->s ? POS_NONE : first_diff(e->s, a->s);     // no differing index exists for equal renderings: nothing asserted
        }
        return POS_NONE;
    }
    std::string describe() const { return std::string(SK_NAME[kind]) + "(expected=" + show(*e) + ", actual=" + show(*a) + (text.empty() ? "" : ", text=\"" + vf::esc(text) + "\"") + ")"; }
};

void run_strcase(const StrCase& c)
{
    if (!c.failing()) { vf::count("not_a_failing_check"); return; }
    std::string what = c.describe();
    if (vf::want_sample()) vf::sample(what);
    vf::ctx(SK_NAME[c.kind]);
    SimpleString m;
    SimpleString text(c.text.c_str());
    switch (c.kind) {
    case 0: { StringEqualFailure f(g_shell, "file.cpp", 20, c.e->buf, c.a->buf, text); m = f.getMessage(); break; }
    case 1: { StringEqualNoCaseFailure f(g_shell, "file.cpp", 20, c.e->buf, c.a->buf, text); m = f.getMessage(); break; }
    case 2: { CheckEqualFailure f(g_shell, "file.cpp", 20, SimpleString(c.e->buf), SimpleString(c.a->buf), text); m = f.getMessage(); break; }
    case 3: { EqualsFailure f(g_shell, "file.cpp", 20, (const char*)c.e->buf, (const char*)c.a->buf, text); m = f.getMessage(); break; }
    case 4: { EqualsFailure f(g_shell, "file.cpp", 20, SimpleString(c.e->buf), SimpleString(c.a->buf), text); m = f.getMessage(); break; }
    case 5: { ContainsFailure f(g_shell, "file.cpp", 20, SimpleString(c.e->buf), SimpleString(c.a->buf), text); m = f.getMessage(); break; }
    }
    vf::ctx("oracle");
    std::string msg(m.asCharString(), m.size());
    judge_text(SK_NAME[c.kind], msg, *c.e, *c.a, c.kind <= 2 ? ESC : RAW_OR_ESC, c.expected_position(), what);
    if (!c.text.empty() && msg.find(c.text) == std::string::npos) vf::fail(std::string(SK_NAME[c.kind]) + "/user-text-missing", what);
    bool anynull = c.e->null || c.a->null;
    bool coincide = !anynull && c.e->s != c.a->s && canon(c.e->s) == canon(c.a->s);
    bool special = has_special(c.e->s) || has_special(c.a->s);
    bool longop = c.e->s.size() > 20 || c.a->s.size() > 20;
    long pos; bool haspos = parse_position(msg, pos);
    vf::outcome(vf::fmt("%s null=%d equal=%d coincide=%d special=%d long=%d posline=%d", SK_NAME[c.kind], anynull, !anynull && c.e->s == c.a->s, coincide, special, longop, haspos));
    if (anynull || coincide || special || longop) vf::count("nontrivial");
    if (coincide) vf::count("printed_forms_coincide");
    vf::count("ops");
}

// ------------------------------------------------------------------ binary operands
struct Bin { bool null = false; std::string bytes; unsigned char* buf = nullptr; };
Bin make_bin(const std::string& b) { Bin x; x.bytes = b; x.buf = (unsigned char*)malloc(b.size() ? b.size() : 1); memcpy(x.buf, b.data(), b.size()); return x; }
std::string hex_of(const std::string& b) { std::string o; char t[4]; for (size_t i = 0; i < b.size(); i++) { snprintf(t, sizeof t, "%02X", (unsigned char)b[i]); if (i) o += ' '; o += t; } return o; }
std::string upper(const std::string& s) { std::string o = s; for (auto& c : o) if (c >= 'a' && c <= 'z') c = (char)(c - 'a' + 'A'); return o; }

void judge_binary(const std::string& kind, const std::string& msg, const Bin& e, const Bin& a, const std::string& what)
{
    Opnd oe, oa;
    oe.null = e.null; oe.s = e.null ? "(NULL)" : hex_of(e.bytes);
    oa.null = a.null; oa.s = a.null ? "(NULL)" : hex_of(a.bytes);
    std::string um = upper(msg);
    if (!shows_both(um, oe, oa, LITERAL)) vf::fail(kind + "/operand-not-shown", what + " :: message \"" + vf::esc(msg.substr(0, 300)) + "\" does not show both byte sequences in hex");
    if (!e.null && !a.null) {
        long expect = first_diff(e.bytes, a.bytes), pos = -1;
        if (!parse_position(msg, pos)) vf::fail(kind + "/position-missing", what);
        else if (pos != expect) vf::fail(kind + "/position-wrong", what + vf::fmt(" :: byte sequences first differ at index %ld, message says %ld", expect, pos));
    }
}
std::string show_bin(const Bin& b) { return b.null ? "NULL" : "[" + (b.bytes.size() > 12 ? hex_of(b.bytes.substr(0, 6)) + " ... " + hex_of(b.bytes.substr(b.bytes.size() - 3)) + vf::fmt(" (%zu bytes)", b.bytes.size()) : hex_of(b.bytes)) + "]"; }

// ------------------------------------------------------------------ numbers
bool token_in(const std::string& seg, const std::string& tok)
{
    for (size_t p = seg.find(tok); p != std::string::npos; p = seg.find(tok, p + 1)) {
        bool l = p == 0 || !(isdigit((unsigned char)seg[p - 1]) || seg[p - 1] == '-');
        bool r = p + tok.size() >= seg.size() || !isdigit((unsigned char)seg[p + tok.size()]);
        if (l && r) return true;
    }
    return false;
}
std::vector<std::string> bracket_segments(const std::string& msg)
{
    std::vector<std::string> v;
    for (size_t p = msg.find('<'); p != std::string::npos;) {
        size_t q = msg.find('>', p + 1);
        if (q == std::string::npos) break;
        v.push_back(msg.substr(p + 1, q - p - 1));
        p = msg.find('<', q + 1);
    }
    return v;
}
bool two_segments(const std::string& msg, const std::function<bool(const std::string&)>& is_e, const std::function<bool(const std::string&)>& is_a)
{
    auto segs = bracket_segments(msg);
    for (size_t i = 0; i < segs.size(); i++) for (size_t j = i + 1; j < segs.size(); j++)
        if ((is_e(segs[i]) && is_a(segs[j])) || (is_a(segs[i]) && is_e(segs[j]))) return true;
    return false;
}

const long long NUMS[] = {0, 1, -1, 2, 9, 10, -10, 99, 100, 127, 128, -128, -129, 255, 256, 32767, -32768, 65535, 65536,
                          INT_MAX, INT_MIN, (long long)INT_MAX + 1, (long long)UINT_MAX, LLONG_MAX, LLONG_MIN, LLONG_MAX - 1, 1000000000LL, 999999999LL};
const int NNUMS = (int)(sizeof NUMS / sizeof *NUMS);
const char* NK_NAME[] = {"LongsEqualFailure", "UnsignedLongsEqualFailure", "LongLongsEqualFailure", "UnsignedLongLongsEqualFailure", "SignedBytesEqualFailure"};

const double DBLS[] = {0.0, -0.0, 1.0, 1.0000001, -1.0, 1e-7, 0.1, 123456789.0, 1e300, -1e300, DBL_MIN, INFINITY, -INFINITY, NAN};
const int NDBLS = (int)(sizeof DBLS / sizeof *DBLS);

const unsigned long BITV[] = {0, 1, 0x80, 0xff, 0xaa55, 0xffffffffUL, ULONG_MAX, 0x8000000000000000UL};
const int NBITV = (int)(sizeof BITV / sizeof *BITV);
const size_t BYTECOUNTS[] = {1, 2, 4, 8};

bool bits_shown(const std::string& seg, unsigned long value, unsigned long mask, size_t byteCount)
{
    std::string s; for (char c : seg) if (c != ' ') s += c;
    size_t bits = 8 * (byteCount > sizeof(unsigned long) ? sizeof(unsigned long) : byteCount);
    if (s.size() != bits) return false;
    for (size_t i = 0; i < bits; i++) {
        size_t bit = bits - 1 - i;
        int m = (int)((mask >> bit) & 1), v = (int)((value >> bit) & 1);
        char c = s[i];
        if (m) { if (c != '0' + v) return false; }
        else if (c != 'x' && c != 'X' && c != '0' + v) return false;
    }
    return true;
}

const char* TK_NAME[] = {"ComparisonFailure", "CheckFailure", "FailFailure", "FeatureUnsupportedFailure", "UnexpectedExceptionFailure"};
const char* USER_TEXTS[] = {"", "note from the user", "LONGS_EQUAL(1, 2) failed", "\n"};

// ------------------------------------------------------------------ section macro (real checks in a real test)
const char* MK_NAME[] = {"STRCMP_EQUAL", "STRNCMP_EQUAL-1", "STRNCMP_EQUAL-2", "STRCMP_NOCASE_EQUAL", "STRCMP_CONTAINS", "MEMCMP_EQUAL", "CHECK_EQUAL"};
// the failure class each macro builds: signatures name the class, so one defect has one signature however it is reached
const char* MK_CLASS[] = {"StringEqualFailure", "StringEqualFailure", "StringEqualFailure", "StringEqualNoCaseFailure", "ContainsFailure", "BinaryEqualFailure", "CheckEqualFailure"};

std::string failure_text_of(const std::string& output)
{
    // everything behind the "Failure in TEST(...)" line
    size_t p = output.find("Failure in TEST(");
    if (p == std::string::npos) return output;
    size_t nl = output.find('\n', p);
    return nl == std::string::npos ? std::string() : output.substr(nl + 1);
}

void run_macro_case(int kind, const Opnd& e, const Opnd& a)
{
    std::string what = std::string(MK_NAME[kind]) + "(expected=" + show(e) + ", actual=" + show(a) + ")";
    // STRCMP_CONTAINS prints a NULL operand as an empty string; whether that counts as 'shown' is not decided by the property
    if ((kind == 4 || kind == 5 || kind == 6) && (e.null || a.null)) { vf::count("not_applicable"); return; }
    if (vf::want_sample()) vf::sample(what + " inside a real test");
    vf::ctx(MK_CLASS[kind]);
    size_t msize = 0;
    Bin be, ba;
    if (kind == 5) {      // compare as many bytes as the shorter string has, terminator included (own exact-size copies)
        msize = std::min(e.s.size(), a.s.size()) + 1;
        be = make_bin(std::string(e.buf, msize)); ba = make_bin(std::string(a.buf, msize));
    }
    size_t nfail; std::string out;
    {
        vf::Fixture fx;
        fx.run([&]() {
            switch (kind) {
            case 0: STRCMP_EQUAL(e.buf, a.buf); break;
            case 1: STRNCMP_EQUAL(e.buf, a.buf, 1); break;
            case 2: STRNCMP_EQUAL(e.buf, a.buf, 2); break;
            case 3: STRCMP_NOCASE_EQUAL(e.buf, a.buf); break;
            case 4: STRCMP_CONTAINS(e.buf, a.buf); break;
            case 5: MEMCMP_EQUAL(be.buf, ba.buf, msize); break;
            case 6: { C14Obj x{1, e.buf}, y{2, a.buf}; CHECK_EQUAL(x, y); break; }
            }
        });
        nfail = fx.failures(); out = fx.output();
    }
    vf::ctx("oracle");
    if (kind == 5) { free(be.buf); free(ba.buf); }
    vf::count("ops");
    if (nfail == 0) { vf::outcome(std::string(MK_NAME[kind]) + " passes"); return; }
    std::string msg = failure_text_of(out);
    bool anynull = e.null || a.null;
    long expect = POS_NONE;
    if (!anynull) {
        if (kind <= 2) expect = first_diff(e.s, a.s);
        else if (kind == 3) expect = first_diff(lower(e.s), lower(a.s));
        else if (kind == 6 && e.s != a.s) expect = first_diff(e.s, a.s);
    }
    if (kind == 5) judge_binary(MK_CLASS[kind], msg, be, ba, what);
    else judge_text(MK_CLASS[kind], msg, e, a, kind == 4 ? RAW_OR_ESC : ESC, expect, what);
    bool coincide = !anynull && e.s != a.s && canon(e.s) == canon(a.s);
    bool special = has_special(e.s) || has_special(a.s);
    long pos; bool haspos = parse_position(msg, pos);
    vf::outcome(vf::fmt("%s fails null=%d equal=%d coincide=%d special=%d posline=%d", MK_NAME[kind], anynull, !anynull && e.s == a.s, coincide, special, haspos));
    if (anynull || coincide || special || e.s.size() > 20 || a.s.size() > 20) vf::count("nontrivial");
}

// ------------------------------------------------------------------ operand sets
void all_strings(const std::string& alphabet, size_t maxlen, std::vector<std::string>& out)
{
    std::vector<std::string> layer{""};
    out.push_back("");
    for (size_t l = 1; l <= maxlen; l++) {
        std::vector<std::string> next;
        for (auto& s : layer) for (char c : alphabet) next.push_back(s + c);
        out.insert(out.end(), next.begin(), next.end());
        layer.swap(next);
    }
}
std::vector<std::string> extra_strings()
{
    std::vector<std::string> x = {
        "a\nb", "a\\nb", "\\N", "\\x01", "\\x7F", "\x81", "a\x81", "\\x80", "\\xFF", "\xff", "\t", "\\t", "\r\n",
        "hello world", "Hello World", "hello worlds", "<>", "a<b>c",
    };
    auto rep = [](char c, size_t n) { return std::string(n, c); };
    x.push_back(rep('x', 99)); x.push_back(rep('x', 100)); x.push_back(rep('x', 101)); x.push_back(rep('x', 300)); x.push_back(rep('X', 300));
    x.push_back(rep('x', 299) + "y"); x.push_back("y" + rep('x', 299)); x.push_back(rep('x', 150) + "y" + rep('x', 149));
    x.push_back(rep('x', 150) + "\n" + rep('x', 148)); x.push_back(rep('x', 150) + "\\n" + rep('x', 148));
    x.push_back(rep('\n', 300)); x.push_back(rep('\x01', 100));
    return x;
}

} // namespace

int main(int argc, char** argv)
{
    vf::init(argc, argv, "C14");
    MemoryLeakWarningPlugin::turnOffNewDeleteOverloads();
    const bool T = vf::thorough();            // which part of the space is enumerated
    const bool FULL = c14::full_space();      // which space the case numbers refer to (see c14_common.h)
    g_shell = new UtestShell("Group", "Name", "file.cpp", 10);
    vf::info("rule", "failure messages: every operand tuple of the stated lattice for every failure class for which the corresponding check fails, operands in exact-size heap buffers; non-trivial = an operand is NULL, longer than the 20-character marker window, contains a byte that needs escaping, or the two printed forms coincide. Leak buffer: every history of the stated product on a fresh detector; non-trivial = the text reached the lowered write limit (entries dropped or earlier messages already beyond it) or a report was appended to earlier text");

    // ---- operand sets (built once, before the workers fork); the quick operands come first
    const std::string SIGMA = std::string("aAb\n\\n") + '\x01' + '\x7f' + '\x80';
    std::vector<Opnd> S;
    long NS_Q;
    {
        std::vector<std::string> upto2, upto3;
        all_strings(SIGMA, 2, upto2); all_strings(SIGMA, 3, upto3);
        for (auto& s : upto2) S.push_back(make_opnd(s));
        for (auto& s : extra_strings()) S.push_back(make_opnd(s));
        S.push_back(null_opnd());
        NS_Q = (long)S.size();
        if (FULL) for (auto& s : upto3) if (s.size() == 3) S.push_back(make_opnd(s));
    }
    const long NS = T ? (long)S.size() : NS_Q;          // operands enumerated by this run
    const long NS_ALL = (long)S.size();

    {
        // ---- text failure classes: built directly, and through the real macros as the body of a real test
        std::vector<Opnd> MS;
        long NM_Q;
        {
            std::vector<std::string> upto1, upto2;
            all_strings(SIGMA, 1, upto1); all_strings(SIGMA, 2, upto2);
            for (auto& s : upto1) MS.push_back(make_opnd(s));
            for (auto& s : extra_strings()) if (s.size() < 120) MS.push_back(make_opnd(s));
            MS.push_back(null_opnd());
            NM_Q = (long)MS.size();
            if (FULL) {
                for (auto& s : upto2) if (s.size() == 2) MS.push_back(make_opnd(s));
                for (auto& s : extra_strings()) if (s.size() >= 120) MS.push_back(make_opnd(s));
            }
        }
        const long NM = T ? (long)MS.size() : NM_Q;
        // case numbers: [direct, quick operands][macros, quick operands][direct, the rest, then everything again with a user text][macros, the rest]
        const long A_Q = 6 * NS_Q * NS_Q, M_Q = 7 * NM_Q * NM_Q;
        const long A_ALL = 2 * 6 * NS_ALL * NS_ALL, M_ALL = 7 * (long)MS.size() * (long)MS.size();
        const long N = T || vf::g_replaying ? A_ALL + M_ALL : A_Q + M_Q;
        vf::info("strfail.bound", vf::fmt("direct: %ld operands: all byte strings over {a,A,b,\\n,\\\\,n,0x01,0x7f,0x80} of length <= %d, %zu selected ones (printed forms that coincide, bytes 0x81/0xff, lengths 99/100/101/300 with the difference at the start/middle/end), NULL; all ordered pairs x 6 failure classes x %d user texts. macros: %ld operands (same alphabet, length <= %d, the selected ones%s, NULL); all ordered pairs through STRCMP_EQUAL, STRNCMP_EQUAL with n=1 and n=2, STRCMP_NOCASE_EQUAL, STRCMP_CONTAINS, MEMCMP_EQUAL over the shorter length+1, CHECK_EQUAL on a user type printed through StringFrom, each executed as the body of a real test, message taken from the test output",
                                          NS, T ? 3 : 2, extra_strings().size(), T ? 2 : 1, NM, T ? 2 : 1, T ? "" : " shorter than 120"));
        vf::section_index("strfail", N, [&](long idx) {
            long d = -1, m = -1;             // number within the direct / macro enumeration
            if (idx < A_Q) d = idx; else if (idx < A_Q + M_Q) m = idx - A_Q; else if (idx < M_Q + A_ALL) d = idx - M_Q; else m = idx - A_ALL;
            if (m >= 0) {
                long i, j; c14::shell_pair(m / 7, i, j);
                run_macro_case((int)(m % 7), MS[i], MS[j]);
                return;
            }
            StrCase c;
            long per_text = 6 * NS_ALL * NS_ALL;
            c.text = d >= per_text ? "note from the user" : "";
            d %= per_text;
            long i, j; c14::shell_pair(d / 6, i, j);
            c.kind = (int)(d % 6); c.e = &S[i]; c.a = &S[j];
            if ((c.e->null || c.a->null) && (c.kind == 2 || c.kind >= 4)) { vf::count("not_applicable"); return; }
            run_strcase(c);
        });
        vf::require_outcomes("strfail", 20);
    }
    {
        // ---- binary
        std::vector<Bin> B;
        long NB_Q;
        {
            std::vector<std::string> tmp; all_strings(std::string("\x00\x01\x7f\x80\xff", 5), 4, tmp);
            for (auto& b : tmp) if (!b.empty() && b.size() <= 3) B.push_back(make_bin(b));
            std::string z(300, '\0');
            B.push_back(make_bin(z));
            for (size_t at : {(size_t)0, (size_t)150, (size_t)299}) { std::string v = z; v[at] = '\x01'; B.push_back(make_bin(v)); }
            Bin nb; nb.null = true; B.push_back(nb);
            NB_Q = (long)B.size();
            if (FULL) for (auto& b : tmp) if (b.size() == 4) B.push_back(make_bin(b));
        }
        const long NB = T ? (long)B.size() : NB_Q;
        const long NB_RANGE = T || vf::g_replaying ? (long)B.size() : NB_Q;
        vf::info("binfail.bound", vf::fmt("%ld byte sequences: all over {00,01,7f,80,ff} of size 1..%d, four of 300 bytes, NULL; all ordered pairs of equal size that differ, and NULL against each", NB, T ? 4 : 3));
        vf::section_index("binfail", NB_RANGE * NB_RANGE, [&](long idx) {
            long i, j; c14::shell_pair(idx, i, j);
            const Bin& e = B[i]; const Bin& a = B[j];
            bool failing = (e.null != a.null) || (!e.null && !a.null && e.bytes.size() == a.bytes.size() && e.bytes != a.bytes);
            if (!failing) { vf::count("not_a_failing_check"); return; }
            size_t size = e.null ? a.bytes.size() : e.bytes.size();
            std::string what = "BinaryEqualFailure(expected=" + show_bin(e) + ", actual=" + show_bin(a) + vf::fmt(", size=%zu)", size);
            if (vf::want_sample()) vf::sample(what);
            vf::ctx("BinaryEqualFailure");
            SimpleString m;
            { BinaryEqualFailure f(g_shell, "file.cpp", 20, e.null ? nullptr : e.buf, a.null ? nullptr : a.buf, size, ""); m = f.getMessage(); }
            vf::ctx("oracle");
            std::string msg(m.asCharString(), m.size());
            judge_binary("BinaryEqualFailure", msg, e, a, what);
            long pos; bool haspos = parse_position(msg, pos);
            vf::outcome(vf::fmt("null=%d size=%s posline=%d diff-at=%s", e.null || a.null, size > 4 ? "long" : "short", haspos, haspos ? (pos == 0 ? "first" : pos + 1 == (long)size ? "last" : "inner") : "-"));
            if (e.null || a.null || size > 6) vf::count("nontrivial");
            vf::count("ops");
        });
        vf::require_outcomes("binfail", 5);
    }
    {
        // ---- numbers, doubles, bits
        vf::info("numfail.bound", vf::fmt("%d integer values (0, +-1, powers of ten, byte/short/int/long limits) as all ordered pairs that differ in the operand type, for the five integer failure classes; %d doubles (zeros, 1+-eps, huge, tiny, inf, nan) as all (expected, actual, threshold) triples; bit patterns: %d values x %d values x %d masks x byte counts {1,2,4,8} where the masked values differ", NNUMS, NDBLS, NBITV, NBITV, NBITV));
        long n_int = 5L * NNUMS * NNUMS, n_dbl = (long)NDBLS * NDBLS * NDBLS, n_bits = (long)NBITV * NBITV * NBITV * 4;
        vf::section_index("numfail", n_int + n_dbl + n_bits, [&](long idx) {
            if (idx < n_int) {
                vf::Radix r(idx);
                int kind = (int)r.take(5); long long e = NUMS[r.take(NNUMS)], a = NUMS[r.take(NNUMS)];
                std::string de, da; SimpleString m;
                bool differ;
                vf::ctx(NK_NAME[kind]);
                switch (kind) {
                case 0: differ = (long)e != (long)a; de = std::to_string((long)e); da = std::to_string((long)a); break;
                case 1: differ = (unsigned long)e != (unsigned long)a; de = std::to_string((unsigned long)e); da = std::to_string((unsigned long)a); break;
                case 2: differ = e != a; de = std::to_string(e); da = std::to_string(a); break;
                case 3: differ = (unsigned long long)e != (unsigned long long)a; de = std::to_string((unsigned long long)e); da = std::to_string((unsigned long long)a); break;
                default: differ = (signed char)e != (signed char)a; de = std::to_string((int)(signed char)e); da = std::to_string((int)(signed char)a); break;
                }
                if (!differ) { vf::count("not_a_failing_check"); return; }
                std::string what = std::string(NK_NAME[kind]) + "(expected=" + de + ", actual=" + da + ")";
                if (vf::want_sample()) vf::sample(what);
                switch (kind) {
                case 0: { LongsEqualFailure f(g_shell, "file.cpp", 20, (long)e, (long)a, ""); m = f.getMessage(); break; }
                case 1: { UnsignedLongsEqualFailure f(g_shell, "file.cpp", 20, (unsigned long)e, (unsigned long)a, ""); m = f.getMessage(); break; }
                case 2: { LongLongsEqualFailure f(g_shell, "file.cpp", 20, (cpputest_longlong)e, (cpputest_longlong)a, ""); m = f.getMessage(); break; }
                case 3: { UnsignedLongLongsEqualFailure f(g_shell, "file.cpp", 20, (cpputest_ulonglong)e, (cpputest_ulonglong)a, ""); m = f.getMessage(); break; }
                default: { SignedBytesEqualFailure f(g_shell, "file.cpp", 20, (signed char)e, (signed char)a, ""); m = f.getMessage(); break; }
                }
                vf::ctx("oracle");
                std::string msg(m.asCharString(), m.size());
                if (!two_segments(msg, [&](const std::string& s) { return token_in(s, de); }, [&](const std::string& s) { return token_in(s, da); }))
                    vf::fail(std::string(NK_NAME[kind]) + "/operand-not-shown", what + " :: message \"" + vf::esc(msg) + "\"");
                vf::outcome(vf::fmt("%s samewidth=%d neg=%d/%d", NK_NAME[kind], de.size() == da.size(), de[0] == '-', da[0] == '-'));
                if (de.size() != da.size() || de[0] == '-' || da[0] == '-') vf::count("nontrivial");
                vf::count("ops");
                return;
            }
            idx -= n_int;
            if (idx < n_dbl) {
                vf::Radix r(idx);
                double e = DBLS[r.take(NDBLS)], a = DBLS[r.take(NDBLS)], th = DBLS[r.take(NDBLS)];
                std::string what = vf::fmt("DoublesEqualFailure(expected=%.17g, actual=%.17g, threshold=%.17g)", e, a, th);
                if (vf::want_sample()) vf::sample(what);
                vf::ctx("DoublesEqualFailure");
                SimpleString m;
                { DoublesEqualFailure f(g_shell, "file.cpp", 20, e, a, th, ""); m = f.getMessage(); }
                vf::ctx("oracle");
                std::string msg(m.asCharString(), m.size());
                int finite = 0;
                for (double v : {e, a, th}) if (std::isfinite(v)) {
                    finite++;
                    if (msg.find("<" + vf::fmt("%.7g", v) + ">") == std::string::npos) vf::fail("DoublesEqualFailure/operand-not-shown", what + vf::fmt(" :: %.7g missing in \"", v) + vf::esc(msg) + "\"");
                }
                vf::outcome(vf::fmt("doubles finite=%d nan=%d", finite, std::isnan(e) || std::isnan(a) || std::isnan(th)));
                if (finite < 3) vf::count("nontrivial");
                vf::count("ops");
                return;
            }
            idx -= n_dbl;
            {
                vf::Radix r(idx);
                unsigned long e = BITV[r.take(NBITV)], a = BITV[r.take(NBITV)], mask = BITV[r.take(NBITV)]; size_t bc = BYTECOUNTS[r.take(4)];
                if ((e & mask) == (a & mask)) { vf::count("not_a_failing_check"); return; }
                std::string what = vf::fmt("BitsEqualFailure(expected=0x%lx, actual=0x%lx, mask=0x%lx, byteCount=%zu)", e, a, mask, bc);
                if (vf::want_sample()) vf::sample(what);
                vf::ctx("BitsEqualFailure");
                SimpleString m;
                { BitsEqualFailure f(g_shell, "file.cpp", 20, e, a, mask, bc, ""); m = f.getMessage(); }
                vf::ctx("oracle");
                std::string msg(m.asCharString(), m.size());
                if (!two_segments(msg, [&](const std::string& s) { return bits_shown(s, e, mask, bc); }, [&](const std::string& s) { return bits_shown(s, a, mask, bc); }))
                    vf::fail("BitsEqualFailure/operand-not-shown", what + " :: message \"" + vf::esc(msg) + "\"");
                vf::outcome(vf::fmt("bits bytes=%zu", bc));
                if (mask != ULONG_MAX) vf::count("nontrivial");
                vf::count("ops");
            }
        });
        vf::require_outcomes("numfail", 8);
    }
    {
        // ---- classes that only quote text
        vf::info("textfail.bound", vf::fmt("ComparisonFailure, CheckFailure (two quoted strings), FailFailure, FeatureUnsupportedFailure, UnexpectedExceptionFailure (one): all pairs of the %ld string operands, user text chosen from 4 by (i+j) mod 4", NS - 1));

        // operands without NULL: the quick ones (NULL is the last of them) and, behind them, the thorough-only ones
        std::vector<const Opnd*> Q;
        for (long k = 0; k < NS_ALL; k++) if (!S[k].null) Q.push_back(&S[k]);
        const long NQ = T || vf::g_replaying ? (long)Q.size() : NS_Q - 1;
        vf::section_index("textfail", 5 * NQ * NQ, [&](long idx) {
            int kind = (int)(idx % 5); long i, j; c14::shell_pair(idx / 5, i, j);
            const Opnd& e = *Q[i]; const Opnd& a = *Q[j];
            std::string text = USER_TEXTS[(i + j) % 4];
            if (kind >= 2 && j != 0) { vf::count("single_operand_duplicate"); return; }   // one-operand classes: one case per operand
            std::string what = std::string(TK_NAME[kind]) + "(" + show(e) + (kind < 2 ? ", " + show(a) : "") + ", text=\"" + vf::esc(text) + "\")";
            if (vf::want_sample()) vf::sample(what);
            vf::ctx(TK_NAME[kind]);
            SimpleString m;
            switch (kind) {
            case 0: { ComparisonFailure f(g_shell, "file.cpp", 20, SimpleString(e.buf), SimpleString(a.buf), SimpleString(text.c_str())); m = f.getMessage(); break; }
            case 1: { CheckFailure f(g_shell, "file.cpp", 20, SimpleString(e.buf), SimpleString(a.buf), SimpleString(text.c_str())); m = f.getMessage(); break; }
            case 2: { FailFailure f(g_shell, "file.cpp", 20, SimpleString(e.buf)); m = f.getMessage(); break; }
            case 3: { FeatureUnsupportedFailure f(g_shell, "file.cpp", 20, SimpleString(e.buf), SimpleString(text.c_str())); m = f.getMessage(); break; }
            default: {
#if CPPUTEST_HAVE_EXCEPTIONS && CPPUTEST_USE_STD_CPP_LIB
                std::runtime_error ex(e.s);
                UnexpectedExceptionFailure f(g_shell, ex); m = f.getMessage();
#else
                m = SimpleString(e.buf);
#endif
                break; }
            }
            vf::ctx("oracle");
            std::string msg(m.asCharString(), m.size());
            if (!shows_one(msg, e.s, RAW_OR_ESC)) vf::fail(std::string(TK_NAME[kind]) + "/operand-not-shown", what + " :: message \"" + vf::esc(msg.substr(0, 200)) + "\"");
            if (kind < 2 && !shows_one(msg, a.s, RAW_OR_ESC)) vf::fail(std::string(TK_NAME[kind]) + "/operand-not-shown", what + " :: message \"" + vf::esc(msg.substr(0, 200)) + "\"");
            if ((kind < 2 || kind == 3) && !text.empty() && msg.find(text) == std::string::npos) vf::fail(std::string(TK_NAME[kind]) + "/user-text-missing", what);
            vf::outcome(vf::fmt("%s text=%zu special=%d", TK_NAME[kind], (size_t)((i + j) % 4), has_special(e.s) || has_special(a.s)));
            if (has_special(e.s) || has_special(a.s) || e.s.size() > 20) vf::count("nontrivial");
            vf::count("ops");
        });
        vf::require_outcomes("textfail", 10);
    }

    c14_leak_sections();
    return vf::finish();
}

// C18 - SimpleStringInternalCache: no aliasing of live buffers, capacity, class-local reuse,
// everything returned exactly once, unknown release => one-time warning.
//
// Deciding step: every history of alloc/dealloc/clear operations up to a depth bound is executed
// on a fresh real cache over a recording allocator (section "hist": unpruned; section "deep":
// pruned on a canonical state key computed by a list model that is only *trusted* while the
// implementation's pointer choices agree with it).
#include <sanitizer/asan_interface.h>
#define VF_MAIN
#include "vf.h"
#include "CppUTest/TestHarness.h"
#include "CppUTest/SimpleStringInternalCache.h"
#include "CppUTest/PlatformSpecificFunctions.h"
#include "CppUTest/TestMemoryAllocator.h"
#undef new

namespace {

const size_t CLASS_HI[5] = {32, 64, 96, 128, 256};
int class_of(size_t size) { for (int i = 0; i < 5; i++) if (size <= CLASS_HI[i]) return i; return 5; }

// ----- recording allocator: exact-size blocks, returned blocks are poisoned but kept until the
// scenario ends, so a second return or a use after return is seen, and addresses are never reused.
struct Rec {
    char* p; size_t size; bool returned;
};
struct RecAllocator : TestMemoryAllocator {
    std::vector<Rec> blocks;
    int double_returns = 0, foreign_returns = 0;
    // re-entrancy: while it serves a request of the cache, the underlying allocator may itself ask the (installed) cache for
    // a buffer and keep it - e.g. an allocator that tags or logs with strings
    TestMemoryAllocator* nest_through = nullptr; size_t nest_size = 0; char* nested = nullptr;
    char* alloc_memory(size_t size, const char*, size_t) override {
        if (nest_through) { TestMemoryAllocator* a = nest_through; nest_through = nullptr; nested = a->alloc_memory(nest_size, "nested.cpp", 1); }
        char* p = (char*)malloc(size ? size : 1);
        memset(p, 0, size ? size : 1);
        blocks.push_back({p, size, false});
        return p;
    }
    void free_memory(char* memory, size_t, const char*, size_t) override {
        for (auto& b : blocks) if (b.p == memory) {
            if (b.returned) { double_returns++; return; }
            b.returned = true;
            ASAN_POISON_MEMORY_REGION(b.p, b.size ? b.size : 1);
            return;
        }
        foreign_returns++;
    }
    Rec* find(const char* p) { for (auto& b : blocks) if (b.p == p) return &b; return nullptr; }
    int outstanding() { int n = 0; for (auto& b : blocks) if (!b.returned) n++; return n; }
    void release_all() {
        for (auto& b : blocks) { ASAN_UNPOISON_MEMORY_REGION(b.p, b.size ? b.size : 1); free(b.p); }
        blocks.clear();
    }
};

int g_warnings = 0;
// The output path of the warning may itself release a buffer the cache does not know (the "statics" situation the warning
// text talks about): when armed, the sink re-enters dealloc() with another foreign buffer while the warning is being printed.
SimpleStringInternalCache* g_reenter_cache = nullptr; int g_reenter_depth = 0, g_reenter_max = 0;
void fputs_recorder(const char* s, PlatformSpecificFile) {
    if (!strstr(s, "WARNING: Attempting to deallocate")) return;
    g_warnings++;
    if (g_reenter_cache && g_reenter_depth < 3) {
        static char foreign2[16] = "foreign2";
        g_reenter_depth++; if (g_reenter_depth > g_reenter_max) g_reenter_max = g_reenter_depth;
        g_reenter_cache->dealloc(foreign2, 10);
        g_reenter_depth--;
    }
}
void flush_nop() {}

// ----- alphabet
const size_t SIZES_Q[] = {1, 32, 33, 64, 96, 97, 128, 129, 256, 257, 1024};
const size_t SIZES_T[] = {0, 1, 31, 32, 33, 64, 65, 96, 97, 128, 129, 256, 257, 1024};

struct Handle { char* p; size_t size; int block; /* model block id */ };

// list model used for the state key only (LIFO free lists, head insertion)
struct Model {
    std::vector<int> used[6], freel[5];     // used[5] = uncached
    std::vector<char*> ptr;                  // model block id -> address predicted
    bool diverged = false;
};

struct Scenario {
    int depth, maxlive; const size_t* sizes; int nsizes; bool prune;
    void run(vf::Chooser& ch) {
        RecAllocator rec;
        g_warnings = 0;
        std::string trace;
        {
            SimpleStringInternalCache cache;
            cache.setAllocator(&rec);
            std::vector<Handle> live;
            std::map<char*, int> first_class;         // address -> class of the request that created it
            std::set<char*> cached_free;              // released to the cache with a size of their own class and not handed out again since
            char* last_released = nullptr; size_t last_released_size = 0;
            char foreign[16]; memset(foreign, 0, sizeof foreign); strcpy(foreign, "foreign");
            Model m;
            int warned_before = 0;
            bool loose = false;   // a release with a size of another class happened (outside the quantifier)
            for (int step = 0; step < depth; step++) {
                // enabled operations
                int n_alloc = (int)live.size() < maxlive ? nsizes : 0;
                int n_dealloc = (int)live.size() * 3;
                bool can_double = last_released != nullptr;
                if (can_double) for (auto& h : live) if (h.p == last_released) can_double = false;
                int n = n_alloc + n_dealloc + 3 + (can_double ? 1 : 0) + 2;
                int op = ch.choose(n);
                char buf[96];
                if (op < n_alloc) {
                    size_t size = sizes[op];
                    vf::ctx("alloc");
                    char* p = cache.alloc(size);
                    snprintf(buf, sizeof buf, "alloc(%zu) ", size); trace += buf;
                    int cls = class_of(size);
                    Rec* r = rec.find(p);
                    if (!r || r->returned) { vf::fail("alloc/not-owned-memory", trace + ": alloc returned memory that is not an outstanding block of the underlying allocator"); return finish(rec); }
                    if (r->size < size) vf::fail("alloc/capacity", trace + vf::fmt(": block of %zu bytes for a request of %zu", r->size, size));
                    for (auto& h : live) {
                        Rec* hr = rec.find(h.p);
                        size_t hs = hr ? hr->size : h.size;
                        if (p < h.p + (hs ? hs : 1) && h.p < p + (r->size ? r->size : 1)) vf::fail("alloc/alias-live", trace + ": returned buffer overlaps a buffer still in use");
                    }
                    auto fc = first_class.find(p);
                    if (fc == first_class.end()) first_class[p] = cls;
                    else if (fc->second != cls) vf::fail("alloc/cross-class-reuse", trace + vf::fmt(": buffer of class %d reused for class %d", fc->second, cls));
                    memset(p, 'x', size); if (r->size) p[r->size - 1] = 0;       // write all requested bytes
                    cached_free.erase(p);
                    // model
                    int blk;
                    if (cls < 5 && !m.freel[cls].empty()) { blk = m.freel[cls].front(); m.freel[cls].erase(m.freel[cls].begin()); m.used[cls].insert(m.used[cls].begin(), blk); if (m.ptr[blk] != p) m.diverged = true; }
                    else { blk = (int)m.ptr.size(); m.ptr.push_back(p); m.used[cls].insert(m.used[cls].begin(), blk); if (fc != first_class.end()) m.diverged = true; }
                    live.push_back({p, size, blk});
                } else if (op < n_alloc + n_dealloc) {
                    int k = (op - n_alloc) / 3, v = (op - n_alloc) % 3;
                    Handle h = live[k];
                    int cls = class_of(h.size);
                    size_t size = h.size;
                    if (v == 1) { if (cls == 5) size = h.size + 1; else { size_t lo = cls == 0 ? 0 : CLASS_HI[cls - 1] + 1; size = (h.size == CLASS_HI[cls]) ? lo : CLASS_HI[cls]; } }
                    if (v == 2) { size = (cls == 5) ? 10 : (cls == 4 ? 300 : CLASS_HI[cls + 1]); }
                    vf::ctx("dealloc");
                    snprintf(buf, sizeof buf, "dealloc(h%d,%zu%s) ", k, size, v == 0 ? "" : v == 1 ? ":same-class" : ":other-class"); trace += buf;
                    if (rec.find(h.p) && rec.find(h.p)->size) h.p[rec.find(h.p)->size - 1] = 0;
                    cache.dealloc(h.p, size);
                    live.erase(live.begin() + k);
                    if (v == 2) {
                        loose = true;        // outcome not specified by the property; only safety keeps being checked
                    } else {
                        if (g_warnings != warned_before) vf::fail("dealloc/warning-on-known-buffer", trace + ": releasing a live buffer with a size of its own class printed the unknown-buffer warning");
                        last_released = h.p; last_released_size = size;
                        cached_free.insert(h.p);
                        auto& u = m.used[cls]; auto it = std::find(u.begin(), u.end(), h.block);
                        if (it != u.end()) { u.erase(it); if (cls < 5) m.freel[cls].insert(m.freel[cls].begin(), h.block); }
                        else m.diverged = true;
                        if (cls == 5) { Rec* r = rec.find(h.p); if (r && !r->returned) m.diverged = true; }
                    }
                    // v == 2: the list model follows what the current implementation does (release ignored,
                    // block stays in its used list); any other behaviour shows up as a pointer-choice divergence later
                } else {
                    int r = op - n_alloc - n_dealloc;
                    if (r < 3) {
                        size_t size = r == 1 ? 300 : 10;
                        vf::ctx(r == 2 ? "dealloc-foreign-reentrant" : "dealloc-foreign");
                        snprintf(buf, sizeof buf, "dealloc(foreign,%zu%s) ", size, r == 2 ? ":sink-releases-another-foreign-buffer" : ""); trace += buf;
                        if (r == 2) { g_reenter_cache = &cache; g_reenter_depth = 0; g_reenter_max = 0; }
                        cache.dealloc(foreign, size);
                        g_reenter_cache = nullptr;
                        if (g_reenter_max > 1) vf::fail("warning/recursive", trace + ": the warning was printed again from inside its own output path");
                        if (!loose && warned_before == 0 && g_warnings != 1) vf::fail("dealloc/no-warning-for-foreign", trace + ": first unknown release did not print the warning");
                    } else if (can_double && r == 3) {
                        vf::ctx("dealloc-double");
                        snprintf(buf, sizeof buf, "dealloc(again,%zu) ", last_released_size); trace += buf;
                        Rec* rr = rec.find(last_released);
                        if (rr && rr->returned) ASAN_UNPOISON_MEMORY_REGION(rr->p, rr->size ? rr->size : 1);   // the warning text prints the buffer by design
                        cache.dealloc(last_released, last_released_size);
                        if (rr && rr->returned) ASAN_POISON_MEMORY_REGION(rr->p, rr->size ? rr->size : 1);
                        if (!loose && warned_before == 0 && g_warnings != 1) vf::fail("dealloc/no-warning-for-released", trace + ": releasing an already released buffer did not print the warning");
                    } else {
                        int c = r - 3 - (can_double ? 1 : 0);
                        if (c == 0) {
                            vf::ctx("clearCache"); trace += "clearCache ";
                            cache.clearCache();
                            for (int i = 0; i < 5; i++) m.freel[i].clear();
                            // clearing the cache gives every buffer that was released into it back to the underlying allocator
                            for (char* q : cached_free) { Rec* qr = rec.find(q); if (qr && !qr->returned) { vf::fail("clearCache/released-buffer-not-returned", trace + vf::fmt(": a released buffer of %zu bytes is still held after clearCache", qr->size)); break; } }
                            cached_free.clear();
                            for (auto& h : live) { Rec* hr = rec.find(h.p); if (!hr || hr->returned) vf::fail("clearCache/returned-live-buffer", trace + ": a buffer still in use was returned to the allocator"); }
                        } else {
                            vf::ctx("clearAll"); trace += "clearAll ";
                            cache.clearAllIncludingCurrentlyUsedMemory();
                            if (rec.outstanding() != 0) vf::fail("clearAll/not-everything-returned", trace + vf::fmt(": %d blocks still outstanding", rec.outstanding()));
                            live.clear(); last_released = nullptr; cached_free.clear();
                            for (int i = 0; i < 6; i++) m.used[i].clear();
                            for (int i = 0; i < 5; i++) m.freel[i].clear();
                        }
                    }
                }
                if (g_warnings > 1) vf::fail("warning/more-than-once", trace + vf::fmt(": warning printed %d times", g_warnings));
                warned_before = g_warnings;
                if (rec.double_returns) { vf::fail("allocator/double-return", trace + ": a block was returned to the underlying allocator twice"); return finish(rec); }
                if (rec.foreign_returns) { vf::fail("allocator/foreign-return", trace + ": memory that did not come from the underlying allocator was returned to it"); return finish(rec); }
                vf::count("ops");
                if (prune && !m.diverged) {
                    // canonical key: blocks renamed in traversal order; live handles in user order; last released
                    std::map<int, int> ren; std::string key;
                    auto nm = [&](int b) { auto it = ren.find(b); if (it == ren.end()) it = ren.insert({b, (int)ren.size()}).first; return it->second; };
                    for (int i = 0; i < 6; i++) { key += 'U'; for (int b : m.used[i]) key += (char)('a' + nm(b)); if (i < 5) { key += 'F'; for (int b : m.freel[i]) key += (char)('a' + nm(b)); } }
                    key += 'L'; for (auto& h : live) { key += (char)('a' + nm(h.block)); key += (char)('0' + (h.size == CLASS_HI[class_of(h.size) % 5] ? 1 : 0)); key += (char)('0' + class_of(h.size)); }
                    key += 'R'; if (last_released) { int id = -1; for (size_t b = 0; b < m.ptr.size(); b++) if (m.ptr[b] == last_released) id = (int)b; bool inlist = false; for (int i = 0; i < 5; i++) for (int b : m.freel[i]) if (b == id) inlist = true; key += inlist ? (char)('a' + nm(id)) : '!'; key += (char)('0' + class_of(last_released_size)); }
                    key += g_warnings ? 'W' : 'w'; key += loose ? 'X' : 'x';
                    if (ch.prune(vf::hash_str(key), depth - step - 1)) break;
                } else if (prune && m.diverged) vf::count("model_diverged_steps");
            }
            // end of history: give everything back, then destroy
            vf::ctx("final-clearAll");
            cache.clearAllIncludingCurrentlyUsedMemory();
            if (rec.outstanding() != 0) vf::fail("clearAll/not-everything-returned", trace + vf::fmt("<end>: %d blocks still outstanding after clearAll", rec.outstanding()));
            if (rec.double_returns) vf::fail("allocator/double-return", trace + "<end>: a block was returned twice");
            vf::ctx("destroy");
        }
        if (rec.outstanding() != 0 || rec.double_returns) vf::fail("destroy/bookkeeping", trace + "<destroyed>: allocator bookkeeping wrong after destruction");
        if (vf::want_sample()) vf::sample(trace);
        vf::outcome(vf::fmt("warn=%d blocks=%zu", g_warnings, rec.blocks.size() > 6 ? 6 : rec.blocks.size()));
        if (g_warnings || rec.blocks.size() > 2) vf::count("nontrivial");
        finish(rec);
    }
    void finish(RecAllocator& rec) { rec.release_all(); }
};

} // namespace

int main(int argc, char** argv) {
    vf::init(argc, argv, "C18");
    MemoryLeakWarningPlugin::turnOffNewDeleteOverloads();
    PlatformSpecificFPuts = fputs_recorder;
    PlatformSpecificFlush = flush_nop;
    bool T = vf::thorough();
    vf::info("rule", "every operation history (alloc over boundary sizes of all six classes; release of a live buffer with its own size / another size of its class / a size of another class; foreign release; foreign release whose warning output path releases another foreign buffer (re-entrancy); repeated release; clearCache; clearAll) up to the depth bound, each replayed on a fresh cache; non-trivial = produced a warning or obtained more than two blocks");
    {
        Scenario s{T ? 5 : 4, T ? 4 : 3, SIZES_Q, (int)(sizeof SIZES_Q / sizeof *SIZES_Q), false};
        vf::info("hist.bound", vf::fmt("depth %d, live<=%d, %d sizes, unpruned", s.depth, s.maxlive, s.nsizes));
        vf::section_dfs("hist", 2, false, [&](vf::Chooser& ch) { s.run(ch); });
        vf::require_outcomes("hist", 4);
    }
    {
        Scenario s{T ? 7 : 6, T ? 5 : 4, T ? SIZES_T : SIZES_Q, T ? (int)(sizeof SIZES_T / sizeof *SIZES_T) : (int)(sizeof SIZES_Q / sizeof *SIZES_Q), true};
        vf::info("deep.bound", vf::fmt("depth %d, live<=%d, %d sizes, pruned on canonical list-model state", s.depth, s.maxlive, s.nsizes));
        vf::section_dfs("deep", 2, true, [&](vf::Chooser& ch) { s.run(ch); });
        vf::require_outcomes("deep", 4);
    }
    {
        // the wrapper that installs the cache as the string allocator of the whole process: whatever is still in use when it is
        // destroyed goes back to the underlying allocator as well ("cleared (or destroyed)"), and the previous allocator is restored
        int depth = T ? 6 : 5;
        vf::info("global.bound", vf::fmt("GlobalSimpleStringCache over a recording string allocator: every history of <= %d alloc(10|40|100|200|300) / release-of-a-live-buffer / alloc-during-which-the-underlying-allocator-requests-a-buffer-of-the-same-class operations through the installed allocator, then destruction of the wrapper", depth));
        vf::section_dfs("global", 2, false, [&](vf::Chooser& ch) {
            vf::ctx("global-cache");
            static const size_t GS[] = {10, 40, 100, 200, 300};
            RecAllocator rec; std::string trace; int warnings0 = g_warnings = 0; (void)warnings0;
            TestMemoryAllocator* before = SimpleString::getStringAllocator();
            SimpleString::setStringAllocator(&rec);
            {
                GlobalSimpleStringCache* g = new GlobalSimpleStringCache;
                TestMemoryAllocator* a = SimpleString::getStringAllocator();
                if (a != g->getAllocator()) vf::fail("global/not-installed", "constructing the wrapper did not install its allocator as the string allocator");
                std::vector<Handle> live;
                for (int step = 0; step < depth; step++) {
                    int n = 5 + (int)live.size() + 1 + 2;
                    int op = ch.choose(n);
                    char buf[96];
                    if (op >= 5 + (int)live.size() + 1) {
                        // a request that makes the cache obtain a new block, during which the underlying allocator asks the cache for
                        // a buffer of the same size class and keeps it
                        bool big = op - (5 + (int)live.size() + 1) == 1;
                        size_t outer = big ? 100 : 10, inner = big ? 110 : 20;
                        rec.nest_through = a; rec.nest_size = inner; rec.nested = nullptr;
                        char* p = a->alloc_memory(outer, "g.cpp", 3);
                        rec.nest_through = nullptr;
                        memset(p, 0x5a, outer); live.push_back({p, outer, -1});
                        if (rec.nested) { memset(rec.nested, 0x6b, inner); live.push_back({rec.nested, inner, -1}); }
                        snprintf(buf, sizeof buf, "alloc(%zu)[underlying allocator nests alloc(%zu)%s] ", outer, inner, rec.nested ? "" : ": not reached (a free block was reused)"); trace += buf;
                        for (size_t i = 0; i < live.size(); i++) for (size_t j = i + 1; j < live.size(); j++)
                            if (live[i].p < live[j].p + live[j].size && live[j].p < live[i].p + live[i].size) vf::fail("alloc/alias-live", trace + ": two buffers in use overlap");
                    } else
                    if (op < 5) { char* p = a->alloc_memory(GS[op], "g.cpp", 1); memset(p, 0x5a, GS[op]); live.push_back({p, GS[op], -1}); snprintf(buf, sizeof buf, "alloc(%zu) ", GS[op]); trace += buf; }
                    else if (op < 5 + (int)live.size()) { Handle h = live[op - 5]; live.erase(live.begin() + (op - 5)); a->free_memory(h.p, h.size, "g.cpp", 2); snprintf(buf, sizeof buf, "release(%zu) ", h.size); trace += buf; }
                    else break;       // stop early: destroy now
                }
                if (g_warnings) vf::fail("dealloc/warning-on-known-buffer", trace + ": releasing a buffer the cache handed out printed the unknown-buffer warning");
                trace += vf::fmt("destroy[%zu in use] ", live.size());
                delete g;
                if (SimpleString::getStringAllocator() != &rec) vf::fail("global/previous-allocator-not-restored", trace + ": after destruction the string allocator is not the one that was installed before");
                if (rec.outstanding() != 0) vf::fail("global/not-everything-returned", trace + vf::fmt(": %d blocks of the underlying allocator still outstanding after the wrapper was destroyed", rec.outstanding()));
                if (rec.double_returns) vf::fail("allocator/double-return", trace + ": a block was returned to the underlying allocator twice");
                if (rec.foreign_returns) vf::fail("allocator/foreign-return", trace + ": memory that did not come from the underlying allocator was returned to it");
                vf::outcome(vf::fmt("inuse=%zu blocks=%zu", live.size() > 3 ? 3 : live.size(), rec.blocks.size() > 4 ? 4 : rec.blocks.size()));
                if (!live.empty()) vf::count("nontrivial");
                vf::count("ops", (long)rec.blocks.size());
            }
            SimpleString::setStringAllocator(before);
            rec.release_all();
            if (vf::want_sample()) vf::sample(trace);
        });
        vf::require_outcomes("global", 4);
    }
    return vf::finish();
}
